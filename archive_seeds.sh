#!/bin/sh
# archives every /tmp/out-Cxx/{A,B} into /verif/seeded/<id>/ with confirmation and detection info
cd /verif
for p in $(ls -d /tmp/out-C*/ | xargs -n1 basename | sed 's/out-//'); do
 for v in A B; do
  d=$p/$v
  [ -f /tmp/out-$d/patch.diff ] || continue
  id=$(echo $d | tr -d '/'); mkdir -p seeded/$id
  cp /tmp/out-$d/patch.diff seeded/$id/; [ -f /tmp/out-$d/patch.orig.diff ] && cp /tmp/out-$d/patch.orig.diff seeded/$id/; cp /tmp/out-$d/*_test.go seeded/$id/ 2>/dev/null
  r=$(./confirm_seed.sh /tmp/out-$d)
  det=$(./seedtest.sh /tmp/out-$d/patch.diff 2>&1 | grep -E "^  C[0-9]+\.R" | sed 's/ at .*//' | sed 's/^  //' | sort -u | tr '\n' ';')
  python3 - "$d" "$r" "$det" <<'PY'
import json,sys
d,r,det=sys.argv[1],sys.argv[2],sys.argv[3]
m=json.load(open('/tmp/out-%s/meta.json'%d))
conf=json.loads(r)
prop=d.split('/')[0]
out={"id":d.replace('/',''),"property":prop,"variant":d.split('/')[1],"origin":"independent sub-agent given only the property text and a scratch worktree","summary":m.get('summary'),"needs_to_manifest":m.get('needs_to_manifest'),"demo":m.get('demo'),"agent_verified":m.get('verified'),
 "confirmed_by_me":conf,"what_i_ran":"confirm_seed.sh (scratch worktree of /repo HEAD: git apply, go build ./..., go test -vet=off -count=1 ./..., demonstration with and without the patch) and seedtest.sh (git -C /repo apply, spycheck -prop all, git checkout -- .)",
 "detected_by":[x for x in det.split(';') if x]}
json.dump(out,open('/verif/seeded/%s/meta.json'%d.replace('/',''),'w'),indent=1)
print(d, conf, 'detected_by', out['detected_by'])
PY
 done
done
