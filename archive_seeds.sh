#!/bin/sh
# usage: archive_seeds.sh <glob of seed dirs> <suffix-from-dirname: yes|no>
# Archives independently seeded changes into /verif/seeded/<id>/ with my own confirmation
# (confirm_seed.sh: scratch worktree, build, suite, demonstration with/without) and the rules that
# report it (seedtest2.sh: scratch copy). /repo itself is not modified.
# default: round 2 (/tmp/out2-Cxx/{C,D,E})
G="${1:-/tmp/out2-C*/[CDE]}"
cd /verif
for src in $(ls -d $G 2>/dev/null); do
  [ -f $src/patch.diff ] || continue
  prop=$(basename $(dirname $src) | sed 's/out18-//;s/out16-//;s/out14-//;s/out11-//; s/out9-//; s/out7-//; s/out5-//; s/out2-//; s/out-//')
  v=$(basename $src)
  id="$prop$v"
  mkdir -p seeded/$id
  cp $src/patch.diff seeded/$id/; cp $src/*_test.go seeded/$id/ 2>/dev/null
  r=$(./confirm_seed.sh $src)
  det=$(./seedtest2.sh $src/patch.diff 2>&1 | grep -E "^  C[0-9]+\.[RE]" | sed 's/ at .*//' | sed 's/^  //' | sort -u | tr '\n' ';')
  python3 - "$src" "$prop" "$v" "$r" "$det" <<'PY'
import json,sys
src,prop,v,r,det=sys.argv[1:6]
m=json.load(open(src+'/meta.json'))
conf=json.loads(r)
out={"id":prop+v,"property":prop,"variant":v,"origin":"independent sub-agent given only the property text and a scratch worktree","summary":m.get('summary'),"needs_to_manifest":m.get('needs_to_manifest'),"demo":m.get('demo'),"agent_verified":m.get('verified'),
 "confirmed_by_me":conf,"what_i_ran":"confirm_seed.sh (scratch worktree of /repo HEAD: git apply, go build ./..., go test -vet=off -count=1 ./..., demonstration with and without the patch) and seedtest2.sh (scratch copy of /repo with the patch, spycheck -prop all)",
 "detected_by":[x for x in det.split(';') if x]}
json.dump(out,open('/verif/seeded/%s%s/meta.json'%(prop,v),'w'),indent=1)
print(prop+v, conf, 'detected_by', len(out['detected_by']))
PY
done
