#!/bin/sh
# usage: confirm_seed.sh <dir with patch.diff, demo test file(s), meta.json>
# Confirms in a scratch worktree of /repo HEAD: patch applies, builds, existing suite passes with the
# patch, the demonstration fails with the patch and passes without it. Prints a JSON summary.
D="$1"
export GOFLAGS=-mod=mod GOPROXY=off GOSUMDB=off GOTOOLCHAIN=local GOWORK=off
WT=$(mktemp -d /tmp/wt-confirm.XXXXXX)
git -C /repo worktree add --detach "$WT" HEAD >/dev/null 2>&1 || { echo '{"error":"worktree"}'; exit 2; }
cd "$WT"
res_apply=ok
git apply "$D/patch.diff" 2>/dev/null || git apply --3way "$D/patch.diff" >/dev/null 2>&1 || patch -p1 --fuzz=3 -s < "$D/patch.diff" >/dev/null 2>&1 || res_apply=failed
git reset -q 2>/dev/null
build=ok; go build ./... >/dev/null 2>&1 || build=failed
suite=ok; go test -vet=off -count=1 ./... >/tmp/confirm-suite.log 2>&1 || suite=failed
# demo files
demo_with=na; demo_without=na
for f in "$D"/zz_seeded_*_test.go; do
  [ -f "$f" ] || continue
  pkg=$(grep -m1 '^package ' "$f" | awk '{print $2}')
  case "$pkg" in
    spynode) dir=internal/spynode;; handlers) dir=internal/handlers;; state) dir=internal/state;; storage) dir=internal/storage;; client) dir=pkg/client;; *) dir=$(python3 -c "import json;print(json.load(open('$D/meta.json')).get('demo_dir',''))");;
  esac
  cp "$f" "$dir/"
  name=$(grep -o 'func Test[A-Za-z0-9_]*' "$f" | head -1 | sed 's/func //')
  if go test -vet=off -count=1 -run "$(grep -o 'func Test[A-Za-z0-9_]*' "$f" | sed 's/func //' | paste -sd'|')" ./$dir/ >/tmp/confirm-with.log 2>&1; then demo_with=pass; else demo_with=fail; fi
  # without patch: restore production code, keep demo
  git checkout -q HEAD -- . ; cp "$f" "$dir/"
  if go test -vet=off -count=1 -run "$(grep -o 'func Test[A-Za-z0-9_]*' "$f" | sed 's/func //' | paste -sd'|')" ./$dir/ >/tmp/confirm-without.log 2>&1; then demo_without=pass; else demo_without=fail; fi
  rm -f "$dir/$(basename $f)"
done
cd /; git -C /repo worktree remove --force "$WT" >/dev/null 2>&1
echo "{\"apply\":\"$res_apply\",\"build\":\"$build\",\"suite_with_patch\":\"$suite\",\"demo_with_patch\":\"$demo_with\",\"demo_without_patch\":\"$demo_without\",\"repo_head\":\"$(git -C /repo rev-parse --short HEAD)\"}"
