package client

import (
	"bytes"
	"runtime"
	"testing"

	"github.com/tokenized/pkg/wire"
)

// TestRepro_ClientDecoders: a few bytes claiming a huge element count / byte size must end in an
// error, without a panic and without an allocation out of proportion to the input.
// Fails on the tree before e48f62f (makeslice panics / gigabyte allocations), passes after it.
func TestRepro_ClientDecoders(t *testing.T) {
	counts := []uint64{0xffffffffffffffff, 1 << 62, 1 << 31}
	prefixes := map[string][]byte{
		"SubscribeTx":         make([]byte, 32), // txid then count
		"UnsubscribeTx":       make([]byte, 32),
		"SubscribeOutputs":    nil,
		"UnsubscribeOutputs":  nil,
		"SubscribePushData":   {1}, // one element, then its size
		"UnsubscribePushData": {1},
		"SendExpandedTx":      nil, // tx size
		"SaveTxs":             nil,
		"ReprocessTx":         make([]byte, 32),
		"FeeQuotes":           nil,
		"PostMerkleProofs":    nil,
	}
	decoders := map[string]func(*bytes.Reader) error{
		"SubscribeTx":         func(r *bytes.Reader) error { return (&SubscribeTx{}).Deserialize(r) },
		"UnsubscribeTx":       func(r *bytes.Reader) error { return (&UnsubscribeTx{}).Deserialize(r) },
		"SubscribeOutputs":    func(r *bytes.Reader) error { return (&SubscribeOutputs{}).Deserialize(r) },
		"UnsubscribeOutputs":  func(r *bytes.Reader) error { return (&UnsubscribeOutputs{}).Deserialize(r) },
		"SubscribePushData":   func(r *bytes.Reader) error { return (&SubscribePushData{}).Deserialize(r) },
		"UnsubscribePushData": func(r *bytes.Reader) error { return (&UnsubscribePushData{}).Deserialize(r) },
		"SendExpandedTx":      func(r *bytes.Reader) error { return (&SendExpandedTx{}).Deserialize(r) },
		"SaveTxs":             func(r *bytes.Reader) error { return (&SaveTxs{}).Deserialize(r) },
		"ReprocessTx":         func(r *bytes.Reader) error { return (&ReprocessTx{}).Deserialize(r) },
		"FeeQuotes":           func(r *bytes.Reader) error { return (&FeeQuotes{}).Deserialize(r) },
		"PostMerkleProofs":    func(r *bytes.Reader) error { return (&PostMerkleProofs{}).Deserialize(r) },
	}
	for name, dec := range decoders {
		for _, count := range counts {
			var buf bytes.Buffer
			buf.Write(prefixes[name])
			if err := wire.WriteVarInt(&buf, wire.ProtocolVersion, count); err != nil {
				t.Fatal(err)
			}
			buf.Write([]byte{1, 2, 3, 4}) // a little trailing data
			input := buf.Bytes()

			func() {
				defer func() {
					if p := recover(); p != nil {
						t.Errorf("%s count %d: decoder panicked on %d input bytes: %v", name, count, len(input), p)
					}
				}()
				var before, after runtime.MemStats
				runtime.GC()
				runtime.ReadMemStats(&before)
				err := dec(bytes.NewReader(input))
				runtime.ReadMemStats(&after)
				if err == nil {
					t.Errorf("%s count %d: no error for truncated input", name, count)
				}
				if grown := after.TotalAlloc - before.TotalAlloc; grown > 1<<20 {
					t.Errorf("%s count %d: %d bytes allocated to decode %d input bytes", name, count, grown, len(input))
				}
			}()
		}
	}
}
