package client

// Reproducer for the defect fixed in /repo commit 92aa2f3 (property C08): SubscribeAddress /
// SubscribeAddresses sliced the range variable of the loop over the address's key hashes; with the
// module's go 1.18 language version every slice aliased that one variable, so a multi-hash address was
// subscribed as its last hash several times. Copy into pkg/client/ and run
//   go test -vet=off -count=1 -run TestRepro_MultiPKHSubscription ./pkg/client/
// (fails on 0840162, passes from 92aa2f3 on).

import (
	"bytes"
	"context"
	"testing"

	"github.com/tokenized/pkg/bitcoin"
)

type reproSubscriber struct{ got [][]byte }

func (s *reproSubscriber) SubscribePushDatas(ctx context.Context, pds [][]byte) error {
	for _, pd := range pds {
		s.got = append(s.got, append([]byte{}, pd...))
	}
	return nil
}

func TestRepro_MultiPKHSubscription(t *testing.T) {
	var hs []bitcoin.Hash20
	for i := 0; i < 3; i++ {
		var h bitcoin.Hash20
		for j := range h {
			h[j] = byte(i + 1)
		}
		hs = append(hs, h)
	}
	var pkhs [][]byte
	for i := range hs {
		pkhs = append(pkhs, hs[i][:])
	}
	ra, err := bitcoin.NewRawAddressMultiPKH(2, pkhs)
	if err != nil {
		t.Fatal(err)
	}
	s := &reproSubscriber{}
	if err := SubscribeAddress(context.Background(), ra, s); err != nil {
		t.Fatal(err)
	}
	if len(s.got) != 3 {
		t.Fatalf("%d subscriptions, want 3", len(s.got))
	}
	for i := range hs {
		if !bytes.Equal(s.got[i], hs[i][:]) {
			t.Errorf("subscription %d is %x, want %x", i, s.got[i], hs[i][:])
		}
	}
}
