// Package directory: internal/storage
// Exercises fix commit a5996cf (C20 / C20.R2): TxRepository.Add/Remove/Contains on a tx block file
// whose size is not a multiple of 32.
// Uses reproCall from zz_repro_negheight_test.go.
package storage

import (
	"context"
	"testing"

	"github.com/tokenized/pkg/bitcoin"
	"github.com/tokenized/pkg/storage"
)

func TestRepro_TxFileSlice(t *testing.T) {
	ctx := context.Background()
	const height = 100

	var stored, other bitcoin.Hash32
	for i := range stored {
		stored[i] = 0x11
		other[i] = 0x22
	}

	// A 33 byte file: one complete txid and one trailing byte (truncated write / corruption).
	// The slice has capacity 33, like a buffer sized to the file.
	corrupt := func() []byte {
		data := make([]byte, 33)
		copy(data, stored[:])
		data[32] = 0x99
		return data
	}

	newRepo := func() (*TxRepository, *storage.MockStorage) {
		store := storage.NewMockStorage()
		repo := NewTxRepository(store)
		if err := store.Write(ctx, repo.buildPath(height), corrupt(), nil); err != nil {
			t.Fatalf("write: %s", err)
		}
		return repo, store
	}

	t.Run("Contains", func(t *testing.T) {
		repo, _ := newRepo()
		var found bool
		err, panicked := reproCall(func() error {
			var err error
			found, err = repo.Contains(ctx, other, height)
			return err
		})
		if len(panicked) > 0 {
			t.Fatalf("Contains panicked: %s", panicked)
		}
		if found {
			t.Errorf("Contains(other) = true")
		}
		t.Logf("Contains(other) = %t, %v", found, err)

		// The complete txid in the file is still found.
		err, panicked = reproCall(func() error {
			var err error
			found, err = repo.Contains(ctx, stored, height)
			return err
		})
		if len(panicked) > 0 || err != nil || !found {
			t.Errorf("Contains(stored) = %t, %v, panic %q", found, err, panicked)
		}
	})

	t.Run("Remove", func(t *testing.T) {
		repo, _ := newRepo()
		var removed bool
		err, panicked := reproCall(func() error {
			var err error
			removed, err = repo.Remove(ctx, other, height)
			return err
		})
		if len(panicked) > 0 {
			t.Fatalf("Remove panicked: %s", panicked)
		}
		if removed {
			t.Errorf("Remove(other) = true")
		}
		t.Logf("Remove(other) = %t, %v", removed, err)
	})

	t.Run("Add", func(t *testing.T) {
		repo, store := newRepo()
		var added bool
		err, panicked := reproCall(func() error {
			var err error
			added, _, err = repo.Add(ctx, other, true, true, height)
			return err
		})
		if len(panicked) > 0 {
			t.Fatalf("Add panicked: %s", panicked)
		}
		t.Logf("Add(other) = %t, %v", added, err)

		// Not part of the fixed defect, recorded as an observation only: what does the repo say
		// about the txid it just reported as added to the misaligned file?
		if added && err == nil {
			data, _ := store.Read(ctx, repo.buildPath(height))
			found, cerr := repo.Contains(ctx, other, height)
			t.Logf("OBSERVATION: after Add returned added=true the file has %d bytes and "+
				"Contains(other) = %t, %v", len(data), found, cerr)
		}
	})
}
