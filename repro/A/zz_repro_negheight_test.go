// Package directory: internal/storage
// Exercises fix commit e40ed6b (C09 / C09.R1): BlockRepository.Hash/Header/Time with a negative
// height once a full 1000 header file exists.
package storage

import (
	"context"
	"fmt"
	"testing"

	"github.com/tokenized/pkg/storage"
	"github.com/tokenized/pkg/wire"
	"github.com/tokenized/spynode/internal/platform/config"
)

// reproChain adds count headers (heights 0..count-1) to the repo and returns them.
func reproChain(ctx context.Context, t *testing.T, repo *BlockRepository,
	count int) []wire.BlockHeader {

	headers := make([]wire.BlockHeader, 0, count)
	header := wire.BlockHeader{Version: 1}
	for i := 0; i < count; i++ {
		header.Timestamp = uint32(1600000000 + 600*i)
		header.Nonce = uint32(i)
		if err := repo.Add(ctx, &header); err != nil {
			t.Fatalf("Add header %d: %s", i, err)
		}
		headers = append(headers, header)
		header.PrevBlock = *header.BlockHash()
	}
	return headers
}

// reproCall runs f and converts a panic into a returned string.
func reproCall(f func() error) (err error, panicked string) {
	defer func() {
		if r := recover(); r != nil {
			panicked = fmt.Sprintf("%v", r)
		}
	}()
	return f(), ""
}

func TestRepro_NegHeight(t *testing.T) {
	ctx := context.Background()
	store := storage.NewMockStorage()
	repo := NewBlockRepository(config.Config{}, store)

	// 1001 headers: heights 0..999 fill file 0 (written when header 1000 is added), 1000 is the
	// only header in the newest file.
	reproChain(ctx, t, repo, 1001)
	if err := repo.Save(ctx); err != nil {
		t.Fatalf("Save: %s", err)
	}
	if repo.LastHeight() != 1000 {
		t.Fatalf("height %d, want 1000", repo.LastHeight())
	}

	for _, height := range []int{-2, -999, -1000} {
		_, panicked := reproCall(func() error {
			hash, err := repo.Hash(ctx, height)
			if err == nil {
				t.Errorf("Hash(%d) returned hash %v and no error", height, hash)
			}
			return err
		})
		if len(panicked) > 0 {
			t.Errorf("Hash(%d) panicked: %s", height, panicked)
		}

		_, panicked = reproCall(func() error {
			header, err := repo.Header(ctx, height)
			if err == nil {
				t.Errorf("Header(%d) returned header %v and no error", height, header)
			}
			return err
		})
		if len(panicked) > 0 {
			t.Errorf("Header(%d) panicked: %s", height, panicked)
		}

		_, panicked = reproCall(func() error {
			tm, err := repo.Time(ctx, height)
			if err == nil && tm != 0 {
				t.Errorf("Time(%d) returned time %d", height, tm)
			}
			return err
		})
		if len(panicked) > 0 {
			t.Errorf("Time(%d) panicked: %s", height, panicked)
		}
	}
}
