// Package directory: internal/storage
// Exercises fix commit 8a2939d (C20 / C20.R1): the stored peer and reorg decoders must bound the
// sizes claimed by the data, and ReorgRepository.List must not dereference nil entries.
// Uses reproCall from zz_repro_negheight_test.go.
package storage

import (
	"bytes"
	"context"
	"encoding/binary"
	"os"
	"os/exec"
	"runtime"
	"strings"
	"syscall"
	"testing"
	"time"

	"github.com/tokenized/pkg/bitcoin"
	"github.com/tokenized/pkg/storage"
	"github.com/tokenized/pkg/wire"
)

const reproChildEnv = "REPRO_DECODERS_CHILD"

// reproAllocated runs f and returns the number of heap bytes allocated while it ran.
func reproAllocated(f func()) uint64 {
	var before, after runtime.MemStats
	runtime.GC()
	runtime.ReadMemStats(&before)
	f()
	runtime.ReadMemStats(&after)
	return after.TotalAlloc - before.TotalAlloc
}

func reproLE32(values ...uint32) []byte {
	var buf bytes.Buffer
	for _, v := range values {
		binary.Write(&buf, binary.LittleEndian, v)
	}
	return buf.Bytes()
}

// reproDecodersChild runs the decoders on the records that claim 0xFFFFFFFF elements, in a child
// process whose address space is limited, so the original code dies with "out of memory" instead
// of taking the machine down.
func reproDecodersChild(t *testing.T, which string) {
	limit := syscall.Rlimit{Cur: 8 << 30, Max: 8 << 30} // 8 GB
	if err := syscall.Setrlimit(syscall.RLIMIT_AS, &limit); err != nil {
		t.Fatalf("setrlimit: %s", err)
	}

	ctx := context.Background()
	store := storage.NewMockStorage()
	repo := NewReorgRepository(store)

	var data []byte
	switch which {
	case "blocks": // height 5, block count 0xFFFFFFFF, no blocks
		data = reproLE32(5, 0xFFFFFFFF)
	case "txids": // height 5, 1 block, header, txid count 0xFFFFFFFF, no txids
		var buf bytes.Buffer
		buf.Write(reproLE32(5, 1))
		header := wire.BlockHeader{Version: 1}
		header.Serialize(&buf)
		buf.Write(reproLE32(0xFFFFFFFF))
		data = buf.Bytes()
	}
	if err := store.Write(ctx, repo.buildActivePath(), data, nil); err != nil {
		t.Fatalf("write: %s", err)
	}

	reorg, err := repo.GetActive(ctx)
	if err == nil {
		t.Errorf("GetActive returned no error: %+v", reorg)
	}
	println("REPRO-CHILD-RETURNED")
}

func TestRepro_Decoders(t *testing.T) {
	if which := os.Getenv(reproChildEnv); len(which) > 0 {
		reproDecodersChild(t, which)
		return
	}

	ctx := context.Background()

	// Reorg record claiming 0xFFFFFFFF blocks / txids, in a memory limited child process.
	for _, which := range []string{"blocks", "txids"} {
		which := which
		t.Run("ReorgClaims4G_"+which, func(t *testing.T) {
			cmd := exec.Command(os.Args[0], "-test.run=^TestRepro_Decoders$", "-test.count=1")
			cmd.Env = append(os.Environ(), reproChildEnv+"="+which)
			var out bytes.Buffer
			cmd.Stdout = &out
			cmd.Stderr = &out
			done := make(chan error, 1)
			if err := cmd.Start(); err != nil {
				t.Fatalf("start child: %s", err)
			}
			go func() { done <- cmd.Wait() }()
			var err error
			select {
			case err = <-done:
			case <-time.After(60 * time.Second):
				cmd.Process.Kill()
				t.Fatalf("child timed out")
			}

			output := out.String()
			lines := strings.Split(output, "\n")
			if len(lines) > 6 {
				lines = lines[:6]
			}
			if err != nil || !strings.Contains(output, "REPRO-CHILD-RETURNED") {
				t.Errorf("GetActive on a %d byte record claiming 0xFFFFFFFF %s did not return "+
					"(child: %v), first output lines:\n%s", map[string]int{"blocks": 8, "txids": 92}[which],
					which, err, strings.Join(lines, "\n"))
			}
		})
	}

	// Same defect at a size that is safe to run in-process: an 8 byte record claims 1M blocks.
	t.Run("ReorgClaims1M_blocks", func(t *testing.T) {
		store := storage.NewMockStorage()
		repo := NewReorgRepository(store)
		store.Write(ctx, repo.buildActivePath(), reproLE32(5, 1<<20), nil)

		var err error
		allocated := reproAllocated(func() {
			_, err = repo.GetActive(ctx)
		})
		if err == nil {
			t.Errorf("GetActive returned no error for a record claiming 1M blocks in 8 bytes")
		}
		if allocated > 1<<20 {
			t.Errorf("decoding an 8 byte reorg record allocated %d bytes", allocated)
		}
	})

	t.Run("ReorgClaims1M_txids", func(t *testing.T) {
		store := storage.NewMockStorage()
		repo := NewReorgRepository(store)
		var buf bytes.Buffer
		buf.Write(reproLE32(5, 1))
		header := wire.BlockHeader{Version: 1}
		header.Serialize(&buf)
		buf.Write(reproLE32(1 << 20))
		store.Write(ctx, repo.buildActivePath(), buf.Bytes(), nil)

		var err error
		allocated := reproAllocated(func() {
			_, err = repo.GetActive(ctx)
		})
		if err == nil {
			t.Errorf("GetActive returned no error for a record claiming 1M txids in %d bytes",
				buf.Len())
		}
		if allocated > 1<<20 {
			t.Errorf("decoding a %d byte reorg record allocated %d bytes", buf.Len(), allocated)
		}
	})

	// spynode/peers with address size -1.
	t.Run("PeerAddressSizeNegative", func(t *testing.T) {
		store := storage.NewMockStorage()
		repo := NewPeerRepository(store)
		// version 2, count 1, address size -1
		store.Write(ctx, peersPath, reproLE32(2, 1, 0xFFFFFFFF), nil)

		err, panicked := reproCall(func() error { return repo.Load(ctx) })
		if len(panicked) > 0 {
			t.Fatalf("Load panicked: %s", panicked)
		}
		t.Logf("Load returned %v, %d peers", err, repo.Count())
		if repo.Count() != 0 {
			t.Errorf("%d peers loaded", repo.Count())
		}
	})

	// spynode/peers with peer count -1.
	t.Run("PeerCountNegative", func(t *testing.T) {
		store := storage.NewMockStorage()
		repo := NewPeerRepository(store)
		store.Write(ctx, peersPath, reproLE32(2, 0xFFFFFFFF), nil)

		err, panicked := reproCall(func() error { return repo.Load(ctx) })
		if len(panicked) > 0 {
			t.Fatalf("Load panicked: %s", panicked)
		}
		t.Logf("Load returned %v, %d peers", err, repo.Count())
	})

	// spynode/peers with a huge address size.
	t.Run("PeerAddressSizeHuge", func(t *testing.T) {
		store := storage.NewMockStorage()
		repo := NewPeerRepository(store)
		// version 2, count 1, address size 256 MB, no address data
		store.Write(ctx, peersPath, reproLE32(2, 1, 256<<20), nil)

		var err error
		var panicked string
		allocated := reproAllocated(func() {
			err, panicked = reproCall(func() error { return repo.Load(ctx) })
		})
		if len(panicked) > 0 {
			t.Fatalf("Load panicked: %s", panicked)
		}
		t.Logf("Load returned %v, %d peers, allocated %d bytes", err, repo.Count(), allocated)
		if allocated > 1<<20 {
			t.Errorf("decoding a 12 byte peers file allocated %d bytes", allocated)
		}
	})

	// ReorgRepository.List with one stored (valid) reorg.
	t.Run("ReorgList", func(t *testing.T) {
		store := storage.NewMockStorage()
		repo := NewReorgRepository(store)

		var txid bitcoin.Hash32
		txid[0] = 7
		reorg := &Reorg{
			BlockHeight: 5,
			Blocks: []ReorgBlock{
				{Header: wire.BlockHeader{Version: 1, Nonce: 3}, TxIds: []bitcoin.Hash32{txid}},
			},
		}
		if err := repo.Save(ctx, reorg); err != nil {
			t.Fatalf("Save: %s", err)
		}
		if err := repo.ClearActive(ctx); err != nil { // archive it
			t.Fatalf("ClearActive: %s", err)
		}

		var list []*Reorg
		err, panicked := reproCall(func() error {
			var err error
			list, err = repo.List(ctx)
			return err
		})
		if len(panicked) > 0 {
			t.Fatalf("List panicked: %s", panicked)
		}
		if err != nil {
			t.Fatalf("List: %s", err)
		}
		if len(list) != 1 || list[0] == nil || list[0].BlockHeight != 5 ||
			len(list[0].Blocks) != 1 || len(list[0].Blocks[0].TxIds) != 1 ||
			!list[0].Blocks[0].TxIds[0].Equal(&txid) {
			t.Errorf("List returned %+v", list)
		}
	})
}
