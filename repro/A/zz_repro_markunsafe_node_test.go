// Package directory: internal/spynode
// Exercises fix commit d1fd8c6 (C05 / C05.R5) end to end through the node: the full failing
// history of the finding (irrelevant T1 and relevant T2 spend the same outpoint, then a block
// confirms T1 and block processing must not fail).
// NOTE: MarkUnsafe is only called for conflicts reported by MemPool.AddTransaction, which never
// reports any on the original code (defect fixed by 0d4750e), so this history is only reachable
// once 0d4750e is applied. See RESULTS.md.
package spynode

import (
	"context"
	"testing"

	"github.com/tokenized/pkg/bitcoin"
	"github.com/tokenized/pkg/storage"
	"github.com/tokenized/pkg/wire"
	"github.com/tokenized/spynode/internal/handlers"
	"github.com/tokenized/spynode/internal/platform/config"
	"github.com/tokenized/spynode/pkg/client"
)

type reproOutputFetcher struct{}

func (f *reproOutputFetcher) GetOutputs(ctx context.Context,
	outpoints []wire.OutPoint) ([]bitcoin.UTXO, error) {
	result := make([]bitcoin.UTXO, len(outpoints))
	for i, outpoint := range outpoints {
		result[i] = bitcoin.UTXO{Hash: outpoint.Hash, Index: outpoint.Index, Value: 5000}
	}
	return result, nil
}

type reproHandler struct {
	txs     []bitcoin.Hash32
	states  []client.TxState
	updates []*client.TxUpdate
}

func (h *reproHandler) HandleTx(ctx context.Context, tx *client.Tx) {
	h.txs = append(h.txs, *tx.Tx.TxHash())
	h.states = append(h.states, tx.State)
}
func (h *reproHandler) HandleTxUpdate(ctx context.Context, update *client.TxUpdate) {
	h.updates = append(h.updates, update)
}
func (h *reproHandler) HandleHeaders(context.Context, *client.Headers)       {}
func (h *reproHandler) HandleInSync(context.Context)                         {}
func (h *reproHandler) HandleMessage(context.Context, client.MessagePayload) {}

// reproP2PKH returns a P2PKH locking script paying to the 20 byte hash.
func reproP2PKH(hash [20]byte) bitcoin.Script {
	script := []byte{0x76, 0xa9, 0x14} // OP_DUP OP_HASH160 PUSH20
	script = append(script, hash[:]...)
	return append(script, 0x88, 0xac) // OP_EQUALVERIFY OP_CHECKSIG
}

func TestRepro_MarkUnsafeNode(t *testing.T) {
	ctx := context.Background()
	store := storage.NewMockStorage()
	node := NewNode(config.Config{}, store, nil, &reproOutputFetcher{})
	handler := &reproHandler{}
	node.RegisterHandler(handler)

	if err := node.blocks.Initialize(ctx, 1600000000); err != nil {
		t.Fatalf("Initialize: %s", err)
	}
	node.state.SetInSync()

	// The client is subscribed to one public key hash.
	var watched, other [20]byte
	for i := range watched {
		watched[i] = 0x42
		other[i] = 0x24
	}
	if err := node.SubscribePushDatas(ctx, [][]byte{watched[:]}); err != nil {
		t.Fatalf("SubscribePushDatas: %s", err)
	}

	var prevTxID bitcoin.Hash32
	for i := range prevTxID {
		prevTxID[i] = 0xaa
	}
	o := wire.NewOutPoint(&prevTxID, 0)

	t1 := wire.NewMsgTx(1) // irrelevant
	t1.AddTxIn(wire.NewTxIn(o, nil))
	t1.AddTxOut(wire.NewTxOut(1000, reproP2PKH(other)))

	t2 := wire.NewMsgTx(1) // relevant
	t2.AddTxIn(wire.NewTxIn(o, nil))
	t2.AddTxOut(wire.NewTxOut(2000, reproP2PKH(watched)))

	if node.IsRelevant(ctx, t1) || !node.IsRelevant(ctx, t2) {
		t.Fatalf("relevance setup wrong: T1 %t T2 %t", node.IsRelevant(ctx, t1),
			node.IsRelevant(ctx, t2))
	}
	t1id, t2id := *t1.TxHash(), *t2.TxHash()

	if err := node.processUnconfirmedTx(ctx, handlers.TxData{Msg: t1, ConfirmedHeight: -1}); err != nil {
		t.Fatalf("process T1: %s", err)
	}
	if err := node.processUnconfirmedTx(ctx, handlers.TxData{Msg: t2, ConfirmedHeight: -1}); err != nil {
		t.Fatalf("process T2: %s", err)
	}

	if len(handler.txs) != 1 || !handler.txs[0].Equal(&t2id) {
		t.Fatalf("txs delivered to the handler: %v, want only T2", handler.txs)
	}

	t.Logf("T2 delivered with state: safe %t unsafe %t cancelled %t", handler.states[0].Safe,
		handler.states[0].UnSafe, handler.states[0].Cancelled)

	if contains, _ := node.txs.Contains(ctx, t1id, -1); contains {
		t.Errorf("irrelevant T1 is in the unconfirmed set as if it had been delivered")
	}

	// A block confirms T1.
	coinbase := wire.NewMsgTx(1)
	coinbase.AddTxIn(wire.NewTxIn(wire.NewOutPoint(&bitcoin.Hash32{}, wire.MaxPrevOutIndex),
		[]byte{0x01, 0x01}))
	coinbase.AddTxOut(wire.NewTxOut(5000000000, reproP2PKH(other)))

	block := wire.NewMsgBlock(&wire.BlockHeader{
		Version:   1,
		PrevBlock: *node.blocks.LastHash(),
		Timestamp: 1600000600,
	})
	block.AddTransaction(coinbase)
	block.AddTransaction(t1)
	merkleRoot, err := block.CalculateMerkleHash()
	if err != nil {
		t.Fatalf("merkle root: %s", err)
	}
	block.Header.MerkleRoot = *merkleRoot

	if err := node.ProcessBlock(ctx, block); err != nil {
		t.Errorf("ProcessBlock of the block confirming T1 failed (the block processor stops): %s",
			err)
	}
	if node.blocks.LastHeight() != 1 {
		t.Errorf("block height %d, want 1", node.blocks.LastHeight())
	}

	for _, txid := range handler.txs {
		if txid.Equal(&t1id) {
			t.Errorf("irrelevant T1 was delivered to the handler")
		}
	}
	for _, update := range handler.updates {
		which := "other"
		if update.TxID.Equal(&t1id) {
			which = "T1"
		} else if update.TxID.Equal(&t2id) {
			which = "T2"
		}
		t.Logf("tx update for %s: safe %t unsafe %t cancelled %t", which, update.State.Safe,
			update.State.UnSafe, update.State.Cancelled)
	}
	t.Logf("%d txs delivered, %d tx updates", len(handler.txs), len(handler.updates))
}
