// Package directory: internal/state
// Exercises fix commit dac1a0e (C13 / C13.R2): pendingBlockSize accounting in
// ClearBlockRequests, ClearBlockRequestsAfter and AddBlock (duplicate block).
package state

import (
	"context"
	"testing"

	"github.com/tokenized/pkg/bitcoin"
	"github.com/tokenized/pkg/wire"
)

// reproSizedBlock is a wire.Block that only reports a serialize size, so a 60 MB block can be
// "received" without allocating 60 MB.
type reproSizedBlock struct {
	size int
}

func (b *reproSizedBlock) GetHeader() wire.BlockHeader     { return wire.BlockHeader{} }
func (b *reproSizedBlock) IsMerkleRootValid() bool         { return true }
func (b *reproSizedBlock) GetTxCount() uint64              { return 0 }
func (b *reproSizedBlock) GetNextTx() (*wire.MsgTx, error) { return nil, nil }
func (b *reproSizedBlock) ResetTxs()                       {}
func (b *reproSizedBlock) SerializeSize() int              { return b.size }

func reproHash(b byte) bitcoin.Hash32 {
	var h bitcoin.Hash32
	for i := range h {
		h[i] = b
	}
	return h
}

func TestRepro_PendingSize(t *testing.T) {
	ctx := context.Background()
	const blockSize = 60000000 // 60 MB, two of them exceed maxPendingBlockSize (100 MB)

	g := reproHash(0x01)
	h1 := reproHash(0x02)
	h2 := reproHash(0x03)

	t.Run("ClearBlockRequests", func(t *testing.T) {
		st := NewState()
		st.SetLastHash(g)

		// A fork header below h1 arrives twice, each time after the block body was buffered.
		for round := 0; round < 2; round++ {
			now, err := st.AddBlockRequest(&g, &h1)
			if err != nil {
				t.Fatalf("round %d: AddBlockRequest: %s", round, err)
			}
			if !now {
				t.Fatalf("round %d: AddBlockRequest(g,h1) = false: block is not requested, "+
					"pendingBlockSize %d with %d blocks buffered", round, st.pendingBlockSize,
					st.BlocksRequestedCount())
			}
			if !st.AddBlock(&h1, &reproSizedBlock{size: blockSize}) {
				t.Fatalf("round %d: AddBlock not accepted", round)
			}

			st.ClearBlockRequests(ctx)

			if st.BlocksRequestedCount() != 0 {
				t.Fatalf("blocks still requested after clear")
			}
			if st.pendingBlockSize != 0 {
				t.Errorf("round %d: no block is buffered but pendingBlockSize = %d", round,
					st.pendingBlockSize)
			}
		}

		// Externally visible consequence: requests never go out again.
		now, err := st.AddBlockRequest(&g, &h1)
		if err != nil {
			t.Fatalf("AddBlockRequest: %s", err)
		}
		if !now {
			t.Errorf("AddBlockRequest(g,h1) = false with nothing buffered (pendingBlockSize %d)",
				st.pendingBlockSize)
			if hash, _ := st.GetNextBlockToRequest(); hash == nil {
				t.Errorf("GetNextBlockToRequest returns nil with nothing buffered: block requests "+
					"are paused forever (pendingBlockSize %d)", st.pendingBlockSize)
			}
		}
	})

	t.Run("ClearBlockRequestsAfter", func(t *testing.T) {
		st := NewState()
		st.SetLastHash(g)

		if now, err := st.AddBlockRequest(&g, &h1); err != nil || !now {
			t.Fatalf("AddBlockRequest h1: %t %v", now, err)
		}
		if now, err := st.AddBlockRequest(&h1, &h2); err != nil || !now {
			t.Fatalf("AddBlockRequest h2: %t %v", now, err)
		}
		if !st.AddBlock(&h2, &reproSizedBlock{size: blockSize}) {
			t.Fatalf("AddBlock h2 not accepted")
		}

		st.ClearBlockRequestsAfter(ctx, h1) // drops the buffered h2

		if st.BlocksRequestedCount() != 1 {
			t.Fatalf("requested count %d, want 1", st.BlocksRequestedCount())
		}
		if st.pendingBlockSize != 0 {
			t.Errorf("no block is buffered (h1 not received, h2 dropped) but pendingBlockSize = %d",
				st.pendingBlockSize)
		}
	})

	t.Run("DuplicateBlock", func(t *testing.T) {
		st := NewState()
		st.SetLastHash(g)
		h3 := reproHash(0x04)

		// Two consecutive blocks, each block message is received twice.
		prev := g
		for i, h := range []bitcoin.Hash32{h1, h2} {
			hash := h
			now, err := st.AddBlockRequest(&prev, &hash)
			if err != nil {
				t.Fatalf("block %d: AddBlockRequest: %s", i, err)
			}
			if !now {
				t.Fatalf("block %d: AddBlockRequest = false with nothing buffered "+
					"(pendingBlockSize %d)", i, st.pendingBlockSize)
			}
			st.AddBlock(&hash, &reproSizedBlock{size: blockSize})
			st.AddBlock(&hash, &reproSizedBlock{size: blockSize})

			if st.pendingBlockSize != blockSize {
				t.Errorf("block %d: one block of %d bytes buffered but pendingBlockSize = %d", i,
					blockSize, st.pendingBlockSize)
			}

			if st.NextBlock() == nil {
				t.Fatalf("block %d: NextBlock returned nil", i)
			}
			if st.pendingBlockSize != 0 {
				t.Errorf("block %d: all blocks processed but pendingBlockSize = %d", i,
					st.pendingBlockSize)
			}
			prev = hash
		}

		// Externally visible consequence: the next block is only queued and never requested.
		now, err := st.AddBlockRequest(&h2, &h3)
		if err != nil {
			t.Fatalf("AddBlockRequest h3: %s", err)
		}
		if !now {
			hash, _ := st.GetNextBlockToRequest()
			t.Errorf("AddBlockRequest(h2,h3) = false with nothing buffered; "+
				"GetNextBlockToRequest = %v (pendingBlockSize %d)", hash, st.pendingBlockSize)
		}
	})
}
