// Package directory: internal/storage
// Exercises fix commit d1fd8c6 (C05 / C05.R5): TxRepository.MarkUnsafe must report whether the tx
// is tracked (relevant, delivered to listeners) and must not insert unknown txids.
package storage

import (
	"context"
	"testing"

	"github.com/tokenized/pkg/bitcoin"
	"github.com/tokenized/pkg/storage"
)

func TestRepro_MarkUnsafe(t *testing.T) {
	ctx := context.Background()
	store := storage.NewMockStorage()
	repo := NewTxRepository(store)

	var t1, t2 bitcoin.Hash32 // T1 irrelevant (never added), T2 relevant
	for i := range t1 {
		t1[i] = 0x01
		t2[i] = 0x02
	}

	// Relevant T2 was delivered: it is in the unconfirmed set.
	if added, _, err := repo.Add(ctx, t2, false, false, -1); err != nil || !added {
		t.Fatalf("Add T2: %t %v", added, err)
	}

	// T1 (irrelevant, not in the tx repo) conflicts with T2: processUnconfirmedTx calls
	// MarkUnsafe(T1) and only continues with FetchTxState/SaveTxState/HandleTxUpdate when it
	// returns true.
	isRelevant, err := repo.MarkUnsafe(ctx, t1)
	if err != nil {
		t.Fatalf("MarkUnsafe T1: %s", err)
	}
	if isRelevant {
		t.Errorf("MarkUnsafe(T1) = true for a txid that was never added to the tx repo")
	}

	if contains, _ := repo.Contains(ctx, t1, -1); contains {
		t.Errorf("T1 was inserted into the unconfirmed set by MarkUnsafe")
	}

	// ProcessBlock takes the "already seen and marked relevant" branch (FetchTxState of a tx that
	// has no stored state -> block processing error) for every txid GetUnconfirmed returns.
	unconfirmed, err := repo.GetUnconfirmed(ctx)
	if err != nil {
		t.Fatalf("GetUnconfirmed: %s", err)
	}
	repo.ReleaseUnconfirmed(ctx)
	if len(unconfirmed) != 1 || !unconfirmed[0].Equal(&t2) {
		t.Errorf("unconfirmed set = %v, want only T2 %s", unconfirmed, t2)
	}

	// The tracked tx is still flagged and reported.
	isRelevant, err = repo.MarkUnsafe(ctx, t2)
	if err != nil || !isRelevant {
		t.Errorf("MarkUnsafe(T2) = %t, %v, want true", isRelevant, err)
	}
	repo.unconfirmedLock.Lock()
	if tx, exists := repo.unconfirmed[t2]; !exists || !tx.unsafe {
		t.Errorf("T2 not flagged unsafe")
	}
	repo.unconfirmedLock.Unlock()
}
