// Package directory: internal/storage
// Exercises fix commit 611db0e (C09 / C09.R2): BlockRepository.Revert must be all-or-nothing when
// a storage step fails, and must not lose headers added since the last Save.
// Uses reproChain from zz_repro_negheight_test.go.
package storage

import (
	"context"
	"errors"
	"testing"

	"github.com/tokenized/pkg/storage"
	"github.com/tokenized/pkg/wire"
	"github.com/tokenized/spynode/internal/platform/config"
)

// reproFailStore is a storage that fails the next Read, Write or Remove once when armed.
type reproFailStore struct {
	storage.Storage
	failRead, failWrite, failRemove bool
}

var reproStoreErr = errors.New("injected storage failure")

func (s *reproFailStore) Read(ctx context.Context, key string) ([]byte, error) {
	if s.failRead {
		s.failRead = false
		return nil, reproStoreErr
	}
	return s.Storage.Read(ctx, key)
}

func (s *reproFailStore) Write(ctx context.Context, key string, data []byte,
	options *storage.Options) error {
	if s.failWrite {
		s.failWrite = false
		return reproStoreErr
	}
	return s.Storage.Write(ctx, key, data, options)
}

func (s *reproFailStore) Remove(ctx context.Context, key string) error {
	if s.failRemove {
		s.failRemove = false
		return reproStoreErr
	}
	return s.Storage.Remove(ctx, key)
}

// reproCheckViews checks that the height->hash view (Hash, Header, LastHash, LastHeight) and the
// hash->height view (Contains, Height) describe exactly the chain headers[0..wantHeight].
func reproCheckViews(ctx context.Context, t *testing.T, repo *BlockRepository,
	headers []wire.BlockHeader, wantHeight int) {
	t.Helper()

	if repo.LastHeight() != wantHeight {
		t.Errorf("LastHeight() = %d, want %d", repo.LastHeight(), wantHeight)
	}
	wantLast := headers[wantHeight].BlockHash()
	if last := repo.LastHash(); !last.Equal(wantLast) {
		got := -1
		for i := range headers {
			if headers[i].BlockHash().Equal(last) {
				got = i
			}
		}
		t.Errorf("LastHash() is the hash of height %d, want height %d", got, wantHeight)
	}

	for h := 0; h < len(headers); h++ {
		want := headers[h].BlockHash()
		if h <= wantHeight {
			hash, err := repo.Hash(ctx, h)
			if err != nil {
				t.Errorf("Hash(%d): %s", h, err)
			} else if !hash.Equal(want) {
				t.Errorf("Hash(%d) = %s, want %s", h, hash, want)
			}
			if !repo.Contains(want) {
				t.Errorf("Contains(hash of height %d) = false, but LastHeight() = %d", h,
					repo.LastHeight())
			}
			if got, exists := repo.Height(want); !exists || got != h {
				t.Errorf("Height(hash of height %d) = %d, %t", h, got, exists)
			}
		} else {
			if hash, err := repo.Hash(ctx, h); err == nil {
				t.Errorf("Hash(%d) = %s above the tip %d", h, hash, wantHeight)
			}
			if repo.Contains(want) {
				t.Errorf("Contains(hash of height %d) = true above the tip %d", h, wantHeight)
			}
		}
	}
}

func TestRepro_Revert(t *testing.T) {
	ctx := context.Background()

	// (a) a storage step fails during Revert: the repository must be unchanged.
	for _, step := range []string{"Read", "Write"} {
		step := step
		t.Run("Fail"+step, func(t *testing.T) {
			store := &reproFailStore{Storage: storage.NewMockStorage()}
			repo := NewBlockRepository(config.Config{}, store)
			headers := reproChain(ctx, t, repo, 5) // heights 0..4
			if err := repo.Save(ctx); err != nil {
				t.Fatalf("Save: %s", err)
			}
			reproCheckViews(ctx, t, repo, headers, 4)
			if t.Failed() {
				t.Fatalf("repository inconsistent before the revert")
			}

			switch step {
			case "Read":
				store.failRead = true
			case "Write":
				store.failWrite = true
			}

			err := repo.Revert(ctx, 2)
			if err == nil {
				t.Fatalf("Revert(2) succeeded although storage %s failed", step)
			}
			t.Logf("Revert(2) returned: %s", err)

			// Failed revert: still the chain 0..4, and both views agree.
			reproCheckViews(ctx, t, repo, headers, 4)
		})
	}

	t.Run("FailRemove", func(t *testing.T) {
		store := &reproFailStore{Storage: storage.NewMockStorage()}
		repo := NewBlockRepository(config.Config{}, store)
		headers := reproChain(ctx, t, repo, 1003) // heights 0..1002, file 0 full, file 1 has 3
		if err := repo.Save(ctx); err != nil {
			t.Fatalf("Save: %s", err)
		}

		store.failRemove = true
		err := repo.Revert(ctx, 997) // needs to remove file 1
		if err == nil {
			t.Fatalf("Revert(997) succeeded although storage Remove failed")
		}
		t.Logf("Revert(997) returned: %s", err)

		if repo.LastHeight() != 1002 {
			t.Errorf("LastHeight() = %d, want 1002", repo.LastHeight())
		}
		for h := 995; h <= 1002; h++ {
			want := headers[h].BlockHash()
			hash, err := repo.Hash(ctx, h)
			if err != nil || !hash.Equal(want) {
				t.Errorf("Hash(%d) = %v, %v", h, hash, err)
			}
			if !repo.Contains(want) {
				t.Errorf("Contains(hash of height %d) = false, but Hash(%d) answers it and "+
					"LastHeight() = %d", h, h, repo.LastHeight())
			}
		}
	})

	// (b) Revert after unsaved Adds.
	t.Run("UnsavedTail", func(t *testing.T) {
		store := storage.NewMockStorage()
		repo := NewBlockRepository(config.Config{}, store)

		header := wire.BlockHeader{Version: 1}
		var headers []wire.BlockHeader
		add := func(n int) {
			for i := 0; i < n; i++ {
				header.Timestamp = uint32(1600000000 + 600*len(headers))
				header.Nonce = uint32(len(headers))
				if err := repo.Add(ctx, &header); err != nil {
					t.Fatalf("Add: %s", err)
				}
				headers = append(headers, header)
				header.PrevBlock = *header.BlockHash()
			}
		}

		add(5) // heights 0..4
		if err := repo.Save(ctx); err != nil {
			t.Fatalf("Save: %s", err)
		}
		add(3) // heights 5..7, not saved
		reproCheckViews(ctx, t, repo, headers, 7)
		if t.Failed() {
			t.Fatalf("repository inconsistent before the revert")
		}

		if err := repo.Revert(ctx, 6); err != nil {
			t.Fatalf("Revert(6): %s", err)
		}

		reproCheckViews(ctx, t, repo, headers, 6)

		// A restart sees the same chain.
		reloaded := NewBlockRepository(config.Config{}, store)
		if err := reloaded.Load(ctx); err != nil {
			t.Fatalf("Load: %s", err)
		}
		if reloaded.LastHeight() != 6 {
			t.Errorf("after reload LastHeight() = %d, want 6", reloaded.LastHeight())
		}
	})
}
