// Package directory: internal/state
// Exercises fix commit 0d4750e (C05 / C05.R1): MemPool.AddTransaction must record every spender
// of an outpoint and report the conflict; removeTransaction must remove the tx (not the outpoint
// hash) from a shared outpoint's spender list.
package state

import (
	"context"
	"testing"

	"github.com/tokenized/pkg/bitcoin"
	"github.com/tokenized/pkg/wire"
)

// reproSpendTx builds a tx that spends the outpoint and is made unique by its output value.
func reproSpendTx(outpoint *wire.OutPoint, value uint64) *wire.MsgTx {
	tx := wire.NewMsgTx(1)
	tx.AddTxIn(wire.NewTxIn(outpoint, nil))
	tx.AddTxOut(wire.NewTxOut(value, nil))
	return tx
}

func reproContains(list []bitcoin.Hash32, hash bitcoin.Hash32) bool {
	for _, h := range list {
		if h.Equal(&hash) {
			return true
		}
	}
	return false
}

func TestRepro_MemPoolConflict(t *testing.T) {
	ctx := context.Background()

	var prevTxID bitcoin.Hash32
	for i := range prevTxID {
		prevTxID[i] = 0xaa
	}
	o := wire.NewOutPoint(&prevTxID, 0)

	t1 := reproSpendTx(o, 1000)
	t2 := reproSpendTx(o, 2000)
	t3 := reproSpendTx(o, 3000)
	t1id, t2id, t3id := *t1.TxHash(), *t2.TxHash(), *t3.TxHash()
	if t1id.Equal(&t2id) || t1id.Equal(&t3id) || t2id.Equal(&t3id) {
		t.Fatalf("test txs are not distinct")
	}

	t.Run("SecondSpenderReported", func(t *testing.T) {
		mp := NewMemPool()

		conflicts, _, added := mp.AddTransaction(ctx, t1, false)
		if !added || len(conflicts) != 0 {
			t.Fatalf("T1: added %t conflicts %v", added, conflicts)
		}

		conflicts, _, added = mp.AddTransaction(ctx, t2, false)
		if !added {
			t.Fatalf("T2 not added")
		}
		if len(conflicts) != 1 || !conflicts[0].Equal(&t1id) {
			t.Errorf("AddTransaction(T2 spending the outpoint T1 spends) conflicts = %v, want [T1 %s]",
				conflicts, t1id)
		}

		spenders := mp.inputs[*o.OutpointHash()]
		if len(spenders) != 2 || !reproContains(spenders, t1id) || !reproContains(spenders, t2id) {
			t.Errorf("spenders of the outpoint = %v, want [T1 %s, T2 %s]", spenders, t1id, t2id)
		}

		// A third spender conflicts with both.
		conflicts, _, _ = mp.AddTransaction(ctx, t3, false)
		if len(conflicts) != 2 || !reproContains(conflicts, t1id) || !reproContains(conflicts, t2id) {
			t.Errorf("AddTransaction(T3) conflicts = %v, want T1 and T2", conflicts)
		}
	})

	t.Run("RemoveOneSpender", func(t *testing.T) {
		mp := NewMemPool()
		mp.AddTransaction(ctx, t1, false)
		mp.AddTransaction(ctx, t2, false)

		if !mp.RemoveTransaction(t1id) {
			t.Fatalf("RemoveTransaction(T1) = false")
		}

		// T2 is still in the mempool and still spends the outpoint, T1 doesn't.
		if !mp.TransactionExists(&t2id) {
			t.Fatalf("T2 not in mempool")
		}
		spenders := mp.inputs[*o.OutpointHash()]
		if len(spenders) != 1 || !spenders[0].Equal(&t2id) {
			t.Errorf("spenders of the outpoint after removing T1 = %v, want [T2 %s]", spenders, t2id)
		}

		// A block confirms T3 (not seen before): the conflicting mempool txs are exactly T2.
		conflicting := mp.Conflicting(t3)
		if len(conflicting) != 1 || !conflicting[0].Equal(&t2id) {
			t.Errorf("Conflicting(T3) = %v, want [T2 %s]", conflicting, t2id)
		}
		_ = t3id
	})
}
