// Package directory: internal/state
// Exercises fix commit bf5d2da (C14 / C14.R6): TxTracker.Check must transmit the last, partially
// filled get data message.
package state

import (
	"context"
	"testing"
	"time"

	"github.com/tokenized/pkg/bitcoin"
	"github.com/tokenized/pkg/wire"
)

type reproTransmitter struct {
	msgs []wire.Message
}

func (tr *reproTransmitter) TransmitMessage(msg wire.Message) bool {
	tr.msgs = append(tr.msgs, msg)
	return true
}

func TestRepro_TxTrackerTail(t *testing.T) {
	ctx := context.Background()

	var txid bitcoin.Hash32
	for i := range txid {
		txid[i] = 0x77
	}

	mempool := NewMemPool()
	p1 := NewTxTracker() // tracker of peer 1
	p2 := NewTxTracker() // tracker of peer 2
	p2Conn := &reproTransmitter{}

	// P1 announces T: it should be requested from P1 (what the inv handler does).
	alreadyHave, shouldRequest := mempool.AddRequest(ctx, txid, false)
	if alreadyHave || !shouldRequest {
		t.Fatalf("P1 announce: alreadyHave %t shouldRequest %t", alreadyHave, shouldRequest)
	}
	_ = p1

	// P2 announces T within the window: not requested again, only tracked by P2's tracker.
	alreadyHave, shouldRequest = mempool.AddRequest(ctx, txid, false)
	if alreadyHave || shouldRequest {
		t.Fatalf("P2 announce: alreadyHave %t shouldRequest %t", alreadyHave, shouldRequest)
	}
	p2.Add(txid)

	// A check inside the window must not request anything.
	if err := p2.Check(ctx, mempool, p2Conn); err != nil {
		t.Fatalf("Check: %s", err)
	}
	if len(p2Conn.msgs) != 0 {
		t.Fatalf("request sent inside the window")
	}

	// P1 never delivers. More than 3 seconds pass (the request time is moved into the past
	// instead of sleeping).
	mempool.mutex.Lock()
	mempool.requests[txid] = time.Now().Add(-4 * time.Second)
	mempool.mutex.Unlock()

	// P2's periodic check.
	if err := p2.Check(ctx, mempool, p2Conn); err != nil {
		t.Fatalf("Check: %s", err)
	}

	requested := false
	for _, msg := range p2Conn.msgs {
		getData, ok := msg.(*wire.MsgGetData)
		if !ok {
			t.Fatalf("unexpected message type %T", msg)
		}
		for _, inv := range getData.InvList {
			if inv.Type == wire.InvTypeTx && inv.Hash.Equal(&txid) {
				requested = true
			}
		}
	}

	p2.mutex.Lock()
	_, stillTracked := p2.txids[txid]
	p2.mutex.Unlock()
	mempool.mutex.Lock()
	requestTime, hasRequest := mempool.requests[txid]
	mempool.mutex.Unlock()

	if !requested {
		t.Errorf("T was not requested from P2: %d messages transmitted; P2 still tracks T: %t; "+
			"mempool has active request for T: %t (age %s)", len(p2Conn.msgs), stillTracked,
			hasRequest, time.Since(requestTime))
	}
}
