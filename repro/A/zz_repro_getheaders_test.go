// Package directory: internal/spynode
// Exercises fix commit c54193c (C09 / C09.R5): Node.GetHeaders must return the requested number of
// headers, truncated at the tip.
package spynode

import (
	"context"
	"testing"

	"github.com/tokenized/pkg/storage"
	"github.com/tokenized/pkg/wire"
	"github.com/tokenized/spynode/internal/platform/config"
)

func TestRepro_GetHeaders(t *testing.T) {
	ctx := context.Background()
	store := storage.NewMockStorage()
	node := NewNode(config.Config{}, store, nil, nil)

	// Chain of height 10 (heights 0..10).
	var chain []wire.BlockHeader
	header := wire.BlockHeader{Version: 1}
	for i := 0; i <= 10; i++ {
		header.Timestamp = uint32(1600000000 + 600*i)
		header.Nonce = uint32(i)
		if err := node.blocks.Add(ctx, &header); err != nil {
			t.Fatalf("Add header %d: %s", i, err)
		}
		chain = append(chain, header)
		header.PrevBlock = *header.BlockHash()
	}
	if node.LastHeight(ctx) != 10 {
		t.Fatalf("height %d, want 10", node.LastHeight(ctx))
	}

	tests := []struct {
		name             string
		height, maxCount int
		wantStart        int
		wantCount        int
	}{
		{"tip only", 10, 1, 10, 1},
		{"middle", 3, 2, 3, 2},
		{"truncated at tip", 9, 5, 9, 2},
		{"whole chain", 0, 11, 0, 11},
		{"beyond requested", 0, 500, 0, 11},
		{"most recent", -1, 3, 8, 3},
		{"most recent more than chain", -1, 50, 0, 11},
	}

	for _, tt := range tests {
		tt := tt
		t.Run(tt.name, func(t *testing.T) {
			result, err := node.GetHeaders(ctx, tt.height, tt.maxCount)
			if err != nil {
				t.Fatalf("GetHeaders(%d, %d): %s", tt.height, tt.maxCount, err)
			}
			if result == nil {
				t.Fatalf("GetHeaders(%d, %d) = nil", tt.height, tt.maxCount)
			}

			t.Logf("GetHeaders(%d, %d): request height %d, start height %d, %d headers",
				tt.height, tt.maxCount, result.RequestHeight, result.StartHeight,
				len(result.Headers))

			if len(result.Headers) != tt.wantCount {
				t.Errorf("GetHeaders(%d, %d) returned %d headers, want %d", tt.height,
					tt.maxCount, len(result.Headers), tt.wantCount)
			}
			if len(result.Headers) > tt.maxCount {
				t.Errorf("GetHeaders(%d, %d) returned %d headers, more than the max count",
					tt.height, tt.maxCount, len(result.Headers))
			}
			if len(result.Headers) > 0 && int(result.StartHeight) != tt.wantStart {
				t.Errorf("GetHeaders(%d, %d) start height %d, want %d", tt.height, tt.maxCount,
					result.StartHeight, tt.wantStart)
			}
			for i, h := range result.Headers {
				height := int(result.StartHeight) + i
				if height > 10 || !h.BlockHash().Equal(chain[height].BlockHash()) {
					t.Errorf("header %d of the result is not the header of height %d", i, height)
				}
			}
		})
	}
}
