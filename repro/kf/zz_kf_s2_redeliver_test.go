package spynode

import (
	"testing"

	"github.com/tokenized/pkg/bitcoin"
)

// SUSPICION 2
//
// Property: a tx is delivered as new (HandleTx) at most once; duplicates, re-announcements and its
// later confirmation produce at most state updates (no reorg involved here).
//
// History: relevant T via processUnconfirmedTx -> block containing T -> T again via
// processUnconfirmedTx (peer re-announces it after confirmation).

func Test_KF_S2_ReannouncedAfterConfirmation(t *testing.T) {
	ctx, node, rec := kfNewNode(t)

	tx := kfTx(kfOutpoint(0x22, 1), kfWatchedPKH, 7000)
	txid := *tx.TxHash()
	names := map[bitcoin.Hash32]string{txid: "T"}

	// Phase 1 : first delivery.
	m := rec.mark()
	if err := node.processUnconfirmedTx(ctx, kfUnconfirmed(tx)); err != nil {
		t.Fatalf("process T : %s", err)
	}
	ev := rec.since(m)
	kfLog(t, "phase 1 : processUnconfirmedTx(T)", names, ev)
	if kfCount(ev, "Tx", txid) != 1 {
		t.Fatalf("setup : expected exactly one HandleTx for T, got %d", kfCount(ev, "Tx", txid))
	}

	// Phase 1b : plain duplicate while still unconfirmed (control, should be silent).
	m = rec.mark()
	if err := node.processUnconfirmedTx(ctx, kfUnconfirmed(tx)); err != nil {
		t.Fatalf("process T duplicate : %s", err)
	}
	ev = rec.since(m)
	kfLog(t, "phase 1b (control) : processUnconfirmedTx(T) duplicate while unconfirmed", names, ev)
	if kfCount(ev, "Tx", txid) != 0 {
		t.Errorf("control : duplicate while unconfirmed produced HandleTx")
	}

	// Phase 2 : block confirms T.
	block := kfNewBlock(node, 2000, tx)
	m = rec.mark()
	if err := node.ProcessBlock(ctx, block); err != nil {
		t.Fatalf("ProcessBlock : %s", err)
	}
	ev = rec.since(m)
	kfLog(t, "phase 2 : ProcessBlock(block{coinbase, T})", names, ev)
	if node.blocks.LastHeight() != 1 {
		t.Fatalf("block was not accepted, height %d", node.blocks.LastHeight())
	}
	if kfCount(ev, "Tx", txid) != 0 {
		t.Errorf("confirmation delivered T as new again (HandleTx) instead of an update")
	}
	if kfCount(ev, "TxUpdate", txid) != 1 {
		t.Errorf("expected one confirmation TxUpdate for T, got %d", kfCount(ev, "TxUpdate", txid))
	}
	t.Logf("after block : T in unconfirmed set = %t, T in mempool = %t",
		kfInUnconfirmedSet(t, ctx, node, txid), node.memPool.TransactionExists(&txid))
	if kfInUnconfirmedSet(t, ctx, node, txid) {
		t.Errorf("T still in the unconfirmed set after confirmation")
	}
	confirmedAt1, err := node.txs.Contains(ctx, txid, 1)
	if err != nil {
		t.Fatalf("txs.Contains : %s", err)
	}
	t.Logf("after block : T listed in tx repo for height 1 = %t", confirmedAt1)

	// Phase 3 : T re-announced after confirmation.
	m = rec.mark()
	if err := node.processUnconfirmedTx(ctx, kfUnconfirmed(tx)); err != nil {
		t.Fatalf("process T re-announce : %s", err)
	}
	ev = rec.since(m)
	kfLog(t, "phase 3 : processUnconfirmedTx(T) re-announced after confirmation", names, ev)

	backInUnconfirmed := kfInUnconfirmedSet(t, ctx, node, txid)
	t.Logf("after re-announce : T in unconfirmed set = %t, T in mempool = %t", backInUnconfirmed,
		node.memPool.TransactionExists(&txid))

	all := rec.since(0)
	total := kfCount(all, "Tx", txid)
	t.Logf("total HandleTx calls for T over the whole history : %d", total)

	if n := kfCount(ev, "Tx", txid); n != 0 {
		t.Errorf("PROPERTY VIOLATED : re-announcement after confirmation produced %d more "+
			"HandleTx call(s) for T (total %d, want at most 1)", n, total)
	}
	if backInUnconfirmed {
		t.Errorf("confirmed T is back in the unconfirmed set after the re-announcement")
	}
}
