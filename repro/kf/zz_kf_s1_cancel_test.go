package spynode

import (
	"testing"

	"github.com/tokenized/pkg/bitcoin"
	"github.com/tokenized/pkg/wire"
)

// SUSPICION 1
//
// Property: when a processed block confirms a tx that spends an outpoint also spent by a different,
// previously delivered unconfirmed relevant tx, handlers receive a TxUpdate for that unconfirmed tx
// with Cancelled=true and UnSafe=true - whether the confirming tx is relevant or not, seen before
// or not.
//
// Each sub test reports (t.Log) every handler call and then asserts the property.

type kfS1Case struct {
	name         string
	t1Relevant   bool // confirming tx T1 pays the watched address
	t1SeenBefore bool // T1 delivered through processUnconfirmedTx before the block
}

func kfRunS1(t *testing.T, c kfS1Case) {
	ctx, node, rec := kfNewNode(t)

	o := kfOutpoint(0x11, 0) // the contested outpoint O

	t2 := kfTx(o, kfWatchedPKH, 9000) // relevant, will be double spent
	t1pkh := kfOtherPKH
	if c.t1Relevant {
		t1pkh = kfWatchedPKH
	}
	t1 := kfTx(o, t1pkh, 8000) // also spends O, gets confirmed

	t1id, t2id := *t1.TxHash(), *t2.TxHash()
	names := map[bitcoin.Hash32]string{t1id: "T1 (confirmed by block)", t2id: "T2 (relevant, unconfirmed)"}

	if node.IsRelevant(ctx, t2) != true {
		t.Fatalf("setup : T2 should be relevant")
	}
	if node.IsRelevant(ctx, t1) != c.t1Relevant {
		t.Fatalf("setup : T1 relevant = %t, want %t", node.IsRelevant(ctx, t1), c.t1Relevant)
	}

	// Phase 1 : T2 delivered unconfirmed.
	m := rec.mark()
	if err := node.processUnconfirmedTx(ctx, kfUnconfirmed(t2)); err != nil {
		t.Fatalf("process T2 : %s", err)
	}
	ev := rec.since(m)
	kfLog(t, "phase 1 : processUnconfirmedTx(T2)", names, ev)
	if kfCount(ev, "Tx", t2id) != 1 {
		t.Fatalf("setup : expected exactly one HandleTx for T2")
	}
	if !kfInUnconfirmedSet(t, ctx, node, t2id) {
		t.Fatalf("setup : T2 should be in the unconfirmed set")
	}

	// Phase 2 : (optionally) T1 delivered unconfirmed too.
	if c.t1SeenBefore {
		m = rec.mark()
		if err := node.processUnconfirmedTx(ctx, kfUnconfirmed(t1)); err != nil {
			t.Fatalf("process T1 : %s", err)
		}
		ev = rec.since(m)
		kfLog(t, "phase 2 : processUnconfirmedTx(T1)", names, ev)
		if !node.memPool.TransactionExists(&t1id) {
			t.Fatalf("setup : T1 body should be in the mempool")
		}
		// Sanity: T2 is reported unsafe (not cancelled) at this point.
		found := false
		for _, e := range ev {
			if e.Kind == "TxUpdate" && e.TxID.Equal(&t2id) && e.State.UnSafe && !e.State.Cancelled {
				found = true
			}
		}
		if !found {
			t.Errorf("phase 2 : expected an unsafe (not cancelled) TxUpdate for T2")
		}
	}

	// Phase 3 : block containing T1.
	block := kfNewBlock(node, 1000, t1)
	m = rec.mark()
	if err := node.ProcessBlock(ctx, block); err != nil {
		t.Fatalf("ProcessBlock : %s", err)
	}
	ev = rec.since(m)
	kfLog(t, "phase 3 : ProcessBlock(block{coinbase, T1})", names, ev)

	if node.blocks.LastHeight() != 1 {
		t.Fatalf("block was not accepted, height %d", node.blocks.LastHeight())
	}

	t.Logf("after block : T2 in unconfirmed set = %t, T2 in mempool = %t, T1 in mempool = %t",
		kfInUnconfirmedSet(t, ctx, node, t2id), node.memPool.TransactionExists(&t2id),
		node.memPool.TransactionExists(&t1id))

	cancels := 0
	for _, e := range ev {
		if e.Kind == "TxUpdate" && e.TxID.Equal(&t2id) && e.State.Cancelled && e.State.UnSafe {
			cancels++
		}
	}
	t.Logf("cancel updates (Cancelled && UnSafe) for T2 during ProcessBlock : %d", cancels)
	if cancels == 0 {
		t.Errorf("PROPERTY VIOLATED : no TxUpdate{Cancelled:true, UnSafe:true} for T2 although the "+
			"block confirmed T1 which spends the same outpoint (T1 relevant=%t, seen before=%t)",
			c.t1Relevant, c.t1SeenBefore)
	}
}

func Test_KF_S1_CancelOnConfirmedDoubleSpend(t *testing.T) {
	cases := []kfS1Case{
		// Controls : confirming tx never seen before the block.
		{name: "control_T1_unseen_irrelevant", t1Relevant: false, t1SeenBefore: false},
		{name: "control_T1_unseen_relevant", t1Relevant: true, t1SeenBefore: false},
		// Suspected failing histories : confirming tx body already in the mempool.
		{name: "suspect_T1_seen_irrelevant", t1Relevant: false, t1SeenBefore: true},
		{name: "suspect_T1_seen_relevant", t1Relevant: true, t1SeenBefore: true},
	}
	for _, c := range cases {
		c := c
		t.Run(c.name, func(t *testing.T) { kfRunS1(t, c) })
	}
}

var _ = wire.MaxPrevOutIndex
