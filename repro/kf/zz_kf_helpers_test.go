package spynode

import (
	"context"
	"crypto/sha256"
	"fmt"
	"sync"
	"testing"

	"github.com/tokenized/pkg/bitcoin"
	"github.com/tokenized/pkg/storage"
	"github.com/tokenized/pkg/wire"
	"github.com/tokenized/spynode/internal/handlers"
	"github.com/tokenized/spynode/internal/platform/config"
	"github.com/tokenized/spynode/pkg/client"
)

// ---------------------------------------------------------------------------------------------
// Recording client.Handler

type kfEvent struct {
	Kind  string // "Tx", "TxUpdate", "Headers", "InSync", "Message"
	TxID  bitcoin.Hash32
	State client.TxState
}

func (e kfEvent) String() string {
	switch e.Kind {
	case "Tx", "TxUpdate":
		return fmt.Sprintf("Handle%s(%s safe=%t unsafe=%t cancelled=%t depth=%d merkleproof=%t)",
			e.Kind, e.TxID.String()[:8], e.State.Safe, e.State.UnSafe, e.State.Cancelled,
			e.State.UnconfirmedDepth, e.State.MerkleProof != nil)
	default:
		return "Handle" + e.Kind
	}
}

type kfRecorder struct {
	lock   sync.Mutex
	events []kfEvent
}

func (r *kfRecorder) add(e kfEvent) {
	r.lock.Lock()
	r.events = append(r.events, e)
	r.lock.Unlock()
}

func (r *kfRecorder) HandleTx(ctx context.Context, tx *client.Tx) {
	r.add(kfEvent{Kind: "Tx", TxID: *tx.Tx.TxHash(), State: tx.State}) // State copied by value
}

func (r *kfRecorder) HandleTxUpdate(ctx context.Context, update *client.TxUpdate) {
	r.add(kfEvent{Kind: "TxUpdate", TxID: update.TxID, State: update.State})
}

func (r *kfRecorder) HandleHeaders(ctx context.Context, headers *client.Headers) {
	r.add(kfEvent{Kind: "Headers"})
}

func (r *kfRecorder) HandleInSync(ctx context.Context) { r.add(kfEvent{Kind: "InSync"}) }

func (r *kfRecorder) HandleMessage(ctx context.Context, payload client.MessagePayload) {
	r.add(kfEvent{Kind: "Message"})
}

// mark returns the current number of events so a later phase can be sliced out.
func (r *kfRecorder) mark() int {
	r.lock.Lock()
	defer r.lock.Unlock()
	return len(r.events)
}

func (r *kfRecorder) since(mark int) []kfEvent {
	r.lock.Lock()
	defer r.lock.Unlock()
	return append([]kfEvent{}, r.events[mark:]...)
}

func kfCount(events []kfEvent, kind string, txid bitcoin.Hash32) int {
	n := 0
	for _, e := range events {
		if e.Kind == kind && e.TxID.Equal(&txid) {
			n++
		}
	}
	return n
}

func kfLog(t *testing.T, title string, names map[bitcoin.Hash32]string, events []kfEvent) {
	t.Helper()
	t.Logf("---- %s : %d handler call(s)", title, len(events))
	for i, e := range events {
		name := ""
		if n, ok := names[e.TxID]; ok {
			name = " [" + n + "]"
		}
		t.Logf("  %d. %s%s", i+1, e.String(), name)
	}
}

// ---------------------------------------------------------------------------------------------
// Fakes

type kfOutputFetcher struct{}

func (kfOutputFetcher) GetOutputs(ctx context.Context,
	outpoints []wire.OutPoint) ([]bitcoin.UTXO, error) {
	result := make([]bitcoin.UTXO, len(outpoints))
	for i, op := range outpoints {
		result[i] = bitcoin.UTXO{
			Hash:          op.Hash,
			Index:         op.Index,
			Value:         100000,
			LockingScript: kfP2PKH(kfOtherPKH),
		}
	}
	return result, nil
}

type kfTxFetcher struct{}

func (kfTxFetcher) GetTx(ctx context.Context, txid bitcoin.Hash32) (*wire.MsgTx, error) {
	return nil, fmt.Errorf("not available")
}

// kfBlock is a fake wire.Block.
type kfBlock struct {
	header wire.BlockHeader
	txs    []*wire.MsgTx
	offset int
}

func (b *kfBlock) GetHeader() wire.BlockHeader { return b.header }
func (b *kfBlock) IsMerkleRootValid() bool {
	root := kfMerkleRoot(b.txs)
	return root.Equal(&b.header.MerkleRoot)
}
func (b *kfBlock) GetTxCount() uint64 { return uint64(len(b.txs)) }
func (b *kfBlock) GetNextTx() (*wire.MsgTx, error) {
	if b.offset >= len(b.txs) {
		return nil, nil
	}
	tx := b.txs[b.offset]
	b.offset++
	return tx, nil
}
func (b *kfBlock) ResetTxs()          { b.offset = 0 }
func (b *kfBlock) SerializeSize() int { return 80 }

func kfMerkleRoot(txs []*wire.MsgTx) bitcoin.Hash32 {
	// Plain bitcoin merkle root, computed independently of wire.MerkleTree.
	if len(txs) == 0 {
		return bitcoin.Hash32{}
	}
	layer := make([]bitcoin.Hash32, len(txs))
	for i, tx := range txs {
		layer[i] = *tx.TxHash()
	}
	for len(layer) > 1 {
		if len(layer)%2 == 1 {
			layer = append(layer, layer[len(layer)-1])
		}
		next := make([]bitcoin.Hash32, 0, len(layer)/2)
		for i := 0; i < len(layer); i += 2 {
			first := sha256.Sum256(append(append([]byte{}, layer[i][:]...), layer[i+1][:]...))
			next = append(next, bitcoin.Hash32(sha256.Sum256(first[:])))
		}
		layer = next
	}
	return layer[0]
}

// kfNewBlock builds a block on top of the node's current tip containing a coinbase followed by txs.
func kfNewBlock(node *Node, timestamp uint32, txs ...*wire.MsgTx) *kfBlock {
	coinbase := wire.NewMsgTx(1)
	coinbase.AddTxIn(wire.NewTxIn(wire.NewOutPoint(&bitcoin.Hash32{}, wire.MaxPrevOutIndex),
		[]byte{0x01, byte(timestamp)}))
	coinbase.AddTxOut(wire.NewTxOut(5000000000, kfP2PKH(kfOtherPKH)))

	all := append([]*wire.MsgTx{coinbase}, txs...)
	return &kfBlock{
		header: wire.BlockHeader{
			Version:    1,
			PrevBlock:  *node.blocks.LastHash(),
			MerkleRoot: kfMerkleRoot(all),
			Timestamp:  timestamp,
			Bits:       0x1d00ffff,
		},
		txs: all,
	}
}

// ---------------------------------------------------------------------------------------------
// Scripts / txs

var (
	kfWatchedPKH = []byte{0xaa, 1, 2, 3, 4, 5, 6, 7, 8, 9, 10, 11, 12, 13, 14, 15, 16, 17, 18, 19}
	kfOtherPKH   = []byte{0xbb, 1, 2, 3, 4, 5, 6, 7, 8, 9, 10, 11, 12, 13, 14, 15, 16, 17, 18, 19}
)

func kfP2PKH(pkh []byte) []byte {
	script := []byte{0x76, 0xa9, 0x14} // OP_DUP OP_HASH160 PUSH20
	script = append(script, pkh...)
	return append(script, 0x88, 0xac) // OP_EQUALVERIFY OP_CHECKSIG
}

// kfTx builds a tx spending outpoint paying value to pkh. The unlocking script is a dummy
// signature push + dummy public key push that hash to nothing watched.
func kfTx(outpoint wire.OutPoint, pkh []byte, value uint64) *wire.MsgTx {
	tx := wire.NewMsgTx(1)
	unlock := []byte{0x02, 0x30, 0x01, 0x02, 0x03, 0x04} // push(2) push(2)
	tx.AddTxIn(wire.NewTxIn(&outpoint, unlock))
	tx.AddTxOut(wire.NewTxOut(value, kfP2PKH(pkh)))
	return tx
}

func kfOutpoint(b byte, index uint32) wire.OutPoint {
	var h bitcoin.Hash32
	for i := range h {
		h[i] = b
	}
	return wire.OutPoint{Hash: h, Index: index}
}

// ---------------------------------------------------------------------------------------------
// Node

func kfNewNode(t *testing.T) (context.Context, *Node, *kfRecorder) {
	t.Helper()
	ctx := context.Background()

	cfg, err := config.NewConfig(bitcoin.MainNet, true, "127.0.0.1:0", "/kf-test/",
		"0000000000000000000000000000000000000000000000000000000000000000", 0, 10, 0, 1, 1, false)
	if err != nil {
		t.Fatalf("config : %s", err)
	}

	node := NewNode(cfg, storage.NewMockStorage(), kfTxFetcher{}, kfOutputFetcher{})
	rec := &kfRecorder{}
	node.RegisterHandler(rec)

	if err := node.SubscribePushDatas(ctx, [][]byte{kfWatchedPKH}); err != nil {
		t.Fatalf("subscribe : %s", err)
	}

	// Same as Node.load() would do on an empty store : genesis header at height 0.
	if err := node.blocks.Load(ctx); err != nil {
		t.Fatalf("load blocks : %s", err)
	}
	if err := node.txs.Load(ctx); err != nil {
		t.Fatalf("load txs : %s", err)
	}

	node.state.SetInSync()
	if !node.state.IsReady() {
		t.Fatalf("node not ready after SetInSync")
	}
	return ctx, node, rec
}

func kfUnconfirmed(tx *wire.MsgTx) handlers.TxData {
	return handlers.TxData{Msg: tx, Trusted: true, Safe: false, ConfirmedHeight: -1}
}

func kfInUnconfirmedSet(t *testing.T, ctx context.Context, node *Node, txid bitcoin.Hash32) bool {
	t.Helper()
	in, err := node.txs.Contains(ctx, txid, -1)
	if err != nil {
		t.Fatalf("txs.Contains : %s", err)
	}
	return in
}
