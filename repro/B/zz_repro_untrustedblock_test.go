// Package directory: internal/handlers
// Exercises fix commit 388031a "fix: do not route block messages from untrusted nodes into the
// trusted node's block requests"  (property C12, rule C12.R1, NewUntrustedMessageHandlers)
//
// History: the trusted state has an outstanding request for block H. The untrusted handler table
// (as built for every UntrustedNode) is given (a) a "block" message and (b) an "extmsg" message
// wrapping a block, both with header H but with other txs.
// Expected: the trusted node's request for H stays unfilled, and the real block from the trusted
// handler table is what the block processor gets from NextBlock.
package handlers

import (
	"bytes"
	"context"
	"testing"

	"github.com/tokenized/logger"
	"github.com/tokenized/pkg/bitcoin"
	"github.com/tokenized/pkg/storage"
	"github.com/tokenized/pkg/wire"
	"github.com/tokenized/spynode/internal/platform/config"
	"github.com/tokenized/spynode/internal/state"
	handlerStorage "github.com/tokenized/spynode/internal/storage"
)

type reproNotRelevant struct{}

func (reproNotRelevant) IsRelevant(context.Context, *wire.MsgTx) bool { return false }

func reproBlockTx(salt byte, coinbase bool) *wire.MsgTx {
	tx := wire.NewMsgTx(1)
	outpoint := wire.OutPoint{Index: 0}
	for i := range outpoint.Hash {
		outpoint.Hash[i] = salt
	}
	if coinbase {
		outpoint = wire.OutPoint{Index: wire.MaxPrevOutIndex}
	}
	tx.AddTxIn(wire.NewTxIn(&outpoint, bitcoin.Script{0x01, salt}))
	tx.AddTxOut(wire.NewTxOut(uint64(1000)+uint64(salt), bitcoin.Script{0x51}))
	return tx
}

func TestRepro_UntrustedBlock(t *testing.T) {
	for _, via := range []string{wire.CmdBlock, wire.CmdExtended} {
		t.Run(via, func(t *testing.T) {
			reproUntrustedBlock(t, via)
		})
	}
}

func reproUntrustedBlock(t *testing.T, via string) {
	ctx := logger.ContextWithLogConfig(context.Background(), logger.NewConfig(true, false, ""))
	store := storage.NewMockStorage()
	cfg, err := config.NewConfig(bitcoin.MainNet, true, "test", "Repro Test",
		"0000000000000000000000000000000000000000000000000000000000000000", 8, 2000, 10, 10, 1000,
		true)
	if err != nil {
		t.Fatalf("config : %s", err)
	}

	trustedState := state.NewState()
	trustedState.SetStartHeight(1)
	peers := handlerStorage.NewPeerRepository(store)
	blocks := handlerStorage.NewBlockRepository(cfg, store)
	if err := blocks.Initialize(ctx, 1600000000); err != nil {
		t.Fatalf("initialize blocks : %s", err)
	}
	txs := handlerStorage.NewTxRepository(store)
	reorgs := handlerStorage.NewReorgRepository(store)
	memPool := state.NewMemPool()
	var txChannel TxChannel
	txChannel.Open(100)

	trusted := NewTrustedMessageHandlers(ctx, cfg, trustedState, peers, blocks, nil, txs, reorgs,
		state.NewTxTracker(), memPool, &txChannel, nil)
	untrusted := NewUntrustedMessageHandlers(ctx, trustedState, state.NewUntrustedState(), peers,
		blocks, state.NewTxTracker(), memPool, &txChannel, reproNotRelevant{}, "127.0.0.1:8333")

	// Real block H on top of the tip.
	prev := *blocks.LastHash()
	trustedState.SetLastHash(prev)
	real := wire.NewMsgBlock(&wire.BlockHeader{Version: 1, PrevBlock: prev, Timestamp: 1600000600,
		Bits: 0x1d00ffff, Nonce: 1})
	real.AddTransaction(reproBlockTx(1, true))
	real.AddTransaction(reproBlockTx(2, false))
	root, err := real.CalculateMerkleHash()
	if err != nil {
		t.Fatalf("merkle root : %s", err)
	}
	real.Header.MerkleRoot = *root
	hash := real.Header.BlockHash()

	// The trusted node's request for H is outstanding.
	request, err := trustedState.AddBlockRequest(&prev, hash)
	if err != nil || !request {
		t.Fatalf("add block request : %t %v", request, err)
	}

	// Forged body for the same header.
	forged := wire.NewMsgBlock(&real.Header)
	forged.AddTransaction(reproBlockTx(1, true))
	forged.AddTransaction(reproBlockTx(3, false))
	if !forged.Header.BlockHash().Equal(hash) || forged.IsMerkleRootValid() {
		t.Fatalf("forged block is not forged")
	}

	var msg wire.Message = forged
	if via == wire.CmdExtended {
		var buf bytes.Buffer
		if err := forged.BtcEncode(&buf, wire.ProtocolVersion); err != nil {
			t.Fatalf("encode block : %s", err)
		}
		msg = wire.NewMsgExtended(wire.CmdBlock, buf.Bytes())
	}

	// What UntrustedNode.handleMessage does.
	if handler, ok := untrusted[msg.Command()]; ok {
		if _, err := handler.Handle(ctx, msg); err != nil {
			t.Logf("untrusted %s handler returned : %s", msg.Command(), err)
		}
	} else {
		t.Logf("untrusted handler table has no %s handler", msg.Command())
	}

	if next := trustedState.NextBlock(); next != nil {
		nextHeader := next.GetHeader()
		t.Errorf("a %s message from an untrusted node filled the trusted node's block request : "+
			"NextBlock returned block %s with valid merkle root %t", via,
			nextHeader.BlockHash(), next.IsMerkleRootValid())
	}

	// The real block from the trusted node.
	if _, err := trusted[wire.CmdBlock].Handle(ctx, real); err != nil {
		t.Fatalf("trusted block handler : %s", err)
	}
	next := trustedState.NextBlock()
	if next == nil {
		t.Errorf("the real block from the trusted node was not accepted (not requested any more)")
	} else if !next.IsMerkleRootValid() {
		t.Errorf("the block handed to the block processor is not the real block")
	}
}
