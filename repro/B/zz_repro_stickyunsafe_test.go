// Package directory: internal/spynode  (needs zz_repro_helpers_test.go)
// Exercises fix commit 805dfaf "fix: do not report a tx safe when its stored state is already unsafe
// or cancelled"  (property C07, rule C07.R2, processUnconfirmedTx)
//
// TestRepro_StickyUnsafe
//   History: a tx M in the mempool spends outpoint o. A block confirms the relevant tx T, not seen
//   before, that also spends o, so T is delivered and stored as UnSafe (confirmed double spend).
//   M is dropped from the mempool by the block. The application then (re-)submits T with SendTx,
//   which queues it with Safe=true (the test queues exactly what SendTx/HandleTx queue).
//   Expected: T is never reported or stored with safe and unsafe both set.
//
// TestRepro_StickyUnsafeLiteral
//   The history exactly as worded in known_findings.json (T delivered unconfirmed, conflict T2 seen,
//   T confirmed, T re-submitted). It is kept to document what it does on each tree, see RESULTS.md.
package spynode

import (
	"testing"

	"github.com/tokenized/pkg/storage"
	"github.com/tokenized/spynode/internal/handlers"
	internalStorage "github.com/tokenized/spynode/internal/storage"
)

func TestRepro_StickyUnsafe(t *testing.T) {
	ctx := reproCtx()
	store := storage.NewMockStorage()
	handler := &reproHandler{}
	node := reproNode(t, ctx, store, "127.0.0.1:1", handler, true)
	if err := node.SubscribePushDatas(ctx, [][]byte{reproKey}); err != nil {
		t.Fatalf("subscribe : %s", err)
	}
	node.state.SetInSync()

	o := reproOutPoint(0xb1, 0)

	// M : in the mempool, not relevant.
	txM := reproTx(o, 9000, reproOtherScript(0x03))
	if err := node.processUnconfirmedTx(ctx, handlers.TxData{Msg: txM, Trusted: true,
		ConfirmedHeight: -1}); err != nil {
		t.Fatalf("process unconfirmed M : %s", err)
	}
	if len(handler.Txs()) != 0 {
		t.Fatalf("M must not be delivered")
	}

	// Block 1 confirms T, relevant, spending the same outpoint.
	txT := reproTx(o, 8000, reproRelevantScript())
	block := reproBlock(t, *node.blocks.LastHash(), 1, reproCoinbase(1), txT)
	if err := node.ProcessBlock(ctx, block); err != nil {
		t.Fatalf("process block : %s", err)
	}

	delivered := handler.Txs()
	if len(delivered) != 1 || delivered[0] == nil || !delivered[0].Tx.TxHash().Equal(txT.TxHash()) {
		t.Fatalf("T was not delivered by the block : %v", delivered)
	}
	t.Logf("T delivered by block with state : %+v", delivered[0].State)
	if delivered[0].State.Safe || !delivered[0].State.UnSafe {
		t.Fatalf("precondition : T must be delivered unsafe by the block : %+v", delivered[0].State)
	}
	stored, err := internalStorage.FetchTxState(ctx, store, *txT.TxHash())
	if err != nil {
		t.Fatalf("fetch T : %s", err)
	}
	if stored.State.Safe || !stored.State.UnSafe {
		t.Fatalf("precondition : stored T must be unsafe : %+v", stored.State)
	}
	if node.memPool.TransactionExists(txM.TxHash()) || node.memPool.TransactionExists(txT.TxHash()) {
		t.Fatalf("precondition : mempool must not contain M or T after the block")
	}

	// The application submits T again. SendTx and HandleTx queue this TxData.
	if err := node.processUnconfirmedTx(ctx, handlers.TxData{Msg: txT, Trusted: true, Safe: true,
		ConfirmedHeight: -1}); err != nil {
		t.Fatalf("process re-submitted T : %s", err)
	}

	for i, tx := range handler.Txs() {
		if tx == nil {
			t.Errorf("delivery %d is nil", i)
			continue
		}
		t.Logf("delivery %d : %s : %+v", i, tx.Tx.TxHash(), tx.State)
		if tx.State.Safe && (tx.State.UnSafe || tx.State.Cancelled) {
			t.Errorf("delivery %d of T has safe and unsafe/cancelled both set : %+v", i, tx.State)
		}
	}
	for _, update := range handler.Updates() {
		t.Logf("update : %s : %+v", update.TxID, update.State)
		if update.State.Safe && (update.State.UnSafe || update.State.Cancelled) {
			t.Errorf("update has safe and unsafe/cancelled both set : %+v", update.State)
		}
	}

	stored, err = internalStorage.FetchTxState(ctx, store, *txT.TxHash())
	if err != nil {
		t.Fatalf("fetch T : %s", err)
	}
	t.Logf("stored state of T after re-submit : %+v", stored.State)
	if stored.State.Safe && (stored.State.UnSafe || stored.State.Cancelled) {
		t.Errorf("stored state of T has safe and unsafe/cancelled both set : %+v", stored.State)
	}
	if !stored.State.UnSafe {
		t.Errorf("stored state of T lost its unsafe flag : %+v", stored.State)
	}
}

func TestRepro_StickyUnsafeLiteral(t *testing.T) {
	ctx := reproCtx()
	store := storage.NewMockStorage()
	handler := &reproHandler{}
	node := reproNode(t, ctx, store, "127.0.0.1:1", handler, true)
	if err := node.SubscribePushDatas(ctx, [][]byte{reproKey}); err != nil {
		t.Fatalf("subscribe : %s", err)
	}
	node.state.SetInSync()

	o := reproOutPoint(0xb2, 0)

	// T delivered (relevant, from the trusted node, not yet safe).
	txT := reproTx(o, 9000, reproRelevantScript())
	if err := node.processUnconfirmedTx(ctx, handlers.TxData{Msg: txT, Trusted: true,
		ConfirmedHeight: -1}); err != nil {
		t.Fatalf("process unconfirmed T : %s", err)
	}

	// Conflict T2 (not relevant) seen from an untrusted node : T is flagged unsafe.
	txT2 := reproTx(o, 8000, reproOtherScript(0x04))
	if err := node.processUnconfirmedTx(ctx, handlers.TxData{Msg: txT2, Trusted: false,
		ConfirmedHeight: -1}); err != nil {
		t.Fatalf("process unconfirmed T2 : %s", err)
	}
	stored, err := internalStorage.FetchTxState(ctx, store, *txT.TxHash())
	if err != nil {
		t.Fatalf("fetch T : %s", err)
	}
	t.Logf("stored state of T after the conflict was seen : %+v", stored.State)
	flagged := stored.State.UnSafe

	// T confirms.
	block := reproBlock(t, *node.blocks.LastHash(), 1, reproCoinbase(1), txT)
	if err := node.ProcessBlock(ctx, block); err != nil {
		t.Fatalf("process block : %s", err)
	}
	stored, err = internalStorage.FetchTxState(ctx, store, *txT.TxHash())
	if err != nil {
		t.Fatalf("fetch T : %s", err)
	}
	t.Logf("stored state of T after it confirmed : %+v", stored.State)

	// T is submitted again.
	if err := node.processUnconfirmedTx(ctx, handlers.TxData{Msg: txT, Trusted: true, Safe: true,
		ConfirmedHeight: -1}); err != nil {
		t.Fatalf("process re-submitted T : %s", err)
	}

	if !flagged {
		t.Logf("OBSERVATION : T was NOT flagged unsafe when the conflicting T2 was processed " +
			"(the described history does not reach the unsafe state on this tree)")
	}
	for i, tx := range handler.Txs() {
		if tx == nil {
			t.Errorf("delivery %d is nil", i)
			continue
		}
		t.Logf("delivery %d : %s : %+v", i, tx.Tx.TxHash(), tx.State)
		if tx.State.Safe && (tx.State.UnSafe || tx.State.Cancelled) {
			t.Errorf("delivery %d of T has safe and unsafe/cancelled both set : %+v", i, tx.State)
		}
	}
	stored, err = internalStorage.FetchTxState(ctx, store, *txT.TxHash())
	if err != nil {
		t.Fatalf("fetch T : %s", err)
	}
	t.Logf("stored state of T after re-submit : %+v", stored.State)
	if stored.State.Safe && (stored.State.UnSafe || stored.State.Cancelled) {
		t.Errorf("stored state of T has safe and unsafe/cancelled both set : %+v", stored.State)
	}
}
