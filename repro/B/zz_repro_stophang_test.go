// Package directory: internal/spynode  (needs zz_repro_helpers_test.go)
// Exercises fix commit 626fc14 "fix: keep draining the unconfirmed tx channel after a processing
// failure"  (property C19, rule C19.R6, processUnconfirmedTxs / Stop)
//
// History: the node runs (Node.Run) against an in-process trusted peer on a localhost listener. The
// peer streams tx messages. Saving the state of the first (relevant) tx is slow and then fails (a
// storage time out): while the consumer waits for storage, the trusted tx handler fills the 100
// entry unconfirmed tx channel and the incoming thread blocks inside TxChannel.Add on the next tx.
// The storage error then makes processUnconfirmedTxs request a stop.
// Expected: Run() shuts down and Stop() returns.
package spynode

import (
	"context"
	"io"
	"net"
	"strings"
	"sync"
	"sync/atomic"
	"testing"
	"time"

	"github.com/pkg/errors"
	"github.com/tokenized/pkg/bitcoin"
	"github.com/tokenized/pkg/storage"
	"github.com/tokenized/pkg/wire"
)

// reproSlowFailStore is a mock storage whose first tx state write blocks until released and then
// fails.
type reproSlowFailStore struct {
	*storage.MockStorage

	once    sync.Once
	entered chan struct{} // closed when the failing write has started
	release chan struct{} // close to let the failing write return its error
}

func (s *reproSlowFailStore) Write(ctx context.Context, key string, body []byte,
	options *storage.Options) error {

	if strings.HasPrefix(key, "spynode/txs/state/") {
		first := false
		s.once.Do(func() { first = true })
		if first {
			close(s.entered)
			<-s.release
			return errors.New("repro : storage write timed out")
		}
	}
	return s.MockStorage.Write(ctx, key, body, options)
}

func TestRepro_StopHang(t *testing.T) {
	ctx := reproCtx()

	// In-process trusted peer.
	listener, err := net.Listen("tcp", "127.0.0.1:0")
	if err != nil {
		t.Fatalf("listen : %s", err)
	}
	defer listener.Close()

	const txCount = 150 // more than the channel holds
	peerConn := make(chan net.Conn, 1)
	go func() {
		conn, err := listener.Accept()
		if err != nil {
			return
		}
		peerConn <- conn
		go io.Copy(io.Discard, conn) // ignore whatever the node sends

		// First tx is relevant, the rest are not. All are distinct.
		for i := 0; i < txCount; i++ {
			script := reproOtherScript(0x06)
			if i == 0 {
				script = reproRelevantScript()
			}
			tx := reproTx(reproOutPoint(0xd1, uint32(i)), uint64(1000+i), script)
			if _, err := wire.WriteMessageN(conn, tx, wire.ProtocolVersion,
				wire.BitcoinNet(bitcoin.MainNet)); err != nil {
				return // node closed the connection
			}
		}
	}()

	store := &reproSlowFailStore{
		MockStorage: storage.NewMockStorage(),
		entered:     make(chan struct{}),
		release:     make(chan struct{}),
	}
	handler := &reproHandler{}
	node := reproNode(t, ctx, store, listener.Addr().String(), handler, false)
	if err := node.SubscribePushDatas(ctx, [][]byte{reproKey}); err != nil {
		t.Fatalf("subscribe : %s", err)
	}
	// The node is in sync, so the trusted tx handler forwards txs.
	node.state.SetInSync()

	runDone := make(chan error, 1)
	go func() {
		runDone <- node.Run(ctx)
	}()

	// Wait for the consumer to be inside the slow write of the first tx.
	select {
	case <-store.entered:
	case <-timeAfter(10):
		t.Fatalf("the first tx never reached storage")
	}

	// Wait until the trusted tx handler has filled the channel behind it.
	deadline := time.Now().Add(10 * time.Second)
	for len(node.unconfTxChannel.Channel) < cap(node.unconfTxChannel.Channel) {
		if time.Now().After(deadline) {
			t.Fatalf("unconfirmed tx channel never filled : %d/%d",
				len(node.unconfTxChannel.Channel), cap(node.unconfTxChannel.Channel))
		}
		time.Sleep(5 * time.Millisecond)
	}
	// Let the incoming thread read the next tx and block in TxChannel.Add.
	time.Sleep(200 * time.Millisecond)
	t.Logf("channel holds %d/%d txs, incoming thread is adding the next one",
		len(node.unconfTxChannel.Channel), cap(node.unconfTxChannel.Channel))

	// The storage write fails now.
	close(store.release)

	// The failure must make Run() end by itself (processUnconfirmedTxs requests the stop), and a
	// Stop() by the application must return.
	stopDone := make(chan error, 1)
	go func() {
		stopDone <- node.Stop(ctx)
	}()

	select {
	case err := <-stopDone:
		t.Logf("Stop returned : %v", err)
	case <-timeAfter(5):
		t.Errorf("Stop() did not return within 5 seconds of the tx processing failure "+
			"(incoming threads %d, processing threads %d, channel %d/%d)",
			atomic.LoadUint32(&node.incomingCount), atomic.LoadUint32(&node.processingCount), len(node.unconfTxChannel.Channel),
			cap(node.unconfTxChannel.Channel))
	}

	select {
	case err := <-runDone:
		t.Logf("Run returned : %v", err)
	case <-timeAfter(2):
		t.Errorf("Run() did not return")
	}

	select {
	case conn := <-peerConn:
		conn.Close()
	default:
	}
}
