// Package directory: internal/spynode  (needs zz_repro_helpers_test.go)
// Exercises fix commit 388031a "fix: do not route block messages from untrusted nodes into the
// trusted node's block requests"  (property C12, rule C12.R1) end to end.
// (internal/handlers/zz_repro_untrustedblock_test.go checks the handler table directly.)
//
// History: the trusted node announces header H1 (block 1), the node requests the block. An
// UntrustedNode is connected to an in-process peer on a localhost listener. Without any handshake
// that peer sends a "block" message whose header equals H1 but whose txs differ. The block processor
// (the real processBlocks loop) then runs. After that the trusted node delivers the real block 1,
// announces block 2 and delivers block 2.
// Expected: the chain advances to height 2.
package spynode

import (
	"net"
	"testing"
	"time"

	"github.com/tokenized/pkg/bitcoin"
	"github.com/tokenized/pkg/storage"
	"github.com/tokenized/pkg/wire"
)

func TestRepro_UntrustedStall(t *testing.T) {
	ctx := reproCtx()
	store := storage.NewMockStorage()
	handler := &reproHandler{}
	node := reproNode(t, ctx, store, "127.0.0.1:1", handler, true)
	node.outgoing.Open(100)
	node.unconfTxChannel.Open(100)

	genesis := *node.blocks.LastHash()
	block1 := reproBlock(t, genesis, 1, reproCoinbase(1),
		reproTx(reproOutPoint(0xe1, 0), 9000, reproOtherScript(0x07)))
	hash1 := *block1.Header.BlockHash()
	block2 := reproBlock(t, hash1, 2, reproCoinbase(2),
		reproTx(reproOutPoint(0xe2, 0), 9000, reproOtherScript(0x08)))
	hash2 := *block2.Header.BlockHash()

	// Forged block : header of block 1, other txs.
	forged := wire.NewMsgBlock(&block1.Header)
	forged.AddTransaction(reproCoinbase(1))
	forged.AddTransaction(reproTx(reproOutPoint(0xe3, 0), 1, reproOtherScript(0x09)))
	if !forged.Header.BlockHash().Equal(&hash1) || forged.IsMerkleRootValid() {
		t.Fatalf("forged block is not forged")
	}

	expectGetData := func(hash bitcoin.Hash32) {
		t.Helper()
		select {
		case msg := <-node.outgoing.Channel:
			getData, ok := msg.(*wire.MsgGetData)
			if !ok || len(getData.InvList) != 1 || !getData.InvList[0].Hash.Equal(&hash) {
				t.Fatalf("expected getdata(%s), got %s %+v", hash, msg.Command(), msg)
			}
		case <-timeAfter(1):
			t.Fatalf("no getdata(%s) was sent to the trusted node", hash)
		}
	}

	// 1. Trusted node announces header 1. The node asks for the block.
	headers := wire.NewMsgHeaders()
	headers.AddBlockHeader(&block1.Header)
	if err := node.handleMessage(ctx, headers); err != nil {
		t.Fatalf("handle headers : %s", err)
	}
	expectGetData(hash1)
	if !node.state.BlockIsRequested(&hash1) {
		t.Fatalf("block 1 is not requested")
	}

	// 2. An untrusted peer sends the forged block, followed by a ping so the test knows when the
	// block message has been handled.
	listener, err := net.Listen("tcp", "127.0.0.1:0")
	if err != nil {
		t.Fatalf("listen : %s", err)
	}
	defer listener.Close()

	net0 := wire.BitcoinNet(bitcoin.MainNet)
	ponged := make(chan error, 1)
	closePeer := make(chan struct{})
	go func() {
		conn, err := listener.Accept()
		if err != nil {
			ponged <- err
			return
		}
		defer conn.Close()
		if _, err := wire.WriteMessageN(conn, forged, wire.ProtocolVersion, net0); err != nil {
			ponged <- err
			return
		}
		if _, err := wire.WriteMessageN(conn, wire.NewMsgPing(777), wire.ProtocolVersion,
			net0); err != nil {
			ponged <- err
			return
		}
		for {
			_, msg, _, err := wire.ReadMessageN(conn, wire.ProtocolVersion, net0)
			if err != nil {
				ponged <- err
				return
			}
			if pong, ok := msg.(*wire.MsgPong); ok && pong.Nonce == 777 {
				ponged <- nil
				break
			}
		}
		<-closePeer
	}()

	untrusted := NewUntrustedNode(listener.Addr().String(), node.config, node.state, node.store,
		node.peers, node.blocks, node.txs, node.memPool, &node.unconfTxChannel, node.handlers, node,
		false)
	untrustedDone := make(chan error, 1)
	go func() {
		untrustedDone <- untrusted.Run(ctx)
	}()

	select {
	case err := <-ponged:
		if err != nil {
			t.Fatalf("untrusted peer : %s", err)
		}
	case <-timeAfter(10):
		t.Fatalf("untrusted node never answered the ping")
	}
	t.Logf("untrusted peer's block message was handled; block 1 still requested : %t",
		node.state.BlockIsRequested(&hash1))

	// 3. The block processor runs.
	processDone := make(chan error, 1)
	go func() {
		processDone <- node.processBlocks(ctx)
	}()
	consumed := false
	for i := 0; i < 100; i++ { // 1 second
		if node.state.BlocksRequestedCount() == 0 {
			consumed = true
			break
		}
		time.Sleep(10 * time.Millisecond)
	}
	t.Logf("block request for block 1 was filled and consumed before the trusted node answered : %t",
		consumed)

	// 4. The trusted node delivers the real block 1, announces and delivers block 2.
	if err := node.handleMessage(ctx, reproCopyBlock(block1)); err != nil {
		t.Fatalf("handle block 1 : %s", err)
	}
	waitHeight := func(height int) bool {
		for i := 0; i < 300; i++ { // 3 seconds
			if node.blocks.LastHeight() >= height {
				return true
			}
			time.Sleep(10 * time.Millisecond)
		}
		return false
	}
	if !waitHeight(1) {
		t.Errorf("the real block 1 from the trusted node was not accepted : height %d, last hash %s",
			node.blocks.LastHeight(), node.blocks.LastHash())
	}

	headers = wire.NewMsgHeaders()
	headers.AddBlockHeader(&block2.Header)
	if err := node.handleMessage(ctx, headers); err != nil {
		t.Fatalf("handle headers 2 : %s", err)
	}
	select {
	case msg := <-node.outgoing.Channel:
		t.Logf("node sent %s after header 2", msg.Command())
	case <-timeAfter(1):
		t.Logf("node sent nothing after header 2")
	}
	if err := node.handleMessage(ctx, reproCopyBlock(block2)); err != nil {
		t.Fatalf("handle block 2 : %s", err)
	}
	if !waitHeight(2) {
		t.Errorf("syncing is stalled : height %d (should be 2), last hash %s, block 2 %s",
			node.blocks.LastHeight(), node.blocks.LastHash(), hash2)
	}

	// Shut down.
	untrusted.Stop(ctx)
	node.requestStop(ctx)
	close(closePeer)
	select {
	case <-untrustedDone:
	case <-timeAfter(5):
		t.Errorf("untrusted node didn't stop")
	}
	select {
	case <-processDone:
	case <-timeAfter(5):
		t.Errorf("block processor didn't stop")
	}
}
