// Package directory: internal/spynode  (needs zz_repro_helpers_test.go)
// Exercises fix commit e7a0ab2 "fix: provideBlock adds relevant txs to the merkle tree and delivers
// the tx it created"  (property C04, rule C04.R3, provideBlock / block refeed)
//
// History: block 1 (coinbase, R, X) is processed while the client is not subscribed to anything, so
// R has no stored state. The client then subscribes to R's key and calls
// RefeedBlocksFromHeight(1). The refeeder asks for block 1, the trusted node sends it, the block
// handler hands it to the refeeder and processBlocks calls provideBlock (the test performs exactly
// these calls, in that order, without the 200 ms polling loop).
// Expected: provideBlock succeeds and the handler is given R (not nil) with a valid merkle proof.
package spynode

import (
	"testing"

	"github.com/tokenized/pkg/storage"
	internalStorage "github.com/tokenized/spynode/internal/storage"
)

func TestRepro_ProvideBlock(t *testing.T) {
	ctx := reproCtx()
	store := storage.NewMockStorage()
	handler := &reproHandler{}
	node := reproNode(t, ctx, store, "127.0.0.1:1", handler, true)
	node.state.SetInSync()
	node.outgoing.Open(100)

	txR := reproTx(reproOutPoint(0xc1, 0), 9000, reproRelevantScript())
	txX := reproTx(reproOutPoint(0xc2, 0), 8000, reproOtherScript(0x05))
	block := reproBlock(t, *node.blocks.LastHash(), 1, reproCoinbase(1), txR, txX)

	// Block 1 is processed before the client is interested in R.
	if err := node.ProcessBlock(ctx, reproCopyBlock(block)); err != nil {
		t.Fatalf("process block : %s", err)
	}
	if len(handler.Txs()) != 0 {
		t.Fatalf("no tx should be relevant yet")
	}
	if _, err := internalStorage.FetchTxState(ctx, store, *txR.TxHash()); err == nil {
		t.Fatalf("R must not have stored state yet")
	}

	// Subscribe and refeed.
	if err := node.SubscribePushDatas(ctx, [][]byte{reproKey}); err != nil {
		t.Fatalf("subscribe : %s", err)
	}
	if err := node.RefeedBlocksFromHeight(ctx, 1); err != nil {
		t.Fatalf("refeed : %s", err)
	}
	requestHash := node.blockRefeeder.GetBlockToRequest()
	if requestHash == nil || !requestHash.Equal(block.Header.BlockHash()) {
		t.Fatalf("refeeder doesn't request block 1 : %v", requestHash)
	}

	// The trusted node answers the getdata.
	if err := node.handleMessage(ctx, reproCopyBlock(block)); err != nil {
		t.Fatalf("handle block message : %s", err)
	}
	refeedBlock, height, active := node.blockRefeeder.GetBlock()
	if !active || refeedBlock == nil || height != 1 {
		t.Fatalf("refeeder didn't take the block : %v %d %t", refeedBlock, height, active)
	}

	var err error
	func() {
		defer func() {
			if r := recover(); r != nil {
				t.Errorf("provideBlock panicked : %v", r)
			}
		}()
		err = node.provideBlock(ctx, refeedBlock, height)
	}()
	t.Logf("provideBlock returned : %v", err)
	if err != nil {
		t.Errorf("refeed of a valid block containing a relevant tx failed : %s", err)
	}

	delivered := handler.Txs()
	t.Logf("%d txs delivered", len(delivered))
	found := false
	for i, tx := range delivered {
		if tx == nil {
			t.Errorf("delivery %d : HandleTx was called with a nil tx", i)
			continue
		}
		if tx.Tx == nil {
			t.Errorf("delivery %d : tx without a wire tx", i)
			continue
		}
		t.Logf("delivery %d : %s : %+v", i, tx.Tx.TxHash(), tx.State)
		if !tx.Tx.TxHash().Equal(txR.TxHash()) {
			t.Errorf("delivery %d is not R : %s", i, tx.Tx.TxHash())
			continue
		}
		found = true
		if tx.State.MerkleProof == nil {
			t.Errorf("R delivered without a merkle proof")
			continue
		}
		if tx.State.MerkleProof.Index != 1 {
			t.Errorf("R merkle proof index is %d, should be 1", tx.State.MerkleProof.Index)
		}
		if err := tx.State.MerkleProof.IsValid(*txR.TxHash()); err != nil {
			t.Errorf("R merkle proof doesn't verify against the header : %s", err)
		}
	}
	if !found {
		t.Errorf("the relevant tx R was not delivered by the refeed")
	}
}
