// Package directory: internal/spynode  (needs zz_repro_helpers_test.go)
// Exercises fix commit 9d8aa33 "fix: cancel the conflicting unconfirmed tx, not the confirming tx,
// when a double spend confirms"  (property C06, rule C06.R1, ProcessBlock cancel branch)
//
// History: a relevant unconfirmed tx T (delivered to the client as safe) spends outpoint o. A block
// confirms T2 != T that also spends o; T2 was never seen before.
// Expected: the block is processed, and the client gets an update for T that says cancelled.
package spynode

import (
	"testing"

	"github.com/tokenized/pkg/storage"
	"github.com/tokenized/spynode/internal/handlers"
	internalStorage "github.com/tokenized/spynode/internal/storage"
)

func TestRepro_CancelPath(t *testing.T) {
	ctx := reproCtx()
	store := storage.NewMockStorage()
	handler := &reproHandler{}
	node := reproNode(t, ctx, store, "127.0.0.1:1", handler, true)
	if err := node.SubscribePushDatas(ctx, [][]byte{reproKey}); err != nil {
		t.Fatalf("subscribe : %s", err)
	}
	node.state.SetInSync() // mempool is live

	o := reproOutPoint(0xa1, 0)

	// T : relevant, unconfirmed, from the trusted node, safe.
	txT := reproTx(o, 9000, reproRelevantScript())
	if err := node.processUnconfirmedTx(ctx, handlers.TxData{Msg: txT, Trusted: true, Safe: true,
		ConfirmedHeight: -1}); err != nil {
		t.Fatalf("process unconfirmed T : %s", err)
	}
	delivered := handler.Txs()
	if len(delivered) != 1 || delivered[0] == nil || !delivered[0].Tx.TxHash().Equal(txT.TxHash()) {
		t.Fatalf("T was not delivered : %v", delivered)
	}
	if !delivered[0].State.Safe || delivered[0].State.UnSafe || delivered[0].State.Cancelled {
		t.Fatalf("T not delivered as safe : %+v", delivered[0].State)
	}

	// Block 1 confirms T2 (not relevant, never seen) which spends the same outpoint.
	txT2 := reproTx(o, 8000, reproOtherScript(0x02))
	if txT2.TxHash().Equal(txT.TxHash()) {
		t.Fatalf("test txs are the same")
	}
	block := reproBlock(t, *node.blocks.LastHash(), 1, reproCoinbase(1), txT2)

	err := node.ProcessBlock(ctx, block)
	t.Logf("ProcessBlock returned : %v ; chain height now %d", err, node.blocks.LastHeight())
	if err != nil {
		t.Errorf("ProcessBlock failed on a block that confirms a double spend of a delivered tx : %s",
			err)
	}

	// The client must have been told that T is cancelled (and only T).
	var cancelledT bool
	for _, update := range handler.Updates() {
		t.Logf("update : txid %s : %+v", update.TxID, update.State)
		if update.TxID.Equal(txT.TxHash()) {
			if update.State.Cancelled && update.State.UnSafe && !update.State.Safe {
				cancelledT = true
			} else {
				t.Errorf("update for T is not (cancelled, unsafe, not safe) : %+v", update.State)
			}
		} else if update.State.Cancelled {
			t.Errorf("cancel update for a tx that is not T : %s", update.TxID)
		}
	}
	if !cancelledT {
		t.Errorf("no cancel update was sent for the conflicting unconfirmed tx T %s", txT.TxHash())
	}

	// The stored state of T must say the same.
	stored, err := internalStorage.FetchTxState(ctx, store, *txT.TxHash())
	if err != nil {
		t.Fatalf("fetch stored state of T : %s", err)
	}
	t.Logf("stored state of T : %+v", stored.State)
	if !stored.State.Cancelled || !stored.State.UnSafe || stored.State.Safe {
		t.Errorf("stored state of T is not (cancelled, unsafe, not safe) : %+v", stored.State)
	}

	// The unconfirmed lock must have been released (a leaked lock would block the next user).
	done := make(chan struct{})
	go func() {
		node.txs.Contains(ctx, *txT.TxHash(), -1)
		close(done)
	}()
	select {
	case <-done:
	case <-timeAfter(2):
		t.Errorf("tx repository unconfirmed lock is still held after ProcessBlock")
	}
}
