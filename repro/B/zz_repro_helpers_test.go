// Package directory: internal/spynode
//
// Shared helpers for the zz_repro_*_test.go reproducers of this directory (group B):
//   9d8aa33 zz_repro_cancelpath_test.go
//   805dfaf zz_repro_stickyunsafe_test.go
//   e7a0ab2 zz_repro_provideblock_test.go
//   626fc14 zz_repro_stophang_test.go
//   388031a zz_repro_untrustedstall_test.go
//
// Everything here only uses code that is identical in the original snapshot (7dfe917) and in the
// fixed tree, so the same file compiles in both.
package spynode

import (
	"context"
	"sync"
	"testing"
	"time"

	"github.com/tokenized/logger"
	"github.com/tokenized/pkg/bitcoin"
	"github.com/tokenized/pkg/storage"
	"github.com/tokenized/pkg/wire"
	"github.com/tokenized/spynode/internal/platform/config"
	"github.com/tokenized/spynode/pkg/client"
)

// Main net genesis block hash. node.load() creates that block in an empty block repository.
const reproGenesisHash = "000000000019d6689c085ae165831e934ff763ae46a2a6c172b3f1b60a8ce26f"

// reproKey is the 20 byte push data the test client subscribes to.
var reproKey = []byte{0x11, 0x22, 0x33, 0x44, 0x55, 0x66, 0x77, 0x88, 0x99, 0xaa, 0xbb, 0xcc, 0xdd,
	0xee, 0xff, 0x01, 0x02, 0x03, 0x04, 0x05}

func reproCtx() context.Context {
	logConfig := logger.NewConfig(true, false, "")
	return logger.ContextWithLogConfig(context.Background(), logConfig)
}

// reproP2PKH builds a P2PKH locking script for the 20 byte hash.
func reproP2PKH(hash []byte) bitcoin.Script {
	script := []byte{0x76, 0xa9, 0x14}
	script = append(script, hash...)
	return bitcoin.Script(append(script, 0x88, 0xac))
}

// reproRelevantScript is a locking script that matches the subscription to reproKey.
func reproRelevantScript() bitcoin.Script {
	return reproP2PKH(reproKey)
}

// reproOtherScript is a locking script that doesn't match any subscription.
func reproOtherScript(salt byte) bitcoin.Script {
	hash := make([]byte, 20)
	for i := range hash {
		hash[i] = salt
	}
	return reproP2PKH(hash)
}

// reproOutPoint returns an outpoint of a tx that is unknown to the node.
func reproOutPoint(salt byte, index uint32) wire.OutPoint {
	var hash bitcoin.Hash32
	for i := range hash {
		hash[i] = salt
	}
	return wire.OutPoint{Hash: hash, Index: index}
}

// reproTx builds a tx with one input and one output.
func reproTx(spends wire.OutPoint, value uint64, lockingScript bitcoin.Script) *wire.MsgTx {
	tx := wire.NewMsgTx(1)
	// Unlocking script is a single 4 byte push that doesn't match any subscription.
	tx.AddTxIn(wire.NewTxIn(&spends, bitcoin.Script{0x04, 0xde, 0xad, 0xbe, 0xef}))
	tx.AddTxOut(wire.NewTxOut(value, lockingScript))
	return tx
}

// reproCoinbase builds a coinbase tx.
func reproCoinbase(height byte) *wire.MsgTx {
	tx := wire.NewMsgTx(1)
	tx.AddTxIn(wire.NewTxIn(&wire.OutPoint{Index: wire.MaxPrevOutIndex},
		bitcoin.Script{0x01, height}))
	tx.AddTxOut(wire.NewTxOut(5000000000, reproOtherScript(0xc0)))
	return tx
}

// reproBlock builds a block on top of prev with a correct merkle root.
func reproBlock(t *testing.T, prev bitcoin.Hash32, nonce uint32, txs ...*wire.MsgTx) *wire.MsgBlock {
	block := wire.NewMsgBlock(&wire.BlockHeader{
		Version:   1,
		PrevBlock: prev,
		Timestamp: 1600000000 + nonce,
		Bits:      0x1d00ffff,
		Nonce:     nonce,
	})
	for _, tx := range txs {
		block.AddTransaction(tx)
	}
	root, err := block.CalculateMerkleHash()
	if err != nil {
		t.Fatalf("calculate merkle root : %s", err)
	}
	block.Header.MerkleRoot = *root
	if !block.IsMerkleRootValid() {
		t.Fatalf("test block has an invalid merkle root")
	}
	return block
}

// reproCopyBlock returns a block with the same header and txs and a fresh tx iterator, like the
// same block received again from the network.
func reproCopyBlock(block *wire.MsgBlock) *wire.MsgBlock {
	result := wire.NewMsgBlock(&block.Header)
	for _, tx := range block.Transactions {
		result.AddTransaction(tx)
	}
	return result
}

// reproOutputFetcher is an in-process OutputFetcher that knows every output.
type reproOutputFetcher struct{}

func (reproOutputFetcher) GetOutputs(ctx context.Context,
	outpoints []wire.OutPoint) ([]bitcoin.UTXO, error) {
	result := make([]bitcoin.UTXO, len(outpoints))
	for i, outpoint := range outpoints {
		result[i] = bitcoin.UTXO{
			Hash:          outpoint.Hash,
			Index:         outpoint.Index,
			Value:         10000,
			LockingScript: reproOtherScript(0xf0),
		}
	}
	return result, nil
}

// reproHandler is a client.Handler that records everything it is given.
type reproHandler struct {
	lock    sync.Mutex
	txs     []*client.Tx // including nil values
	updates []*client.TxUpdate
	headers []*client.Headers
}

func (h *reproHandler) HandleTx(ctx context.Context, tx *client.Tx) {
	h.lock.Lock()
	defer h.lock.Unlock()
	h.txs = append(h.txs, tx)
}

func (h *reproHandler) HandleTxUpdate(ctx context.Context, update *client.TxUpdate) {
	h.lock.Lock()
	defer h.lock.Unlock()
	h.updates = append(h.updates, update)
}

func (h *reproHandler) HandleHeaders(ctx context.Context, headers *client.Headers) {
	h.lock.Lock()
	defer h.lock.Unlock()
	h.headers = append(h.headers, headers)
}

func (h *reproHandler) HandleInSync(ctx context.Context) {}

func (h *reproHandler) HandleMessage(ctx context.Context, payload client.MessagePayload) {}

func (h *reproHandler) Txs() []*client.Tx {
	h.lock.Lock()
	defer h.lock.Unlock()
	return append([]*client.Tx{}, h.txs...)
}

func (h *reproHandler) Updates() []*client.TxUpdate {
	h.lock.Lock()
	defer h.lock.Unlock()
	return append([]*client.TxUpdate{}, h.updates...)
}

// reproNode creates a node on the store with the handler registered. When load is true it is
// loaded like Run() does (genesis block only, start block = genesis) but not connected.
func reproNode(t *testing.T, ctx context.Context, store storage.Storage, nodeAddress string,
	handler client.Handler, load bool) *Node {

	cfg, err := config.NewConfig(bitcoin.MainNet, true, nodeAddress, "Repro Test",
		reproGenesisHash, 0 /* untrusted */, 2000 /* safe delay */, 1 /* shotgun */, 0, 100, false)
	if err != nil {
		t.Fatalf("config : %s", err)
	}

	node := NewNode(cfg, store, nil, reproOutputFetcher{})
	node.RegisterHandler(handler)

	if load {
		if err := node.load(ctx); err != nil {
			t.Fatalf("load : %s", err)
		}
		if node.blocks.LastHeight() != 0 ||
			node.blocks.LastHash().String() != reproGenesisHash {
			t.Fatalf("unexpected chain tip after load : %d %s", node.blocks.LastHeight(),
				node.blocks.LastHash())
		}
		if node.state.StartHeight() != 0 {
			t.Fatalf("start height not found : %d", node.state.StartHeight())
		}
	}

	return node
}

func timeAfter(seconds int) <-chan time.Time {
	return time.After(time.Duration(seconds) * time.Second)
}
