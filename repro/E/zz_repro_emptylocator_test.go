package spynode

import (
	"context"
	"testing"

	"github.com/tokenized/pkg/bitcoin"
	"github.com/tokenized/pkg/storage"
	"github.com/tokenized/pkg/wire"
	"github.com/tokenized/spynode/internal/platform/config"
)

type reproENoTx struct{}

func (reproENoTx) GetTx(ctx context.Context, txid bitcoin.Hash32) (*wire.MsgTx, error) {
	return nil, nil
}

type reproENoOutputs struct{}

func (reproENoOutputs) GetOutputs(ctx context.Context, o []wire.OutPoint) ([]bitcoin.UTXO, error) {
	return nil, nil
}

// TestRepro_EmptyLocator: a fresh node (chain = genesis, height 0) whose trusted peer has exactly
// one block more. The headers reply [h1] was handled (one block request, no header request
// outstanding), the block has not arrived yet and the node is not in sync. The periodic
// Node.check() then builds the follow-up header request: with height 0 and a single pending request
// the locator is empty, and check() must not crash on it.
func TestRepro_EmptyLocator(t *testing.T) {
	ctx := context.Background()
	cfg, err := config.NewConfig(bitcoin.MainNet, true, "127.0.0.1:0", "/repro-e/",
		"0000000000000000000000000000000000000000000000000000000000000000", 0, 10, 0, 1, 1, false)
	if err != nil {
		t.Fatalf("config : %s", err)
	}
	node := NewNode(cfg, storage.NewMockStorage(), reproENoTx{}, reproENoOutputs{})
	if err := node.blocks.Load(ctx); err != nil {
		t.Fatalf("load blocks : %s", err)
	}
	if node.blocks.LastHeight() != 0 {
		t.Fatalf("expected a fresh chain at height 0, got %d", node.blocks.LastHeight())
	}
	if err := node.outgoing.Open(10); err != nil {
		t.Fatalf("open outgoing : %s", err)
	}

	// state after version/verack and after the first headers reply [h1] was handled
	node.state.SetVersionReceived()
	node.state.SetHandshakeComplete()
	node.state.SetStartHeight(1)
	node.state.SetLastHash(*node.blocks.LastHash()) // as Node.Run does after loading the chain
	h1 := wire.BlockHeader{Version: 1, PrevBlock: *node.blocks.LastHash(), Timestamp: 1, Bits: 0x1d00ffff}
	if _, err := node.state.AddBlockRequest(&h1.PrevBlock, h1.BlockHash()); err != nil {
		t.Fatalf("add block request : %s", err)
	}
	if node.state.IsReady() || node.state.HeadersRequested() != nil {
		t.Fatalf("unexpected state")
	}

	defer func() {
		if p := recover(); p != nil {
			t.Fatalf("Node.check panicked : %v", p)
		}
	}()
	if err := node.check(ctx); err != nil {
		t.Fatalf("check : %s", err)
	}
	if node.state.HeadersRequested() == nil {
		t.Errorf("no header request was recorded")
	}
}
