// Package directory: pkg/client
// Fix commit exercised: 9a75371 "fix: remove the pending request when sending it fails" (property
// C16, rule C16.R2, key client.(*RemoteClient).GetTx#request-answered-or-removed).
//
// Failing history on the original code: GetTx(T) while the connection is not up: addRequest
// succeeds, sendMessage fails with a timeout, the pending entry stays registered. When the
// connection is up GetTx(T) is retried: the BaseTx answer is delivered to the stale entry's channel
// (first match in c.requests), nobody reads it, and the retry returns ErrTimeout.
//
// Two ways for sendMessage to fail are exercised:
//   - SendQueueFull: the send queue (capacity 100, as created by Run) is full of messages queued
//     while there was no connection, so the get tx message is never queued ("add to send channel"
//     timeout). After the connection is up only the retry's message reaches the server, there is one
//     answer, and the stale entry swallows it.
//   - NoSendConfirmation: the message is queued but not written within the message timeout ("wait
//     for response" timeout). Here only the registration is checked (white box), because the queued
//     message is still sent once the connection is up, so the server answers twice and the retry is
//     served by the second answer.
//
// The RemoteClient is run without a network: the test plays the part of the connection threads
// (sendMessages/receiveMessages/handleMessages) and of the server. Every message is passed through
// the real wire codec in both directions and handed to the real handleMessage, which feeds the real
// runRequests goroutine.
package client

import (
	"bytes"
	"context"
	"testing"
	"time"

	"github.com/pkg/errors"
	"github.com/tokenized/config"
	"github.com/tokenized/logger"
	"github.com/tokenized/pkg/bitcoin"
	"github.com/tokenized/pkg/wire"
)

// reproSFClient creates a remote client in the state it has after a completed handshake, with the
// channels Run would have created.
func reproSFClient(t *testing.T, requestTimeout, messageTimeout time.Duration) *RemoteClient {
	key, err := bitcoin.GenerateKey(bitcoin.MainNet)
	if err != nil {
		t.Fatalf("Failed to generate key : %s", err)
	}

	cfg := NewConfig("", key.PublicKey(), key, 0, ConnectionTypeFull)
	cfg.RequestTimeout = config.NewDuration(requestTimeout)
	cfg.MessageChannelTimeout = config.NewDuration(messageTimeout)

	c, err := NewRemoteClient(cfg)
	if err != nil {
		t.Fatalf("Failed to create remote client : %s", err)
	}

	c.sendChannel = make(chan *sendMessageRequest, 100)
	c.handlerChannel = make(chan *Message, 100)
	c.accepted.Store(true)
	c.handshakeComplete.Store(true)
	c.isConnected.Store(true)
	return c
}

// reproSFOverWire passes a payload through the wire codec.
func reproSFOverWire(p MessagePayload) (*Message, error) {
	buf := &bytes.Buffer{}
	if err := (Message{Payload: p}).Serialize(buf); err != nil {
		return nil, errors.Wrap(err, "serialize")
	}
	m := &Message{}
	if err := m.Deserialize(buf); err != nil {
		return nil, errors.Wrap(err, "deserialize")
	}
	if buf.Len() != 0 {
		return nil, errors.New("bytes left over")
	}
	return m, nil
}

// reproSFRequests runs the real requests goroutine. The returned function stops it and waits for it,
// after which c.requests can be read.
func reproSFRequests(ctx context.Context, c *RemoteClient) func() {
	interrupt := make(chan interface{})
	done := make(chan struct{})
	go func() {
		defer close(done)
		c.runRequests(ctx, interrupt)
	}()

	stopped := false
	return func() {
		if stopped {
			return
		}
		stopped = true
		close(interrupt)
		<-done
	}
}

// reproSFServer runs a fake connection + server : it takes the messages the client queued for
// sending, and calls respond with each of them, which returns the messages the server answers with.
func reproSFServer(t *testing.T, ctx context.Context, c *RemoteClient,
	respond func(MessagePayload) []MessagePayload) func() {

	interrupt := make(chan interface{})
	done := make(chan struct{})
	go func() {
		defer close(done)
		for {
			select {
			case <-interrupt:
				return
			case sm := <-c.sendChannel:
				// Written to the connection (confirmed to the sender as sendMessages does), then
				// read by the server.
				buf := &bytes.Buffer{}
				err := sm.msg.Serialize(buf)
				if sm.response != nil {
					sm.response <- err
				}
				if err != nil {
					t.Errorf("Failed to serialize client message : %s", err)
					continue
				}
				received := &Message{}
				if err := received.Deserialize(buf); err != nil || buf.Len() != 0 {
					t.Errorf("Failed to deserialize client message : %v (%d bytes left)", err,
						buf.Len())
					continue
				}

				// Network latency : the answer arrives after the requests goroutine has taken the
				// request off its queue. (Registration is asynchronous, runRequests selects between
				// the add queue and the response queue, so an answer that is already queued when
				// the request is still in the add queue can be routed before the request is known.)
				for i := 0; len(c.addRequestsChannel) > 0 && i < 20000; i++ {
					time.Sleep(50 * time.Microsecond)
				}

				for _, p := range respond(received.Payload) {
					answer, err := reproSFOverWire(p)
					if err != nil {
						t.Errorf("Failed to pass server message over the wire : %s", err)
						continue
					}
					if err := c.handleMessage(ctx, answer); err != nil {
						t.Errorf("Failed to handle message : %s", err)
					}
				}
			}
		}
	}()

	stopped := false
	return func() {
		if stopped {
			return
		}
		stopped = true
		close(interrupt)
		<-done
	}
}

// reproSFStart runs the requests goroutine and the fake connection + server.
func reproSFStart(t *testing.T, ctx context.Context, c *RemoteClient,
	respond func(MessagePayload) []MessagePayload) func() {

	stopServer := reproSFServer(t, ctx, c, respond)
	stopRequests := reproSFRequests(ctx, c)
	return func() {
		stopServer()
		stopRequests()
	}
}

func TestRepro_SendFail(t *testing.T) {
	ctx := logger.ContextWithNoLogger(context.Background())
	requestTimeout := 500 * time.Millisecond
	messageTimeout := 100 * time.Millisecond

	var prev bitcoin.Hash32
	for i := range prev {
		prev[i] = byte(i + 1)
	}
	tx := wire.NewMsgTx(1)
	tx.AddTxIn(wire.NewTxIn(wire.NewOutPoint(&prev, 0), []byte{0x51, 0x52, 0x53}))
	tx.AddTxOut(wire.NewTxOut(1000, []byte{0x76, 0xa9, 0x14}))
	txid := *tx.TxHash()

	newServer := func(getTxCount *int) func(p MessagePayload) []MessagePayload {
		return func(p MessagePayload) []MessagePayload {
			switch msg := p.(type) {
			case *GetTx:
				*getTxCount++
				if !msg.TxID.Equal(&txid) {
					return nil
				}
				return []MessagePayload{&BaseTx{Tx: tx}}
			}
			return nil
		}
	}

	getTx := func(t *testing.T, c *RemoteClient) (*wire.MsgTx, error) {
		type result struct {
			tx  *wire.MsgTx
			err error
		}
		results := make(chan result, 1)
		go func() {
			tx, err := c.GetTx(ctx, txid)
			results <- result{tx: tx, err: err}
		}()

		select {
		case r := <-results:
			return r.tx, r.err
		case <-time.After(5 * time.Second):
			t.Fatalf("GetTx hangs")
			return nil, nil
		}
	}

	t.Run("SendQueueFull", func(t *testing.T) {
		c := reproSFClient(t, requestTimeout, messageTimeout)
		stopRequests := reproSFRequests(ctx, c)
		defer stopRequests()

		// There is no connection yet (the state before the first connection is established, so the
		// client is not "reconnecting"), and the send queue is full of messages that wait for it.
		for i := 0; i < cap(c.sendChannel); i++ {
			c.sendChannel <- &sendMessageRequest{
				msg: &Message{Payload: &Ping{TimeStamp: uint64(i)}},
			}
		}

		start := time.Now()
		_, err := getTx(t, c)
		if errors.Cause(err) != ErrTimeout {
			t.Fatalf("GetTx without a connection returned %v, want a send timeout", err)
		}
		t.Logf("GetTx without a connection failed after %s : %s", time.Since(start), err)

		// The connection is up : the queued messages are written and the server answers.
		getTxCount := 0
		stopServer := reproSFServer(t, ctx, c, newServer(&getTxCount))
		defer stopServer()

		start = time.Now()
		gotTx, err := getTx(t, c)
		if err != nil {
			t.Fatalf("Retried GetTx failed after %s although the server answered it : %s",
				time.Since(start), err)
		}
		if !gotTx.TxHash().Equal(&txid) {
			t.Fatalf("Retried GetTx returned the wrong tx : %s", gotTx.TxHash())
		}
		t.Logf("Retried GetTx returned the tx after %s", time.Since(start))

		stopServer()
		stopRequests()
		if getTxCount != 1 {
			t.Errorf("Server received %d get tx messages, want 1", getTxCount)
		}
		if len(c.requests) != 0 {
			t.Errorf("%d requests still pending at the end", len(c.requests))
		}
	})

	t.Run("NoSendConfirmation", func(t *testing.T) {
		c := reproSFClient(t, requestTimeout, messageTimeout)
		stopRequests := reproSFRequests(ctx, c)
		defer stopRequests()

		// No connection : the message is queued but nothing writes it.
		start := time.Now()
		_, err := getTx(t, c)
		if errors.Cause(err) != ErrTimeout {
			t.Fatalf("GetTx without a connection returned %v, want a send timeout", err)
		}
		t.Logf("GetTx without a connection failed after %s : %s", time.Since(start), err)

		// The call returned an error to its caller, so nothing waits for an answer any more.
		time.Sleep(50 * time.Millisecond) // let the requests goroutine process add (and remove)
		stopRequests()
		if len(c.requests) != 0 {
			t.Fatalf("%d request (type %s, hash %s) is still pending after the call failed",
				len(c.requests), NameForMessageType(c.requests[0].typ), c.requests[0].hash)
		}
	})
}
