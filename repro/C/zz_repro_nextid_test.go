// Package directory: pkg/client
// Fix commit exercised: c336362 "fix: only advance the next message id for messages handed to the
// handler, and set it before sending ready" (property C17, rule C17.R2, key
// client.(*RemoteClient).handleMessage#Tx#advanced-only-after-hand-over).
//
// Failing histories on the original code:
//
//	(a) DroppedNotCounted: the handler queue is full for MessageTimeout: Tx id 7 is dropped by
//	    addHandlerMessage but nextMessageID is already 8; after the reconnect the application calls
//	    Ready(NextMessageID() = 8) and message 7 is skipped for good. Same for a TxUpdate.
//	(b) ReadyBeforeSend: Ready(5): the server's Tx id 5 arrives (and is handled by the handle
//	    messages goroutine) before nextMessageID.Store(5) runs in the goroutine that called Ready;
//	    it is compared with the old value and discarded, then ids 6, 7, ... are all refused as out
//	    of order.
//
// The RemoteClient is run without a network. For (b) a fake net.Conn plays the server: when the
// ready message has been written to it, it passes the first tx message through the real wire codec
// to the real handleMessage in another goroutine (the handle messages goroutine) and only then lets
// the Write call return. This is an interleaving the real threads allow.
package client

import (
	"bytes"
	"context"
	"net"
	"testing"
	"time"

	"github.com/pkg/errors"
	"github.com/tokenized/config"
	"github.com/tokenized/logger"
	"github.com/tokenized/pkg/bitcoin"
	"github.com/tokenized/pkg/wire"
)

// reproNIClient creates a remote client in the state it has after a completed handshake, with the
// channels Run would have created.
func reproNIClient(t *testing.T, requestTimeout, messageTimeout time.Duration) *RemoteClient {
	key, err := bitcoin.GenerateKey(bitcoin.MainNet)
	if err != nil {
		t.Fatalf("Failed to generate key : %s", err)
	}

	cfg := NewConfig("", key.PublicKey(), key, 0, ConnectionTypeFull)
	cfg.RequestTimeout = config.NewDuration(requestTimeout)
	cfg.MessageChannelTimeout = config.NewDuration(messageTimeout)

	c, err := NewRemoteClient(cfg)
	if err != nil {
		t.Fatalf("Failed to create remote client : %s", err)
	}

	c.sendChannel = make(chan *sendMessageRequest, 100)
	c.handlerChannel = make(chan *Message, 100)
	c.accepted.Store(true)
	c.handshakeComplete.Store(true)
	c.isConnected.Store(true)
	return c
}

// reproNIOverWire passes a payload through the wire codec.
func reproNIOverWire(p MessagePayload) (*Message, error) {
	buf := &bytes.Buffer{}
	if err := (Message{Payload: p}).Serialize(buf); err != nil {
		return nil, errors.Wrap(err, "serialize")
	}
	m := &Message{}
	if err := m.Deserialize(buf); err != nil {
		return nil, errors.Wrap(err, "deserialize")
	}
	if buf.Len() != 0 {
		return nil, errors.New("bytes left over")
	}
	return m, nil
}

func reproNITx(i int) *wire.MsgTx {
	var prev bitcoin.Hash32
	prev[0], prev[1] = byte(i), 0x77
	tx := wire.NewMsgTx(1)
	tx.AddTxIn(wire.NewTxIn(wire.NewOutPoint(&prev, 0), []byte{0x51, byte(i)}))
	tx.AddTxOut(wire.NewTxOut(uint64(1000+i), []byte{0x76, 0xa9}))
	return tx
}

func reproNITxMessage(id uint64) *Tx {
	return &Tx{
		ID:      id,
		Tx:      reproNITx(int(id)),
		Outputs: []*wire.TxOut{wire.NewTxOut(5000, []byte{0x76})},
		State:   TxState{Safe: true},
	}
}

// reproNIConn is the client side of a connection to a fake server.
type reproNIConn struct {
	net.Conn // nil, only Write is used

	written bytes.Buffer
	onReady func(nextMessageID uint64) // called when the server has received a ready message
}

func (conn *reproNIConn) Write(b []byte) (int, error) {
	conn.written.Write(b)

	// Server side : read complete messages.
	for conn.written.Len() > 0 {
		r := bytes.NewReader(conn.written.Bytes())
		m := &Message{}
		if err := m.Deserialize(r); err != nil {
			break // incomplete
		}
		conn.written.Next(conn.written.Len() - r.Len())

		if ready, ok := m.Payload.(*Ready); ok {
			conn.onReady(ready.NextMessageID)
		}
	}

	return len(b), nil
}

func TestRepro_NextID(t *testing.T) {
	ctx := logger.ContextWithNoLogger(context.Background())

	t.Run("DroppedNotCounted", func(t *testing.T) {
		messageTimeout := 100 * time.Millisecond
		c := reproNIClient(t, 500*time.Millisecond, messageTimeout)

		// The handler is busy and its queue (capacity 100, as created by Run) is full.
		for i := 0; i < cap(c.handlerChannel); i++ {
			c.handlerChannel <- &Message{Payload: &InSync{}}
		}

		c.nextMessageID.Store(uint64(7))

		txMessage, err := reproNIOverWire(reproNITxMessage(7))
		if err != nil {
			t.Fatalf("Failed to pass tx over the wire : %s", err)
		}

		start := time.Now()
		if err := c.handleMessage(ctx, txMessage); err != nil {
			t.Fatalf("Failed to handle tx message : %s", err)
		}
		if elapsed := time.Since(start); elapsed < messageTimeout {
			t.Fatalf("Tx message was not held for the message timeout : %s", elapsed)
		}

		// The message was not handed over.
		delivered := false
		for len(c.handlerChannel) > 0 {
			m := <-c.handlerChannel
			if tx, ok := m.Payload.(*Tx); ok && tx.ID == 7 {
				delivered = true
			}
		}
		if delivered {
			t.Fatalf("Tx message 7 was queued for the handler, the queue was not full")
		}

		// What the application passes to Ready after the reconnect.
		if next := c.NextMessageID(); next != 7 {
			t.Errorf("Tx message 7 was dropped but NextMessageID() is %d : Ready(%d) skips it",
				next, next)
		}

		// Same for a tx update. The queue is empty now, so fill it again.
		for i := 0; i < cap(c.handlerChannel); i++ {
			c.handlerChannel <- &Message{Payload: &InSync{}}
		}
		c.nextMessageID.Store(uint64(7))

		updateMessage, err := reproNIOverWire(&TxUpdate{
			ID:    7,
			TxID:  *reproNITx(3).TxHash(),
			State: TxState{Safe: true},
		})
		if err != nil {
			t.Fatalf("Failed to pass tx update over the wire : %s", err)
		}
		if err := c.handleMessage(ctx, updateMessage); err != nil {
			t.Fatalf("Failed to handle tx update message : %s", err)
		}
		if next := c.NextMessageID(); next != 7 {
			t.Errorf("Tx update message 7 was dropped but NextMessageID() is %d : Ready(%d) "+
				"skips it", next, next)
		}

		// When there is room the message is handed over and counted.
		for len(c.handlerChannel) > 0 {
			<-c.handlerChannel
		}
		c.nextMessageID.Store(uint64(7))
		if err := c.handleMessage(ctx, txMessage); err != nil {
			t.Fatalf("Failed to handle tx message : %s", err)
		}
		if len(c.handlerChannel) != 1 || c.NextMessageID() != 8 {
			t.Errorf("Tx message 7 with room in the queue : %d queued, NextMessageID() %d, "+
				"want 1 and 8", len(c.handlerChannel), c.NextMessageID())
		}
	})

	t.Run("ReadyBeforeSend", func(t *testing.T) {
		c := reproNIClient(t, 500*time.Millisecond, 100*time.Millisecond)

		// A new connection : accepted, the handshake is completed by Ready.
		c.handshakeComplete.Store(false)
		c.handshakeCompleteChannel.Store(make(chan interface{}, 5))

		var serverSawReady []uint64
		conn := &reproNIConn{}
		conn.onReady = func(nextMessageID uint64) {
			serverSawReady = append(serverSawReady, nextMessageID)

			// The server answers with the first message at once, and the handle messages goroutine
			// handles it before the goroutine that wrote the ready message runs again.
			handled := make(chan error)
			go func() {
				m, err := reproNIOverWire(reproNITxMessage(nextMessageID))
				if err != nil {
					handled <- err
					return
				}
				handled <- c.handleMessage(ctx, m)
			}()
			if err := <-handled; err != nil {
				t.Errorf("Failed to handle first tx message : %s", err)
			}
		}
		c.conn.Store(net.Conn(conn))

		// The client has processed messages up to 4 in a previous session, but this RemoteClient
		// is new (next message id 1 from NewRemoteClient).
		if err := c.Ready(ctx, 5); err != nil {
			t.Fatalf("Ready failed : %s", err)
		}
		if len(serverSawReady) != 1 || serverSawReady[0] != 5 {
			t.Fatalf("Server saw ready messages %v, want [5]", serverSawReady)
		}

		// The following messages arrive.
		for id := uint64(6); id <= 8; id++ {
			m, err := reproNIOverWire(reproNITxMessage(id))
			if err != nil {
				t.Fatalf("Failed to pass tx over the wire : %s", err)
			}
			if err := c.handleMessage(ctx, m); err != nil {
				t.Fatalf("Failed to handle tx message : %s", err)
			}
		}

		var deliveredIDs []uint64
		for len(c.handlerChannel) > 0 {
			m := <-c.handlerChannel
			if tx, ok := m.Payload.(*Tx); ok {
				deliveredIDs = append(deliveredIDs, tx.ID)
			}
		}

		want := []uint64{5, 6, 7, 8}
		ok := len(deliveredIDs) == len(want)
		for i := 0; ok && i < len(want); i++ {
			ok = deliveredIDs[i] == want[i]
		}
		if !ok {
			t.Errorf("Tx messages handed to the handler : %v, want %v", deliveredIDs, want)
		}
		if next := c.NextMessageID(); next != 9 {
			t.Errorf("NextMessageID() is %d, want 9", next)
		}
	})
}
