// Package directory: pkg/client
// Fix commit exercised: 468118a "fix: SaveTxs sets the request hash before the request is
// published" (property C16, rule C16.R3, key
// client.(*RemoteClient).SaveTxs#request-immutable-after-publication).
//
// Failing history on the original code: SaveTxs(txs): addRequest hands the request with a zero hash
// to the requests goroutine, then the caller computes the hash of the txids and writes request.hash
// while the requests goroutine can already read it: an accept/reject routed in between is compared
// with the zero hash.
//
//   - HashSetAtPublication: the test takes the place of the requests goroutine at the hand-over
//     point (it receives from addRequestsChannel) and looks at the key the request is matched by at
//     the moment it is published. (On the original code this read is exactly the racing read the
//     requests goroutine does.) The request is then given to the real runRequests and answered.
//   - ZeroHashAccept: the real runRequests routes a stream of save txs accepts carrying the zero
//     hash (which is nobody's request) while SaveTxs is called; the server rejects the real
//     request. The call must return the server's reject.
//
// Many txs are saved so that computing the hash takes about a hundred milliseconds: the window between the
// publication and the write of the hash on the original code is then far wider than any scheduling
// delay (`go test -race` additionally reports the write/read pair as a data race on the original
// code when the race detector is available).
//
// The RemoteClient is run without a network: the test plays the part of the connection threads
// (sendMessages/receiveMessages/handleMessages) and of the server. Every message is passed through
// the real wire codec in both directions and handed to the real handleMessage, which feeds the real
// runRequests goroutine.
package client

import (
	"bytes"
	"context"
	"crypto/sha256"
	"testing"
	"time"

	"github.com/pkg/errors"
	"github.com/tokenized/config"
	"github.com/tokenized/logger"
	"github.com/tokenized/pkg/bitcoin"
	"github.com/tokenized/pkg/expanded_tx"
	"github.com/tokenized/pkg/wire"
)

// reproSTClient creates a remote client in the state it has after a completed handshake, with the
// channels Run would have created.
func reproSTClient(t *testing.T, requestTimeout, messageTimeout time.Duration) *RemoteClient {
	key, err := bitcoin.GenerateKey(bitcoin.MainNet)
	if err != nil {
		t.Fatalf("Failed to generate key : %s", err)
	}

	cfg := NewConfig("", key.PublicKey(), key, 0, ConnectionTypeFull)
	cfg.RequestTimeout = config.NewDuration(requestTimeout)
	cfg.MessageChannelTimeout = config.NewDuration(messageTimeout)

	c, err := NewRemoteClient(cfg)
	if err != nil {
		t.Fatalf("Failed to create remote client : %s", err)
	}

	c.sendChannel = make(chan *sendMessageRequest, 100)
	c.handlerChannel = make(chan *Message, 100)
	c.accepted.Store(true)
	c.handshakeComplete.Store(true)
	c.isConnected.Store(true)
	return c
}

// reproSTOverWire passes a payload through the wire codec.
func reproSTOverWire(p MessagePayload) (*Message, error) {
	buf := &bytes.Buffer{}
	if err := (Message{Payload: p}).Serialize(buf); err != nil {
		return nil, errors.Wrap(err, "serialize")
	}
	m := &Message{}
	if err := m.Deserialize(buf); err != nil {
		return nil, errors.Wrap(err, "deserialize")
	}
	if buf.Len() != 0 {
		return nil, errors.New("bytes left over")
	}
	return m, nil
}

// reproSTRequests runs the real requests goroutine. The returned function stops it and waits for it,
// after which c.requests can be read.
func reproSTRequests(ctx context.Context, c *RemoteClient) func() {
	interrupt := make(chan interface{})
	done := make(chan struct{})
	go func() {
		defer close(done)
		c.runRequests(ctx, interrupt)
	}()

	stopped := false
	return func() {
		if stopped {
			return
		}
		stopped = true
		close(interrupt)
		<-done
	}
}

// reproSTServer runs a fake connection + server : it takes the messages the client queued for
// sending, and calls respond with each of them, which returns the messages the server answers with.
func reproSTServer(t *testing.T, ctx context.Context, c *RemoteClient,
	respond func(MessagePayload) []MessagePayload) func() {

	interrupt := make(chan interface{})
	done := make(chan struct{})
	go func() {
		defer close(done)
		for {
			select {
			case <-interrupt:
				return
			case sm := <-c.sendChannel:
				// Written to the connection (confirmed to the sender as sendMessages does), then
				// read by the server.
				buf := &bytes.Buffer{}
				err := sm.msg.Serialize(buf)
				if sm.response != nil {
					sm.response <- err
				}
				if err != nil {
					t.Errorf("Failed to serialize client message : %s", err)
					continue
				}
				received := &Message{}
				if err := received.Deserialize(buf); err != nil || buf.Len() != 0 {
					t.Errorf("Failed to deserialize client message : %v (%d bytes left)", err,
						buf.Len())
					continue
				}

				// Network latency : the answer arrives after the requests goroutine has taken the
				// request off its queue. (Registration is asynchronous, runRequests selects between
				// the add queue and the response queue, so an answer that is already queued when
				// the request is still in the add queue can be routed before the request is known.)
				for i := 0; len(c.addRequestsChannel) > 0 && i < 20000; i++ {
					time.Sleep(50 * time.Microsecond)
				}

				for _, p := range respond(received.Payload) {
					answer, err := reproSTOverWire(p)
					if err != nil {
						t.Errorf("Failed to pass server message over the wire : %s", err)
						continue
					}
					if err := c.handleMessage(ctx, answer); err != nil {
						t.Errorf("Failed to handle message : %s", err)
					}
				}
			}
		}
	}()

	stopped := false
	return func() {
		if stopped {
			return
		}
		stopped = true
		close(interrupt)
		<-done
	}
}

// reproSTStart runs the requests goroutine and the fake connection + server.
func reproSTStart(t *testing.T, ctx context.Context, c *RemoteClient,
	respond func(MessagePayload) []MessagePayload) func() {

	stopServer := reproSTServer(t, ctx, c, respond)
	stopRequests := reproSTRequests(ctx, c)
	return func() {
		stopServer()
		stopRequests()
	}
}

func reproSTTxs(count int) (expanded_tx.AncestorTxs, bitcoin.Hash32) {
	hasher := sha256.New()
	txs := make(expanded_tx.AncestorTxs, count)
	for i := range txs {
		var prev bitcoin.Hash32
		prev[0], prev[1], prev[2], prev[3] = byte(i), byte(i>>8), byte(i>>16), 0x5a

		tx := wire.NewMsgTx(1)
		tx.AddTxIn(wire.NewTxIn(wire.NewOutPoint(&prev, uint32(i)), make([]byte, 107)))
		tx.AddTxOut(wire.NewTxOut(uint64(1000+i), make([]byte, 25)))
		txs[i] = &expanded_tx.AncestorTx{Tx: tx}

		txid := *tx.TxHash()
		hasher.Write(txid[:])
	}

	hash, _ := bitcoin.NewHash32(hasher.Sum(nil))
	return txs, *hash
}

func TestRepro_SaveTxs(t *testing.T) {
	ctx := logger.ContextWithNoLogger(context.Background())
	requestTimeout := 10 * time.Second
	messageTimeout := 5 * time.Second

	start := time.Now()
	txs, txsHash := reproSTTxs(60000)
	t.Logf("Hash of %d txids : %s (computed in %s)", len(txs), txsHash, time.Since(start))
	var zeroHash bitcoin.Hash32

	saveTxs := func(c *RemoteClient) <-chan error {
		results := make(chan error, 1)
		go func() {
			results <- c.SaveTxs(ctx, txs)
		}()
		return results
	}

	t.Run("HashSetAtPublication", func(t *testing.T) {
		c := reproSTClient(t, requestTimeout, messageTimeout)

		// The server accepts the txs with the hash of the txids.
		stopServer := reproSTServer(t, ctx, c, func(p MessagePayload) []MessagePayload {
			switch msg := p.(type) {
			case *SaveTxs:
				if len(msg.Txs) != len(txs) {
					t.Errorf("Server received %d txs, want %d", len(msg.Txs), len(txs))
				}
				return []MessagePayload{&Accept{MessageType: MessageTypeSaveTxs, Hash: &txsHash}}
			}
			return nil
		})
		defer stopServer()

		results := saveTxs(c)

		// Stand in for the requests goroutine at the hand-over.
		var published *request
		var hashAtPublication bitcoin.Hash32
		select {
		case published = <-c.addRequestsChannel:
			hashAtPublication = published.hash // what the router would match against right now
		case <-time.After(5 * time.Second):
			t.Fatalf("SaveTxs didn't publish a request")
		}

		if published.typ != MessageTypeSaveTxs {
			t.Fatalf("Published request has type %s", NameForMessageType(published.typ))
		}

		// Let the real requests goroutine continue with the published request.
		c.requests = append(c.requests, published)
		stopRequests := reproSTRequests(ctx, c)
		defer stopRequests()

		select {
		case err := <-results:
			if err != nil {
				t.Errorf("SaveTxs failed : %s", err)
			}
		case <-time.After(30 * time.Second):
			t.Fatalf("SaveTxs hangs")
		}

		if hashAtPublication.Equal(&zeroHash) {
			t.Fatalf("The request was published with a zero hash, the key it is matched by (%s) "+
				"was written after publication", published.hash)
		}
		if !hashAtPublication.Equal(&txsHash) {
			t.Fatalf("Wrong hash at publication : got %s, want %s", hashAtPublication, txsHash)
		}
	})

	t.Run("ZeroHashAccept", func(t *testing.T) {
		c := reproSTClient(t, requestTimeout, messageTimeout)

		// The server refuses the txs.
		stop := reproSTStart(t, ctx, c, func(p MessagePayload) []MessagePayload {
			switch p.(type) {
			case *SaveTxs:
				return []MessagePayload{&Reject{
					MessageType: MessageTypeSaveTxs,
					Hash:        &txsHash,
					Code:        RejectCodeInvalid,
					Message:     "txs refused",
				}}
			}
			return nil
		})
		defer stop()

		// Accepts for save txs with a zero hash keep arriving. They are not for this request.
		stopAccepts := make(chan struct{})
		acceptsDone := make(chan int)
		go func() {
			count := 0
			defer func() { acceptsDone <- count }()
			for {
				select {
				case <-stopAccepts:
					return
				default:
				}

				accept, err := reproSTOverWire(&Accept{
					MessageType: MessageTypeSaveTxs,
					Hash:        &zeroHash,
				})
				if err != nil {
					t.Errorf("Failed to pass accept over the wire : %s", err)
					return
				}
				if err := c.handleMessage(ctx, accept); err != nil {
					t.Errorf("Failed to handle accept : %s", err)
					return
				}
				count++
				time.Sleep(20 * time.Microsecond)
			}
		}()

		time.Sleep(5 * time.Millisecond) // accepts are flowing before the call
		var err error
		select {
		case err = <-saveTxs(c):
		case <-time.After(30 * time.Second):
			t.Fatalf("SaveTxs hangs")
		}
		close(stopAccepts)
		t.Logf("%d zero hash accepts were routed", <-acceptsDone)

		if err == nil {
			t.Fatalf("SaveTxs reported success although the server rejected the txs : an accept " +
				"with the zero hash was matched to the request")
		}
		rejectErr, ok := errors.Cause(err).(RejectError)
		if !ok || rejectErr.Code != RejectCodeInvalid || rejectErr.Description != "txs refused" {
			t.Fatalf("SaveTxs returned %q, want the server's reject", err)
		}
		t.Logf("SaveTxs returned : %s", err)
	})
}
