// Package directory: pkg/client
// Fix commit exercised: c151f42 "fix: GetOutputs returns each outpoint's own output and an error
// for an invalid index" (property C16, rule C16.R7, key
// client.(*RemoteClient).GetOutputs#output-of-own-outpoint#2).
//
// Failing history on the original code:
//   - GetOutputs([(A,0),(A,1),(C,0)]): for i=0 the inner loop ranges j over outpoints[1:] but indexes
//     outpoints[j]/outputs[j] absolutely and copies tx.TxOut[outpoint.Index] of the outer outpoint, so
//     entry 1 gets output 0 of A.
//   - GetOutputs([(A,7)]) where A has 2 outputs returns errors.Wrap(nil, ...) == nil error together
//     with a nil slice.
//
// The RemoteClient is run without a network: the test plays the part of the connection threads
// (sendMessages/receiveMessages/handleMessages) and of the server. Every message is passed through
// the real wire codec in both directions and handed to the real handleMessage, which feeds the real
// runRequests goroutine.
package client

import (
	"bytes"
	"context"
	"testing"
	"time"

	"github.com/pkg/errors"
	"github.com/tokenized/config"
	"github.com/tokenized/logger"
	"github.com/tokenized/pkg/bitcoin"
	"github.com/tokenized/pkg/wire"
)

// reproGOClient creates a remote client in the state it has after a completed handshake, with the
// channels Run would have created.
func reproGOClient(t *testing.T, requestTimeout, messageTimeout time.Duration) *RemoteClient {
	key, err := bitcoin.GenerateKey(bitcoin.MainNet)
	if err != nil {
		t.Fatalf("Failed to generate key : %s", err)
	}

	cfg := NewConfig("", key.PublicKey(), key, 0, ConnectionTypeFull)
	cfg.RequestTimeout = config.NewDuration(requestTimeout)
	cfg.MessageChannelTimeout = config.NewDuration(messageTimeout)

	c, err := NewRemoteClient(cfg)
	if err != nil {
		t.Fatalf("Failed to create remote client : %s", err)
	}

	c.sendChannel = make(chan *sendMessageRequest, 100)
	c.handlerChannel = make(chan *Message, 100)
	c.accepted.Store(true)
	c.handshakeComplete.Store(true)
	c.isConnected.Store(true)
	return c
}

// reproGOOverWire passes a payload through the wire codec.
func reproGOOverWire(p MessagePayload) (*Message, error) {
	buf := &bytes.Buffer{}
	if err := (Message{Payload: p}).Serialize(buf); err != nil {
		return nil, errors.Wrap(err, "serialize")
	}
	m := &Message{}
	if err := m.Deserialize(buf); err != nil {
		return nil, errors.Wrap(err, "deserialize")
	}
	if buf.Len() != 0 {
		return nil, errors.New("bytes left over")
	}
	return m, nil
}

// reproGORequests runs the real requests goroutine. The returned function stops it and waits for it,
// after which c.requests can be read.
func reproGORequests(ctx context.Context, c *RemoteClient) func() {
	interrupt := make(chan interface{})
	done := make(chan struct{})
	go func() {
		defer close(done)
		c.runRequests(ctx, interrupt)
	}()

	stopped := false
	return func() {
		if stopped {
			return
		}
		stopped = true
		close(interrupt)
		<-done
	}
}

// reproGOServer runs a fake connection + server : it takes the messages the client queued for
// sending, and calls respond with each of them, which returns the messages the server answers with.
func reproGOServer(t *testing.T, ctx context.Context, c *RemoteClient,
	respond func(MessagePayload) []MessagePayload) func() {

	interrupt := make(chan interface{})
	done := make(chan struct{})
	go func() {
		defer close(done)
		for {
			select {
			case <-interrupt:
				return
			case sm := <-c.sendChannel:
				// Written to the connection (confirmed to the sender as sendMessages does), then
				// read by the server.
				buf := &bytes.Buffer{}
				err := sm.msg.Serialize(buf)
				if sm.response != nil {
					sm.response <- err
				}
				if err != nil {
					t.Errorf("Failed to serialize client message : %s", err)
					continue
				}
				received := &Message{}
				if err := received.Deserialize(buf); err != nil || buf.Len() != 0 {
					t.Errorf("Failed to deserialize client message : %v (%d bytes left)", err,
						buf.Len())
					continue
				}

				// Network latency : the answer arrives after the requests goroutine has taken the
				// request off its queue. (Registration is asynchronous, runRequests selects between
				// the add queue and the response queue, so an answer that is already queued when
				// the request is still in the add queue can be routed before the request is known.)
				for i := 0; len(c.addRequestsChannel) > 0 && i < 20000; i++ {
					time.Sleep(50 * time.Microsecond)
				}

				for _, p := range respond(received.Payload) {
					answer, err := reproGOOverWire(p)
					if err != nil {
						t.Errorf("Failed to pass server message over the wire : %s", err)
						continue
					}
					if err := c.handleMessage(ctx, answer); err != nil {
						t.Errorf("Failed to handle message : %s", err)
					}
				}
			}
		}
	}()

	stopped := false
	return func() {
		if stopped {
			return
		}
		stopped = true
		close(interrupt)
		<-done
	}
}

// reproGOStart runs the requests goroutine and the fake connection + server.
func reproGOStart(t *testing.T, ctx context.Context, c *RemoteClient,
	respond func(MessagePayload) []MessagePayload) func() {

	stopServer := reproGOServer(t, ctx, c, respond)
	stopRequests := reproGORequests(ctx, c)
	return func() {
		stopServer()
		stopRequests()
	}
}

func TestRepro_GetOutputs(t *testing.T) {
	ctx := logger.ContextWithNoLogger(context.Background())

	script := func(b byte, n int) []byte {
		s := make([]byte, n)
		for i := range s {
			s[i] = b
		}
		return s
	}

	var prevA, prevC bitcoin.Hash32
	for i := range prevA {
		prevA[i] = byte(i + 1)
		prevC[i] = byte(0xc0 + i)
	}

	txA := wire.NewMsgTx(1)
	txA.AddTxIn(wire.NewTxIn(wire.NewOutPoint(&prevA, 0), script(0x51, 10)))
	txA.AddTxOut(wire.NewTxOut(1000, script(0xa0, 25)))
	txA.AddTxOut(wire.NewTxOut(2000, script(0xa1, 25)))
	txidA := *txA.TxHash()

	txC := wire.NewMsgTx(1)
	txC.AddTxIn(wire.NewTxIn(wire.NewOutPoint(&prevC, 0), script(0x52, 10)))
	txC.AddTxOut(wire.NewTxOut(3000, script(0xc0, 25)))
	txidC := *txC.TxHash()

	txs := map[bitcoin.Hash32]*wire.MsgTx{txidA: txA, txidC: txC}

	getTxCount := 0 // only used by the server goroutine and, after stop, by the test
	c := reproGOClient(t, 500*time.Millisecond, 200*time.Millisecond)
	stop := reproGOStart(t, ctx, c, func(p MessagePayload) []MessagePayload {
		switch msg := p.(type) {
		case *GetTx:
			getTxCount++
			tx, exists := txs[msg.TxID]
			if !exists {
				return []MessagePayload{&Reject{
					MessageType: MessageTypeGetTx,
					Hash:        &msg.TxID,
					Code:        RejectCodeNotFound,
					Message:     "unknown tx",
				}}
			}
			return []MessagePayload{&BaseTx{Tx: tx}}
		}
		return nil
	})
	defer stop()

	t.Run("RepeatedTxID", func(t *testing.T) {
		outpoints := []wire.OutPoint{
			{Hash: txidA, Index: 0},
			{Hash: txidA, Index: 1},
			{Hash: txidC, Index: 0},
		}
		want := []*wire.TxOut{txA.TxOut[0], txA.TxOut[1], txC.TxOut[0]}

		utxos, err := c.GetOutputs(ctx, outpoints)
		if err != nil {
			t.Fatalf("GetOutputs failed : %s", err)
		}
		if len(utxos) != len(outpoints) {
			t.Fatalf("Wrong utxo count : got %d, want %d", len(utxos), len(outpoints))
		}

		for i, utxo := range utxos {
			if !utxo.Hash.Equal(&outpoints[i].Hash) || utxo.Index != outpoints[i].Index {
				t.Errorf("utxo %d is for the wrong outpoint : %s:%d", i, utxo.Hash, utxo.Index)
			}
			if utxo.Value != want[i].Value ||
				!bytes.Equal(utxo.LockingScript, want[i].LockingScript) {
				t.Errorf("utxo %d (%s:%d) has value %d script %x..., want value %d script %x...",
					i, utxo.Hash, utxo.Index, utxo.Value, []byte(utxo.LockingScript)[:2],
					want[i].Value, []byte(want[i].LockingScript)[:2])
			}
		}
	})

	t.Run("InvalidIndex", func(t *testing.T) {
		utxos, err := c.GetOutputs(ctx, []wire.OutPoint{{Hash: txidA, Index: 7}})
		if err == nil {
			t.Fatalf("GetOutputs returned no error for output index 7 of a tx with %d outputs "+
				"(utxos %v)", len(txA.TxOut), utxos)
		}
		t.Logf("GetOutputs returned : %s", err)
	})

	t.Run("InvalidIndexOfRepeatedTxID", func(t *testing.T) {
		utxos, err := c.GetOutputs(ctx, []wire.OutPoint{
			{Hash: txidA, Index: 0},
			{Hash: txidA, Index: 7},
		})
		if err == nil {
			t.Fatalf("GetOutputs returned no error for output index 7 of a tx with %d outputs "+
				"(utxos %+v)", len(txA.TxOut), utxos)
		}
		t.Logf("GetOutputs returned : %s", err)
	})

	stop()
	t.Logf("Server received %d get tx requests", getTxCount)
}
