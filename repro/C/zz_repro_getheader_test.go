// Package directory: pkg/client
// Fix commit exercised: 4399102 "fix: route Header responses to GetHeader requests" (property C16,
// rule C16.R1, key client.(*RemoteClient).GetHeader#routed-Header).
//
// Failing history on the original code: GetHeader(ctx, h); the server answers Header{h};
// handleRequestResponse looks for a request of type MessageTypeGetHeaders with hash h, finds none,
// drops the message, and the call returns ErrTimeout after RequestTimeout.
//
// The RemoteClient is run without a network: the test plays the part of the connection threads
// (sendMessages/receiveMessages/handleMessages) and of the server. Every message is passed through
// the real wire codec in both directions and handed to the real handleMessage, which feeds the real
// runRequests goroutine.
package client

import (
	"bytes"
	"context"
	"testing"
	"time"

	"github.com/pkg/errors"
	"github.com/tokenized/config"
	"github.com/tokenized/logger"
	"github.com/tokenized/pkg/bitcoin"
	"github.com/tokenized/pkg/wire"
)

// reproGHClient creates a remote client in the state it has after a completed handshake, with the
// channels Run would have created.
func reproGHClient(t *testing.T, requestTimeout, messageTimeout time.Duration) *RemoteClient {
	key, err := bitcoin.GenerateKey(bitcoin.MainNet)
	if err != nil {
		t.Fatalf("Failed to generate key : %s", err)
	}

	cfg := NewConfig("", key.PublicKey(), key, 0, ConnectionTypeFull)
	cfg.RequestTimeout = config.NewDuration(requestTimeout)
	cfg.MessageChannelTimeout = config.NewDuration(messageTimeout)

	c, err := NewRemoteClient(cfg)
	if err != nil {
		t.Fatalf("Failed to create remote client : %s", err)
	}

	c.sendChannel = make(chan *sendMessageRequest, 100)
	c.handlerChannel = make(chan *Message, 100)
	c.accepted.Store(true)
	c.handshakeComplete.Store(true)
	c.isConnected.Store(true)
	return c
}

// reproGHOverWire passes a payload through the wire codec.
func reproGHOverWire(p MessagePayload) (*Message, error) {
	buf := &bytes.Buffer{}
	if err := (Message{Payload: p}).Serialize(buf); err != nil {
		return nil, errors.Wrap(err, "serialize")
	}
	m := &Message{}
	if err := m.Deserialize(buf); err != nil {
		return nil, errors.Wrap(err, "deserialize")
	}
	if buf.Len() != 0 {
		return nil, errors.New("bytes left over")
	}
	return m, nil
}

// reproGHRequests runs the real requests goroutine. The returned function stops it and waits for it,
// after which c.requests can be read.
func reproGHRequests(ctx context.Context, c *RemoteClient) func() {
	interrupt := make(chan interface{})
	done := make(chan struct{})
	go func() {
		defer close(done)
		c.runRequests(ctx, interrupt)
	}()

	stopped := false
	return func() {
		if stopped {
			return
		}
		stopped = true
		close(interrupt)
		<-done
	}
}

// reproGHServer runs a fake connection + server : it takes the messages the client queued for
// sending, and calls respond with each of them, which returns the messages the server answers with.
func reproGHServer(t *testing.T, ctx context.Context, c *RemoteClient,
	respond func(MessagePayload) []MessagePayload) func() {

	interrupt := make(chan interface{})
	done := make(chan struct{})
	go func() {
		defer close(done)
		for {
			select {
			case <-interrupt:
				return
			case sm := <-c.sendChannel:
				// Written to the connection (confirmed to the sender as sendMessages does), then
				// read by the server.
				buf := &bytes.Buffer{}
				err := sm.msg.Serialize(buf)
				if sm.response != nil {
					sm.response <- err
				}
				if err != nil {
					t.Errorf("Failed to serialize client message : %s", err)
					continue
				}
				received := &Message{}
				if err := received.Deserialize(buf); err != nil || buf.Len() != 0 {
					t.Errorf("Failed to deserialize client message : %v (%d bytes left)", err,
						buf.Len())
					continue
				}

				// Network latency : the answer arrives after the requests goroutine has taken the
				// request off its queue. (Registration is asynchronous, runRequests selects between
				// the add queue and the response queue, so an answer that is already queued when
				// the request is still in the add queue can be routed before the request is known.)
				for i := 0; len(c.addRequestsChannel) > 0 && i < 20000; i++ {
					time.Sleep(50 * time.Microsecond)
				}

				for _, p := range respond(received.Payload) {
					answer, err := reproGHOverWire(p)
					if err != nil {
						t.Errorf("Failed to pass server message over the wire : %s", err)
						continue
					}
					if err := c.handleMessage(ctx, answer); err != nil {
						t.Errorf("Failed to handle message : %s", err)
					}
				}
			}
		}
	}()

	stopped := false
	return func() {
		if stopped {
			return
		}
		stopped = true
		close(interrupt)
		<-done
	}
}

// reproGHStart runs the requests goroutine and the fake connection + server.
func reproGHStart(t *testing.T, ctx context.Context, c *RemoteClient,
	respond func(MessagePayload) []MessagePayload) func() {

	stopServer := reproGHServer(t, ctx, c, respond)
	stopRequests := reproGHRequests(ctx, c)
	return func() {
		stopServer()
		stopRequests()
	}
}

func TestRepro_GetHeader(t *testing.T) {
	ctx := logger.ContextWithNoLogger(context.Background())
	requestTimeout := 500 * time.Millisecond
	c := reproGHClient(t, requestTimeout, 200*time.Millisecond)

	var prev, merkle bitcoin.Hash32
	for i := range prev {
		prev[i] = byte(i)
		merkle[i] = byte(0x80 + i)
	}
	header := wire.BlockHeader{
		Version:    1,
		PrevBlock:  prev,
		MerkleRoot: merkle,
		Timestamp:  1600000000,
		Bits:       0x1d00ffff,
		Nonce:      42,
	}
	blockHash := *header.BlockHash()

	stop := reproGHStart(t, ctx, c, func(p MessagePayload) []MessagePayload {
		switch msg := p.(type) {
		case *GetHeader:
			if !msg.BlockHash.Equal(&blockHash) {
				return []MessagePayload{&Reject{
					MessageType: MessageTypeGetHeader,
					Hash:        &msg.BlockHash,
					Code:        RejectCodeNotFound,
					Message:     "unknown header",
				}}
			}
			return []MessagePayload{&Header{Header: header, BlockHeight: 650000, IsMostPOW: true}}
		}
		return nil
	})
	defer stop()

	type result struct {
		header *Header
		err    error
	}
	results := make(chan result, 1)
	start := time.Now()
	go func() {
		h, err := c.GetHeader(ctx, blockHash)
		results <- result{header: h, err: err}
	}()

	select {
	case r := <-results:
		if r.err != nil {
			t.Fatalf("GetHeader failed after %s although the server answered with the header : %s",
				time.Since(start), r.err)
		}
		if !r.header.Header.BlockHash().Equal(&blockHash) || r.header.BlockHeight != 650000 ||
			!r.header.IsMostPOW {
			t.Fatalf("Wrong header returned : %+v", r.header)
		}
		t.Logf("GetHeader returned the header after %s", time.Since(start))
		if time.Since(start) >= requestTimeout {
			t.Fatalf("GetHeader took as long as the request timeout")
		}
	case <-time.After(5 * time.Second):
		t.Fatalf("GetHeader hangs")
	}
}
