// Package directory: pkg/client
// Fix commit exercised: d843835 "fix: deliver rejects of get headers and get fee quotes requests to
// the waiting call" (property C16, rule C16.R1, key
// client.(*RemoteClient).GetHeaders#routed-Reject).
//
// Failing history on the original code: GetHeaders(ctx, 10^9, 1) or GetFeeQuotes(ctx); the server
// answers Reject{MessageType: get_headers|get_fee_quotes, Hash: nil, Code, Message}; the router
// returns at "reject with no hash" before it looks at the message type, and the call fails with
// ErrTimeout after RequestTimeout instead of RejectError(code, message).
//
// The RemoteClient is run without a network: the test plays the part of the connection threads
// (sendMessages/receiveMessages/handleMessages) and of the server. Every message is passed through
// the real wire codec in both directions and handed to the real handleMessage, which feeds the real
// runRequests goroutine.
package client

import (
	"bytes"
	"context"
	"testing"
	"time"

	"github.com/pkg/errors"
	"github.com/tokenized/config"
	"github.com/tokenized/logger"
	"github.com/tokenized/pkg/bitcoin"
)

// reproRJClient creates a remote client in the state it has after a completed handshake, with the
// channels Run would have created.
func reproRJClient(t *testing.T, requestTimeout, messageTimeout time.Duration) *RemoteClient {
	key, err := bitcoin.GenerateKey(bitcoin.MainNet)
	if err != nil {
		t.Fatalf("Failed to generate key : %s", err)
	}

	cfg := NewConfig("", key.PublicKey(), key, 0, ConnectionTypeFull)
	cfg.RequestTimeout = config.NewDuration(requestTimeout)
	cfg.MessageChannelTimeout = config.NewDuration(messageTimeout)

	c, err := NewRemoteClient(cfg)
	if err != nil {
		t.Fatalf("Failed to create remote client : %s", err)
	}

	c.sendChannel = make(chan *sendMessageRequest, 100)
	c.handlerChannel = make(chan *Message, 100)
	c.accepted.Store(true)
	c.handshakeComplete.Store(true)
	c.isConnected.Store(true)
	return c
}

// reproRJOverWire passes a payload through the wire codec.
func reproRJOverWire(p MessagePayload) (*Message, error) {
	buf := &bytes.Buffer{}
	if err := (Message{Payload: p}).Serialize(buf); err != nil {
		return nil, errors.Wrap(err, "serialize")
	}
	m := &Message{}
	if err := m.Deserialize(buf); err != nil {
		return nil, errors.Wrap(err, "deserialize")
	}
	if buf.Len() != 0 {
		return nil, errors.New("bytes left over")
	}
	return m, nil
}

// reproRJRequests runs the real requests goroutine. The returned function stops it and waits for it,
// after which c.requests can be read.
func reproRJRequests(ctx context.Context, c *RemoteClient) func() {
	interrupt := make(chan interface{})
	done := make(chan struct{})
	go func() {
		defer close(done)
		c.runRequests(ctx, interrupt)
	}()

	stopped := false
	return func() {
		if stopped {
			return
		}
		stopped = true
		close(interrupt)
		<-done
	}
}

// reproRJServer runs a fake connection + server : it takes the messages the client queued for
// sending, and calls respond with each of them, which returns the messages the server answers with.
func reproRJServer(t *testing.T, ctx context.Context, c *RemoteClient,
	respond func(MessagePayload) []MessagePayload) func() {

	interrupt := make(chan interface{})
	done := make(chan struct{})
	go func() {
		defer close(done)
		for {
			select {
			case <-interrupt:
				return
			case sm := <-c.sendChannel:
				// Written to the connection (confirmed to the sender as sendMessages does), then
				// read by the server.
				buf := &bytes.Buffer{}
				err := sm.msg.Serialize(buf)
				if sm.response != nil {
					sm.response <- err
				}
				if err != nil {
					t.Errorf("Failed to serialize client message : %s", err)
					continue
				}
				received := &Message{}
				if err := received.Deserialize(buf); err != nil || buf.Len() != 0 {
					t.Errorf("Failed to deserialize client message : %v (%d bytes left)", err,
						buf.Len())
					continue
				}

				// Network latency : the answer arrives after the requests goroutine has taken the
				// request off its queue. (Registration is asynchronous, runRequests selects between
				// the add queue and the response queue, so an answer that is already queued when
				// the request is still in the add queue can be routed before the request is known.)
				for i := 0; len(c.addRequestsChannel) > 0 && i < 20000; i++ {
					time.Sleep(50 * time.Microsecond)
				}

				for _, p := range respond(received.Payload) {
					answer, err := reproRJOverWire(p)
					if err != nil {
						t.Errorf("Failed to pass server message over the wire : %s", err)
						continue
					}
					if err := c.handleMessage(ctx, answer); err != nil {
						t.Errorf("Failed to handle message : %s", err)
					}
				}
			}
		}
	}()

	stopped := false
	return func() {
		if stopped {
			return
		}
		stopped = true
		close(interrupt)
		<-done
	}
}

// reproRJStart runs the requests goroutine and the fake connection + server.
func reproRJStart(t *testing.T, ctx context.Context, c *RemoteClient,
	respond func(MessagePayload) []MessagePayload) func() {

	stopServer := reproRJServer(t, ctx, c, respond)
	stopRequests := reproRJRequests(ctx, c)
	return func() {
		stopServer()
		stopRequests()
	}
}

func TestRepro_Rejects(t *testing.T) {
	ctx := logger.ContextWithNoLogger(context.Background())
	requestTimeout := 500 * time.Millisecond

	respond := func(p MessagePayload) []MessagePayload {
		switch msg := p.(type) {
		case *GetHeaders:
			if msg.RequestHeight != 1000000000 || msg.MaxCount != 1 {
				return nil
			}
			// The request is identified by its height, there is no hash to put in the reject.
			return []MessagePayload{&Reject{
				MessageType: MessageTypeGetHeaders,
				Code:        RejectCodeNotFound,
				Message:     "height beyond tip",
			}}
		case *GetFeeQuotes:
			return []MessagePayload{&Reject{
				MessageType: MessageTypeGetFeeQuotes,
				Code:        RejectCodeUnspecified,
				Message:     "no fee quotes available",
			}}
		}
		return nil
	}

	check := func(t *testing.T, call func(c *RemoteClient) error, wantCode RejectCode,
		wantMessage string) {

		c := reproRJClient(t, requestTimeout, 200*time.Millisecond)
		stop := reproRJStart(t, ctx, c, respond)
		defer stop()

		results := make(chan error, 1)
		start := time.Now()
		go func() {
			results <- call(c)
		}()

		select {
		case err := <-results:
			if err == nil {
				t.Fatalf("Call succeeded although the server rejected it")
			}
			rejectErr, ok := errors.Cause(err).(RejectError)
			if !ok {
				t.Fatalf("Call failed after %s with %q, want the server's reject (%s, %q)",
					time.Since(start), err, wantCode, wantMessage)
			}
			if rejectErr.Code != wantCode || rejectErr.Description != wantMessage {
				t.Fatalf("Wrong reject : got (%s, %q), want (%s, %q)", rejectErr.Code,
					rejectErr.Description, wantCode, wantMessage)
			}
			t.Logf("Call returned the reject after %s : %s", time.Since(start), err)
		case <-time.After(5 * time.Second):
			t.Fatalf("Call hangs")
		}

		// The answered request must not stay pending.
		stop()
		if len(c.requests) != 0 {
			t.Fatalf("%d requests still pending after the call returned", len(c.requests))
		}
	}

	t.Run("GetHeaders", func(t *testing.T) {
		check(t, func(c *RemoteClient) error {
			_, err := c.GetHeaders(ctx, 1000000000, 1)
			return err
		}, RejectCodeNotFound, "height beyond tip")
	})

	t.Run("GetFeeQuotes", func(t *testing.T) {
		check(t, func(c *RemoteClient) error {
			_, err := c.GetFeeQuotes(ctx)
			return err
		}, RejectCodeUnspecified, "no fee quotes available")
	})
}
