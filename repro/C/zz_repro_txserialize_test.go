// Package directory: pkg/client
// Fix commit exercised: 6a25fe9 "fix: Tx.Serialize rejects a spent output count that differs from
// the input count" (property C15, rule C15.R2, key client.Tx#codec-pair).
//
// Failing history on the original code: Tx{Tx: tx with 2 inputs, Outputs: 1 output} serializes
// without an error, but Deserialize reads len(Tx.TxIn) = 2 spent outputs, so it consumes the bytes
// of State (and of the next message of the stream) as the second output. The stream is misframed.
package client

import (
	"bytes"
	"testing"

	"github.com/tokenized/pkg/bitcoin"
	"github.com/tokenized/pkg/wire"
)

func TestRepro_TxSerialize(t *testing.T) {
	var prev1, prev2 bitcoin.Hash32
	for i := range prev1 {
		prev1[i] = byte(i + 1)
		prev2[i] = byte(0xa0 + i)
	}

	script := func(b byte, n int) []byte {
		s := make([]byte, n)
		for i := range s {
			s[i] = b
		}
		return s
	}

	tx := wire.NewMsgTx(1)
	tx.AddTxIn(wire.NewTxIn(wire.NewOutPoint(&prev1, 0), script(0x51, 20)))
	tx.AddTxIn(wire.NewTxIn(wire.NewOutPoint(&prev2, 3), script(0x52, 20)))
	tx.AddTxOut(wire.NewTxOut(1000, script(0x76, 25)))

	// Two inputs, but only one spent output.
	txMsg := &Tx{
		ID:      7,
		Tx:      tx,
		Outputs: []*wire.TxOut{wire.NewTxOut(600, script(0x77, 25))},
		State:   TxState{Safe: true, UnconfirmedDepth: 2},
	}

	// A stream of messages : the tx message followed by other messages.
	following := []MessagePayload{
		&TxUpdate{ID: 8, TxID: *tx.TxHash(), State: TxState{Safe: true}},
		&Ping{TimeStamp: 0x1122334455667788},
		&ChainTip{Hash: prev1, Height: 800000},
	}

	stream := &bytes.Buffer{}
	if err := (Message{Payload: txMsg}).Serialize(stream); err != nil {
		// Fixed behavior : the value that can't be represented is refused by the writer and nothing
		// that shifts the framing is put on the stream.
		t.Logf("Serialize refused the tx message : %s", err)
		if stream.Len() > 1 { // at most the message type was written by Message.Serialize
			t.Fatalf("Serialize failed but wrote %d bytes to the stream", stream.Len())
		}
		return
	}
	t.Logf("Serialize accepted a tx message with %d inputs and %d spent outputs (%d bytes)",
		len(tx.TxIn), len(txMsg.Outputs), stream.Len())

	for _, p := range following {
		if err := (Message{Payload: p}).Serialize(stream); err != nil {
			t.Fatalf("Failed to serialize following message : %s", err)
		}
	}

	// Serialize succeeded, so the stream must decode to the same sequence of messages.
	first := &Message{}
	if err := first.Deserialize(stream); err != nil {
		t.Fatalf("Serialized tx message doesn't deserialize : %s", err)
	}

	readTx, ok := first.Payload.(*Tx)
	if !ok {
		t.Fatalf("First message is %T, want *Tx", first.Payload)
	}

	if readTx.ID != txMsg.ID || !readTx.Tx.TxHash().Equal(tx.TxHash()) {
		t.Errorf("Wrong tx message id/txid : id %d, txid %s", readTx.ID, readTx.Tx.TxHash())
	}
	if len(readTx.Outputs) != len(txMsg.Outputs) {
		t.Errorf("Wrong spent output count after round trip : got %d, want %d",
			len(readTx.Outputs), len(txMsg.Outputs))
	}
	if readTx.State.Safe != txMsg.State.Safe ||
		readTx.State.UnconfirmedDepth != txMsg.State.UnconfirmedDepth {
		t.Errorf("Wrong state after round trip : got %+v, want %+v", readTx.State, txMsg.State)
	}

	for i, want := range following {
		m := &Message{}
		if err := m.Deserialize(stream); err != nil {
			t.Fatalf("Stream is misframed : following message %d (%s) : %s", i,
				NameForMessageType(want.Type()), err)
		}
		if m.Payload.Type() != want.Type() {
			t.Fatalf("Stream is misframed : following message %d is %s, want %s", i,
				NameForMessageType(m.Payload.Type()), NameForMessageType(want.Type()))
		}
	}

	if stream.Len() != 0 {
		t.Fatalf("Stream is misframed : %d bytes left over", stream.Len())
	}
}
