// Package directory: pkg/client
// Fix commit exercised: none. EXTRA OBSERVATION, not one of the recorded defects: this test fails on
// the original code AND on the current head.
//
// Observed while writing the other reproducers (they were flaky on head until the fake server
// waited for the registration): a synchronous call registers its request asynchronously
// (addRequest only puts it in the buffered addRequestsChannel) and the answer is routed through the
// buffered requestResponseChannel; runRequests selects between the two. When both are ready at the
// time the requests goroutine gets to its select (it was busy routing another message, or was not
// scheduled, for longer than the round trip to the server) Go picks a case at random, so the answer
// can be routed before the request is known: it is dropped ("No matching request found") and the
// call returns ErrTimeout although it was answered. With a real network round trip this needs the
// requests goroutine to be stalled for that long, so it is unlikely, but nothing orders the two.
package client

import (
	"bytes"
	"context"
	"testing"
	"time"

	"github.com/pkg/errors"
	"github.com/tokenized/config"
	"github.com/tokenized/logger"
	"github.com/tokenized/pkg/bitcoin"
	"github.com/tokenized/pkg/wire"
)

// reproXOClient creates a remote client in the state it has after a completed handshake, with the
// channels Run would have created.
func reproXOClient(t *testing.T, requestTimeout, messageTimeout time.Duration) *RemoteClient {
	key, err := bitcoin.GenerateKey(bitcoin.MainNet)
	if err != nil {
		t.Fatalf("Failed to generate key : %s", err)
	}

	cfg := NewConfig("", key.PublicKey(), key, 0, ConnectionTypeFull)
	cfg.RequestTimeout = config.NewDuration(requestTimeout)
	cfg.MessageChannelTimeout = config.NewDuration(messageTimeout)

	c, err := NewRemoteClient(cfg)
	if err != nil {
		t.Fatalf("Failed to create remote client : %s", err)
	}

	c.sendChannel = make(chan *sendMessageRequest, 100)
	c.handlerChannel = make(chan *Message, 100)
	c.accepted.Store(true)
	c.handshakeComplete.Store(true)
	c.isConnected.Store(true)
	return c
}

// reproXOOverWire passes a payload through the wire codec.
func reproXOOverWire(p MessagePayload) (*Message, error) {
	buf := &bytes.Buffer{}
	if err := (Message{Payload: p}).Serialize(buf); err != nil {
		return nil, errors.Wrap(err, "serialize")
	}
	m := &Message{}
	if err := m.Deserialize(buf); err != nil {
		return nil, errors.Wrap(err, "deserialize")
	}
	if buf.Len() != 0 {
		return nil, errors.New("bytes left over")
	}
	return m, nil
}

// reproXORequests runs the real requests goroutine. The returned function stops it and waits for it,
// after which c.requests can be read.
func reproXORequests(ctx context.Context, c *RemoteClient) func() {
	interrupt := make(chan interface{})
	done := make(chan struct{})
	go func() {
		defer close(done)
		c.runRequests(ctx, interrupt)
	}()

	stopped := false
	return func() {
		if stopped {
			return
		}
		stopped = true
		close(interrupt)
		<-done
	}
}

func TestRepro_ExtraOvertake(t *testing.T) {
	ctx := logger.ContextWithNoLogger(context.Background())

	var prev bitcoin.Hash32
	prev[0] = 0x11
	tx := wire.NewMsgTx(1)
	tx.AddTxIn(wire.NewTxIn(wire.NewOutPoint(&prev, 0), []byte{0x51}))
	tx.AddTxOut(wire.NewTxOut(1000, []byte{0x76}))
	txid := *tx.TxHash()

	rounds := 200
	dropped := 0
	for round := 0; round < rounds; round++ {
		c := reproXOClient(t, 500*time.Millisecond, 100*time.Millisecond)

		// What GetTx does first.
		responseChannel := make(chan *Message, 1)
		r := &request{typ: MessageTypeGetTx, hash: txid, id: uint64(round), response: responseChannel}
		if err := c.addRequest(r, c.MessageTimeout()); err != nil {
			t.Fatalf("Failed to add request : %s", err)
		}

		// The message is sent and the answer is received and handled before the requests goroutine
		// gets to run.
		answer, err := reproXOOverWire(&BaseTx{Tx: tx})
		if err != nil {
			t.Fatalf("Failed to pass base tx over the wire : %s", err)
		}
		if err := c.handleMessage(ctx, answer); err != nil {
			t.Fatalf("Failed to handle base tx : %s", err)
		}

		stopRequests := reproXORequests(ctx, c)
		for i := 0; (len(c.addRequestsChannel) > 0 || len(c.requestResponseChannel) > 0) &&
			i < 20000; i++ {
			time.Sleep(50 * time.Microsecond)
		}
		stopRequests()

		select {
		case <-responseChannel:
		default:
			dropped++
		}
	}

	if dropped != 0 {
		t.Fatalf("In %d of %d rounds the answer was routed before the request was registered and "+
			"dropped", dropped, rounds)
	}
}
