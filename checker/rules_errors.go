package main

// Error discipline over the functions a property is anchored in (Engler et al.: "errors from the
// X layer are never ignored", with the accepted idioms enumerated from the tree and frozen).

import (
	"encoding/json"
	"fmt"
	"go/token"
	"go/types"
	"os"
	"path/filepath"
	"sort"
	"strings"

	"golang.org/x/tools/go/ssa"
)

// errSite is one tested error result: the call, the If that tests it, and which branch is "failed".
type errSite struct {
	fn      *ssa.Function
	call    *ssa.Call
	iff     *ssa.If
	failBr  int
	ordinal int // index among the calls to the same callee in fn (stable key)
}

func isErrorConstructor(nm string) bool {
	for _, s := range []string{"pkg/errors.Wrap", "pkg/errors.Wrapf", "pkg/errors.New", "pkg/errors.Errorf", "pkg/errors.WithStack", "pkg/errors.WithMessage", "pkg/errors.Cause"} {
		if strings.HasSuffix(nm, s) {
			return true
		}
	}
	return nm == "errors.New" || nm == "fmt.Errorf"
}

// errorSites lists the error tests of fn.
func errorSites(fn *ssa.Function) []errSite {
	var out []errSite
	count := map[string]int{}
	for _, s := range sitesIn(fn) {
		call := s.Value()
		if call == nil || !resultIsErrorSig(call.Call.Signature()) {
			continue
		}
		if _, isB := call.Call.Value.(*ssa.Builtin); isB {
			continue
		}
		nm := calleeName(s.CC)
		if isErrorConstructor(nm) {
			continue
		}
		ord := count[nm]
		count[nm]++
		for _, b := range fn.Blocks {
			iff, ok := lastIf(b)
			if !ok {
				continue
			}
			for k := 0; k < 2; k++ {
				if errNilEdge(sameCall(call), false)(iff, k) {
					out = append(out, errSite{fn, call, iff, k, ord})
				}
			}
		}
	}
	return out
}

// dominatedReturns: the Return instructions in blocks dominated by b, if b is entered only over the
// edge from its single predecessor.
func dominatedReturns(b *ssa.BasicBlock) []*ssa.Return {
	if len(b.Preds) != 1 {
		return nil
	}
	var out []*ssa.Return
	for _, x := range b.Parent().Blocks {
		if b.Dominates(x) {
			if n := len(x.Instrs); n > 0 {
				if r, ok := x.Instrs[n-1].(*ssa.Return); ok {
					out = append(out, r)
				}
			}
		}
	}
	return out
}

// returnsErrorType: the last result of fn is of type error.
func returnsErrorType(fn *ssa.Function) bool {
	res := fn.Signature.Results()
	if res.Len() == 0 {
		return false
	}
	return types.Identical(res.At(res.Len()-1).Type(), types.Universe.Lookup("error").Type())
}

// ruleErrorDiscipline, over the given functions:
//
//	Ea  on the branch taken when a call failed, the function does not return a nil error (the
//	    failure would be reported as success), except at the sites listed in `accepted` (idioms of
//	    the tree confirmed by reading: best-effort reads, "not found means empty", …);
//	Eb  on the branch taken when a call succeeded, the function does not return that call's (nil)
//	    error as its own result - the inverted test `if err == nil { return errors.Wrap(err) }`
//	    ends the function early with success and skips the rest of its work.
func (c *Check) ruleErrorDiscipline(ruleA, ruleB string, fns []*ssa.Function, accepted map[string]string) {
	nA, nB := 0, 0
	seenKey := map[string]bool{}
	for _, fn := range fns {
		if fn == nil || fn.Blocks == nil {
			continue
		}
		retErr := returnsErrorType(fn)
		for _, es := range errorSites(fn) {
			callee := recordedCalleeName(&es.call.Call)
			base := fmt.Sprintf("%s#error-of-%s@%d", c.P.Key(fn), callee, es.ordinal+1)
			fail := es.iff.Block().Succs[es.failBr]
			okB := es.iff.Block().Succs[1-es.failBr]
			if retErr {
				// Ea
				for _, ret := range dominatedReturns(fail) {
					isNil, known := errIsNilReturn(ret)
					if !known {
						continue
					}
					key := base + "-failure-not-reported-as-success"
					if seenKey[key] {
						continue
					}
					nA++
					if isNil {
						// `if err == ErrNotFound { return nil }`: a specific, expected failure answered
						// with "nothing there" is not a swallowed error
						sentinel := equalEdge(func(a, b ssa.Value) bool {
							isErr := func(v ssa.Value) bool {
								if errOf(v) == es.call {
									return true
								}
								if cl, ok := v.(*ssa.Call); ok && strings.HasSuffix(calleeName(&cl.Call), "pkg/errors.Cause") && len(cl.Call.Args) == 1 && errOf(cl.Call.Args[0]) == es.call {
									return true
								}
								return false
							}
							isSentinel := func(v ssa.Value) bool {
								u, ok := v.(*ssa.UnOp)
								if !ok || u.Op != token.MUL {
									return false
								}
								_, isG := u.X.(*ssa.Global)
								return isG
							}
							return (isErr(a) && isSentinel(b)) || (isErr(b) && isSentinel(a))
						}, true)
						if fail != ret.Block() {
							if avoid, _ := reachAvoid2(fail, ret.Block(), sentinel, nil); !avoid {
								continue
							}
						}
						seenKey[key] = true
						if why, ok := acceptedIdiom(c.P, accepted, base); ok {
							c.Ok(ruleA, key, ret.Pos(), "error-branch exits", "accepted idiom: "+why)
						} else {
							c.Bad(ruleA, key, ret.Pos(), "error-branch exits", nil,
								"when "+callee+" fails the function returns a nil error: the failure is reported as success and the caller carries on as if the step had been done")
						}
						c.Touch(fn)
					}
				}
				if !seenKey[base+"-failure-not-reported-as-success"] {
					c.Ok(ruleA, base+"-failure-not-reported-as-success", es.iff.Pos(), "error-branch exits", "no nil-error return on the failure branch")
				}
				// Eb
				for _, ret := range dominatedReturns(okB) {
					if len(ret.Results) == 0 {
						continue
					}
					for _, v := range resultValues(ret, len(ret.Results)-1) {
						derives := errOf(v) == es.call
						if call, ok := v.(*ssa.Call); ok && isErrorConstructor(calleeName(&call.Call)) && len(call.Call.Args) > 0 && errOf(call.Call.Args[0]) == es.call {
							derives = true
						}
						if !derives {
							continue
						}
						nB++
						c.Bad(ruleB, base+"-nil-error-not-returned-on-success", ret.Pos(), "error-branch exits", nil,
							"on the branch where "+callee+" succeeded the function returns that call's (nil) error: the test is inverted, the function ends early with success and the failure branch carries on")
						c.Touch(fn)
					}
				}
			}
		}
	}
	_ = nB
	_ = token.NoPos
	_ = sort.Strings
}

// anchorFunctions: the functions declared in the files the property is anchored in (properties.jsonl).
func (c *Check) anchorFunctions() []*ssa.Function {
	files := anchorFilesOf(c.Prop)
	var out []*ssa.Function
	var keys []string
	for k := range c.P.Funcs {
		keys = append(keys, k)
	}
	sort.Strings(keys)
	for _, k := range keys {
		fn := c.P.Funcs[k]
		if fn == nil || fn.Blocks == nil {
			continue
		}
		pos := c.P.Fset.Position(fn.Pos()).Filename
		for _, f := range files {
			if strings.HasSuffix(pos, "/"+f) {
				out = append(out, fn)
				break
			}
		}
	}
	return out
}

var anchorFilesCache map[string][]string

// anchorFilesOf reads the anchor files of a property from /verif/properties.jsonl.
func anchorFilesOf(prop string) []string {
	if anchorFilesCache == nil {
		anchorFilesCache = map[string][]string{}
		data, err := os.ReadFile(filepath.Join(verifDirGlobal, "properties.jsonl"))
		if err == nil {
			for _, line := range strings.Split(string(data), "\n") {
				if strings.TrimSpace(line) == "" {
					continue
				}
				var p struct {
					ID      string `json:"id"`
					Anchors struct {
						Files []string `json:"files"`
					} `json:"anchors"`
				}
				if json.Unmarshal([]byte(line), &p) == nil {
					anchorFilesCache[p.ID] = p.Anchors.Files
				}
			}
		}
	}
	return anchorFilesCache[prop]
}

// runProperty runs a property's own rules and the rules every property shares over its anchor files.
func runProperty(def *PropDef, c *Check) {
	def.Run(c)
	// the functions the property's own rules examined (its mechanism), not every function of the
	// anchor files: a slip in an unrelated function of the same file is not this property's business
	var keys []string
	for k := range c.funcs {
		keys = append(keys, k)
	}
	sort.Strings(keys)
	var fns []*ssa.Function
	for _, k := range keys {
		if fn := c.P.Fn(k); fn != nil && fn.Blocks != nil {
			fns = append(fns, fn)
		}
	}
	c.ruleErrorDiscipline("E1", "E2", fns, acceptedErrorIdioms)
	c.ruleNoUseOnNilBranch("E3", fns, acceptedNilIdioms)
	c.ruleArgumentNamesAgree("E4", fns)
	c.ruleLoopsVisitEveryElement("E5", fns, loopBaseline())
	c.ruleFailedResultsUnused("E6", fns, acceptedFailedResultUses)
	c.ruleCommaOkDiscipline("E7", fns)
	c.ruleRemovalBehindMatch("E8", fns)
	c.ruleParamsStayUsed("E9", fns, paramBaseline())
	c.ruleFoundIndexSentinel("E10", fns)
	c.ruleSearchCoversWholeList("E11", fns)
	c.ruleFailuresStayFailures("E12", fns)
	c.ruleNoNewFailures("E13", fns)
	c.ruleNoNewFieldDependence("E14", fns)
	c.ruleLoopVarSliceStaysInIteration("E15", fns)
}

// acceptedErrorIdioms: sites of the confirmed tree where a failed call is deliberately answered with a
// nil error (read and confirmed one by one; key: function#error-of-<callee>@<n-th call to it>).
var acceptedErrorIdioms = map[string]string{
	"spynode.(*Node).handleMessage#error-of-Handle@1":    "a message handler's failure is logged; it does not end the connection's message loop",
	"storage.(*BlockRepository).getTime#error-of-read@1": "Time() is best effort: an unreadable file answers time 0",
	"storage.(*PeerRepository).Load#error-of-readPeer@1": "records are read until the data is exhausted: the first failed read ends the list",
	// handleMessage logs a notification it could not queue and goes on with the next message; what must
	// not happen then (advancing the message id) is C17.R2's business. On the confirmed tree the log
	// branch joins the common `return nil`; written with its own return it is the same behaviour.
	"client.(*RemoteClient).handleMessage#error-of-addHandlerMessage@1": "a notification that cannot be queued is logged, the connection goes on",
	"client.(*RemoteClient).handleMessage#error-of-addHandlerMessage@2": "a notification that cannot be queued is logged, the connection goes on",
	"client.(*RemoteClient).handleMessage#error-of-addHandlerMessage@3": "a notification that cannot be queued is logged, the connection goes on",
	"client.(*RemoteClient).handleMessage#error-of-addHandlerMessage@4": "a notification that cannot be queued is logged, the connection goes on",
	"client.(*RemoteClient).handleMessage#error-of-addHandlerMessage@5": "a notification that cannot be queued is logged, the connection goes on",
	"client.(*RemoteClient).handleMessage#error-of-addHandlerMessage@6": "a notification that cannot be queued is logged, the connection goes on",
	"client.(*RemoteClient).handleMessage#error-of-addHandlerMessage@7": "a notification that cannot be queued is logged, the connection goes on",
}

// ---------------------------------------------------------------------------------------------
// nil discipline (contradiction rule: a value is tested against nil, and used on the nil side)

// ruleNoUseOnNilBranch: where a pointer / interface / slice-of-bytes value is compared with nil, the
// branch on which it IS nil does not hand the value to a call, call a method on it or load through
// it (in blocks entered only over that edge). The inverted test `if block != nil { continue }`
// followed by `ProcessBlock(block)` is the typical instance. Returning the value and logging it are
// not uses.
func (c *Check) ruleNoUseOnNilBranch(rule string, fns []*ssa.Function, accepted map[string]string) {
	for _, fn := range fns {
		if fn == nil || fn.Blocks == nil {
			continue
		}
		ord := map[string]int{}
		for _, b := range fn.Blocks {
			iff, ok := lastIf(b)
			if !ok {
				continue
			}
			for br := 0; br < 2; br++ {
				r, ok := edgeRel(iff, br)
				if !ok || r.Op != token.EQL {
					continue
				}
				var v ssa.Value
				if isNilConst(r.Y) {
					v = r.X
				} else if isNilConst(r.X) {
					v = r.Y
				}
				if v == nil {
					continue
				}
				switch v.Type().Underlying().(type) {
				case *types.Pointer, *types.Interface:
				default:
					continue
				}
				if types.Identical(v.Type(), types.Universe.Lookup("error").Type()) {
					continue // errors have their own rule
				}
				nilSucc := b.Succs[br]
				if len(nilSucc.Preds) != 1 || nilSucc == b.Succs[1-br] {
					continue
				}
				name := "value"
				switch x := v.(type) {
				case *ssa.Parameter:
					name = x.Name()
				case *ssa.Call:
					name = calleeObjName(&x.Call) + "()"
				case *ssa.Extract:
					if cl, ok := x.Tuple.(*ssa.Call); ok {
						name = calleeObjName(&cl.Call) + "()"
					}
				case *ssa.UnOp:
					if f := anyFieldLoad(x); f != nil {
						name = f.Name()
					}
				}
				base := fmt.Sprintf("%s#nil-test-of-%s@%d", c.P.Key(fn), name, ord[name]+1)
				ord[name]++
				var bad ssa.Instruction
				for _, x := range fn.Blocks {
					if !nilSucc.Dominates(x) {
						continue
					}
					for _, in := range x.Instrs {
						if usesAsOperand(in, v) {
							bad = in
						}
					}
				}
				key := base + "-not-used-where-nil"
				if bad == nil {
					c.Ok(rule, key, iff.Pos(), "nil-branch uses", "not used on the branch where it is nil")
					continue
				}
				if why, ok := accepted[base]; ok {
					c.Ok(rule, key, bad.Pos(), "nil-branch uses", "accepted idiom: "+why)
					continue
				}
				c.Bad(rule, key, bad.Pos(), "nil-branch uses", nil,
					"a value that was just found to be nil is used on that branch (passed on, called or loaded through): the nil test is inverted or the value is used where it does not exist")
				c.Touch(fn)
			}
		}
	}
}

// usesAsOperand: in hands v to a call (not logging), calls a method on it, or loads / addresses through it.
func usesAsOperand(in ssa.Instruction, v ssa.Value) bool {
	switch x := in.(type) {
	case *ssa.Call:
		return callUses(&x.Call, v)
	case *ssa.Defer:
		return callUses(&x.Call, v)
	case *ssa.Go:
		return callUses(&x.Call, v)
	case *ssa.FieldAddr:
		return x.X == v
	case *ssa.UnOp:
		return x.Op == token.MUL && x.X == v
	case *ssa.IndexAddr:
		return x.X == v
	case *ssa.TypeAssert:
		return false
	}
	return false
}

func callUses(cc *ssa.CallCommon, v ssa.Value) bool {
	nm := calleeName(cc)
	if strings.Contains(nm, "/logger.") || strings.HasPrefix(nm, "fmt.") || isErrorConstructor(nm) {
		return false
	}
	if cc.IsInvoke() && cc.Value == v {
		return true
	}
	for _, a := range cc.Args {
		if a == v {
			return true
		}
		if mi, ok := a.(*ssa.MakeInterface); ok && mi.X == v {
			return true
		}
	}
	return false
}

// ---------------------------------------------------------------------------------------------
// argument / parameter name agreement

// ruleArgumentNamesAgree: in a call to a module function, two arguments of the same type are not each
// named like the other one's parameter (`Add(ctx, id, tx.Safe, tx.Trusted)` for
// `Add(ctx, id, trusted, safe bool)`): names are the only thing that tells same-typed arguments apart.
func (c *Check) ruleArgumentNamesAgree(rule string, fns []*ssa.Function) {
	n := 0
	norm := func(s string) string { return strings.ToLower(strings.TrimLeft(s, "_")) }
	argName := func(v ssa.Value) string {
		v = stripConv(v)
		switch x := v.(type) {
		case *ssa.Parameter:
			return norm(x.Name())
		case *ssa.UnOp:
			if f := anyFieldLoad(x); f != nil {
				return norm(f.Name())
			}
		case *ssa.Field:
			if st, ok := x.X.Type().Underlying().(*types.Struct); ok {
				return norm(st.Field(x.Field).Name())
			}
		case *ssa.Extract:
			// results named at the call site are not visible in SSA
		}
		return ""
	}
	for _, fn := range fns {
		if fn == nil || fn.Blocks == nil {
			continue
		}
		for _, s := range sitesIn(fn) {
			callee := s.CC.StaticCallee()
			if callee == nil || callee.Pkg == nil || !inModule(callee.Pkg.Pkg) || callee.Signature == nil {
				continue
			}
			params := callee.Params
			args := s.CC.Args
			if len(params) != len(args) {
				continue
			}
			for i := 0; i < len(args); i++ {
				for j := i + 1; j < len(args); j++ {
					if !types.Identical(params[i].Type(), params[j].Type()) {
						continue
					}
					ai, aj := argName(args[i]), argName(args[j])
					pi, pj := norm(params[i].Name()), norm(params[j].Name())
					if ai == "" || aj == "" || pi == pj {
						continue
					}
					n++
					if ai == pj && aj == pi {
						c.Bad(rule, fmt.Sprintf("%s#args-of-%s-not-swapped", c.P.Key(fn), calleeObjName(s.CC)), s.Pos(), "name agreement", nil,
							fmt.Sprintf("the arguments %q and %q are passed to the parameters %q and %q of %s: two same-typed arguments are swapped", ai, aj, pi, pj, calleeObjName(s.CC)))
						c.Touch(fn)
					}
				}
			}
		}
	}
	c.Ok(rule, "scope#argument-names", token.NoPos, "name agreement", "%d same-typed named argument pairs examined", n)
}

// acceptedNilIdioms: sites of the confirmed tree where a value found nil is still handed on (read and
// confirmed; key: function#nil-test-of-<name>@<n>).
var acceptedNilIdioms = map[string]string{}

// ---------------------------------------------------------------------------------------------
// loops visit every element

// loopName describes what a loop ranges over (for stable keys).
func loopName(h *ssa.BasicBlock) string {
	if s := rangedSlice(h); s != nil {
		if f := anyFieldLoad(s); f != nil {
			return f.Name()
		}
		switch x := stripConv(s).(type) {
		case *ssa.Parameter:
			return x.Name()
		case *ssa.Call:
			return calleeObjName(&x.Call) + "()"
		case *ssa.Extract:
			if cl, ok := x.Tuple.(*ssa.Call); ok {
				return calleeObjName(&cl.Call) + "()"
			}
		case *ssa.Slice:
			if f := anyFieldLoad(x.X); f != nil {
				return f.Name() + "[:]"
			}
		}
		return "slice"
	}
	// map / channel / string range: header is the block with the Next instruction
	for _, in := range h.Instrs {
		if nx, ok := in.(*ssa.Next); ok {
			if rg, ok := nx.Iter.(*ssa.Range); ok {
				if f := anyFieldLoad(rg.X); f != nil {
					return "map " + f.Name()
				}
				return "map"
			}
		}
	}
	return ""
}

// ruleLoopsVisitEveryElement: a loop over a collection (slice, map) in the property's functions is left
// before the collection is exhausted only through error returns - except for the searching loops
// of the confirmed tree (loops that stop at the element they look for, or when the node stops;
// read one by one and recorded as a number per function, so that renames and loop-form changes do
// not matter). `continue` turned into `break`, or a `return nil` added inside a processing loop,
// makes the elements after that point silently unprocessed.
func (c *Check) ruleLoopsVisitEveryElement(rule string, fns []*ssa.Function, searching map[string]int) {
	n := 0
	// allowance of functions that no longer exist (written in place in their callers) goes to the
	// functions of their package
	gone := map[string]int{}
	for k, v := range searching {
		if c.P.Fn(k) == nil {
			gone[pkgOfKey(k)] += v
		}
	}
	for _, fn := range fns {
		if fn == nil || fn.Blocks == nil {
			continue
		}
		early, loops, wit, pos := earlyExitCollectionLoops(c.P, fn)
		n += loops
		if early == 0 {
			continue
		}
		key := c.P.Key(fn) + "#collection-loops-left-early"
		allowed := searching[c.P.Key(fn)] + gone[pkgOfKey(c.P.Key(fn))]
		c.Decide(early <= allowed, rule, key, pos, "cfg-structure", wit,
			"only the searching loops of the confirmed tree leave early",
			fmt.Sprintf("%d loops over collections can be left early without an error, the confirmed tree has %d such (searching) loops in this function: a processing loop was given an early exit, the elements after that point are silently not processed", early, allowed))
		c.Touch(fn)
	}
	c.Ok(rule, "scope#collection-loops", token.NoPos, "cfg-structure", "%d loops over collections examined", n)
}

func pkgOfKey(k string) string {
	if i := strings.Index(k, "."); i >= 0 {
		return k[:i]
	}
	return k
}

// earlyExitCollectionLoops counts the loops over collections in fn that can be left from inside their body
// other than through error returns.
func earlyExitCollectionLoops(P *Program, fn *ssa.Function) (early, loops int, wit []string, pos token.Pos) {
	for _, h := range loopHeadersOf(fn) {
		name := loopName(h)
		if name == "" {
			continue
		}
		loops++
		body := loopBody(h)
		leaves := false
		for b := range body {
			if b == h {
				continue
			}
			for _, s := range b.Succs {
				if body[s] {
					continue
				}
				if isErrorReturnBlock(s) || onlyReachesErrorReturns(s, body) || leavesOnlyThroughErrors(b, s, body) {
					continue
				}
				leaves = true
				wit = append(wit, fmt.Sprintf("loop over %s left early at %s", name, P.Pos(lastPos(b))))
				pos = lastPos(b)
			}
		}
		if leaves {
			early++
		}
	}
	sort.Strings(wit)
	return
}

// writeLoopBaseline records, for every function of the tree, how many of its loops over collections leave
// early (checker/baseline_loops.txt).
func writeLoopBaseline(P *Program, out string) error {
	var lines []string
	for k, fn := range P.Funcs {
		if fn == nil || fn.Blocks == nil {
			continue
		}
		if e, _, _, _ := earlyExitCollectionLoops(P, fn); e > 0 {
			lines = append(lines, fmt.Sprintf("%s\t%d", k, e))
		}
	}
	sort.Strings(lines)
	hdr := "# per function: number of loops over collections (slices, maps) that can be left early without an error on the\n# tree the rules were confirmed on (searching loops); rule E5 allows no function more than recorded here\n"
	return os.WriteFile(out, []byte(hdr+strings.Join(lines, "\n")+"\n"), 0o644)
}

var loopBaselineCache map[string]int

func loopBaseline() map[string]int {
	if loopBaselineCache != nil {
		return loopBaselineCache
	}
	loopBaselineCache = map[string]int{}
	data, err := os.ReadFile(filepath.Join(verifDirGlobal, "checker", "baseline_loops.txt"))
	if err != nil {
		return loopBaselineCache
	}
	for _, l := range strings.Split(string(data), "\n") {
		if strings.HasPrefix(l, "#") || strings.TrimSpace(l) == "" {
			continue
		}
		f := strings.Split(l, "\t")
		if len(f) == 2 {
			var n int
			fmt.Sscanf(f[1], "%d", &n)
			loopBaselineCache[f[0]] = n
		}
	}
	return loopBaselineCache
}

// ---------------------------------------------------------------------------------------------
// results of a failed call

// ruleFailedResultsUnused: on the branch where a call's error is non-nil, its other results are not used
// (handed to a call, dereferenced, indexed, ranged over) in the blocks entered only over that edge.
// Returning them together with the error and logging them are not uses. The inverted test
// `if err == nil { continue }` followed by the use of the (zero) result is the typical instance.
func (c *Check) ruleFailedResultsUnused(rule string, fns []*ssa.Function, accepted map[string]string) {
	for _, fn := range fns {
		if fn == nil || fn.Blocks == nil {
			continue
		}
		done := map[string]bool{}
		for _, es := range errorSites(fn) {
			callee := recordedCalleeName(&es.call.Call)
			base := fmt.Sprintf("%s#results-of-%s@%d", c.P.Key(fn), callee, es.ordinal+1)
			key := base + "-unused-when-failed"
			if done[key] {
				continue
			}
			fail := es.iff.Block().Succs[es.failBr]
			if len(fail.Preds) != 1 || fail == es.iff.Block().Succs[1-es.failBr] {
				continue
			}
			var vals []ssa.Value
			for _, r := range *es.call.Referrers() {
				if ex, ok := r.(*ssa.Extract); ok && ex.Index < es.call.Call.Signature().Results().Len()-1 {
					switch ex.Type().Underlying().(type) {
					case *types.Pointer, *types.Slice, *types.Map, *types.Interface:
						vals = append(vals, ex)
					}
				}
			}
			if len(vals) == 0 {
				continue
			}
			done[key] = true
			var bad ssa.Instruction
			for _, x := range fn.Blocks {
				if !fail.Dominates(x) {
					continue
				}
				for _, in := range x.Instrs {
					for _, v := range vals {
						if usesAsOperand(in, v) {
							bad = in
						}
						if ia, ok := in.(*ssa.Index); ok && ia.X == v {
							bad = in
						}
						if ta, ok := in.(*ssa.TypeAssert); ok && ta.X == v {
							bad = in
						}
					}
				}
			}
			if bad == nil {
				c.Ok(rule, key, es.iff.Pos(), "error-branch uses", "results not used on the failure branch")
				continue
			}
			if why, ok := accepted[base]; ok {
				c.Ok(rule, key, bad.Pos(), "error-branch uses", "accepted idiom: "+why)
				continue
			}
			c.Bad(rule, key, bad.Pos(), "error-branch uses", nil,
				"a result of "+callee+" is used on the branch where that call failed (its error is non-nil): the error test is inverted or the (nil / partial) result is processed as if the call had succeeded")
			c.Touch(fn)
		}
	}
}

// acceptedFailedResultUses: sites of the confirmed tree where a result is used although the call failed.
var acceptedFailedResultUses = map[string]string{}

// ---------------------------------------------------------------------------------------------
// comma-ok discipline

// ruleCommaOkDiscipline: the value of `v, ok := m[k]` (pointer, slice or map valued) is not used - field access, call
// argument, indexing, ranging - on the branch where ok is false (blocks entered only over that edge).
// `if !exists { entry.count++ }` is the inverted form of the usual test.
func (c *Check) ruleCommaOkDiscipline(rule string, fns []*ssa.Function) {
	n := 0
	for _, fn := range fns {
		if fn == nil || fn.Blocks == nil {
			continue
		}
		ord := 0
		for _, b := range fn.Blocks {
			for _, in := range b.Instrs {
				lk, ok := in.(*ssa.Lookup)
				if !ok || !lk.CommaOk {
					continue
				}
				var val, okv ssa.Value
				for _, r := range *lk.Referrers() {
					if ex, isEx := r.(*ssa.Extract); isEx {
						if ex.Index == 0 {
							val = ex
						} else {
							okv = ex
						}
					}
				}
				if val == nil || okv == nil {
					continue
				}
				switch val.Type().Underlying().(type) {
				case *types.Pointer, *types.Slice, *types.Map:
				default:
					continue
				}
				ord++
				n++
				key := fmt.Sprintf("%s#map-lookup@%d-value-unused-when-absent", c.P.Key(fn), ord)
				var bad ssa.Instruction
				for _, tb := range fn.Blocks {
					iff, isIf := lastIf(tb)
					if !isIf {
						continue
					}
					for br := 0; br < 2; br++ {
						if !boolEdge(func(v ssa.Value) bool { return v == okv }, false)(iff, br) {
							continue
						}
						absent := tb.Succs[br]
						if len(absent.Preds) != 1 || absent == tb.Succs[1-br] {
							continue
						}
						for _, x := range fn.Blocks {
							if !absent.Dominates(x) {
								continue
							}
							for _, in2 := range x.Instrs {
								if usesAsOperand(in2, val) {
									bad = in2
								}
								if _, isRange := in2.(*ssa.Range); isRange {
									for _, op := range in2.Operands(nil) {
										if *op == val {
											bad = in2
										}
									}
								}
							}
						}
					}
				}
				if bad == nil {
					c.Ok(rule, key, lk.Pos(), "comma-ok branch uses", "value not used where the key is absent")
					continue
				}
				c.Bad(rule, key, bad.Pos(), "comma-ok branch uses", nil,
					"the value of a map lookup is used on the branch where the lookup reported the key absent (the value is nil there): the presence test is inverted")
				c.Touch(fn)
			}
		}
	}
	c.Ok(rule, "scope#comma-ok-lookups", token.NoPos, "comma-ok branch uses", "%d comma-ok lookups of reference values examined", n)
}

// ---------------------------------------------------------------------------------------------
// removal behind a match

// ruleRemovalBehindMatch: inside a loop over a list, a removal splice or a truncation of that same list at the loop's
// index is done for the element that MATCHED: it is reached only over the true edge of the
// comparison (Equal / ==) of the current element that guards it. With the comparison negated the
// first element that does not match is removed / the list is cut at the wrong place.
func (c *Check) ruleRemovalBehindMatch(rule string, fns []*ssa.Function) {
	n := 0
	for _, fn := range fns {
		if fn == nil || fn.Blocks == nil {
			continue
		}
		k := 0
		for _, h := range loopHeadersOf(fn) {
			list := rangedSlice(h)
			if list == nil {
				continue
			}
			body := loopBody(h)
			// the loop's region: its body plus the blocks that leave it from inside (a `return` after the
			// removal is not part of the natural loop)
			region := map[*ssa.BasicBlock]bool{}
			for b := range body {
				region[b] = true
			}
			for _, e := range h.Succs {
				if !body[e] {
					continue
				}
				for _, x := range fn.Blocks {
					if e.Dominates(x) {
						region[x] = true
					}
				}
			}
			body = region
			sameList := func(v ssa.Value) bool {
				return v == list || sameExpr(v, list) || sharesRoot(v, list)
			}
			isElem := func(v ssa.Value) bool {
				for _, r := range rootsAll(v) {
					if ia, ok := r.(*ssa.IndexAddr); ok && sameList(ia.X) && enclosesBlock(body, ia.Block()) {
						return true
					}
				}
				return false
			}
			for b := range body {
				for _, in := range b.Instrs {
					removal := false
					switch x := in.(type) {
					case *ssa.Call:
						if (builtinCall(x, "append") != nil || builtinCall(x, "copy") != nil) && len(x.Call.Args) == 2 {
							h1, ok1 := x.Call.Args[0].(*ssa.Slice)
							h2, ok2 := x.Call.Args[1].(*ssa.Slice)
							if ok1 && ok2 && sameList(h1.X) && sameList(h2.X) {
								removal = true
							}
						}
					}
					if sl, ok := in.(*ssa.Slice); ok && sl.Low == nil && sl.High != nil && sameList(sl.X) {
						// a truncation `list = list[:i+1]` stored back (not the head of a splice)
						if _, isC := sl.High.(*ssa.Const); !isC {
							for _, r := range *sl.Referrers() {
								if _, isSt := r.(*ssa.Store); isSt {
									removal = true
								}
							}
						}
					}
					if !removal {
						continue
					}
					// the nearest dominating comparison of the current element inside the loop
					var guard *ssa.If
					guardBr := -1
					for x := b; x != nil && body[x]; x = x.Idom() {
						d := x.Idom()
						if d == nil || !body[d] {
							break
						}
						iff, ok := lastIf(d)
						if !ok {
							continue
						}
						cd := normCond(iff.Cond)
						isMatch := false
						if cd.Call != nil && calleeObjName(&cd.Call.Call) == "Equal" {
							for _, a := range cd.Call.Call.Args {
								if isElem(a) {
									isMatch = true
								}
							}
						}
						if cd.Bin != nil && (cd.Bin.Op == token.EQL || cd.Bin.Op == token.NEQ) && (isElem(cd.Bin.X) || isElem(cd.Bin.Y)) {
							isMatch = true
						}
						if !isMatch {
							continue
						}
						for br, s := range d.Succs {
							if s == x && len(x.Preds) == 1 {
								guard, guardBr = iff, br
							}
						}
						break
					}
					if guard == nil {
						continue
					}
					k++
					n++
					r, ok := edgeRel(guard, guardBr)
					onMatch := false
					if cd := normCond(guard.Cond); cd.Call != nil {
						onMatch = (guardBr == 0) != cd.Neg
					} else if ok {
						onMatch = r.Op == token.EQL
					}
					c.Decide(onMatch, rule, fmt.Sprintf("%s#removal@%d-behind-match", c.P.Key(fn), k), in.Pos(), "dominating-edge polarity", nil,
						"the element removed is the one that compared equal",
						"a removal from a list inside the loop that searches it is done on the branch where the current element did NOT compare equal: the wrong element is removed and the matching one stays")
					c.Touch(fn)
				}
			}
		}
	}
	c.Ok(rule, "scope#removals-in-search-loops", token.NoPos, "dominating-edge polarity", "%d removals inside searching loops examined", n)
}

func enclosesBlock(body map[*ssa.BasicBlock]bool, b *ssa.BasicBlock) bool { return body[b] }

// recordedCalleeName: the callee's method / function name as recorded on the confirmed tree (a renamed
// function keeps its recorded name in keys and tables).
func recordedCalleeName(cc *ssa.CallCommon) string {
	n := shortName(calleeName(cc))
	if i := strings.LastIndex(n, "."); i >= 0 {
		n = n[i+1:]
	}
	if n == "" {
		return calleeObjName(cc)
	}
	return n
}

// acceptedIdiom looks a site up in a table of accepted idioms; an entry of a recorded function that no
// longer exists (written in place in its caller) is honoured for the same callee in a function of the
// same package.
func acceptedIdiom(P *Program, table map[string]string, base string) (string, bool) {
	if why, ok := table[base]; ok {
		return why, true
	}
	i := strings.Index(base, "#")
	if i < 0 {
		return "", false
	}
	for k, why := range table {
		j := strings.Index(k, "#")
		if j < 0 || k[j:] != base[i:] {
			continue
		}
		if P.Fn(k[:j]) == nil && pkgOfKey(k[:j]) == pkgOfKey(base[:i]) {
			return why, true
		}
	}
	return "", false
}

// ---------------------------------------------------------------------------------------------
// parameters stay used

// paramUnused: the parameter has no use in the function body.
func paramUnused(p *ssa.Parameter) bool {
	refs := p.Referrers()
	if refs == nil {
		return true
	}
	for _, r := range *refs {
		if _, dbg := r.(*ssa.DebugRef); !dbg {
			return false
		}
	}
	return true
}

func isContextType(t types.Type) bool { return t.String() == "context.Context" }

// ruleParamsStayUsed (E9): a parameter that the function used on the confirmed tree is still used: when the
// one place that read `hash` reads `lastHash` instead, the code compiles (parameters may be unused)
// and what the caller handed over is silently ignored. Parameters unused on the confirmed tree are
// recorded (checker/baseline_params.txt, by position); context parameters are not judged (dropping a
// log line leaves one unused).
func (c *Check) ruleParamsStayUsed(rule string, fns []*ssa.Function, unused map[string]bool) {
	n := 0
	for _, fn := range fns {
		if fn == nil || fn.Blocks == nil || fn.Parent() != nil {
			continue
		}
		key := c.P.Key(fn)
		if key == "" || !baselineHasFunc(key) {
			continue
		}
		for i, p := range fn.Params {
			if p.Name() == "_" || p.Name() == "" || isContextType(p.Type()) {
				continue
			}
			n++
			if paramUnused(p) && !unused[fmt.Sprintf("%s\t%d", key, i)] {
				c.Bad(rule, fmt.Sprintf("%s#parameter-%d-used", key, i), fn.Pos(), "use of parameters", nil,
					"the parameter %q of %s is no longer used in the function: what the caller hands over is ignored (another value of the same type is used in its place)", p.Name(), key)
				c.Touch(fn)
			}
		}
	}
	c.Ok(rule, "scope#parameters", token.NoPos, "use of parameters", "%d parameters examined", n)
}

var paramBaselineCache map[string]bool
var paramBaselineFuncs map[string]bool

func loadParamBaseline() {
	if paramBaselineCache != nil {
		return
	}
	paramBaselineCache = map[string]bool{}
	paramBaselineFuncs = map[string]bool{}
	data, err := os.ReadFile(filepath.Join(verifDirGlobal, "checker", "baseline_params.txt"))
	if err != nil {
		return
	}
	for _, l := range strings.Split(string(data), "\n") {
		if strings.HasPrefix(l, "#") || strings.TrimSpace(l) == "" {
			continue
		}
		f := strings.Split(l, "\t")
		if len(f) == 2 && f[1] == "*" {
			paramBaselineFuncs[f[0]] = true
		} else if len(f) == 2 {
			paramBaselineCache[l] = true
		}
	}
}

func paramBaseline() map[string]bool { loadParamBaseline(); return paramBaselineCache }
func baselineHasFunc(key string) bool { loadParamBaseline(); return paramBaselineFuncs[key] }

func writeParamBaseline(P *Program, out string) error {
	var lines []string
	for k, fn := range P.Funcs {
		if fn == nil || fn.Blocks == nil || fn.Parent() != nil {
			continue
		}
		lines = append(lines, k+"\t*")
		for i, p := range fn.Params {
			if p.Name() == "_" || p.Name() == "" || isContextType(p.Type()) {
				continue
			}
			if paramUnused(p) {
				lines = append(lines, fmt.Sprintf("%s\t%d", k, i))
			}
		}
	}
	sort.Strings(lines)
	hdr := "# per function of the confirmed tree: `<function>\\t*` (the function is known) and `<function>\\t<i>` for each parameter\n# (by position, receiver first) that is unused there; rule E9 reports a parameter that was used and no longer is\n"
	return os.WriteFile(out, []byte(hdr+strings.Join(lines, "\n")+"\n"), 0o644)
}
