package main

import (
	"fmt"
	"go/token"
	"go/types"
	"os"
	"sort"
	"strings"

	"golang.org/x/tools/go/ssa"
)

// Edge threading. After helper normalisation (and in hand-written code of the same shape) a branch
// often tests a value that is a phi of constants: `ok := <true on this path, false on that>; if ok`.
// Which way such a branch goes is decided by the edge through which its block was entered. The path
// queries therefore walk (predecessor, block) pairs for such blocks and follow only the feasible
// successor; everywhere else they behave as before.

// A walkNode is a CFG position together with what the path that led there has established: the
// edge it entered the block by and a small environment of SSA values whose truth (true / false for
// booleans, non-nil / nil for everything else) is known on this path – phi inputs that were
// constants on the edges taken, and values that earlier branches of the path tested.
type walkNode struct {
	b, pred *ssa.BasicBlock
	env     string // canonical "name=0;name=1;…" (see envGet / envSet)
}

const envMax = 10

// Aliases: "phiName~valueName" says that on this path the phi currently carries the (unevaluated)
// boolean value valueName - the value form of `x := a || b` / a flag helper expanded in place, whose
// deciding comparison is never the condition of a branch of its own.
var valueByNameCache = map[*ssa.Function]map[string]ssa.Value{}

func valueByName(fn *ssa.Function, name string) ssa.Value {
	m := valueByNameCache[fn]
	if m == nil {
		m = map[string]ssa.Value{}
		for _, b := range fn.Blocks {
			for _, in := range b.Instrs {
				if v, ok := in.(ssa.Value); ok {
					m[v.Name()] = v
				}
			}
		}
		valueByNameCache[fn] = m
	}
	return m[name]
}

func envAlias(env string, phi *ssa.Phi) ssa.Value {
	if env == "" || phi == nil {
		return nil
	}
	key := ";" + phi.Name() + "~"
	i := strings.Index(";"+env, key)
	if i < 0 {
		return nil
	}
	rest := (";" + env)[i+len(key):]
	if j := strings.Index(rest, ";"); j >= 0 {
		rest = rest[:j]
	}
	return valueByName(phi.Parent(), rest)
}

func envSetAlias(env string, phi *ssa.Phi, v ssa.Value) string {
	name := phi.Name()
	var parts []string
	for _, p := range strings.Split(env, ";") {
		if p == "" || strings.HasPrefix(p, name+"=") || strings.HasPrefix(p, name+"~") {
			continue
		}
		parts = append(parts, p)
	}
	if v != nil {
		parts = append(parts, name+"~"+v.Name())
		sort.Strings(parts)
		if len(parts) > envMax {
			parts = parts[len(parts)-envMax:]
		}
	}
	return strings.Join(parts, ";")
}

func envGet(env string, v ssa.Value) (val bool, known bool) {
	if env == "" || v == nil {
		return false, false
	}
	key := ";" + v.Name() + "="
	i := strings.Index(";"+env, key)
	if i < 0 {
		return false, false
	}
	rest := (";" + env)[i+len(key):]
	return strings.HasPrefix(rest, "1"), true
}

const (
	intNegInf = int64(-1) << 62
	intPosInf = int64(1) << 62
)

// envGetInt / envSetInt: what the path knows about an integer value, as an interval (entries "name@lo,hi").
func envGetInt(env string, v ssa.Value) (lo, hi int64, known bool) {
	lo, hi = intNegInf, intPosInf
	if lenOf(v) != nil {
		lo = 0
	}
	if bt, ok := v.Type().Underlying().(*types.Basic); ok && bt.Info()&types.IsUnsigned != 0 {
		lo = 0
	}
	if isRangeIndex(v) {
		lo = 0
	}
	if env == "" || v == nil {
		return lo, hi, lo != intNegInf
	}
	key := ";" + v.Name() + "@"
	i := strings.Index(";"+env, key)
	if i < 0 {
		return lo, hi, lo != intNegInf
	}
	rest := (";" + env)[i+len(key):]
	if j := strings.Index(rest, ";"); j >= 0 {
		rest = rest[:j]
	}
	var a, b int64
	if _, err := fmt.Sscanf(rest, "%d,%d", &a, &b); err == nil {
		if a > lo {
			lo = a
		}
		if b < hi {
			hi = b
		}
		return lo, hi, true
	}
	return lo, hi, lo != intNegInf
}

func envSetInt(env string, v ssa.Value, lo, hi int64) string {
	name := v.Name()
	var parts []string
	for _, p := range strings.Split(env, ";") {
		if p == "" || strings.HasPrefix(p, name+"@") {
			continue
		}
		parts = append(parts, p)
	}
	parts = append(parts, fmt.Sprintf("%s@%d,%d", name, lo, hi))
	sort.Strings(parts)
	if len(parts) > envMax {
		parts = parts[len(parts)-envMax:]
	}
	return strings.Join(parts, ";")
}

// intRelConst: c as `x <op> k` for an integer x and a constant k (canonical form), if it is one.
func intRelConst(c ssa.Value) (x ssa.Value, op token.Token, k int64, ok bool) {
	bin, isB := c.(*ssa.BinOp)
	if !isB {
		return nil, 0, 0, false
	}
	switch bin.Op {
	case token.LSS, token.LEQ, token.GTR, token.GEQ, token.EQL, token.NEQ:
	default:
		return nil, 0, 0, false
	}
	if bt, isBasic := bin.X.Type().Underlying().(*types.Basic); !isBasic || bt.Info()&types.IsInteger == 0 {
		return nil, 0, 0, false
	}
	r := canonRelation(Rel{bin.X, bin.Y, bin.Op})
	kk, isC := constInt(r.Y)
	if !isC {
		return nil, 0, 0, false
	}
	if _, xc := r.X.(*ssa.Const); xc {
		return nil, 0, 0, false
	}
	return r.X, r.Op, kk, true
}

// intervalDecides: does lo <= x <= hi decide `x op k`?
func intervalDecides(lo, hi int64, op token.Token, k int64) (val bool, known bool) {
	switch op {
	case token.EQL:
		if k < lo || k > hi {
			return false, true
		}
		if lo == hi && lo == k {
			return true, true
		}
	case token.NEQ:
		if k < lo || k > hi {
			return true, true
		}
		if lo == hi && lo == k {
			return false, true
		}
	case token.LSS:
		if hi < k {
			return true, true
		}
		if lo >= k {
			return false, true
		}
	case token.LEQ:
		if hi <= k {
			return true, true
		}
		if lo > k {
			return false, true
		}
	case token.GTR:
		if lo > k {
			return true, true
		}
		if hi <= k {
			return false, true
		}
	case token.GEQ:
		if lo >= k {
			return true, true
		}
		if hi < k {
			return false, true
		}
	}
	return false, false
}

// intervalAfter: the interval of x after `x op k` turned out `taken`.
func intervalAfter(lo, hi int64, op token.Token, k int64, taken bool) (int64, int64) {
	if !taken {
		op = negOp(op)
	}
	switch op {
	case token.EQL:
		if k > lo {
			lo = k
		}
		if k < hi {
			hi = k
		}
	case token.NEQ:
		if lo == k {
			lo = k + 1
		}
		if hi == k {
			hi = k - 1
		}
	case token.LSS:
		if k-1 < hi {
			hi = k - 1
		}
	case token.LEQ:
		if k < hi {
			hi = k
		}
	case token.GTR:
		if k+1 > lo {
			lo = k + 1
		}
	case token.GEQ:
		if k > lo {
			lo = k
		}
	}
	return lo, hi
}

func envSet(env string, v ssa.Value, val bool, known bool) string {
	name := v.Name()
	var parts []string
	for _, p := range strings.Split(env, ";") {
		if p == "" || strings.HasPrefix(p, name+"=") || strings.HasPrefix(p, name+"~") {
			continue
		}
		parts = append(parts, p)
	}
	if known {
		d := "0"
		if val {
			d = "1"
		}
		parts = append(parts, name+"="+d)
		sort.Strings(parts) // canonical: paths that know the same facts are the same state
		if len(parts) > envMax {
			parts = parts[len(parts)-envMax:]
		}
	}
	return strings.Join(parts, ";")
}

// worthRemembering: a tested value is only recorded if something else can depend on it later (a
// phi, or a value with further uses); single-use loads would only crowd the environment.
func worthRemembering(v ssa.Value) bool {
	if _, ok := v.(*ssa.Phi); ok {
		return true
	}
	// tested (directly or negated / compared) by at least two branches, or feeding a phi
	r := v.Referrers()
	if r == nil {
		return false
	}
	n := 0
	for _, u := range *r {
		switch x := u.(type) {
		case *ssa.If, *ssa.Phi:
			n++
		case *ssa.UnOp:
			if x.Op == token.NOT {
				n++
			}
		case *ssa.BinOp:
			switch x.Op {
			case token.EQL, token.NEQ, token.LSS, token.LEQ, token.GTR, token.GEQ:
				n++
			}
		}
	}
	return n >= 2
}

// truthOf: what is known about v (true / non-nil = true) in block `at` on a path with environment env.
func truthOf(v ssa.Value, at *ssa.BasicBlock, env string, depth int) (bool, bool) {
	v = stripIfaceConv(v)
	if depth > 4 || v == nil {
		return false, false
	}
	if c, ok := v.(*ssa.Const); ok {
		if bv, isB := isConstBool(c); isB {
			return bv, true
		}
		if c.IsNil() {
			return false, true
		}
		return false, false
	}
	if val, ok := envGet(env, v); ok {
		return val, true
	}
	if phi, ok := v.(*ssa.Phi); ok {
		if a := envAlias(env, phi); a != nil && a != v {
			return truthOf(a, at, env, depth+1)
		}
	}
	if u, ok := v.(*ssa.UnOp); ok && u.Op == token.NOT {
		x, k := truthOf(u.X, at, env, depth+1)
		return !x, k
	}
	if _, isBool := v.Type().Underlying().(*types.Basic); !isBool {
		if knownNonNil(v, at, 0) {
			return true, true
		}
	}
	return false, false
}

// condOutcome evaluates the branch condition c of block b on a path with environment env, with
// the phis of b itself resolved through the entry edge pi (or -1).
func condOutcome(c ssa.Value, b *ssa.BasicBlock, pi int, pred *ssa.BasicBlock, env string, depth int) (bool, bool) {
	if depth > 5 {
		return false, false
	}
	res := func(v ssa.Value) ssa.Value {
		v = stripIfaceConv(v)
		if p, ok := v.(*ssa.Phi); ok && p.Block() == b && pi >= 0 && pi < len(p.Edges) {
			return stripIfaceConv(p.Edges[pi])
		}
		return v
	}
	at := pred
	if at == nil {
		at = b
	}
	switch x := c.(type) {
	case *ssa.UnOp:
		if x.Op == token.NOT {
			v, k := condOutcome(x.X, b, pi, pred, env, depth+1)
			return !v, k
		}
	case *ssa.BinOp:
		if xv, op, k, ok := intRelConst(x); ok {
			xr := res(xv) // a phi of this block: the value that flows in over the entry edge
			if kc, isC := constInt(xr); isC {
				if v, decided := intervalDecides(kc, kc, op, k); decided {
					return v, true
				}
			}
			if lo, hi, known := envGetInt(env, xr); known {
				if v, decided := intervalDecides(lo, hi, op, k); decided {
					return v, true
				}
			}
		}
		if x.Op == token.EQL || x.Op == token.NEQ {
			l, r := res(x.X), res(x.Y)
			if isNilConst(r) || isNilConst(l) {
				other := l
				if isNilConst(l) {
					other = r
				}
				if nn, k := truthOf(other, at, env, depth+1); k {
					// nn == true means non-nil
					return nn == (x.Op == token.NEQ), true
				}
				return false, false
			}
			if bv, ok := isConstBool(r); ok {
				if lv, lk := truthOf(l, at, env, depth+1); lk {
					return (lv == bv) == (x.Op == token.EQL), true
				}
			}
			if bv, ok := isConstBool(l); ok {
				if rv, rk := truthOf(r, at, env, depth+1); rk {
					return (rv == bv) == (x.Op == token.EQL), true
				}
			}
		}
		if v, k := envGet(env, x); k {
			return v, true
		}
		return false, false
	}
	return truthOf(res(c), at, env, depth+1)
}

func predIndex(pred, b *ssa.BasicBlock) int {
	pi := -1
	for i, p := range b.Preds {
		if p == pred {
			if pi >= 0 {
				return -1
			}
			pi = i
		}
	}
	return pi
}

// feasibleEdge: may the edge b -> b.Succs[i] be taken on this path?
func (n walkNode) feasibleEdge(i int) bool {
	b := n.b
	if len(b.Succs) != 2 || len(b.Instrs) == 0 {
		return true
	}
	iff, ok := b.Instrs[len(b.Instrs)-1].(*ssa.If)
	if !ok {
		return true
	}
	val, known := condOutcome(iff.Cond, b, predIndex(n.pred, b), n.pred, n.env, 0)
	if !known {
		return true
	}
	if val {
		return i == 0
	}
	return i == 1
}

// step: the node reached by taking edge i out of n (the caller has checked feasibility).
func (n walkNode) step(i int) walkNode {
	b := n.b
	s := b.Succs[i]
	env := n.env
	// what the branch itself tells
	if len(b.Succs) == 2 && len(b.Instrs) > 0 {
		if iff, ok := b.Instrs[len(b.Instrs)-1].(*ssa.If); ok {
			env = learnFromBranch(env, iff.Cond, i == 0, 0)
		}
	}
	// phis of the successor take the value of this edge
	if pi := predIndex(b, s); pi >= 0 {
		type upd struct {
			phi   *ssa.Phi
			v, ok bool
			alias ssa.Value
		}
		var ups []upd
		for _, in := range s.Instrs {
			phi, ok := in.(*ssa.Phi)
			if !ok {
				break
			}
			if pi >= len(phi.Edges) {
				continue
			}
			v, k := truthOf(phi.Edges[pi], b, env, 0)
			var alias ssa.Value
			if !k {
				if bt, isB := phi.Type().Underlying().(*types.Basic); isB && bt.Kind() == types.Bool {
					switch e := phi.Edges[pi].(type) {
					case *ssa.BinOp:
						alias = e
					case *ssa.UnOp:
						if e.Op == token.NOT {
							alias = e
						}
					case *ssa.Phi:
						if a := envAlias(env, e); a != nil {
							alias = a
						}
					}
				}
			}
			ups = append(ups, upd{phi, v, k, alias})
		}
		for _, u := range ups {
			env = envSet(env, u.phi, u.v, u.ok)
			if u.alias != nil {
				env = envSetAlias(env, u.phi, u.alias)
			}
		}
	} else {
		// entry edge not unique: forget what was known about this block's phis
		for _, in := range s.Instrs {
			phi, ok := in.(*ssa.Phi)
			if !ok {
				break
			}
			env = envSet(env, phi, false, false)
		}
	}
	return walkNode{s, b, env}
}

// learnFromBranch records what taking the (true / false) edge of a condition establishes.
func learnFromBranch(env string, c ssa.Value, taken bool, depth int) string {
	if depth > 3 {
		return env
	}
	switch x := c.(type) {
	case *ssa.UnOp:
		if x.Op == token.NOT {
			// the negation itself may be what a later phi carries (`c := !f(); if c {…}; if c {…}`)
			if worthRemembering(x) {
				env = envSet(env, x, taken, true)
			}
			return learnFromBranch(env, x.X, !taken, depth+1)
		}
	case *ssa.BinOp:
		if xv, op, k, ok := intRelConst(x); ok && worthRemembering(xv) {
			lo, hi, _ := envGetInt(env, xv)
			lo, hi = intervalAfter(lo, hi, op, k, taken)
			env = envSetInt(env, xv, lo, hi)
			if worthRemembering(x) {
				env = envSet(env, x, taken, true) // the comparison itself may feed a flag (`beyond := a || b`)
			}
			return env
		}
		if x.Op == token.EQL || x.Op == token.NEQ {
			l, r := stripIfaceConv(x.X), stripIfaceConv(x.Y)
			eq := taken == (x.Op == token.EQL)
			if isNilConst(r) && worthRemembering(l) {
				return envSet(env, l, !eq, true)
			}
			if isNilConst(l) && worthRemembering(r) {
				return envSet(env, r, !eq, true)
			}
			if bv, ok := isConstBool(r); ok && worthRemembering(l) {
				return envSet(env, l, bv == eq, true)
			}
			if bv, ok := isConstBool(l); ok && worthRemembering(r) {
				return envSet(env, r, bv == eq, true)
			}
		}
		if worthRemembering(x) {
			return envSet(env, x, taken, true)
		}
		return env
	case *ssa.Const:
		return env
	}
	if _, isB := c.Type().Underlying().(*types.Basic); isB && worthRemembering(c) {
		return envSet(env, c, taken, true)
	}
	return env
}

func stripIfaceConv(v ssa.Value) ssa.Value {
	for {
		switch x := v.(type) {
		case *ssa.ChangeInterface:
			v = x.X
		case *ssa.ChangeType:
			v = x.X
		default:
			return v
		}
	}
}

// knownNonNil: v cannot be nil when control is in block at: a freshly built error, a wrap of a
// non-nil error, an allocation, or a value that a dominating branch edge established as non-nil.
func knownNonNil(v ssa.Value, at *ssa.BasicBlock, depth int) bool {
	if depth > 4 {
		return false
	}
	v = stripIfaceConv(v)
	switch x := v.(type) {
	case *ssa.MakeInterface:
		return true // a concrete value boxed in an interface is a non-nil interface
	case *ssa.Alloc, *ssa.MakeSlice, *ssa.MakeMap, *ssa.MakeChan, *ssa.MakeClosure, *ssa.FieldAddr, *ssa.IndexAddr:
		return true
	case *ssa.Call:
		n := calleeName(&x.Call)
		switch {
		case n == "errors.New" || n == "fmt.Errorf" || strings.HasSuffix(n, "pkg/errors.New") || strings.HasSuffix(n, "pkg/errors.Errorf"):
			return true
		case strings.HasSuffix(n, "pkg/errors.Wrap") || strings.HasSuffix(n, "pkg/errors.Wrapf") || strings.HasSuffix(n, "pkg/errors.WithStack") || strings.HasSuffix(n, "pkg/errors.WithMessage"):
			if len(x.Call.Args) > 0 {
				return knownNonNil(x.Call.Args[0], at, depth+1)
			}
		}
		// a local closure / module helper that wraps one of its arguments (`release := func(err error, s string)
		// error { unlock(); return errors.Wrap(err, s) }`): non-nil if every return is, with its parameters
		// standing for the arguments
		var callee *ssa.Function
		if mc, ok := x.Call.Value.(*ssa.MakeClosure); ok {
			callee, _ = mc.Fn.(*ssa.Function)
		} else if f := x.Call.StaticCallee(); f != nil && f.Pkg != nil && inModule(f.Pkg.Pkg) {
			callee = f
		}
		if callee != nil && callee.Blocks != nil && depth < 3 {
			rets := returnsOf(callee)
			all := len(rets) > 0
			for _, ret := range rets {
				if len(ret.Results) == 0 {
					all = false
					break
				}
				for _, rv := range resultValues(ret, len(ret.Results)-1) {
					ok := knownNonNil(rv, ret.Block(), depth+1)
					if !ok {
						// a wrap of a parameter whose argument is non-nil here
						inner := rv
						if cl, isCall := inner.(*ssa.Call); isCall && len(cl.Call.Args) > 0 {
							cn := calleeName(&cl.Call)
							if strings.HasSuffix(cn, "pkg/errors.Wrap") || strings.HasSuffix(cn, "pkg/errors.Wrapf") || strings.HasSuffix(cn, "pkg/errors.WithStack") || strings.HasSuffix(cn, "pkg/errors.WithMessage") {
								inner = cl.Call.Args[0]
							}
						}
						if p, isParam := inner.(*ssa.Parameter); isParam {
							for i, cp := range callee.Params {
								if cp == p && i < len(x.Call.Args) && knownNonNil(x.Call.Args[i], at, depth+1) {
									ok = true
								}
							}
						}
					}
					if !ok {
						all = false
					}
				}
			}
			if all {
				return true
			}
		}
	case *ssa.UnOp:
		if x.Op == token.MUL {
			if g, ok := x.X.(*ssa.Global); ok && strings.HasPrefix(g.Name(), "Err") {
				return true // package-level sentinel errors
			}
		}
	}
	// established by a dominating edge: some block d ending in `if v != nil` whose non-nil successor dominates at
	if at == nil {
		return false
	}
	for d := at; d != nil; d = d.Idom() {
		if len(d.Preds) != 1 {
			continue
		}
		p := d.Preds[0]
		iff, ok := lastIf(p)
		if !ok || len(p.Succs) != 2 {
			continue
		}
		for br := 0; br < 2; br++ {
			if p.Succs[br] != d {
				continue
			}
			r, ok := edgeRel(iff, br)
			if !ok || r.Op != token.NEQ {
				continue
			}
			x, y := stripIfaceConv(r.X), stripIfaceConv(r.Y)
			if isNilConst(y) && (x == v || sameExpr(x, v)) {
				return true
			}
			if isNilConst(x) && (y == v || sameExpr(y, v)) {
				return true
			}
		}
	}
	return false
}

// mkNode: block b entered over the edge pred -> b with nothing else known (the phis of b that are
// constants on that edge are recorded).
func mkNode(pred, b *ssa.BasicBlock) walkNode {
	if pred == nil {
		return walkNode{b, nil, ""}
	}
	for i, s := range pred.Succs {
		if s == b {
			n := walkNode{pred, nil, ""}
			// do not learn from pred's branch twice when both edges lead to b
			if len(pred.Succs) == 2 && pred.Succs[0] == pred.Succs[1] {
				return walkNode{b, pred, ""}
			}
			return n.step(i)
		}
	}
	return walkNode{b, pred, ""}
}

// condIsLocalPhi: b ends in an If whose condition is (a negation of) a phi of b itself – the value
// form of `a || b` / `a && b` in switch cases and assignments.
func condIsLocalPhi(b *ssa.BasicBlock) *ssa.Phi {
	if len(b.Instrs) == 0 {
		return nil
	}
	iff, ok := b.Instrs[len(b.Instrs)-1].(*ssa.If)
	if !ok {
		return nil
	}
	v := iff.Cond
	for {
		if u, ok := v.(*ssa.UnOp); ok && u.Op == token.NOT {
			v = u.X
			continue
		}
		break
	}
	if p, ok := v.(*ssa.Phi); ok && p.Block() == b {
		return p
	}
	return nil
}

// effectiveIf: the branch instruction as it reads when b was entered from n.pred: a condition that
// is a phi of b is replaced by the value flowing in over that edge, so that edge predicates see the
// comparison that actually decides the branch.
func (n walkNode) effectiveIf(iff *ssa.If) *ssa.If {
	if n.pred == nil || iff == nil {
		return iff
	}
	phi := condIsLocalPhi(n.b)
	if phi == nil {
		// the condition is (a negation of) a phi of an earlier block that, on this path, carries an
		// unevaluated comparison: the edge predicates see that comparison
		negated := false
		v := iff.Cond
		for {
			u, ok := v.(*ssa.UnOp)
			if !ok || u.Op != token.NOT {
				break
			}
			negated = !negated
			v = u.X
		}
		if p, ok := v.(*ssa.Phi); ok {
			if a := envAlias(n.env, p); a != nil {
				if negated {
					return &ssa.If{Cond: &ssa.UnOp{Op: token.NOT, X: a}}
				}
				return &ssa.If{Cond: a}
			}
		}
		return iff
	}
	pi := predIndex(n.pred, n.b)
	if pi < 0 || pi >= len(phi.Edges) {
		return iff
	}
	negated := false
	for v := iff.Cond; ; {
		u, ok := v.(*ssa.UnOp)
		if !ok || u.Op != token.NOT {
			break
		}
		negated = !negated
		v = u.X
	}
	ev := phi.Edges[pi]
	if _, isC := ev.(*ssa.Const); isC {
		return iff
	}
	// follow a chain of phis that merely forward the value of an earlier block
	for d := 0; d < 4; d++ {
		p2, ok := ev.(*ssa.Phi)
		if !ok {
			break
		}
		// which input of p2 is the live one on this path? only decidable if all but one are constants known in env … keep it simple:
		var live ssa.Value
		nLive := 0
		for _, e := range p2.Edges {
			if _, isC := e.(*ssa.Const); !isC {
				live = e
				nLive++
			}
		}
		if nLive != 1 {
			break
		}
		ev = live
	}
	if _, isC := ev.(*ssa.Const); isC {
		return iff
	}
	// the value flowing in may itself be (a negation of) a phi of an earlier block that carries an
	// unevaluated comparison on this path
	for d := 0; d < 3; d++ {
		inner, neg2 := ev, false
		for {
			u, ok := inner.(*ssa.UnOp)
			if !ok || u.Op != token.NOT {
				break
			}
			neg2 = !neg2
			inner = u.X
		}
		p, ok := inner.(*ssa.Phi)
		if !ok {
			break
		}
		a := envAlias(n.env, p)
		if a == nil {
			break
		}
		ev = a
		if neg2 {
			negated = !negated
		}
	}
	if negated {
		// `if !flag` with flag = <comparison> on this path: the edge predicates see !<comparison>
		return &ssa.If{Cond: &ssa.UnOp{Op: token.NOT, X: ev}}
	}
	return &ssa.If{Cond: ev}
}

// ---------------------------------------------------------------------------------------------
// constants chosen on different paths (phi of constants)

// constAt is one way a use can see a constant: directly (pred == nil) or as the phi input of the
// edge pred -> succ.
type constAt struct {
	Val        *ssa.Const
	Pred, Succ *ssa.BasicBlock
	At         ssa.Instruction // the use (direct) or the terminator of Pred
}

// constSources resolves the value v used by instruction in into the constants it can be, each with
// the edge on which that constant is chosen; edges that cannot reach the use (edge threading) are
// dropped. all=false if some input is not a constant.
func constSources(in ssa.Instruction, v ssa.Value, depth int) (out []constAt, all bool) {
	v = stripIfaceConv(v)
	if depth > 4 {
		return nil, false
	}
	switch x := v.(type) {
	case *ssa.Const:
		return []constAt{{x, nil, nil, in}}, true
	case *ssa.Phi:
		all = true
		B := x.Block()
		for i, e := range x.Edges {
			p := B.Preds[i]
			// can the use be reached when B is entered over this edge?
			if B != in.Block() {
				// … without passing through B again (a later pass through B chooses anew)
				if ok, _ := reachFromNode(mkNode(p, B), in.Block(), nil, map[*ssa.BasicBlock]bool{B: true}); !ok {
					continue
				}
			}
			if cst, ok := stripIfaceConv(e).(*ssa.Const); ok {
				out = append(out, constAt{cst, p, B, p.Instrs[len(p.Instrs)-1]})
				continue
			}
			sub, ok := constSources(p.Instrs[len(p.Instrs)-1], e, depth+1)
			if !ok {
				all = false
			}
			out = append(out, sub...)
		}
		return out, all
	}
	return nil, false
}

// mustPassAt: every path from the function entry to the point where the constant is chosen crosses
// a guard edge (the choosing edge itself counts).
func mustPassAt(ca constAt, guard EdgePred) (bool, []string) {
	if ca.Pred == nil {
		return mustPass(ca.At, guard)
	}
	if iff, ok := lastIf(ca.Pred); ok {
		for br, s := range ca.Pred.Succs {
			if s == ca.Succ && guard(iff, br) {
				return true, nil
			}
		}
	}
	return mustPass(ca.At, guard)
}

// reachFromNode: like reachAvoid2 but starting at a node that remembers the edge it was entered by.
func reachFromNode(start walkNode, target *ssa.BasicBlock, guard EdgePred, cut map[*ssa.BasicBlock]bool) (bool, []*ssa.BasicBlock) {
	if start.b == target {
		return true, []*ssa.BasicBlock{target}
	}
	prev := map[walkNode]walkNode{start: {}}
	queue := []walkNode{start}
	for len(queue) > 0 {
		n := queue[0]
		queue = queue[1:]
		b := n.b
		if cut[b] && n != start {
			continue
		}
		var iff *ssa.If
		if k := len(b.Instrs); k > 0 {
			iff, _ = b.Instrs[k-1].(*ssa.If)
		}
		for i, s := range b.Succs {
			if iff != nil && guard != nil && guard(n.effectiveIf(iff), i) {
				continue
			}
			if !n.feasibleEdge(i) {
				continue
			}
			nn := n.step(i)
			if _, seen := prev[nn]; seen {
				continue
			}
			prev[nn] = n
			if s == target {
				var path []*ssa.BasicBlock
				for x := nn; x.b != nil; x = prev[x] {
					path = append([]*ssa.BasicBlock{x.b}, path...)
				}
				return true, path
			}
			queue = append(queue, nn)
		}
	}
	return false, nil
}

// appendedValues: the element values of `append(s, e1, e2…)` (the variadic slice is a fresh array
// the elements are stored into); nil if the call has another shape (append(s, t...)).
func appendedValues(call *ssa.Call) []ssa.Value {
	if builtinCall(call, "append") == nil || len(call.Call.Args) != 2 {
		return nil
	}
	sl, ok := call.Call.Args[1].(*ssa.Slice)
	if !ok {
		return nil
	}
	al, ok := sl.X.(*ssa.Alloc)
	if !ok {
		return nil
	}
	var out []ssa.Value
	for _, r := range *al.Referrers() {
		ia, ok := r.(*ssa.IndexAddr)
		if !ok {
			continue
		}
		for _, r2 := range *ia.Referrers() {
			if st, ok := r2.(*ssa.Store); ok && st.Addr == ssa.Value(ia) {
				out = append(out, st.Val)
			}
			// a record literal built in place: `append(list, T{a: x, b: y})`
			if fa, ok := r2.(*ssa.FieldAddr); ok && fa.X == ssa.Value(ia) {
				for _, r3 := range *fa.Referrers() {
					if st, ok := r3.(*ssa.Store); ok && st.Addr == ssa.Value(fa) {
						out = append(out, st.Val)
					}
				}
			}
		}
	}
	return out
}

// explore walks the CFG from the given nodes following only feasible edges (edge threading);
// visit returns false to stop expanding at that node.
func explore(starts []walkNode, visit func(n walkNode) bool) {
	seen := map[walkNode]bool{}
	q := append([]walkNode{}, starts...)
	for len(q) > 0 {
		n := q[0]
		q = q[1:]
		if seen[n] {
			continue
		}
		seen[n] = true
		if !visit(n) {
			continue
		}
		for i := range n.b.Succs {
			if n.feasibleEdge(i) {
				q = append(q, n.step(i))
			}
		}
	}
}

// succNodes: the nodes reached over the edges leaving b (all of them; b's own entry edge unknown).
func succNodes(b *ssa.BasicBlock) []walkNode {
	var out []walkNode
	for _, s := range b.Succs {
		out = append(out, mkNode(b, s))
	}
	return out
}

// entryNodes: b entered over each of its incoming edges (or without edge information if it has none).
func entryNodes(b *ssa.BasicBlock) []walkNode {
	if len(b.Preds) == 0 {
		return []walkNode{{b: b}}
	}
	var out []walkNode
	for _, p := range b.Preds {
		out = append(out, mkNode(p, b))
	}
	return out
}

// leadsToBoolReturn: after taking the edge from -> succ, every feasible path returns the boolean
// constant want (result index 0) without first starting another loop iteration.
func leadsToBoolReturn(from, succ *ssa.BasicBlock, want bool) bool {
	ok := true
	reached := false
	explore([]walkNode{mkNode(from, succ)}, func(n walkNode) bool {
		x := n.b
		if x != succ && loopBody(x) != nil {
			ok = false // back at a loop header: no return on this path
			return false
		}
		if ret, isRet := x.Instrs[len(x.Instrs)-1].(*ssa.Return); isRet {
			reached = true
			if len(ret.Results) == 0 {
				ok = false
				return false
			}
			v := ret.Results[0]
			if phi, isPhi := v.(*ssa.Phi); isPhi && phi.Block() == x && n.pred != nil {
				for i, p := range x.Preds {
					if p == n.pred && i < len(phi.Edges) {
						v = phi.Edges[i]
					}
				}
			}
			if b, isC := isConstBool(v); isC {
				if b != want {
					ok = false
				}
				return false
			}
			// defer-spilled result: every value stored for this return must be the wanted constant
			vals := resultValues(ret, 0)
			if len(vals) == 0 {
				ok = false
			}
			for _, rv := range vals {
				if b, isC := isConstBool(rv); !isC || b != want {
					ok = false
				}
			}
			return false
		}
		if isExitBlock(x) {
			ok = false
			return false
		}
		return true
	})
	return ok && reached
}

// inlineMembership: v is a boolean that can only be true after an element satisfying elemOK compared
// equal to an element of a list satisfying listOK – the found-flag of a membership loop written in
// place (`found := false; for … { if x == e { found = true; break } }`).
func inlineMembership(use ssa.Instruction, v ssa.Value, elemOK, listOK func(ssa.Value) bool) bool {
	phi, isPhi := stripIfaceConv(v).(*ssa.Phi)
	if !isPhi {
		return false
	}
	if use == nil || use.Block() == nil {
		use = phi // no particular use: every input edge counts
	}
	srcs, all := constSources(use, v, 0)
	if os.Getenv("VERIF_DEBUG") != "" {
		fmt.Fprintf(os.Stderr, "inlineMembership %s all=%v n=%d\n", v.Name(), all, len(srcs))
	}
	if !all || len(srcs) == 0 {
		return false
	}
	// a value compared through the address of a local copy stands for what was stored in the copy
	held := func(x ssa.Value) []ssa.Value {
		out := []ssa.Value{x}
		if al, ok := x.(*ssa.Alloc); ok {
			for _, r := range *al.Referrers() {
				if st, ok := r.(*ssa.Store); ok && st.Addr == ssa.Value(al) {
					out = append(out, st.Val)
				}
			}
		}
		return out
	}
	isElem := func(x ssa.Value) bool {
		for _, v := range held(x) {
			if elemOK(v) {
				return true
			}
		}
		return false
	}
	fromList := func(x ssa.Value) bool {
		for _, v := range held(x) {
			for _, r := range rootsAll(v) {
				if ia, ok := r.(*ssa.IndexAddr); ok && listOK(ia.X) {
					return true
				}
			}
		}
		return false
	}
	eq := equalEdge(func(a, b ssa.Value) bool {
		return (isElem(a) && fromList(b)) || (isElem(b) && fromList(a))
	}, true)
	sawTrue := false
	for _, s := range srcs {
		b, isB := isConstBool(s.Val)
		if !isB {
			return false
		}
		if !b {
			continue
		}
		sawTrue = true
		if ok, w := mustPassAt(s, eq); !ok {
			if os.Getenv("VERIF_DEBUG") != "" {
				fmt.Fprintf(os.Stderr, "  true source not behind equality: %v\n", w)
			}
			return false
		}
	}
	return sawTrue
}

// indexMembership: on edge br of iff an index variable is known to be a real index (`idx >= 0`, `idx != -1`,
// `idx > -1`) and every way it can be one passed an equality between an element satisfying elemOK and
// an element of a list satisfying listOK: the "index of the match or -1" form of a membership test.
func indexMembership(iff *ssa.If, br int, elemOK, listOK func(ssa.Value) bool) bool {
	r, ok := edgeRel(iff, br)
	if !ok {
		return false
	}
	k, isC := constInt(r.Y)
	if !isC || !((r.Op == token.GEQ && k == 0) || (r.Op == token.GTR && k == -1) || (r.Op == token.NEQ && k == -1)) {
		return false
	}
	held := func(x ssa.Value) []ssa.Value {
		out := []ssa.Value{x}
		if al, ok := x.(*ssa.Alloc); ok {
			for _, rr := range *al.Referrers() {
				if st, ok := rr.(*ssa.Store); ok && st.Addr == ssa.Value(al) {
					out = append(out, st.Val)
				}
			}
		}
		return out
	}
	isElem := func(x ssa.Value) bool {
		for _, v := range held(x) {
			if elemOK(v) {
				return true
			}
		}
		return false
	}
	fromList := func(x ssa.Value) bool {
		for _, v := range held(x) {
			for _, rt := range rootsAll(v) {
				if ia, ok := rt.(*ssa.IndexAddr); ok && listOK(ia.X) {
					return true
				}
			}
		}
		return false
	}
	eq := equalEdge(func(a, b ssa.Value) bool {
		return (isElem(a) && fromList(b)) || (isElem(b) && fromList(a))
	}, true)
	sawIdx := false
	good := true
	seen := map[ssa.Value]bool{}
	var walk func(v ssa.Value, at ssa.Instruction, depth int)
	walk = func(v ssa.Value, at ssa.Instruction, depth int) {
		v = stripConv(v)
		if kk, isK := constInt(v); isK {
			if kk >= 0 {
				good = false
			}
			return
		}
		if phi, isPhi := v.(*ssa.Phi); isPhi && depth < 6 && loopBody(phi.Block()) == nil {
			if seen[phi] {
				return
			}
			seen[phi] = true
			for i, e := range phi.Edges {
				p := phi.Block().Preds[i]
				walk(e, p.Instrs[len(p.Instrs)-1], depth+1)
			}
			return
		}
		sawIdx = true
		if at == nil {
			good = false
			return
		}
		if pass, _ := mustPass(at, eq); !pass {
			good = false
		}
	}
	walk(r.X, nil, 0)
	return good && sawIdx
}

// isRangeIndex: v is the index of a `for i := range s` / `for i, x := range s` loop as go/ssa builds it
// (`i = phi[-1, i] + 1`), or a counted loop variable starting at a non-negative constant and only
// incremented: never negative.
func isRangeIndex(v ssa.Value) bool {
	// `for i := range s`: i = phi + 1 with phi = [-1 on entry, i on every back edge]
	if b, ok := v.(*ssa.BinOp); ok && b.Op == token.ADD {
		if k, isC := constInt(b.Y); isC && k == 1 {
			if phi, ok := b.X.(*ssa.Phi); ok && len(phi.Edges) >= 2 {
				entries, backs := 0, 0
				for _, e := range phi.Edges {
					if k0, isC := constInt(e); isC && k0 == -1 {
						entries++
					} else if e == ssa.Value(b) {
						backs++
					} else {
						entries = -100
					}
				}
				if entries == 1 && backs >= 1 {
					return true
				}
			}
		}
	}
	// `for i := k; …; i += c` (k >= 0, c > 0): phi = [k on entry, phi + c on every back edge]
	if phi, ok := v.(*ssa.Phi); ok && len(phi.Edges) >= 2 {
		entries, backs := 0, 0
		for _, e := range phi.Edges {
			if k0, isC := constInt(e); isC && k0 >= 0 {
				entries++
				continue
			}
			if inc, ok := e.(*ssa.BinOp); ok && inc.Op == token.ADD && inc.X == ssa.Value(phi) {
				if k1, isC := constInt(inc.Y); isC && k1 > 0 {
					backs++
					continue
				}
			}
			entries = -100
		}
		if entries == 1 && backs >= 1 {
			return true
		}
	}
	return false
}
