package main

import (
	"fmt"
	"go/token"
	"go/types"

	"golang.org/x/tools/go/ssa"
)

func init() {
	register(&PropDef{
		ID:    "C03",
		Title: "Relevant transactions are delivered completely and exactly once",
		Explanation: "Decides the gate/ownership skeleton of transaction delivery: " +
			"(R1) client.Handler.HandleTx / HandleTxUpdate are invoked in the node only from the frozen set of delivery functions; " +
			"(R11) in processUnconfirmedTx a record read from the tx-state store is delivered as new only past an edge showing it has no merkle proof or that the proof's block is no longer in the chain (re-announcement after confirmation must not re-deliver); (R2) in processUnconfirmedTx HandleTx is reachable only through MemPool.AddTransaction added==true, IsRelevant()==true and TxRepository.Add(…,-1) with err==nil and added==true (the single gate); " +
			"(R3) in ProcessBlock a tx is classified new only through inUnconfirmed==false ∧ inMemPool==false ∧ IsRelevant()==true and as already delivered only through inUnconfirmed==true; HandleTx is guarded by the new flag and the confirm update by its negation; " +
			"(R4) every client.Tx built in internal/spynode passes the success edge of fetchSpentOutputs before it is saved or delivered; " +
			"(R5) every HandleTx / HandleTxUpdate argument was saved successfully (SaveTxState) after its last modification; " +
			"(R6) the unconfirmed map is only touched under unconfirmedLock (frozen exceptions: Load at start-up, Save's unlocked len for a log line); " +
			"(R7) ProcessBlock releases the hand-over lock taken by GetUnconfirmed exactly once on every exit and never calls, while holding it, a function that takes it on every path; " +
			"(R8) no delivered transaction is provably nil (a FetchTxState result is not used on the error path of the same call); " +
			"(R9) TxRepository.Add(…,-1) inserts and returns added=true only when the txid was absent, and returns added=false without inserting otherwise; " +
			"(R10) MemPool.removeTransaction reports 'was in the mempool' only for entries whose body was present (block processing uses that answer to skip classification).",
		NotDecided:  "completeness / exactly-once over arrival orders, duplicates across peers, re-announcement after confirmation, behaviour after reorg and restart (history-quantified).",
		Assumptions: []string{"handlers are invoked synchronously", "storage.FetchTxState returns (nil, err) or (tx, nil)"},
		Tech:        "who-may-call, guard edge cut-sets, path typestate (built → outputs fetched → saved → notified), lock typestate with hand-over summaries, nil-on-error-path dataflow",
		Run:         runC03,
	})
}

func runC03(c *Check) {
	ta := c.txAnchors("R0")
	if ta == nil {
		return
	}
	// ---- R1
	allowedTx := map[string]string{
		"spynode.(*Node).processUnconfirmedTx": "new unconfirmed tx",
		"spynode.(*Node).ProcessBlock":         "tx first seen in a block",
		"spynode.(*Node).provideBlock":         "block refeed",
	}
	allowedUpd := map[string]string{
		"spynode.(*Node).processUnconfirmedTx": "conflict flagged on an earlier tx",
		"spynode.(*Node).ProcessBlock":         "confirmation / cancellation",
		"spynode.(*Node).checkTxDelays":        "safe after delay",
	}
	nTx, nUpd := 0, 0
	for _, fn := range c.P.FuncsIn("spynode", "handlers", "state", "storage") {
		for _, s := range c.handlerInvokes(fn, "HandleTx") {
			nTx++
			k := c.P.Key(topFn(fn))
			_, ok := allowedTx[k]
			c.Decide(ok, "R1", k+"#invokes-HandleTx", s.Pos(), "who-may-call", nil, "allowed delivery function", "HandleTx is invoked from "+k+", outside the frozen set of delivery functions")
		}
		for _, s := range c.handlerInvokes(fn, "HandleTxUpdate") {
			nUpd++
			k := c.P.Key(topFn(fn))
			_, ok := allowedUpd[k]
			c.Decide(ok, "R1", k+"#invokes-HandleTxUpdate", s.Pos(), "who-may-call", nil, "allowed update function", "HandleTxUpdate is invoked from "+k+", outside the frozen set")
		}
	}
	c.Min("R1", "HandleTx invocations", nTx, 3)
	c.Min("R1", "HandleTxUpdate invocations", nUpd, 4)

	// ---- R2 single gate
	if fn := c.Fn("R2", "spynode.(*Node).processUnconfirmedTx"); fn != nil {
		hs := c.handlerInvokes(fn, "HandleTx")
		for _, h := range hs {
			key := "spynode.(*Node).processUnconfirmedTx#HandleTx"
			ok, w := mustPass(h.Instr, callEdge(true, 2, nil, "(*state.MemPool).AddTransaction"))
			c.Decide(ok, "R2", key+"#mempool-added", h.Pos(), "edge-cutset", w, "behind AddTransaction added==true", "a tx body already seen can be delivered again (no added==true gate from the mempool)")
			ok, w = mustPass(h.Instr, callEdge(true, -1, nil, "(*spynode.Node).IsRelevant"))
			c.Decide(ok, "R2", key+"#relevant", h.Pos(), "edge-cutset", w, "behind IsRelevant()==true", "a non-matching tx can be delivered")
			isAdd := func(call *ssa.Call) bool {
				if calleeShort(&call.Call) != "(*storage.TxRepository).Add" {
					return false
				}
				a := call.Call.Args
				k, isC := constInt(a[len(a)-1])
				return isC && k == -1
			}
			ok, w = mustPass(h.Instr, callEdge(true, 0, isAdd, "(*storage.TxRepository).Add"))
			c.Decide(ok, "R2", key+"#repo-added", h.Pos(), "edge-cutset", w, "behind TxRepository.Add(…,-1) added==true", "a tx already in the unconfirmed repository can be delivered again (the single gate is bypassed)")
			ok, w = mustPass(h.Instr, errNilEdge(isAdd, true))
			c.Decide(ok, "R2", key+"#repo-add-ok", h.Pos(), "edge-cutset", w, "behind err==nil of that Add", "delivery continues although adding to the unconfirmed repository failed")
		}
		c.Min("R2", "HandleTx in processUnconfirmedTx", len(hs), 1)

		// ---- R11 a stored state is delivered as new only if it is not confirmed in the active chain:
		// every path to HandleTx leaves the fetch of the tx's own stored state on its error edge (no
		// state yet), or passes "MerkleProof == nil" or "the proof's block is not in the chain".
		if ta := c.txAnchors("R11"); ta != nil {
			for _, h := range hs {
				arg := h.CC.Args[len(h.CC.Args)-1]
				var self []*ssa.Call
				for _, s := range callsTo(fn, "storage.FetchTxState") {
					if call, ok := s.Instr.(*ssa.Call); ok && derivesFromValue(arg, call) {
						self = append(self, call)
					}
				}
				key := "spynode.(*Node).processUnconfirmedTx#HandleTx#stored-state-not-confirmed"
				if len(self) == 0 {
					c.Ok("R11", key, h.Pos(), "provenance", "the delivered record never comes from the tx-state store")
					continue
				}
				isSelf := func(call *ssa.Call) bool {
					for _, x := range self {
						if x == call {
							return true
						}
					}
					return false
				}
				noProof := nilEdge(func(v ssa.Value) bool {
					_, f := ta.stateFlagLoad(v)
					return f == ta.proof
				}, true)
				notInChain := anyEdge(
					callEdge(false, -1, nil, "(*storage.BlockRepository).Contains"),
					callEdge(false, 1, nil, "(*storage.BlockRepository).Height"))
				ok, w := mustPass(h.Instr, anyEdge(errNilEdge(isSelf, false), noProof, notInChain))
				c.Decide(ok, "R11", key, h.Pos(), "edge-cutset", w,
					"a tx whose stored state exists is delivered as new only if that state has no merkle proof or its block left the chain",
					"a tx whose stored state carries a merkle proof of a block still in the chain (it was delivered and confirmed) is delivered as new again when it is re-announced")
			}
		}
	}

	// ---- R3 classification in ProcessBlock
	if fn := c.Fn("R3", "spynode.(*Node).ProcessBlock"); fn != nil {
		inUnconf := func(v ssa.Value) bool {
			e, ok := v.(*ssa.Extract)
			if !ok || e.Index != 0 {
				return false
			}
			call, ok := e.Tuple.(*ssa.Call)
			return ok && calleeShort(&call.Call) == "spynode.removeHash"
		}
		// the same membership test written in place: a found-flag over the unconfirmed snapshot
		inUnconfCall := inUnconf
		inUnconf = func(v ssa.Value) bool {
			if inUnconfCall(v) {
				return true
			}
			isTxid := func(x ssa.Value) bool {
				for _, r := range rootsAll(x) {
					if call, ok := r.(*ssa.Call); ok && call.Call.IsInvoke() && call.Call.Method.Name() == "GetNextTx" {
						return true
					}
				}
				return false
			}
			fromSnapshot := func(x ssa.Value) bool {
				return derivesFromCall(x, "(*storage.TxRepository).GetUnconfirmed") != nil
			}
			return inlineMembership(nil, v, isTxid, fromSnapshot)
		}
		inMemPool := func(v ssa.Value) bool {
			return derivesFromCall(v, "(*state.MemPool).RemoveTransaction") != nil
		}
		// the isNew slice: []bool indexed in the guard that dominates HandleTx
		var isNewSlice ssa.Value
		isNewField := -1 // >= 0: the table is a list of records and this is the flag's field
		hs := c.handlerInvokes(fn, "HandleTx")
		for _, h := range hs {
			for b := h.Instr.Block(); b != nil; b = b.Idom() {
				if iff, ok := lastIf(b); ok {
					cd := normCond(iff.Cond)
					// the table as a list of records: the flag is a bool field of the list's element
					if lst, fld, isRec := recordFlagRead(cd.V); isRec && isNewSlice == nil {
						if b.Succs[0].Dominates(h.Instr.Block()) != cd.Neg {
							isNewSlice, isNewField = lst, fld
						}
					}
					if u, ok := cd.V.(*ssa.UnOp); ok && u.Op == token.MUL {
						if ia, ok := u.X.(*ssa.IndexAddr); ok {
							if sl, ok := ia.X.Type().Underlying().(*types.Slice); ok {
								if bt, ok := sl.Elem().Underlying().(*types.Basic); ok && bt.Kind() == types.Bool {
									// the true edge must lead to HandleTx
									if b.Succs[0].Dominates(h.Instr.Block()) != cd.Neg {
										isNewSlice = ia.X
									}
								}
							}
						}
					}
				}
				if isNewSlice != nil {
					break
				}
			}
		}
		if isNewSlice == nil {
			c.Undecided("R3", "anchor:ProcessBlock.isNew-table", fn.Pos(), "the per-tx new/known table guarding HandleTx was not recognised")
		} else {
			nT, nF := 0, 0
			for _, b := range fn.Blocks {
				for _, in := range b.Instrs {
					call, ok := in.(*ssa.Call)
					if !ok || builtinCall(call, "append") == nil || !types.Identical(call.Type(), isNewSlice.Type()) || !derivesFromValue(isNewSlice, call) {
						continue
					}
					// appended element: a bool constant, possibly chosen on different paths (phi of constants)
					var srcs []constAt
					all := true
					vals := appendedValues(call)
					if isNewField >= 0 {
						vals = recordFieldValues(vals, isNewField)
					}
					if len(vals) != 1 {
						all = false
					}
					for _, ev := range vals {
						ss, ok := constSources(call, ev, 0)
						if !ok {
							all = false
						}
						srcs = append(srcs, ss...)
					}
					if !all || len(srcs) == 0 {
						// a classification computed from the membership tests is a different shape; one
						// that does not depend on them at all is not a classification of new / known
						depends := false
						seenV := map[ssa.Value]bool{}
						var look func(v ssa.Value, d int)
						look = func(v ssa.Value, d int) {
							if v == nil || seenV[v] || d > 8 {
								return
							}
							seenV[v] = true
							if inUnconf(v) || inMemPool(v) {
								depends = true
								return
							}
							switch x := v.(type) {
							case *ssa.Phi:
								for _, e := range x.Edges {
									look(e, d+1)
								}
								// control dependence: a phi of constants chosen by a membership test
								for _, p := range x.Block().Preds {
									if iff, ok := lastIf(p); ok {
										look(iff.Cond, d+1)
									}
								}
							case *ssa.UnOp:
								look(x.X, d+1)
							case *ssa.BinOp:
								look(x.X, d+1)
								look(x.Y, d+1)
							case *ssa.Call:
								if calleeShort(&x.Call) == "(*spynode.Node).IsRelevant" {
									depends = true
								}
							}
						}
						for _, ev := range vals {
							look(ev, 0)
						}
						if !depends {
							c.Bad("R3", "spynode.(*Node).ProcessBlock#isNew-follows-membership", call.Pos(), "value flow", nil,
								"the new / already-delivered classification appended for a block tx is neither a constant chosen by the membership tests nor computed from them: txs are classified by an unrelated value, so a new relevant tx can be treated as already delivered (its stored state does not exist) or a delivered one as new")
							continue
						}
						c.Undecided("R3", "spynode.(*Node).ProcessBlock#isNew-append-shape", call.Pos(), "appended value is not a bool constant")
						continue
					}
					for _, src := range srcs {
						v, isB := isConstBool(src.Val)
						if !isB {
							continue
						}
						if v {
							nT++
							key := "spynode.(*Node).ProcessBlock#classified-new"
							ok, w := mustPassAt(src, boolEdge(inUnconf, false))
							c.Decide(ok, "R3", key+"#not-in-unconfirmed", call.Pos(), "edge-cutset", w, "new only if not in the unconfirmed snapshot", "a tx already delivered (in the unconfirmed snapshot) can be classified new and delivered again")
							ok, w = mustPassAt(src, boolEdge(inMemPool, false))
							c.Decide(ok, "R3", key+"#not-in-mempool", call.Pos(), "edge-cutset", w, "new only if its body was not seen in the mempool", "a tx whose body was already seen (and judged) can be classified new")
							ok, w = mustPassAt(src, callEdge(true, -1, nil, "(*spynode.Node).IsRelevant"))
							c.Decide(ok, "R3", key+"#relevant", call.Pos(), "edge-cutset", w, "new only if IsRelevant()==true", "a non-matching block tx can be delivered")
						} else {
							nF++
							ok, w := mustPassAt(src, boolEdge(inUnconf, true))
							c.Decide(ok, "R3", "spynode.(*Node).ProcessBlock#classified-known#in-unconfirmed", call.Pos(), "edge-cutset", w,
								"known only if it was in the unconfirmed snapshot", "a tx is treated as already delivered without having been in the unconfirmed snapshot: its confirmation would fetch a state that does not exist")
						}
					}
				}
			}
			c.Min("R3", "classified-new appends", nT, 1)
			c.Min("R3", "classified-known appends", nF, 1)
			isNewGuard := func(want bool) EdgePred {
				return boolEdge(func(v ssa.Value) bool {
					if isNewField >= 0 {
						lst, fld, isRec := recordFlagRead(v)
						return isRec && fld == isNewField && (sameExpr(lst, isNewSlice) || derivesFromValue(lst, isNewSlice) || derivesFromValue(isNewSlice, lst))
					}
					u, ok := v.(*ssa.UnOp)
					if !ok || u.Op != token.MUL {
						return false
					}
					ia, ok := u.X.(*ssa.IndexAddr)
					return ok && sameExpr(ia.X, isNewSlice)
				}, want)
			}
			for _, h := range hs {
				ok, w := mustPass(h.Instr, isNewGuard(true))
				c.Decide(ok, "R3", "spynode.(*Node).ProcessBlock#HandleTx-only-if-new", h.Pos(), "edge-cutset", w, "HandleTx only for txs classified new", "HandleTx can be reached for a tx not classified new")
			}
			// the confirm update (outside the tx loop) is guarded by the negation
			for _, u := range c.handlerInvokes(fn, "HandleTxUpdate") {
				if len(loopsRangingOver(fn, func(v ssa.Value) bool { return derivesFromCall(v, "(*state.MemPool).Conflicting") != nil })) > 0 {
					hh := loopsRangingOver(fn, func(v ssa.Value) bool { return derivesFromCall(v, "(*state.MemPool).Conflicting") != nil })[0]
					if inLoop(u.Instr, hh) {
						continue // cancel update, see C06
					}
				}
				ok, w := mustPass(u.Instr, isNewGuard(false))
				c.Decide(ok, "R3", "spynode.(*Node).ProcessBlock#confirm-update-only-if-known", u.Pos(), "edge-cutset", w, "confirmation update only for txs already delivered", "a confirmation update can be sent for a tx classified new")
			}
		}
	}

	// ---- R4 / R5 / R8 per delivery function
	for _, fk := range []string{"spynode.(*Node).processUnconfirmedTx", "spynode.(*Node).ProcessBlock", "spynode.(*Node).provideBlock", "spynode.(*Node).checkTxDelays"} {
		fn := c.Fn("R4", fk)
		if fn == nil {
			continue
		}
		var saves []Site = callsTo(fn, "storage.SaveTxState")
		var fetchOut []Site = callsTo(fn, "spynode.fetchSpentOutputs")
		// R4: literals
		for _, b := range fn.Blocks {
			for _, in := range b.Instrs {
				al, ok := in.(*ssa.Alloc)
				if !ok || !types.Identical(al.Type().(*types.Pointer).Elem(), ta.clientTx) {
					continue
				}
				key := fmt.Sprintf("%s#client.Tx-literal", fk)
				guard := errNilEdge(func(call *ssa.Call) bool {
					for _, f := range fetchOut {
						if f.Value() == call && len(call.Call.Args) >= 4 && derivesFromValue(call.Call.Args[3], al) {
							return true
						}
					}
					return false
				}, true)
				okAll := true
				var wit []string
				nSink := 0
				check := func(sink ssa.Instruction, arg ssa.Value) {
					if !derivesFromValue(arg, al) {
						return
					}
					nSink++
					if r, p := reachAvoid(al.Block(), sink.Block(), guard); r && !(al.Block() == sink.Block()) {
						okAll = false
						wit = pathWitness(fn, p)
					} else if al.Block() == sink.Block() {
						okAll = false
					}
				}
				for _, s := range saves {
					check(s.Instr, s.Args()[2])
				}
				for _, h := range c.handlerInvokes(fn, "HandleTx") {
					check(h.Instr, h.CC.Args[len(h.CC.Args)-1])
				}
				if nSink == 0 {
					continue
				}
				c.Decide(okAll, "R4", key, al.Pos(), "path-typestate", wit,
					"the new tx record passes fetchSpentOutputs (err==nil) before it is saved or delivered", "a new tx record can be saved/delivered without its spent outputs having been fetched successfully")
			}
		}
		// R5: saved before notification
		for _, h := range c.handlerInvokes(fn, "HandleTx", "HandleTxUpdate") {
			arg := h.CC.Args[len(h.CC.Args)-1]
			key := fmt.Sprintf("%s#%s-after-save", fk, h.CC.Method.Name())
			var obj ssa.Value = arg
			if h.CC.Method.Name() == "HandleTxUpdate" {
				// the update's State is copied from a tx object
				obj = nil
				for _, x := range rootsAll(arg) {
					if u, ok := x.(*ssa.UnOp); ok && u.Op == token.MUL {
						if fa, ok := u.X.(*ssa.FieldAddr); ok && fieldOfAddr(fa) == ta.txState {
							obj = fa.X
						}
					}
				}
				if obj == nil {
					c.Bad("R5", key, h.Pos(), "provenance", nil, "the update's State does not come from a tx record")
					continue
				}
			}
			guard := errNilEdge(func(call *ssa.Call) bool {
				for _, s := range saves {
					if s.Value() == call && sameObject(s.Args()[2], obj) {
						return true
					}
				}
				return false
			}, true)
			modified := false
			for _, s := range ta.stateStores(fn) {
				if _, isLit := s.Obj.(*ssa.Alloc); isLit && s.Obj != obj {
					continue // initialisation of a literal that merely flows into obj: handled below
				}
				if sameObject(s.Obj, obj) {
					modified = true
				}
			}
			ok, w := true, []string(nil)
			if modified {
				ok, w = mustPass(h.Instr, guard)
			} else {
				// unmodified record from storage needs no save; records built here do
				cands := []ssa.Value{obj}
				if phi, isPhi := obj.(*ssa.Phi); isPhi {
					cands = phi.Edges
				}
				for _, e := range cands {
					if al, isAl := e.(*ssa.Alloc); isAl {
						if r, p := reachAvoid(al.Block(), h.Instr.Block(), guard); r {
							ok, w = false, pathWitness(fn, p)
						}
					}
				}
			}
			c.Decide(ok, "R5", key, h.Pos(), "edge-cutset", w, "notification only after SaveTxState of the same record succeeded (records built or modified here)", "a notification can be delivered although the record was not saved (GetTx / restart would not reproduce what the handler saw)")
			// no modification between save and notify
			okMod := true
			for _, s := range ta.stateStores(fn) {
				if !sameObject(s.Obj, obj) {
					continue
				}
				for _, sv := range saves {
					if sameObject(sv.Args()[2], obj) && canFollowSameIteration(sv.Instr, s.St, fn) && canFollowSameIteration(s.St, h.Instr, fn) {
						okMod = false
					}
				}
			}
			c.Decide(okMod, "R5", key+"#no-change-after-save", h.Pos(), "event-order", nil, "no flag is changed between the save and the notification", "a state flag is modified after the record was saved and before it is delivered")
		}
		// R8: FetchTxState result used on its own error path
		for _, f := range callsTo(fn, "storage.FetchTxState") {
			call := f.Value()
			var val, errv ssa.Value
			for _, r := range *call.Referrers() {
				if e, ok := r.(*ssa.Extract); ok {
					if e.Index == 0 {
						val = e
					} else {
						errv = e
					}
				}
			}
			if val == nil || errv == nil {
				continue
			}
			// find the If testing errv and its err!=nil successor
			for _, b := range fn.Blocks {
				iff, ok := lastIf(b)
				if !ok {
					continue
				}
				r, ok := edgeRel(iff, 0)
				if !ok || !(isNilConst(r.Y) && r.X == errv) {
					continue
				}
				errBranch := 0
				if r.Op == token.EQL {
					errBranch = 1
				}
				// uses of val reachable from the error successor without re-executing the call
				bad := false
				var wit []string
				for _, u := range *val.Referrers() {
					ui, ok := u.(ssa.Instruction)
					if !ok {
						continue
					}
					if _, isDbg := u.(*ssa.DebugRef); isDbg {
						continue
					}
					if phi, isPhi := u.(*ssa.Phi); isPhi {
						// value flows on: only the incoming edge from the error side matters
						for i, e := range phi.Edges {
							if e == val {
								pred := phi.Block().Preds[i]
								if pred == b {
									// edge straight out of the test: bad only if it is the error edge
									if phi.Block() == b.Succs[errBranch] && phi.Block() != b.Succs[1-errBranch] {
										bad = true
										wit = []string{"the (nil) result flows into " + phi.Name() + " directly on the error edge"}
									}
									continue
								}
								if r2, _ := reachFromNode(mkNode(b, b.Succs[errBranch]), pred, nil, map[*ssa.BasicBlock]bool{call.Block(): true}); r2 || pred == b.Succs[errBranch] {
									bad = true
									wit = []string{"the (nil) result flows into " + phi.Name() + " from the error path at " + c.P.Pos(lastPos(pred))}
								}
							}
						}
						continue
					}
					if r2, _ := reachFromNode(mkNode(b, b.Succs[errBranch]), ui.Block(), nil, map[*ssa.BasicBlock]bool{call.Block(): true}); r2 || ui.Block() == b.Succs[errBranch] {
						bad = true
						wit = []string{"used at " + c.P.Pos(ui.Pos()) + " on the error path"}
					}
				}
				c.Decide(!bad, "R8", fmt.Sprintf("%s#FetchTxState-result-not-used-on-error-path", fk), f.Pos(), "nil-on-error dataflow", wit,
					"the fetched record is only used where the fetch succeeded", "the (nil) result of FetchTxState is used on the path where the same call failed: a nil transaction would be delivered / dereferenced")
			}
		}
	}

	// ---- R6 lockset
	unconf := c.P.Field("storage", "TxRepository", "unconfirmed")
	if unconf != nil {
		c.lockset("R6", "storage", "TxRepository", "unconfirmedLock", map[*types.Var]bool{unconf: true}, []string{"storage"}, map[string]string{
			"storage.(*TxRepository).Load": "start-up only: called from Node.load before any goroutine is started",
			"storage.(*TxRepository).Save": "reads len(unconfirmed) for a log line before taking the lock (benign)",
		}, 20)
	}

	// ---- R7 hand-over pairing in ProcessBlock
	if fn := c.Fn("R7", "spynode.(*Node).ProcessBlock"); fn != nil {
		le := c.Locks()
		mu := c.P.Field("storage", "TxRepository", "unconfirmedLock")
		sum := le.Summary(fn)
		ok := sum.undecided == ""
		var wit []string
		for _, ex := range sum.exits {
			if ex.delta[mu] != 0 {
				ok = false
				wit = append(wit, fmt.Sprintf("exit at %s leaves %s with count %+d", c.P.Pos(ex.pos), lockName(mu), ex.delta[mu]))
			}
		}
		c.Decide(ok, "R7", "spynode.(*Node).ProcessBlock#unconfirmedLock-released-once", fn.Pos(), "lock typestate", wit,
			"every exit after GetUnconfirmed has released the unconfirmed lock exactly once", "some exit of ProcessBlock leaves the unconfirmed lock held (every later tx would block) or releases it twice")
		for _, s := range sitesIn(fn) {
			callee := s.CC.StaticCallee()
			if callee == nil || !inModule(pkgOf(callee)) {
				continue
			}
			if le.MustAcquire(callee)[mu] && le.MayHeldBefore(s.Instr, mu) {
				c.Bad("R7", "spynode.(*Node).ProcessBlock#self-deadlock:"+c.P.Key(callee), s.Pos(), "lock typestate", nil,
					"%s takes %s on every path and is called while ProcessBlock holds it", c.P.Key(callee), lockName(mu))
			}
		}
	}

	// ---- R10 (added after seeded round 2)
	c.ruleRemoveReportsBody("R10")
	c.ruleOwnStateReadAfterGate("R12")
	c.ruleFetchedCursorAdvances("R13")
	c.ruleConfirmedStateComplete("R15")
	c.ruleIndexBoundOnSameIndex("R16", "spynode.fetchSpentOutputs")
	c.ruleParallelListsAligned("R17")
	c.ruleParentFetchedPerInput("R18")
	c.ruleHandOverBlocks("R19")
	c.ruleSpentOutputIsParentsOutput("R21")
	c.ruleUnconfirmedSetKeepsEveryEntry("R22")
	c.ruleRelevanceScansEverything("R23", "R24")
	c.ruleAlreadyConfirmedNeedsBlockInChain("R25")
	c.ruleEveryQueuedTxProcessed("R27")
	c.ruleNotificationFreshPerDelivery("R28")
	c.whoMayCall("R26", "storage.SaveTxState", map[string]string{"spynode.(*Node).processUnconfirmedTx": "delivery of an unconfirmed tx and its conflicts", "spynode.(*Node).ProcessBlock": "confirmations and cancellations", "spynode.(*Node).provideBlock": "refeed", "spynode.(*Node).checkTxDelays": "safe after the delay"}, 6)
	c.ruleWiring("R20", c.constructorsIn("handlers", "spynode"))
	c.ruleFlagOnlyFromCall("R14", "spynode.(*Node).ProcessBlock", "(*state.MemPool).RemoveTransaction", "in-mempool-flag",
		"the in-mempool classification of a block tx is constant true where the mempool is not consulted (node not ready): every tx of a block processed before the node is ready is skipped as already seen, so relevant txs in those blocks are never delivered")

	// ---- R9 the gate discriminates
	if fn := c.Fn("R9", "storage.(*TxRepository).Add"); fn != nil && unconf != nil {
		n := 0
		for _, ac := range fieldAccesses(fn, map[*types.Var]bool{unconf: true}) {
			if ac.Kind != "mapupdate" {
				continue
			}
			n++
			absent := condEdge(func(cd Cond) (bool, bool) {
				if e, ok := cd.V.(*ssa.Extract); ok && e.Index == 1 {
					if lk, ok := e.Tuple.(*ssa.Lookup); ok && loadOfField(lk.X, unconf) != nil {
						return true, false
					}
				}
				return false, false
			})
			ok, w := mustPass(ac.Instr, absent)
			c.Decide(ok, "R9", "storage.(*TxRepository).Add#insert-only-if-absent", ac.Instr.Pos(), "edge-cutset", w, "inserted only when the txid was absent", "the unconfirmed entry is (re)inserted although the txid is already tracked: its flags and first-seen time are lost")
			// returns after the insert say added=true; returns on the exists edge say false
			for _, ret := range returnsOf(fn) {
				vals := resultValues(ret, 0)
				if len(vals) != 1 {
					continue
				}
				b, isC := isConstBool(vals[0])
				if !isC {
					continue
				}
				after := ret.Block() == ac.Instr.Block() || canReachFromInstr(ac.Instr, ret.Block())
				if after {
					c.Decide(b, "R9", "storage.(*TxRepository).Add#added-true-after-insert", ret.Pos(), "constant provenance", nil, "returns added=true after inserting", "Add inserts the tx but reports added=false: the new tx would never be delivered")
				}
			}
			// the exists branch returns false
			for _, bb := range fn.Blocks {
				iff, isIf := lastIf(bb)
				if !isIf {
					continue
				}
				for br := 0; br < 2; br++ {
					if absent(iff, 1-br) && !absent(iff, br) {
						for _, ret := range returnsOf(fn) {
							if reachable(bb.Succs[br], ret.Block()) && !reachable(bb.Succs[1-br], ret.Block()) {
								vals := resultValues(ret, 0)
								if len(vals) == 1 {
									v, isC := isConstBool(vals[0])
									c.Decide(isC && !v, "R9", "storage.(*TxRepository).Add#added-false-if-present", ret.Pos(), "constant provenance", nil, "returns added=false when the txid is already tracked", "Add reports added=true for a txid that is already tracked: the gate before HandleTx does not discriminate and the tx is delivered twice")
								}
							}
						}
					}
				}
			}
		}
		c.Min("R9", "inserts into the unconfirmed map in Add", n, 1)
	}
}

// recordFlagRead: v reads a bool field of an element of a list of records (`list[i].f`, or `e.f` with
// `e` the element a range loop copied out of the list); returns the list and the field index.
func recordFlagRead(v ssa.Value) (ssa.Value, int, bool) {
	elemOf := func(x ssa.Value) ssa.Value { // x is *list[i] (a loaded record): the list
		if u, ok := x.(*ssa.UnOp); ok && u.Op == token.MUL {
			if ia, ok := u.X.(*ssa.IndexAddr); ok {
				return ia.X
			}
		}
		return nil
	}
	isBool := func(t types.Type) bool {
		b, ok := t.Underlying().(*types.Basic)
		return ok && b.Kind() == types.Bool
	}
	switch x := v.(type) {
	case *ssa.Field:
		if !isBool(x.Type()) {
			return nil, 0, false
		}
		if l := elemOf(x.X); l != nil {
			return l, x.Field, true
		}
	case *ssa.UnOp:
		if x.Op != token.MUL || !isBool(x.Type()) {
			return nil, 0, false
		}
		fa, ok := x.X.(*ssa.FieldAddr)
		if !ok {
			return nil, 0, false
		}
		if ia, ok := fa.X.(*ssa.IndexAddr); ok {
			if _, isSl := ia.X.Type().Underlying().(*types.Slice); isSl {
				return ia.X, fa.Field, true
			}
		}
		if al, ok := fa.X.(*ssa.Alloc); ok {
			for _, r := range *al.Referrers() {
				if st, ok := r.(*ssa.Store); ok && st.Addr == ssa.Value(al) {
					if l := elemOf(st.Val); l != nil {
						return l, fa.Field, true
					}
				}
			}
		}
	}
	return nil, 0, false
}

// recordFieldValues: for appended records built field by field, the values stored into field fld.
func recordFieldValues(recs []ssa.Value, fld int) []ssa.Value {
	var out []ssa.Value
	for _, r := range recs {
		u, ok := r.(*ssa.UnOp)
		if !ok || u.Op != token.MUL {
			continue
		}
		al, ok := u.X.(*ssa.Alloc)
		if !ok {
			continue
		}
		for _, ref := range *al.Referrers() {
			if fa, ok := ref.(*ssa.FieldAddr); ok && fa.Field == fld {
				for _, r2 := range *fa.Referrers() {
					if st, ok := r2.(*ssa.Store); ok && st.Addr == ssa.Value(fa) {
						out = append(out, st.Val)
					}
				}
			}
		}
	}
	return out
}
