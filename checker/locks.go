package main

import (
	"fmt"
	"go/token"
	"go/types"
	"sort"
	"strings"

	"golang.org/x/tools/go/ssa"
)

// Lock typestate engine (E3/E10). A lock is identified by the struct field that holds the mutex
// (e.g. state.State.lock); instances are not distinguished.

type lockKey = *types.Var

type lockCfg struct {
	cnt map[lockKey]int       // acquisitions minus releases relative to function entry
	def map[lockKey]int       // deferred unlocks pending
	asm map[*ssa.Call]bool    // assumption: this call returned err == nil
	acq map[lockKey]token.Pos // where the lock was (last) acquired, for messages
}

func newCfg() *lockCfg {
	return &lockCfg{cnt: map[lockKey]int{}, def: map[lockKey]int{}, asm: map[*ssa.Call]bool{}, acq: map[lockKey]token.Pos{}}
}

func (c *lockCfg) clone() *lockCfg {
	n := newCfg()
	for k, v := range c.cnt {
		n.cnt[k] = v
	}
	for k, v := range c.def {
		n.def[k] = v
	}
	for k, v := range c.asm {
		n.asm[k] = v
	}
	for k, v := range c.acq {
		n.acq[k] = v
	}
	return n
}

func (c *lockCfg) key() string {
	var parts []string
	for k, v := range c.cnt {
		if v != 0 {
			parts = append(parts, fmt.Sprintf("c%p=%d", k, v))
		}
	}
	for k, v := range c.def {
		if v != 0 {
			parts = append(parts, fmt.Sprintf("d%p=%d", k, v))
		}
	}
	for k, v := range c.asm {
		parts = append(parts, fmt.Sprintf("a%p=%t", k, v))
	}
	sort.Strings(parts)
	return strings.Join(parts, ",")
}

// exitEffect is one way a function can return.
type exitEffect struct {
	delta  map[lockKey]int
	errNil int // 1 = error result is nil, 0 = non-nil, -1 = unknown / no error result
	pos    token.Pos
}

type lockSummary struct {
	exits     []exitEffect
	undecided string
}

type LockEngine struct {
	P        *Program
	sums     map[*ssa.Function]*lockSummary
	inProg   map[*ssa.Function]bool
	blockIn  map[*ssa.Function]map[*ssa.BasicBlock]map[string]*lockCfg
	mustAcq  map[*ssa.Function]map[lockKey]bool
	LockSite int
}

func newLockEngine(P *Program) *LockEngine {
	return &LockEngine{P: P, sums: map[*ssa.Function]*lockSummary{}, inProg: map[*ssa.Function]bool{},
		blockIn: map[*ssa.Function]map[*ssa.BasicBlock]map[string]*lockCfg{}}
}

// lockOp classifies a call as Lock/Unlock of a field mutex.
func lockOp(cc *ssa.CallCommon) (lockKey, int) {
	n := calleeName(cc)
	var d int
	switch n {
	case "(*sync.Mutex).Lock", "(*sync.RWMutex).Lock", "(*sync.RWMutex).RLock":
		d = 1
	case "(*sync.Mutex).Unlock", "(*sync.RWMutex).Unlock", "(*sync.RWMutex).RUnlock":
		d = -1
	default:
		return nil, 0
	}
	if len(cc.Args) == 0 {
		return nil, 0
	}
	if fa, ok := cc.Args[0].(*ssa.FieldAddr); ok {
		return fieldOfAddr(fa), d
	}
	return nil, d
}

func clamp(v int) int {
	if v > 3 {
		return 3
	}
	if v < -3 {
		return -3
	}
	return v
}

// Summary computes the lock effects of fn at each of its exits.
func (e *LockEngine) Summary(fn *ssa.Function) *lockSummary {
	if s, ok := e.sums[fn]; ok {
		return s
	}
	if fn.Blocks == nil || e.inProg[fn] {
		return &lockSummary{exits: []exitEffect{{delta: map[lockKey]int{}, errNil: -1}}}
	}
	e.inProg[fn] = true
	defer delete(e.inProg, fn)

	in := map[*ssa.BasicBlock]map[string]*lockCfg{}
	sum := &lockSummary{}
	start := newCfg()
	in[fn.Blocks[0]] = map[string]*lockCfg{start.key(): start}
	work := []*ssa.BasicBlock{fn.Blocks[0]}
	inWork := map[*ssa.BasicBlock]bool{fn.Blocks[0]: true}
	exitSeen := map[string]bool{}
	iter := 0
	for len(work) > 0 {
		iter++
		if iter > 20000 {
			sum.undecided = "lock dataflow did not converge"
			break
		}
		b := work[0]
		work = work[1:]
		inWork[b] = false
		for _, cfg0 := range sortedCfgs(in[b]) {
			outs := e.stepBlock(fn, b, cfg0.clone())
			for _, o := range outs {
				if o.exit {
					d := map[lockKey]int{}
					for k, v := range o.cfg.cnt {
						if v != 0 {
							d[k] = v
						}
					}
					ee := exitEffect{delta: d, errNil: o.errNil, pos: o.pos}
					sig := fmt.Sprintf("%v|%d|%d", deltaString(d), o.errNil, o.pos)
					if !exitSeen[sig] {
						exitSeen[sig] = true
						sum.exits = append(sum.exits, ee)
					}
					continue
				}
				m := in[o.succ]
				if m == nil {
					m = map[string]*lockCfg{}
					in[o.succ] = m
				}
				k := o.cfg.key()
				if _, ok := m[k]; !ok {
					if len(m) > 256 {
						sum.undecided = "too many lock configurations"
						continue
					}
					m[k] = o.cfg
					if !inWork[o.succ] {
						inWork[o.succ] = true
						work = append(work, o.succ)
					}
				}
			}
		}
	}
	if len(sum.exits) == 0 {
		// function never returns (infinite loop) – no exit effects
		sum.exits = nil
	}
	e.sums[fn] = sum
	e.blockIn[fn] = in
	return sum
}

func sortedCfgs(m map[string]*lockCfg) []*lockCfg {
	var ks []string
	for k := range m {
		ks = append(ks, k)
	}
	sort.Strings(ks)
	var out []*lockCfg
	for _, k := range ks {
		out = append(out, m[k])
	}
	return out
}

func deltaString(d map[lockKey]int) string {
	var parts []string
	for k, v := range d {
		parts = append(parts, fmt.Sprintf("%s.%s%+d", k.Pkg().Name(), k.Name(), v))
	}
	sort.Strings(parts)
	return strings.Join(parts, " ")
}

type stepOut struct {
	cfg    *lockCfg
	succ   *ssa.BasicBlock
	exit   bool
	errNil int
	pos    token.Pos
}

// stepInstr applies one instruction to a set of configurations.
func (e *LockEngine) stepInstr(fn *ssa.Function, in ssa.Instruction, cfgs []*lockCfg) []*lockCfg {
	switch x := in.(type) {
	case *ssa.Defer:
		if k, d := lockOp(&x.Call); k != nil && d == -1 {
			for _, c := range cfgs {
				c.def[k] = clamp(c.def[k] + 1)
			}
			return cfgs
		}
		// deferred closure / function: apply its summary at exit – approximate by applying now
		if callee := x.Call.StaticCallee(); callee != nil && callee.Blocks != nil && inModule(pkgOf(callee)) {
			return e.applySummary(nil, callee, cfgs, true)
		}
		if mc, ok := x.Call.Value.(*ssa.MakeClosure); ok {
			if f, ok := mc.Fn.(*ssa.Function); ok {
				return e.applySummary(nil, f, cfgs, true)
			}
		}
	case *ssa.Go:
		return cfgs
	case *ssa.Call:
		if k, d := lockOp(&x.Call); d != 0 {
			if k == nil {
				return cfgs
			}
			for _, c := range cfgs {
				c.cnt[k] = clamp(c.cnt[k] + d)
				if d > 0 {
					c.acq[k] = x.Pos()
				}
			}
			return cfgs
		}
		if callee := x.Call.StaticCallee(); callee != nil && callee.Blocks != nil && inModule(pkgOf(callee)) {
			return e.applySummary(x, callee, cfgs, false)
		}
		if mc, ok := x.Call.Value.(*ssa.MakeClosure); ok {
			if f, ok := mc.Fn.(*ssa.Function); ok {
				return e.applySummary(x, f, cfgs, false)
			}
		}
	}
	return cfgs
}

func pkgOf(f *ssa.Function) *types.Package {
	if f.Pkg != nil {
		return f.Pkg.Pkg
	}
	if f.Parent() != nil {
		return pkgOf(f.Parent())
	}
	return nil
}

func (e *LockEngine) applySummary(call *ssa.Call, callee *ssa.Function, cfgs []*lockCfg, deferred bool) []*lockCfg {
	s := e.Summary(callee)
	if len(s.exits) == 0 {
		return cfgs
	}
	// distinct deltas
	type grp struct {
		delta  map[lockKey]int
		errNil map[int]bool
	}
	var groups []*grp
	for _, ex := range s.exits {
		ds := deltaString(ex.delta)
		var g *grp
		for _, gg := range groups {
			if deltaString(gg.delta) == ds {
				g = gg
			}
		}
		if g == nil {
			g = &grp{delta: ex.delta, errNil: map[int]bool{}}
			groups = append(groups, g)
		}
		g.errNil[ex.errNil] = true
	}
	if len(groups) == 1 {
		if call != nil && len(groups[0].errNil) == 1 && !groups[0].errNil[-1] {
			for _, c := range cfgs {
				c.asm[call] = groups[0].errNil[1]
			}
		}
		if len(groups[0].delta) == 0 {
			return cfgs
		}
		for _, c := range cfgs {
			for k, v := range groups[0].delta {
				c.cnt[k] = clamp(c.cnt[k] + v)
				if v > 0 && call != nil {
					c.acq[k] = call.Pos()
				}
			}
		}
		return cfgs
	}
	// several deltas: correlate with the error result when the partition is clean
	clean := call != nil
	for _, g := range groups {
		if len(g.errNil) != 1 || g.errNil[-1] {
			clean = false
		}
	}
	if clean {
		seen := map[int]int{}
		for _, g := range groups {
			for v := range g.errNil {
				seen[v]++
			}
		}
		for _, n := range seen {
			if n > 1 {
				clean = false
			}
		}
	}
	var out []*lockCfg
	for _, c := range cfgs {
		for _, g := range groups {
			n := c.clone()
			for k, v := range g.delta {
				n.cnt[k] = clamp(n.cnt[k] + v)
				if v > 0 && call != nil {
					n.acq[k] = call.Pos()
				}
			}
			if clean {
				for v := range g.errNil {
					n.asm[call] = v == 1
				}
			}
			out = append(out, n)
		}
	}
	return out
}

// errTest: iff tests the error result of a call: returns the call and which branch means err != nil.
func errTest(iff *ssa.If) (*ssa.Call, int) {
	c := normCond(iff.Cond)
	if c.Bin == nil || c.Nil == nil {
		return nil, 0
	}
	var call *ssa.Call
	switch x := c.Nil.(type) {
	case *ssa.Extract:
		cl, ok := x.Tuple.(*ssa.Call)
		if !ok {
			return nil, 0
		}
		sig := cl.Call.Signature()
		if x.Index != sig.Results().Len()-1 {
			return nil, 0
		}
		call = cl
	case *ssa.Call:
		call = x
	default:
		return nil, 0
	}
	// condition V is (x != nil) or (x == nil); truth on branch 0 is !Neg
	nonNilOnTrue := (c.Bin.Op == token.NEQ) != c.Neg
	if nonNilOnTrue {
		return call, 0
	}
	return call, 1
}

func (e *LockEngine) stepBlock(fn *ssa.Function, b *ssa.BasicBlock, cfg *lockCfg) []stepOut {
	cfgs := []*lockCfg{cfg}
	for _, in := range b.Instrs {
		switch t := in.(type) {
		case *ssa.Return:
			var outs []stepOut
			en := -1
			if isNil, known := errIsNilReturn(t); known && resultIsError(fn) {
				if isNil {
					en = 1
				} else {
					// "not the nil constant" only counts as non-nil when the value is known to be one; a
					// result variable joined from several paths (`return result, err`) can be either
					en = -1
					nn := true
					for _, v := range resultValues(t, len(t.Results)-1) {
						if !knownNonNil(v, b, 0) {
							nn = false
						}
					}
					if nn {
						en = 0
					}
				}
			}
			for _, c := range cfgs {
				for k, v := range c.def {
					c.cnt[k] = clamp(c.cnt[k] - v)
				}
				c.def = map[lockKey]int{}
				outs = append(outs, stepOut{cfg: c, exit: true, errNil: en, pos: t.Pos()})
			}
			return outs
		case *ssa.Panic:
			return nil
		case *ssa.If:
			var outs []stepOut
			call, nonNilBranch := errTest(t)
			for _, c := range cfgs {
				for i, s := range b.Succs {
					if call != nil {
						if a, ok := c.asm[call]; ok {
							errNonNil := i == nonNilBranch
							if a == errNonNil { // assumption err==nil contradicts this edge
								continue
							}
						}
					}
					outs = append(outs, stepOut{cfg: c.clone(), succ: s})
				}
			}
			return outs
		case *ssa.Jump:
			var outs []stepOut
			for _, c := range cfgs {
				outs = append(outs, stepOut{cfg: c, succ: b.Succs[0]})
			}
			return outs
		default:
			cfgs = e.stepInstr(fn, in, cfgs)
		}
	}
	return nil
}

func resultIsError(fn *ssa.Function) bool {
	r := fn.Signature.Results()
	if r.Len() == 0 {
		return false
	}
	return types.Identical(r.At(r.Len()-1).Type(), types.Universe.Lookup("error").Type())
}

// HeldBefore returns the locks held (count >= 1) in every configuration reaching instr.
func (e *LockEngine) HeldBefore(instr ssa.Instruction) map[lockKey]bool {
	b := instr.Block()
	fn := b.Parent()
	e.Summary(fn)
	in := e.blockIn[fn][b]
	var result map[lockKey]bool
	first := true
	for _, cfg0 := range sortedCfgs(in) {
		cfgs := []*lockCfg{cfg0.clone()}
		for _, x := range b.Instrs {
			if x == instr {
				break
			}
			switch x.(type) {
			case *ssa.If, *ssa.Jump, *ssa.Return, *ssa.Panic:
			default:
				cfgs = e.stepInstr(fn, x, cfgs)
			}
		}
		for _, c := range cfgs {
			held := map[lockKey]bool{}
			for k, v := range c.cnt {
				if v >= 1 {
					held[k] = true
				}
			}
			if first {
				result = held
				first = false
			} else {
				for k := range result {
					if !held[k] {
						delete(result, k)
					}
				}
			}
		}
	}
	if result == nil {
		result = map[lockKey]bool{}
	}
	return result
}

// MayCountBefore returns the maximum count of key k over configurations reaching instr.
func (e *LockEngine) MayHeldBefore(instr ssa.Instruction, k lockKey) bool {
	b := instr.Block()
	fn := b.Parent()
	e.Summary(fn)
	for _, cfg0 := range sortedCfgs(e.blockIn[fn][b]) {
		cfgs := []*lockCfg{cfg0.clone()}
		for _, x := range b.Instrs {
			if x == instr {
				break
			}
			switch x.(type) {
			case *ssa.If, *ssa.Jump, *ssa.Return, *ssa.Panic:
			default:
				cfgs = e.stepInstr(fn, x, cfgs)
			}
		}
		for _, c := range cfgs {
			if c.cnt[k] >= 1 {
				return true
			}
		}
	}
	return false
}

// MinCountBefore returns the minimum relative count of k over the configurations reaching instr.
func (e *LockEngine) MinCountBefore(instr ssa.Instruction, k lockKey) int {
	b := instr.Block()
	fn := b.Parent()
	e.Summary(fn)
	min := 99
	for _, cfg0 := range sortedCfgs(e.blockIn[fn][b]) {
		cfgs := []*lockCfg{cfg0.clone()}
		for _, x := range b.Instrs {
			if x == instr {
				break
			}
			switch x.(type) {
			case *ssa.If, *ssa.Jump, *ssa.Return, *ssa.Panic:
			default:
				cfgs = e.stepInstr(fn, x, cfgs)
			}
		}
		for _, c := range cfgs {
			if c.cnt[k] < min {
				min = c.cnt[k]
			}
		}
	}
	if min == 99 {
		return 0
	}
	return min
}

// ReleasesOnly: every exit of fn has released k once more than it acquired it (hand-over callee:
// the caller holds k at entry).
func (e *LockEngine) ReleasesOnly(fn *ssa.Function, k lockKey) bool {
	s := e.Summary(fn)
	if len(s.exits) == 0 {
		return false
	}
	for _, ex := range s.exits {
		if ex.delta[k] != -1 {
			return false
		}
	}
	return true
}

// MustAcquire returns the locks fn acquires on every entry->exit path (directly or through
// module callees that must-acquire them), whether or not it releases them again.
func (e *LockEngine) MustAcquire(fn *ssa.Function) map[lockKey]bool {
	if e.mustAcq == nil {
		e.mustAcq = map[*ssa.Function]map[lockKey]bool{}
	}
	if m, ok := e.mustAcq[fn]; ok {
		return m
	}
	e.mustAcq[fn] = map[lockKey]bool{} // recursion guard: assume nothing
	if fn.Blocks == nil {
		return e.mustAcq[fn]
	}
	// candidate keys: all keys acquired anywhere in fn (directly or via callee must-acquire)
	acqBlocks := map[lockKey]map[*ssa.BasicBlock]bool{}
	for _, b := range fn.Blocks {
		for _, in := range b.Instrs {
			c, ok := in.(*ssa.Call)
			if !ok {
				continue
			}
			if k, d := lockOp(&c.Call); k != nil && d == 1 {
				if acqBlocks[k] == nil {
					acqBlocks[k] = map[*ssa.BasicBlock]bool{}
				}
				acqBlocks[k][b] = true
				continue
			}
			if callee := c.Call.StaticCallee(); callee != nil && callee.Blocks != nil && inModule(pkgOf(callee)) {
				for k := range e.MustAcquire(callee) {
					if acqBlocks[k] == nil {
						acqBlocks[k] = map[*ssa.BasicBlock]bool{}
					}
					acqBlocks[k][b] = true
				}
			}
		}
	}
	res := map[lockKey]bool{}
	for k, cut := range acqBlocks {
		// must-acquire iff no exit reachable from entry avoiding cut blocks
		escapes := false
		if !cut[fn.Blocks[0]] {
			seen := map[*ssa.BasicBlock]bool{fn.Blocks[0]: true}
			q := []*ssa.BasicBlock{fn.Blocks[0]}
			for len(q) > 0 && !escapes {
				b := q[0]
				q = q[1:]
				if isExitBlock(b) {
					if _, isRet := b.Instrs[len(b.Instrs)-1].(*ssa.Return); isRet {
						escapes = true
						break
					}
				}
				for _, s := range b.Succs {
					if !seen[s] && !cut[s] {
						seen[s] = true
						q = append(q, s)
					}
				}
			}
		}
		if !escapes {
			res[k] = true
		}
	}
	e.mustAcq[fn] = res
	return res
}

func lockName(k lockKey) string {
	if k == nil {
		return "?"
	}
	// find owner struct name by scanning the package scope
	owner := ""
	sc := k.Pkg().Scope()
	for _, n := range sc.Names() {
		if tn, ok := sc.Lookup(n).(*types.TypeName); ok {
			if st, ok := tn.Type().Underlying().(*types.Struct); ok {
				for i := 0; i < st.NumFields(); i++ {
					if st.Field(i) == k {
						owner = tn.Name()
					}
				}
			}
		}
	}
	return fmt.Sprintf("%s.%s.%s", k.Pkg().Name(), owner, k.Name())
}
