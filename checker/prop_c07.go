package main

import (
	"fmt"
	"go/token"
	"go/types"
	"strings"

	"golang.org/x/tools/go/ssa"
)

func init() {
	register(&PropDef{
		ID:    "C07",
		Title: "Safe is reported only when warranted, once, and never after unsafe",
		Explanation: "Decides the guard skeleton of the safe/unsafe/cancelled flag machine: " +
			"(R1) in TxRepository.GetNewSafe a tx is marked safe and returned only through safe==false, unsafe==false, time.Before(cutoff)==true and at least one of trusted==true / memPool.IsTrusted()==true; marking and returning happen together (hence once); " +
			"(R2) for every client.TxState written in internal/spynode: UnSafe=true is accompanied by Safe=false, Cancelled=true by UnSafe=true, a possibly-true Safe is stored on a state that may come from storage only behind UnSafe==false of that state (or the state is a fresh literal with complementary flags), and UnSafe is never cleared on a stored state except behind UnSafe==false; " +
			"(R3) the delay checker marks safe only behind !(UnSafe||Cancelled) of the fetched state and IsReady()==true, and notifies after a successful save; " +
			"(R4) TxData.Trusted/Safe are true only where the tx comes from the trusted connection or a local submission, and AddRequest(trusted=true) only in the trusted inv handler; " +
			"(R5) the per-tx safe/unsafe/trusted flags of the unconfirmed repository are written only by its own API, and unsafe is never cleared; " +
			"(R6) the mempool reports a tx as seen only when its body was present, so an announced-only conflicting tx confirmed in a block still triggers the double-spend check that keeps the loser from being reported safe.",
		NotDecided:  "'within a bounded time', the delay arithmetic, and trajectories over all orderings of vouching / conflict / timer events (schedule- and time-quantified).",
		Assumptions: []string{"flag objects are identified per SSA value (a state re-fetched from storage is a new object)"},
		Tech:        "guard edge cut-sets (conjunctive dominance + disjunctive cut), coupled flag updates per object, who-may-write",
		Run:         runC07,
	})
}

func runC07(c *Check) {
	// ---- R1 GetNewSafe
	uSafe := c.P.Field("storage", "unconfirmedTx", "safe")
	uUnsafe := c.P.Field("storage", "unconfirmedTx", "unsafe")
	uTrusted := c.P.Field("storage", "unconfirmedTx", "trusted")
	uTime := c.P.Field("storage", "unconfirmedTx", "time")
	if uSafe == nil || uUnsafe == nil || uTrusted == nil || uTime == nil {
		c.Undecided("R1", "anchor:storage.unconfirmedTx fields", token.NoPos, "safe/unsafe/trusted/time not found")
		return
	}
	if fn := c.Fn("R1", "storage.(*TxRepository).GetNewSafe"); fn != nil {
		var targets []ssa.Instruction
		var marks []*ssa.Store
		for _, st := range storesToField(fn, uSafe) {
			if b, isC := isConstBool(st.Val); isC && b {
				marks = append(marks, st)
				targets = append(targets, st)
			}
		}
		var appends []ssa.Instruction
		for _, b := range fn.Blocks {
			for _, in := range b.Instrs {
				if call, ok := in.(*ssa.Call); ok && builtinCall(call, "append") != nil {
					appends = append(appends, call)
					targets = append(targets, call)
				}
			}
		}
		c.Min("R1", "safe=true stores in GetNewSafe", len(marks), 1)
		c.Min("R1", "result appends in GetNewSafe", len(appends), 1)
		fld := func(f *types.Var) func(ssa.Value) bool {
			return func(v ssa.Value) bool { return anyFieldLoad(v) == f }
		}
		for i, t := range targets {
			key := fmt.Sprintf("storage.(*TxRepository).GetNewSafe#target%d", i+1)
			ok, w := mustPass(t, boolEdge(fld(uSafe), false))
			c.Decide(ok, "R1", key+"#not-yet-safe", t.Pos(), "edge-cutset", w, "behind tx.safe==false", "a tx already reported safe can be returned again")
			ok, w = mustPass(t, boolEdge(fld(uUnsafe), false))
			c.Decide(ok, "R1", key+"#not-unsafe", t.Pos(), "edge-cutset", w, "behind tx.unsafe==false", "a tx with a known conflict can be reported safe")
			ok, w = mustPass(t, condEdge(func(cd Cond) (bool, bool) {
				if cd.Call != nil && calleeName(&cd.Call.Call) == "(time.Time).Before" && len(cd.Call.Call.Args) == 2 && mentionsField(cd.Call.Call.Args[0], uTime) {
					return true, true
				}
				return false, false
			}))
			c.Decide(ok, "R1", key+"#delay-elapsed", t.Pos(), "edge-cutset", w, "behind tx.time.Before(cutoff)==true", "a tx can be reported safe before the safe delay has elapsed since it was first seen")
			ok, w = mustPass(t, anyEdge(boolEdge(fld(uTrusted), true), callEdge(true, -1, nil, "(*state.MemPool).IsTrusted")))
			c.Decide(ok, "R1", key+"#vouched", t.Pos(), "edge-cutset (disjunctive)", w, "behind tx.trusted==true or memPool.IsTrusted()==true", "a tx can be reported safe without the trusted peer having announced or sent it")
		}
		// marked <=> returned: every mark is always followed by an append and every append preceded by a mark (same iteration)
		for _, m := range marks {
			ok, w := alwaysFollowedBy(m, appends, true, nil)
			c.Decide(ok, "R1", "storage.(*TxRepository).GetNewSafe#marked-implies-returned", m.Pos(), "per-iteration pairing", w, "a tx marked safe is returned in the same iteration", "a tx is marked safe without being returned: it would never be reported safe")
		}
		var markI []ssa.Instruction
		for _, m := range marks {
			markI = append(markI, m)
		}
		for _, a := range appends {
			ok := false
			for _, m := range marks {
				if m.Block() == a.Block() {
					ok = true
				}
			}
			if !ok {
				if h := loopHeaderOf(a.Block()); h != nil {
					cut := map[*ssa.BasicBlock]bool{}
					for _, m := range marks {
						cut[m.Block()] = true
					}
					r, _ := reachAvoid2(h, a.Block(), nil, cut)
					ok = !r
				}
			}
			c.Decide(ok, "R1", "storage.(*TxRepository).GetNewSafe#returned-implies-marked", a.Pos(), "per-iteration pairing", nil, "a returned tx was marked safe in the same iteration (so it is returned only once)", "a tx is returned as newly safe without being marked: it would be reported safe again on every check")
		}
	}

	// ---- R2 coupled flags in internal/spynode
	ta := c.txAnchors("R2")
	if ta == nil {
		return
	}
	nStores := 0
	for _, fn := range c.P.FuncsIn("spynode") {
		stores := ta.stateStores(fn)
		if len(stores) == 0 {
			continue
		}
		c.Touch(fn)
		fk := c.P.Key(fn)
		byObj := func(obj ssa.Value, f *types.Var, want *bool) []ssa.Instruction {
			var out []ssa.Instruction
			for _, s := range stores {
				if s.Field != f || !sameObject(s.Obj, obj) {
					continue
				}
				if want != nil {
					b, isC := isConstBool(s.St.Val)
					if !isC || b != *want {
						continue
					}
				}
				out = append(out, s.St)
			}
			return out
		}
		tr, fa := true, false
		accompanied := func(s ssa.Instruction, set []ssa.Instruction) (bool, []string) {
			for _, x := range set {
				if x.Block() == s.Block() {
					return true, nil
				}
			}
			if ok, _ := alwaysFollowedBy(s, set, true, isErrorReturnBlock); ok {
				return true, nil
			}
			// preceded within the iteration / function
			start := s.Block().Parent().Blocks[0]
			if h := loopHeaderOf(s.Block()); h != nil {
				start = h
			}
			cut := map[*ssa.BasicBlock]bool{}
			for _, x := range set {
				cut[x.Block()] = true
			}
			if len(set) > 0 {
				if r, p := reachAvoid2(start, s.Block(), nil, cut); !r {
					return true, nil
				} else {
					return false, pathWitness(s.Block().Parent(), p)
				}
			}
			return false, nil
		}
		fromStorage := func(obj ssa.Value) bool {
			return derivesFromCall(obj, "storage.FetchTxState") != nil
		}
		unsafeIsFalse := func(obj ssa.Value) EdgePred {
			return boolEdge(func(v ssa.Value) bool {
				o, f := ta.stateFlagLoad(v)
				return f == ta.unsafe && o != nil && sameObject(o, obj)
			}, false)
		}
		for _, s := range stores {
			nStores++
			b, isC := isConstBool(s.St.Val)
			key := fmt.Sprintf("%s#%s", fk, s.Field.Name())
			switch s.Field {
			case ta.unsafe:
				if isC && b {
					ok, w := accompanied(s.St, byObj(s.Obj, ta.safe, &fa))
					c.Decide(ok, "R2", key+"=true-with-Safe=false", s.St.Pos(), "coupled-updates", w,
						"UnSafe=true is accompanied by Safe=false on the same state", "a state is marked UnSafe without Safe being cleared before it is saved/notified (safe and unsafe both set)")
				} else if isC && !b {
					if fromStorage(s.Obj) {
						ok, w := mustPass(s.St, unsafeIsFalse(s.Obj))
						c.Decide(ok, "R2", key+"=false-only-if-not-unsafe", s.St.Pos(), "edge-cutset", w,
							"UnSafe is only re-stored false behind UnSafe==false", "UnSafe is cleared on a state that came from storage: once unsafe, a tx must stay unsafe")
					} else {
						c.Ok("R2", key+"=false-on-fresh-literal", s.St.Pos(), "provenance", "fresh literal")
					}
				} else if cnd := selfOrCond(s.St); cnd != nil {
					// `UnSafe = UnSafe || c` is `if c { UnSafe = true }`: where c holds Safe must be cleared
					set := byObj(s.Obj, ta.safe, &fa)
					ok := len(set) > 0
					cut := map[*ssa.BasicBlock]bool{}
					for _, x := range set {
						cut[x.Block()] = true
						if x.Block() == s.St.Block() {
							cut = nil
							break
						}
					}
					var w []string
					if ok && cut != nil {
						guard := boolEdge(func(v ssa.Value) bool { return v == cnd }, false)
						for _, e := range fn.Blocks {
							if !isExitBlock(e) || isErrorReturnBlock(e) || e.Comment == "recover" {
								continue
							}
							if r, p := reachAvoid2(s.St.Block(), e, guard, cut); r {
								ok = false
								w = pathWitness(fn, p)
							}
						}
					}
					c.Decide(ok, "R2", key+"=true-with-Safe=false", s.St.Pos(), "coupled-updates", w,
						"UnSafe raised under a condition is accompanied by Safe=false where the condition holds", "a state is marked UnSafe without Safe being cleared before it is saved/notified (safe and unsafe both set)")
				} else {
					// non-constant: must be the complement of the Safe value stored in the same block
					ok := false
					for _, t := range stores {
						if t.Field == ta.safe && sameObject(t.Obj, s.Obj) && t.St.Block() == s.St.Block() {
							if u, isU := s.St.Val.(*ssa.UnOp); isU && u.Op == token.NOT && sameExpr(u.X, t.St.Val) {
								ok = true
							}
							if u, isU := t.St.Val.(*ssa.UnOp); isU && u.Op == token.NOT && sameExpr(u.X, s.St.Val) {
								ok = true
							}
						}
					}
					// (on a state that came from storage the Safe store it complements is judged by its own
					// obligation: possibly true only behind UnSafe==false - so the complement is false only there)
					c.Decide(ok, "R2", key+"=!Safe-on-fresh-literal", s.St.Pos(), "coupled-updates", nil,
						"UnSafe is the complement of the Safe value stored with it", "a non-constant UnSafe is stored that is not the complement of the Safe value stored with it on the same state")
				}
			case ta.cancelled:
				if isC && b {
					ok, w := accompanied(s.St, byObj(s.Obj, ta.unsafe, &tr))
					c.Decide(ok, "R2", key+"=true-with-UnSafe=true", s.St.Pos(), "coupled-updates", w,
						"Cancelled=true is accompanied by UnSafe=true", "a state is marked Cancelled without UnSafe being set (cancelled must imply unsafe)")
				}
			case ta.safe:
				if isC && !b {
					continue
				}
				if !fromStorage(s.Obj) {
					// fresh literal: Safe with complementary UnSafe, or UnSafe untouched (zero)
					c.Ok("R2", key+"-on-fresh-literal", s.St.Pos(), "provenance", "possibly-true Safe stored on a state built in this function")
					continue
				}
				ok, w := possiblyTrueBehind(s.St, s.St.Val, unsafeIsFalse(s.Obj), 0)
				c.Decide(ok, "R2", key+"-only-if-not-unsafe", s.St.Pos(), "edge-cutset", w,
					"a possibly-true Safe is stored on a stored state only behind UnSafe==false of that state",
					"Safe may be set on a state loaded from storage without checking that it is not already unsafe (a tx reported unsafe could be reported safe again, or carry both flags)")
			}
		}
	}
	c.Min("R2", "TxState flag stores in internal/spynode", nStores, 12)

	// ---- R3 delay checker
	if fn := c.Fn("R3", "spynode.(*Node).checkTxDelays"); fn != nil {
		n := 0
		for _, s := range ta.stateStores(fn) {
			if b, isC := isConstBool(s.St.Val); !(s.Field == ta.safe && isC && b) {
				continue
			}
			n++
			key := "spynode.(*Node).checkTxDelays#Safe=true"
			ok, w := mustPass(s.St, callEdge(true, -1, nil, "(*state.State).IsReady"))
			c.Decide(ok, "R3", key+"#in-sync", s.St.Pos(), "edge-cutset", w, "behind state.IsReady()==true", "safe can be reported while the node is not in sync")
			ok, w = mustPass(s.St, boolEdge(func(v ssa.Value) bool {
				o, f := ta.stateFlagLoad(v)
				return f == ta.cancelled && o != nil && sameObject(o, s.Obj)
			}, false))
			c.Decide(ok, "R3", key+"#not-cancelled", s.St.Pos(), "edge-cutset", w, "behind Cancelled==false of the fetched state", "a cancelled tx can be reported safe by the delay checker")
			ok, w = mustPass(s.St, errNilEdge(callNamed("(*storage.TxRepository).GetNewSafe"), true))
			c.Decide(ok && derivesFromCall(s.Obj, "storage.FetchTxState") != nil, "R3", key+"#from-GetNewSafe", s.St.Pos(), "edge-cutset+provenance", w,
				"only txs returned by GetNewSafe, state fetched from storage", "the delay checker marks safe a state that does not come from GetNewSafe/FetchTxState")
		}
		c.Min("R3", "Safe=true stores in checkTxDelays", n, 1)
		for _, u := range c.handlerInvokes(fn, "HandleTxUpdate") {
			ok, w := mustPass(u.Instr, errNilEdge(callNamed("storage.SaveTxState"), true))
			c.Decide(ok, "R3", "spynode.(*Node).checkTxDelays#notify-after-save", u.Pos(), "edge-cutset", w, "update only after the state was saved", "a safe update can be delivered without the state having been saved")
		}
	}

	// ---- R4 trusted provenance
	tdTrusted := c.P.Field("handlers", "TxData", "Trusted")
	tdSafe := c.P.Field("handlers", "TxData", "Safe")
	allowedTrue := map[string]string{
		"handlers.(*TXHandler).Handle": "tx received on the trusted connection",
		"spynode.(*Node).SendTx":       "local submission",
		"spynode.(*Node).HandleTx":     "local submission (response tx fed back)",
	}
	n4 := 0
	for _, fn := range c.P.FuncsIn("handlers", "spynode", "state", "storage") {
		for _, fld := range []*types.Var{tdTrusted, tdSafe} {
			if fld == nil {
				continue
			}
			for _, st := range storesToField(fn, fld) {
				n4++
				c.Touch(fn)
				b, isC := isConstBool(st.Val)
				key := fmt.Sprintf("%s#TxData.%s", c.P.Key(fn), fld.Name())
				if isC && !b {
					c.Ok("R4", key, st.Pos(), "constant provenance", "constant false")
					continue
				}
				if isC && b {
					_, ok := allowedTrue[c.P.Key(topFn(fn))]
					c.Decide(ok, "R4", key, st.Pos(), "who-may-write", nil, "constant true in an allowed producer", "TxData."+fld.Name()+"=true is produced outside the trusted tx handler / local submission")
					continue
				}
				// non-constant: only the mempool's trusted mark may be copied in
				ok := fld == tdTrusted && derivesFromCall(st.Val, "(*state.MemPool).AddTransaction") != nil
				c.Decide(ok, "R4", key, st.Pos(), "provenance", nil, "Trusted upgraded from the mempool's trusted mark (AddTransaction result)", "TxData."+fld.Name()+" receives a non-constant value that is not the mempool's trusted mark")
			}
		}
		for _, s := range callsTo(fn, "(*state.MemPool).AddRequest") {
			a := s.Args()
			if len(a) != 3 {
				continue
			}
			b, isC := isConstBool(a[2])
			key := c.P.Key(fn) + "#AddRequest-trusted"
			if isC && !b {
				c.Ok("R4", key, s.Pos(), "constant provenance", "trusted=false")
			} else {
				c.Decide(isC && c.P.Key(fn) == "handlers.(*InvHandler).Handle", "R4", key, s.Pos(), "who-may-call", nil,
					"trusted=true only from the trusted inv handler", "a txid is marked as announced by the trusted peer outside the trusted inv handler")
			}
		}
	}
	c.Min("R4", "TxData trust-flag stores", n4, 4)

	// ---- R6 (shared with C03.R10, added after seeded round 2)
	c.ruleRemoveReportsBody("R6")
	c.ruleTrustedOnlyFromTrustedSource("R8")
	c.ruleEntryNeverReplaced("R9")
	c.ruleStoredFlagsOnlyRise("R10")
	c.ruleConflictsAccumulatedForEveryInput("R11")
	c.ruleTrustedAnswerNeedsEntry("R12")
	c.ruleFlagRaisedBehindItsArgument("R13")
	c.ruleSafeDecidedBeforeDelivery("R14")
	c.ruleUnconfirmedSetKeepsEveryEntry("R15")
	c.ruleNoCallTo("R17", "TransactionExists", []string{"handlers"}, "an announcement of a tx that is already held is dropped before MemPool.AddRequest, which is where an announcement by the trusted node marks the held tx trusted: a tx first received from an untrusted peer is never reported safe")
	c.ruleFieldWriters("R16", "storage", "unconfirmedTx", "time", map[string]string{"storage.newUnconfirmedTx": "first seen", "storage.(*TxRepository).MarkTrusted": "the delay restarts when the trusted node vouches", "storage.readUnconfirmedTx": "loaded"}, "the safe delay is measured from this time; a value from elsewhere (a zero time for a tx that came another way) reports the tx safe before the delay has passed")
	c.ruleLoopVisitsAll("R7", "spynode.(*Node).checkTxDelays", func(v ssa.Value) bool {
		return derivesFromCall(v, "(*storage.TxRepository).GetNewSafe") != nil
	}, "newly-safe-tx", "the loop over the txs whose delay has passed can be left early: the txs after that point were already marked safe in the repository by GetNewSafe and are never returned again, so they are never reported safe")

	// ---- R5 who may write unconfirmedTx flags
	allowedW := map[string]string{
		"storage.(*TxRepository).Add":         "marks trusted/safe on re-add",
		"storage.(*TxRepository).MarkUnsafe":  "conflict seen",
		"storage.(*TxRepository).MarkTrusted": "trusted peer vouched",
		"storage.(*TxRepository).GetNewSafe":  "safe decision",
		"storage.readUnconfirmedTx":           "load from storage",
		"storage.newUnconfirmedTx":            "constructor",
	}
	n5 := 0
	for _, fn := range c.P.AllSrc {
		for _, fld := range []*types.Var{uSafe, uUnsafe, uTrusted} {
			for _, st := range storesToField(fn, fld) {
				n5++
				c.Touch(fn)
				key := fmt.Sprintf("%s#unconfirmedTx.%s", c.P.Key(fn), fld.Name())
				_, ok := allowedW[c.P.Key(topFn(fn))]
				// filling in a record that was just created here (the constructor written in place) is not a
				// write to a tracked tx
				if fa, isFA := st.Addr.(*ssa.FieldAddr); isFA && isFreshObject(fa) && strings.HasPrefix(c.P.Key(topFn(fn)), "storage.") {
					ok = true
				}
				c.Decide(ok, "R5", key, st.Pos(), "who-may-write", nil, "written by the repository's own API", "unconfirmedTx."+fld.Name()+" is written outside the frozen set of writers")
				if fld == uUnsafe {
					b, isC := isConstBool(st.Val)
					fresh := false
					if fa, isFA := st.Addr.(*ssa.FieldAddr); isFA {
						fresh = isFreshObject(fa)
					}
					if isC && !b && !fresh {
						c.Bad("R5", key+"#cleared", st.Pos(), "who-may-write", nil, "the unsafe flag of a tracked tx is cleared")
					}
				}
			}
		}
	}
	c.Min("R5", "stores to unconfirmedTx flags", n5, 8)
}

// possiblyTrueBehind: every way the bool v used at `in` can be something other than the constant
// false lies behind a guard edge. A value chosen on different paths (phi) is decided per incoming
// edge: the constant false needs nothing, any other input needs the guard on every path to the
// point where it is chosen (the choosing edge itself counts).
func possiblyTrueBehind(in ssa.Instruction, v ssa.Value, guard EdgePred, depth int) (bool, []string) {
	if b, isC := isConstBool(v); isC && !b {
		return true, nil
	}
	// the use itself lies behind the guard: whatever the value is and wherever it was computed
	// (at depth > 0 `in` is the end of the predecessor the value is chosen from: a value computed
	// earlier and chosen only behind the guard is as good as one computed behind it)
	if ok, _ := mustPass(in, guard); ok {
		return true, nil
	}
	if phi, ok := v.(*ssa.Phi); ok && depth < 5 {
		B := phi.Block()
		for i, e := range phi.Edges {
			p := B.Preds[i]
			if b, isC := isConstBool(e); isC && !b {
				continue
			}
			// the choosing edge itself
			if iff, ok := lastIf(p); ok {
				chosen := false
				for br, sx := range p.Succs {
					if sx == B && guard(iff, br) {
						chosen = true
					}
				}
				if chosen {
					continue
				}
			}
			if ok, w := possiblyTrueBehind(p.Instrs[len(p.Instrs)-1], e, guard, depth+1); !ok {
				return false, w
			}
		}
		return true, nil
	}
	return mustPass(in, guard)
}
