package main

import (
	"fmt"
	"go/token"
	"go/types"
	"strings"

	"golang.org/x/tools/go/ssa"
)

func init() {
	register(&PropDef{
		ID:    "C14",
		Title: "Announced transactions are requested from one peer at a time, then re-requested",
		Explanation: "Decides the guard/agreement skeleton of transaction requests: " +
			"(R1) MemPool.AddRequest returns shouldRequest=true only on paths that record the request time and pass `not requested yet or older than 3 s` (the constant is resolved), returns alreadyHave=true only when the body is present, and evaluates the body-present test on every path where the txid is known; " +
			"(R2) the three request sites (trusted inv handler, untrusted inv handler, TxTracker.Check) agree: an item goes into a getdata only under !alreadyHave && shouldRequest, is tracked (or stays tracked) under !alreadyHave && !shouldRequest and is dropped from the tracker under alreadyHave; " +
			"(R3) arrival (AddTransaction) and removal (removeTransaction) delete the request entry on every path; " +
			"(R4) every successfully processed block reaches CleanupBlock with the txid of every block transaction (exactly one append per loop iteration), and CleanupBlock forwards the list to the trusted tracker and to every untrusted node's tracker; " +
			"(R5) the tracker's map is accessed only under its mutex; " +
			"(R6) every getdata that TxTracker.Check filled is handed to the transmitter before Check returns.",
		NotDecided:  "mutual exclusion in time across connections, the re-request at 'next activity' as a timing statement, interleavings of concurrent AddRequest callers.",
		Assumptions: []string{"wire.MsgGetData.AddInvVect fails only when the message is full"},
		Tech:        "guard edge cut-sets with constant resolution, sibling guard→action agreement, must-pass-through, per-iteration event counting, lockset",
		Run:         runC14,
	})
}

func runC14(c *Check) {
	fRequests := c.P.Field("state", "MemPool", "requests")
	fOut := c.P.Field("state", "memPoolTx", "outPoints")
	fTxs := c.P.Field("state", "MemPool", "txs")
	if fRequests == nil || fOut == nil || fTxs == nil {
		c.Undecided("R0", "anchor:state.MemPool", token.NoPos, "fields not found")
		return
	}
	// ---- R1
	if fn := c.Fn("R1", "state.(*MemPool).AddRequest"); fn != nil {
		var upd []ssa.Instruction
		for _, ac := range fieldAccesses(fn, map[*types.Var]bool{fRequests: true}) {
			if ac.Kind == "mapupdate" {
				upd = append(upd, ac.Instr)
			}
		}
		window := func(iff *ssa.If, br int) bool {
			// `!requested` edge
			cd := normCond(iff.Cond)
			truth := (br == 0) != cd.Neg
			if ex, ok := cd.V.(*ssa.Extract); ok && ex.Index == 1 {
				if lk, ok := ex.Tuple.(*ssa.Lookup); ok && loadOfField(lk.X, fRequests) != nil && !truth {
					return true
				}
			}
			// `elapsed > 3` edge
			r, ok := edgeRel(iff, br)
			if !ok {
				return false
			}
			x, y, op := r.X, r.Y, r.Op
			if _, isC := y.(*ssa.Const); !isC {
				x, y, op = y, x, swapOp(op)
			}
			k, isC := constAsInt(y)
			if !isC || (op != token.GTR && op != token.GEQ) {
				return false
			}
			// `d.Seconds() > 3` or, on the duration itself, `d > 3*time.Second`
			if derivesFromCall(x, "(time.Duration).Seconds") != nil {
				return k == 3
			}
			return derivesFromCall(x, "(time.Time).Sub") != nil && k == 3000000000
		}
		have := lowerBoundEdge(func(v ssa.Value) bool { x := lenOf(v); return x != nil && loadOfField(x, fOut) != nil }, 1)
		nT, nH := 0, 0
		for _, ret := range returnsOf(fn) {
			a := resultValues(ret, 0)
			s := resultValues(ret, 1)
			if len(a) == 1 && len(s) == 1 {
				av, aC := isConstBool(a[0])
				// shouldRequest may be a constant chosen on different paths (an expanded helper's result)
				srcs, _ := constSources(ret, s[0], 0)
				for _, src := range srcs {
					sv, sC := isConstBool(src.Val)
					if !sC || !sv {
						continue
					}
					nT++
					ok, w := alwaysPrecededBy(src.At, upd)
					c.Decide(ok, "R1", "state.(*MemPool).AddRequest#request-recorded", ret.Pos(), "must-pass-through", w,
						"shouldRequest=true only after the request time was recorded", "AddRequest can answer shouldRequest=true without recording the request: every peer would be asked at once")
					ok, w = mustPassAt(src, window)
					c.Decide(ok, "R1", "state.(*MemPool).AddRequest#request-window", ret.Pos(), "edge-cutset", w,
						"shouldRequest=true only if no request is active (none, or older than 3 s)", "AddRequest can answer shouldRequest=true while another request for the txid is younger than the three-second window")
				}
				if aC && av {
					nH++
					ok, w := mustPass(ret, have)
					c.Decide(ok, "R1", "state.(*MemPool).AddRequest#have-means-body-present", ret.Pos(), "edge-cutset", w,
						"alreadyHave=true only when the tx body is in the mempool", "AddRequest can answer alreadyHave=true for a tx that was only announced: it would never be requested")
				}
				if !aC {
					// the answer of an expanded helper: a constant chosen on different paths
					asrcs, _ := constSources(ret, a[0], 0)
					for _, src := range asrcs {
						if hv, isB := isConstBool(src.Val); isB && hv {
							nH++
							ok, w := mustPassAt(src, have)
							c.Decide(ok, "R1", "state.(*MemPool).AddRequest#have-means-body-present", ret.Pos(), "edge-cutset", w,
								"alreadyHave=true only when the tx body is in the mempool", "AddRequest can answer alreadyHave=true for a tx that was only announced: it would never be requested")
						}
					}
				}
				if aC && !av {
					// the body-present test must have been evaluated if the txid was known
					for _, b := range fn.Blocks {
						iff, ok := lastIf(b)
						if !ok {
							continue
						}
						cd := normCond(iff.Cond)
						ex, ok := cd.V.(*ssa.Extract)
						if !ok || ex.Index != 1 {
							continue
						}
						lk, ok := ex.Tuple.(*ssa.Lookup)
						if !ok || loadOfField(lk.X, fTxs) == nil {
							continue
						}
						known := 0
						if cd.Neg {
							known = 1
						}
						anyHaveEdge := func(iff2 *ssa.If, br int) bool { return have(iff2, br) || have(iff2, 1-br) }
						r, p := reachAvoid(b.Succs[known], ret.Block(), anyHaveEdge)
						c.Decide(!r, "R1", "state.(*MemPool).AddRequest#have-test-on-every-known-path", ret.Pos(), "edge-cutset", pathWitness(fn, p),
							"for a known txid the body-present test is evaluated before answering 'not held'", "for a txid already in the mempool AddRequest can answer 'not held' without testing whether the body is present: a tx whose body already arrived is requested again")
					}
				}
			}
		}
		c.Min("R1", "shouldRequest=true returns", nT, 1)
		c.Min("R1", "alreadyHave=true returns", nH, 1)
	}

	// ---- R2 sibling agreement
	type site struct{ fn, kind string }
	for _, sp := range []site{{"handlers.(*InvHandler).Handle", "handler"}, {"handlers.(*UntrustedInvHandler).Handle", "handler"}, {"state.(*TxTracker).Check", "tracker"}} {
		fn := c.Fn("R2", sp.fn)
		if fn == nil {
			continue
		}
		reqs := callsTo(fn, "(*state.MemPool).AddRequest")
		if len(reqs) != 1 {
			c.Undecided("R2", sp.fn+"#single-AddRequest", fn.Pos(), "expected one AddRequest call, found %d", len(reqs))
			continue
		}
		call := reqs[0].Value()
		res := func(idx int, want bool) EdgePred {
			return condEdge(func(cd Cond) (bool, bool) {
				if cd.Call == call && cd.Idx == idx {
					return true, want
				}
				return false, false
			})
		}
		nAdd := 0
		for _, s := range callsTo(fn, "(*wire.MsgGetData).AddInvVect") {
			nAdd++
			ok1, w1 := mustPass(s.Instr, res(0, false))
			ok2, w2 := mustPass(s.Instr, res(1, true))
			w := w1
			if ok1 {
				w = w2
			}
			c.Decide(ok1 && ok2, "R2", sp.fn+"#getdata-only-if-should-request", s.Pos(), "edge-cutset", w,
				"an item is requested only under !alreadyHave && shouldRequest", "a txid can be put into a getdata although AddRequest did not say shouldRequest (a second request inside the window, or for a tx already held)")
		}
		c.Min("R2", "AddInvVect calls in "+sp.fn, nAdd, 1)
		if sp.kind == "handler" {
			tr := callsTo(fn, "(*state.TxTracker).Add")
			for _, s := range tr {
				ok1, w1 := mustPass(s.Instr, res(0, false))
				ok2, _ := mustPass(s.Instr, res(1, false))
				c.Decide(ok1 && ok2, "R2", sp.fn+"#tracked-if-waiting", s.Pos(), "edge-cutset", w1,
					"announced-but-not-requested txids are tracked under !alreadyHave && !shouldRequest", "the tracker is fed under the wrong condition")
			}
			c.Min("R2", "tracker.Add calls in "+sp.fn, len(tr), 1)
			// must-track: from the (!have && !should) edge the tracker is always fed
			for _, b := range fn.Blocks {
				iff, ok := lastIf(b)
				if !ok {
					continue
				}
				for br := 0; br < 2; br++ {
					if res(1, false)(iff, br) && !res(1, false)(iff, 1-br) {
						var ev []ssa.Instruction
						for _, s := range tr {
							ev = append(ev, s.Instr)
						}
						if okP, _ := mustPass(b.Succs[br].Instrs[0], res(0, false)); okP {
							okF, w := alwaysFollowedBy(b.Succs[br].Instrs[0], ev, true, nil)
							c.Decide(okF || containsInstr(b.Succs[br], ev), "R2", sp.fn+"#waiting-txid-is-tracked", ifPos(iff), "must-pass-through", w,
								"a txid that must wait is always remembered for a later request", "a txid announced while another request is active is not remembered: if the asked peer never delivers, nobody asks this peer")
						}
					}
				}
			}
		} else {
			// tracker: delete under alreadyHave, delete after requesting, keep otherwise
			nDel := 0
			for _, b := range fn.Blocks {
				for _, in := range b.Instrs {
					call2, ok := in.(*ssa.Call)
					if !ok {
						continue
					}
					if bi, ok := call2.Call.Value.(*ssa.Builtin); !ok || bi.Name() != "delete" {
						continue
					}
					nDel++
					okA, _ := mustPass(call2, res(0, true))
					okB1, _ := mustPass(call2, res(0, false))
					okB2, _ := mustPass(call2, res(1, true))
					c.Decide(okA || (okB1 && okB2), "R2", sp.fn+"#forgotten-only-if-held-or-requested", call2.Pos(), "edge-cutset", nil,
						"a txid leaves the tracker only when the tx is held or was just requested", "a tracked txid is forgotten although it is neither held nor requested now")
				}
			}
			c.Min("R2", "tracker deletions in Check", nDel, 2)
		}
	}

	// ---- R3
	for _, fk := range []string{"state.(*MemPool).AddTransaction", "state.(*MemPool).removeTransaction"} {
		fn := c.Fn("R3", fk)
		if fn == nil {
			continue
		}
		var dels []ssa.Instruction
		for _, ac := range fieldAccesses(fn, map[*types.Var]bool{fRequests: true}) {
			if ac.Kind == "delete" {
				dels = append(dels, ac.Instr)
			}
		}
		ok := len(dels) > 0
		for _, ret := range returnsOf(fn) {
			if o, _ := alwaysPrecededBy(ret, dels); !o {
				ok = false
			}
		}
		c.Decide(ok, "R3", fk+"#request-entry-deleted", fn.Pos(), "must-pass-through", nil,
			"the request entry is deleted on every path", "the request entry survives arrival/removal of the tx on some path: it blocks or duplicates later requests")
	}

	// ---- R4
	if fn := c.Fn("R4", "spynode.(*Node).ProcessBlock"); fn != nil {
		cl := callsTo(fn, "(*spynode.Node).CleanupBlock")
		var clI []ssa.Instruction
		for _, s := range cl {
			clI = append(clI, s.Instr)
		}
		for _, f := range callsTo(fn, "(*storage.TxRepository).FinalizeUnconfirmed") {
			ok, w := alwaysPrecededBy(f.Instr, clI)
			c.Decide(ok, "R4", "spynode.(*Node).ProcessBlock#cleanup-before-finalize", f.Pos(), "must-pass-through", w,
				"every successfully processed block runs CleanupBlock", "a block can be processed to the end without CleanupBlock: confirmed txids stay in the trackers and are requested again")
		}
		c.Min("R4", "CleanupBlock calls in ProcessBlock", len(cl), 1)
		// the list receives every block tx
		var getNext *ssa.Call
		for _, s := range sitesIn(fn) {
			if s.CC.IsInvoke() && s.CC.Method.Name() == "GetNextTx" {
				getNext = s.Value()
			}
		}
		for _, s := range cl {
			list := s.Args()[len(s.Args())-1]
			var apps []*ssa.Call
			for _, x := range rootsAll(list) {
				if call, ok := x.(*ssa.Call); ok && builtinCall(call, "append") != nil && types.Identical(call.Type(), list.Type()) {
					apps = append(apps, call)
				}
			}
			okAll := false
			var wit []string
			if getNext != nil {
				if h := loopHeaderOf(getNext.Block()); h != nil {
					cnt := iterationCounts(h, func(in ssa.Instruction) int {
						for _, a := range apps {
							if ssa.Instruction(a) == in {
								return 1
							}
						}
						return 0
					})
					okAll = len(cnt) == 1 && cnt[1] != nil
					for n, p := range cnt {
						if n != 1 {
							wit = append([]string{fmt.Sprintf("an iteration path that appends the txid %d times:", n)}, pathWitness(fn, p)...)
						}
					}
				}
			}
			okSrc := false
			for _, a := range apps {
				if getNext != nil && derivesFromValue(a.Call.Args[1], getNext) {
					okSrc = true
				}
			}
			c.Decide(okAll && okSrc, "R4", "spynode.(*Node).ProcessBlock#cleanup-list-has-every-block-tx", s.Pos(), "per-iteration event count", wit,
				"the txid of every block tx is appended to the cleanup list exactly once per iteration", "some block transactions are not put on the cleanup list: their announcements are not forgotten and they are requested after confirmation")
		}
	}
	if fn := c.Fn("R4", "spynode.(*Node).CleanupBlock"); fn != nil {
		txids := paramAt(fn, "txids", 2)
		okT, okU := false, false
		for _, s := range callsTo(fn, "(*state.TxTracker).RemoveList") {
			if a := s.Args(); len(a) == 2 && a[1] == ssa.Value(txids) {
				okT = true
			}
		}
		for _, s := range callsTo(fn, "(*spynode.UntrustedNode).CleanupBlock") {
			if a := s.Args(); len(a) == 2 && a[1] == ssa.Value(txids) && loopHeaderOf(s.Instr.Block()) != nil {
				okU = true
			}
		}
		c.Decide(okT, "R4", "spynode.(*Node).CleanupBlock#trusted-tracker", fn.Pos(), "must-call", nil, "the trusted tracker forgets the block's txids", "CleanupBlock does not forward the txids to the trusted tracker")
		c.Decide(okU, "R4", "spynode.(*Node).CleanupBlock#untrusted-trackers", fn.Pos(), "must-call", nil, "every untrusted node's tracker forgets the block's txids", "CleanupBlock does not forward the txids to every untrusted node")
	}
	if fn := c.Fn("R4", "spynode.(*UntrustedNode).CleanupBlock"); fn != nil {
		ok := len(callsTo(fn, "(*state.TxTracker).RemoveList")) > 0
		c.Decide(ok, "R4", "spynode.(*UntrustedNode).CleanupBlock#tracker", fn.Pos(), "must-call", nil, "forwards to its tracker", "UntrustedNode.CleanupBlock does not clean its tracker")
	}
	if fn := c.Fn("R4", "state.(*TxTracker).RemoveList"); fn != nil {
		ft := c.P.Field("state", "TxTracker", "txids")
		n := 0
		for _, ac := range fieldAccesses(fn, map[*types.Var]bool{ft: true}) {
			if ac.Kind == "delete" && loopHeaderOf(ac.Instr.Block()) != nil {
				n++
			}
		}
		c.Decide(n > 0, "R4", "state.(*TxTracker).RemoveList#deletes-each", fn.Pos(), "cfg-structure", nil, "deletes every listed txid", "RemoveList does not delete the listed txids")
	}

	// ---- R5 lockset
	if ft := c.P.Field("state", "TxTracker", "txids"); ft != nil {
		c.lockset("R5", "state", "TxTracker", "mutex", map[*types.Var]bool{ft: true}, []string{"state"}, nil, 8)
	}

	c.ruleNoUseAfterTransmit("R7", "state.(*TxTracker).Check")
	c.ruleAgeTestAppliesToRequested("R8")
	c.ruleNewEntriesRegistered("R9")
	c.ruleFreshMessageAfterTransmit("R10", "state.(*TxTracker).Check")
	c.ruleRequestTimeOnlyWhenRequesting("R11")
	c.ruleCleanupAlwaysForwards("R12")
	c.ruleTxBodyAlwaysForwarded("R13")
	c.ruleWiring("R14", c.constructorsIn("spynode", "handlers"))
	c.ruleRequestAgeFromRequestTime("R15")
	c.ruleFieldWriters("R16", "state", "MemPool", "requests", map[string]string{"state.(*MemPool).AddRequest": "request recorded / renewed", "state.(*MemPool).AddTransaction": "the tx arrived", "state.(*MemPool).removeTransaction": "the tx confirmed or was evicted", "state.NewMemPool": "created"}, "the entry is the request window of the tx: released from elsewhere (e.g. on any peer's notfound) a second peer is asked inside the window")
	c.ruleTrackerScannedOnEveryCheck("R17")
	c.whoMayCall("R18", "(*state.MemPool).RemoveTransaction", map[string]string{"spynode.(*Node).ProcessBlock": "a block tx leaves the mempool"}, 1)
	c.ruleNoCallTo("R19", "TransactionExists", []string{"handlers"}, "see C07.R17")

	// ---- R6 every filled getdata is transmitted
	if fn := c.Fn("R6", "state.(*TxTracker).Check"); fn != nil {
		var tx []ssa.Instruction
		for _, s := range sitesIn(fn) {
			if s.CC.IsInvoke() && s.CC.Method.Name() == "TransmitMessage" {
				tx = append(tx, s.Instr)
			}
		}
		n := 0
		for _, s := range callsTo(fn, "(*wire.MsgGetData).AddInvVect") {
			call := s.Value()
			for _, b := range fn.Blocks {
				iff, ok := lastIf(b)
				if !ok {
					continue
				}
				for br := 0; br < 2; br++ {
					if !errNilEdge(sameCall(call), true)(iff, br) {
						continue
					}
					n++
					// from the success edge every nil-error return passes a TransmitMessage executed afterwards
					okAll := true
					var wit []string
					cut := map[*ssa.BasicBlock]bool{}
					for _, t := range tx {
						// only transmissions outside the loop body count as "flush after the loop"; those inside flush earlier batches
						cut[t.Block()] = true
					}
					for _, ret := range returnsOf(fn) {
						if isNil, known := errIsNilReturn(ret); !known || !isNil {
							continue
						}
						// path from success edge to return avoiding any transmit – but transmits that precede a
						// re-created message inside the loop do not flush the final batch: require a transmit
						// that is not followed by a new AddInvVect
						nothingLeft := func(iff2 *ssa.If, br2 int) bool {
							r, ok := edgeRel(iff2, br2)
							if !ok {
								return false
							}
							x, y, op := r.X, r.Y, r.Op
							if lenOf(x) == nil {
								x, y, op = y, x, swapOp(op)
							}
							l := lenOf(x)
							k, isC := constInt(y)
							return l != nil && mentionsFieldNamed(l, "InvList") && isC && ((k == 0 && (op == token.EQL || op == token.LEQ)) || (k == 1 && op == token.LSS))
						}
						if r, p := reachAvoid2(b.Succs[br], ret.Block(), nothingLeft, flushBlocks(fn, tx)); r {
							okAll = false
							wit = pathWitness(fn, p)
						}
					}
					c.Decide(okAll, "R6", "state.(*TxTracker).Check#filled-getdata-is-sent", s.Pos(), "must-pass-through", wit,
						"after a txid was put into a getdata, Check cannot return successfully without transmitting it", "Check can return after filling a getdata without transmitting it: the txids were removed from the tracker and marked as requested, but no peer is ever asked")
				}
			}
		}
		c.Min("R6", "successful AddInvVect edges in Check", n, 2)
	}
}

// flushBlocks: blocks of transmit calls that lie outside every loop (a flush after the loop).
func flushBlocks(fn *ssa.Function, tx []ssa.Instruction) map[*ssa.BasicBlock]bool {
	out := map[*ssa.BasicBlock]bool{}
	for _, t := range tx {
		if loopHeaderOf(t.Block()) == nil {
			out[t.Block()] = true
		}
	}
	return out
}

func containsInstr(b *ssa.BasicBlock, set []ssa.Instruction) bool {
	for _, s := range set {
		if s.Block() == b {
			return true
		}
	}
	return false
}

var _ = strings.HasPrefix
