package main

// Rules added after the third independent seeding round (minimal operator-level changes:
// one operator, constant, argument order or statement per change).

import (
	"fmt"
	"go/token"
	"go/types"
	"sort"
	"strings"

	"golang.org/x/tools/go/ssa"
)

// ---------------------------------------------------------------------------------------------
// splice well-formedness

// ruleSpliceRemovesOne: every `append(s[:a], s[b:]...)` over the same slice removes exactly the
// element(s) at a: b = a + 1 (or a + <constant stride> for byte slices holding fixed-width records).
// `s[:0]` with `s[i+1:]` drops everything in front of i; `s[:i]` with `s[i:]` removes nothing.
func (c *Check) ruleSpliceRemovesOne(rule string, min int, scope ...string) {
	n := 0
	for _, fn := range c.P.FuncsIn(scope...) {
		for _, b := range fn.Blocks {
			for _, in := range b.Instrs {
				call, ok := in.(*ssa.Call)
				if !ok || len(call.Call.Args) != 2 {
					continue
				}
				head, ok1 := call.Call.Args[0].(*ssa.Slice)
				tail, ok2 := call.Call.Args[1].(*ssa.Slice)
				if !ok1 || !ok2 {
					continue
				}
				if builtinCall(call, "copy") != nil {
					// the other spelling of the removal: copy(s[a:], s[b:]) followed by s = s[:len(s)-1]
					if head.Low == nil || head.High != nil || tail.Low == nil || tail.High != nil || !(head.X == tail.X || sameExpr(head.X, tail.X)) {
						continue
					}
					n++
					gap, known := linOfValue(tail.Low).minus(linOfValue(head.Low)).isConst()
					isBytes := false
					if st, ok := head.X.Type().Underlying().(*types.Slice); ok {
						if bt, ok := st.Elem().Underlying().(*types.Basic); ok && bt.Kind() == types.Uint8 {
							isBytes = true
						}
					}
					c.Decide(known && (gap == 1 || (isBytes && gap > 1)), rule, fmt.Sprintf("%s#splice(%s)", c.P.Key(fn), spliceName(head.X)), call.Pos(), "value flow",
						[]string{fmt.Sprintf("copy(s[%s:], s[%s:])", linOfValue(head.Low), linOfValue(tail.Low))},
						"the removal moves everything after the removed element one place down",
						"the removal by copy does not move the elements after the matched one down by exactly one place: elements are dropped or duplicated")
					c.Touch(fn)
					continue
				}
				if builtinCall(call, "append") == nil {
					continue
				}
				if head.Low != nil || head.High == nil || tail.Low == nil || tail.High != nil {
					continue
				}
				if !(head.X == tail.X || sameExpr(head.X, tail.X)) {
					continue
				}
				n++
				key := fmt.Sprintf("%s#splice(%s)", c.P.Key(fn), spliceName(head.X))
				gap, known := linOfValue(tail.Low).minus(linOfValue(head.High)).isConst()
				isBytes := false
				if st, ok := head.X.Type().Underlying().(*types.Slice); ok {
					if bt, ok := st.Elem().Underlying().(*types.Basic); ok && bt.Kind() == types.Uint8 {
						isBytes = true
					}
				}
				good := known && (gap == 1 || (isBytes && gap > 1))
				wit := []string{fmt.Sprintf("append(s[:%s], s[%s:]...)", linOfValue(head.High), linOfValue(tail.Low))}
				c.Decide(good, rule, key, call.Pos(), "value flow", wit,
					"the removal splice keeps everything before the removed element and everything after it",
					"the removal splice does not cut out exactly the matched element (tail start is not head end + 1): elements in front of it are dropped or nothing is removed")
				c.Touch(fn)
			}
		}
	}
	c.Min(rule, "removal splices in "+strings.Join(scope, ","), n, min)
}

func spliceName(v ssa.Value) string {
	if f := anyFieldLoad(v); f != nil {
		return f.Name()
	}
	if v.Name() != "" {
		if p, ok := v.(*ssa.Parameter); ok {
			return p.Name()
		}
	}
	return "local"
}

// ---------------------------------------------------------------------------------------------
// accumulators

// ruleAccumulatorSelfAppend (C05.R8): in MemPool.AddTransaction the conflict list is accumulated
// across the tx's inputs: the value carried round the loop is appendIfNotContained(<the carried
// value>, ...). With the arguments swapped the accumulator is replaced by (an alias of) the last
// outpoint's spender list, so conflicts found on earlier inputs are lost and the index's own backing
// array is appended to.
func (c *Check) ruleAccumulatorSelfAppend(rule, fnKey string, names ...string) {
	fn := c.Fn(rule, fnKey)
	if fn == nil {
		return
	}
	sites := callsTo(fn, names...)
	n := 0
	for _, s := range sites {
		call := s.Value()
		if call == nil || len(call.Call.Args) < 2 {
			continue
		}
		// is the result carried round a loop (flows into a header phi)?
		var phi *ssa.Phi
		for _, r := range *call.Referrers() {
			if p, ok := r.(*ssa.Phi); ok {
				phi = p
			}
		}
		if phi == nil {
			// a chain of phis (if/else join, then header)
			seen := map[ssa.Value]bool{}
			var find func(v ssa.Value, d int)
			find = func(v ssa.Value, d int) {
				if d > 4 || seen[v] {
					return
				}
				seen[v] = true
				for _, r := range *v.Referrers() {
					if p, ok := r.(*ssa.Phi); ok {
						if loopBody(p.Block()) != nil {
							phi = p
							return
						}
						find(p, d+1)
					}
				}
			}
			find(call, 0)
		}
		if phi == nil {
			continue
		}
		n++
		arg0 := call.Call.Args[0]
		ok := derivesFromValue(arg0, phi) || arg0 == ssa.Value(phi)
		if !ok {
			// through an intermediate join phi
			for _, r := range rootsAll(arg0) {
				if r == ssa.Value(phi) {
					ok = true
				}
			}
		}
		c.Decide(ok, rule, fmt.Sprintf("%s#accumulates-into-own-list@%d", fnKey, n), call.Pos(), "value flow", nil,
			"the list carried round the loop is the first argument of the accumulating call",
			"the conflict list carried round the input loop is not the list being extended (arguments swapped): conflicts found on earlier inputs are lost and the outpoint index's own list is appended to")
	}
	if n == 0 {
		// the merge written in place (a nested loop appending the missing entries): the append whose result
		// is carried round a loop extends the carried list itself
		for _, b := range fn.Blocks {
			for _, in := range b.Instrs {
				call, ok := in.(*ssa.Call)
				if !ok || builtinCall(call, "append") == nil || len(call.Call.Args) < 2 {
					continue
				}
				var phi *ssa.Phi
				seen := map[ssa.Value]bool{}
				var find func(v ssa.Value, d int)
				find = func(v ssa.Value, d int) {
					if d > 4 || seen[v] || phi != nil || v.Referrers() == nil {
						return
					}
					seen[v] = true
					for _, r := range *v.Referrers() {
						if p, ok := r.(*ssa.Phi); ok {
							if loopBody(p.Block()) != nil {
								phi = p
								return
							}
							find(p, d+1)
						}
					}
				}
				find(call, 0)
				if phi == nil {
					continue
				}
				n++
				arg0 := call.Call.Args[0]
				okA := arg0 == ssa.Value(phi) || derivesFromValue(arg0, phi)
				c.Decide(okA, rule, fmt.Sprintf("%s#accumulates-into-own-list@%d", fnKey, n), call.Pos(), "value flow", nil,
					"the list carried round the loop is the list the append extends",
					"the conflict list carried round the input loop is not the list being extended: conflicts found on earlier inputs are lost")
			}
		}
	}
	c.Min(rule, "accumulating calls in "+fnKey, n, 1)
}

// ---------------------------------------------------------------------------------------------
// C01: emptiness accessor

// ruleEmptyMeansAllEmpty (C01.R11): State.BlockRequestsEmpty answers true only when both the
// to-request queue and the requested list were found empty. The headers handler marks the node in
// sync on this answer.
func (c *Check) ruleEmptyMeansAllEmpty(rule string) {
	fn := c.Fn(rule, "state.(*State).BlockRequestsEmpty")
	if fn == nil {
		return
	}
	fields := []*types.Var{c.P.Field("state", "State", "blocksToRequest"), c.P.Field("state", "State", "blocksRequested")}
	for _, f := range fields {
		if f == nil {
			c.Undecided(rule, "anchor:state.State.blocksToRequest/blocksRequested", fn.Pos(), "field not found")
			return
		}
	}
	// emptiness test of a field: len(field) == 0 (true edge) / len(field) != 0, > 0 (false edge)
	emptyTest := func(v ssa.Value) (f *types.Var, emptyWhen bool, ok bool) {
		bin, isB := stripConv(v).(*ssa.BinOp)
		if !isB {
			return nil, false, false
		}
		x, y := bin.X, bin.Y
		op := bin.Op
		if _, isC := constInt(x); isC {
			x, y = y, x
			op = swapOp(op)
		}
		k, isC := constInt(y)
		l := lenOf(x)
		if !isC || l == nil {
			return nil, false, false
		}
		var fld *types.Var
		for _, cand := range fields {
			if loadOfField(l, cand) != nil {
				fld = cand
			}
		}
		if fld == nil {
			return nil, false, false
		}
		switch {
		case op == token.EQL && k == 0, op == token.LSS && k == 1, op == token.LEQ && k == 0:
			return fld, true, true
		case op == token.NEQ && k == 0, op == token.GTR && k == 0, op == token.GEQ && k == 1:
			return fld, false, true
		}
		return nil, false, false
	}
	// fields known empty on entry to block b through edge from pred: collect along the dominator chain
	knownEmptyAt := func(b *ssa.BasicBlock) map[*types.Var]bool {
		out := map[*types.Var]bool{}
		for x := b; x != nil; x = x.Idom() {
			d := x.Idom()
			if d == nil {
				break
			}
			iff, ok := lastIf(d)
			if !ok {
				continue
			}
			f, emptyWhen, ok := emptyTest(iff.Cond)
			if !ok {
				continue
			}
			// x is reached only through one side of d's branch?
			if len(d.Succs) == 2 && d.Succs[0] != d.Succs[1] {
				if d.Succs[0] == x && len(x.Preds) == 1 && emptyWhen {
					out[f] = true
				}
				if d.Succs[1] == x && len(x.Preds) == 1 && !emptyWhen {
					out[f] = true
				}
			}
		}
		return out
	}
	nRet := 0
	for _, ret := range returnsOf(fn) {
		if len(ret.Results) != 1 {
			continue
		}
		nRet++
		// sources of the returned bool
		type src struct {
			v    ssa.Value
			from *ssa.BasicBlock // block the value is established in (edge source for phi operands)
		}
		var srcs []src
		var walk func(v ssa.Value, at *ssa.BasicBlock, d int)
		walk = func(v ssa.Value, at *ssa.BasicBlock, d int) {
			if p, ok := v.(*ssa.Phi); ok && d < 6 {
				for i, e := range p.Edges {
					walk(e, p.Block().Preds[i], d+1)
				}
				return
			}
			srcs = append(srcs, src{v, at})
		}
		if fn.Recover != nil && ret.Block() == fn.Recover {
			nRet--
			continue
		}
		for _, rv := range resultValues(ret, 0) {
			walk(rv, ret.Block(), 0)
		}
		for i, s := range srcs {
			_ = i
			key := "state.(*State).BlockRequestsEmpty#true-only-when-both-empty(constant)"
			if f, _, ok := emptyTest(s.v); ok {
				key = "state.(*State).BlockRequestsEmpty#true-only-when-both-empty(test of " + f.Name() + ")"
			}
			known := knownEmptyAt(s.from)
			if cb, isC := isConstBool(s.v); isC {
				if !cb {
					continue // answers false: always safe
				}
				// constant true through edge from s.from: if s.from ends in a test, the edge taken matters
				if iff, ok := lastIf(s.from); ok {
					if f, emptyWhen, ok := emptyTest(iff.Cond); ok {
						// which successor leads to the phi block? unknown here: accept only if both sides imply empty (never)
						_ = emptyWhen
						// edge polarity: the phi block is Succs[0] (true) or Succs[1]
						for si, succ := range s.from.Succs {
							if succ == ret.Block() || isPhiBlockOf(resultValues(ret, 0)[0], succ) {
								if (si == 0) == emptyWhen {
									known[f] = true
								}
							}
						}
					}
				}
				good := known[fields[0]] && known[fields[1]]
				c.Decide(good, rule, key, ret.Pos(), "path-dominance", missingNames(known, fields),
					"a constant true answer is reached only after both lists were found empty",
					"BlockRequestsEmpty answers true although only one of the to-request queue / requested list was found empty: the node is marked in sync (and HandleInSync delivered) while block requests are outstanding")
				continue
			}
			if f, emptyWhen, ok := emptyTest(s.v); ok && emptyWhen {
				known[f] = true
				good := known[fields[0]] && known[fields[1]]
				c.Decide(good, rule, key, ret.Pos(), "path-dominance", missingNames(known, fields),
					"the answer is one list's emptiness test evaluated only where the other list is already known empty",
					"BlockRequestsEmpty answers true although only one of the to-request queue / requested list was found empty: the node is marked in sync (and HandleInSync delivered) while block requests are outstanding")
				continue
			}
			if f, emptyWhen, ok := emptyTest(s.v); ok && !emptyWhen {
				_ = f
				c.Bad(rule, key, ret.Pos(), "path-dominance", nil, "BlockRequestsEmpty returns a non-emptiness test as its answer")
				continue
			}
			c.Undecided(rule, key, ret.Pos(), "answer is neither a constant nor an emptiness test of the two request lists")
		}
	}
	c.Min(rule, "returns of BlockRequestsEmpty", nRet, 1)
}

func isPhiBlockOf(v ssa.Value, b *ssa.BasicBlock) bool {
	seen := map[ssa.Value]bool{}
	var walk func(v ssa.Value) bool
	walk = func(v ssa.Value) bool {
		p, ok := v.(*ssa.Phi)
		if !ok || seen[v] {
			return false
		}
		seen[v] = true
		if p.Block() == b {
			return true
		}
		for _, e := range p.Edges {
			if walk(e) {
				return true
			}
		}
		return false
	}
	return walk(v)
}

func missingNames(known map[*types.Var]bool, fields []*types.Var) []string {
	var out []string
	for _, f := range fields {
		if !known[f] {
			out = append(out, "not established empty on this path: "+f.Name())
		}
	}
	sort.Strings(out)
	return out
}

// ---------------------------------------------------------------------------------------------
// counted loops

// countedLoop describes `for i := init; i <op> bound; i += step`: the inclusive interval of values the
// induction variable takes in the body, as linear combinations.
type countedLoop struct {
	h      *ssa.BasicBlock
	phi    *ssa.Phi
	lo, hi linComb
	asc    bool
}

// countedLoopAt recognises the loop with header h as a counted loop with step +-1.
func countedLoopAt(h *ssa.BasicBlock) *countedLoop {
	body := loopBody(h)
	if body == nil {
		return nil
	}
	iff, ok := lastIf(h)
	if !ok {
		return nil
	}
	bin, ok := iff.Cond.(*ssa.BinOp)
	if !ok {
		return nil
	}
	for _, in := range h.Instrs {
		phi, isPhi := in.(*ssa.Phi)
		if !isPhi {
			break
		}
		var init ssa.Value
		step := int64(0)
		okPhi := true
		for i, e := range phi.Edges {
			if body[h.Preds[i]] {
				d, known := linOfValue(e).minus(linOfValue(phi)).isConst()
				if !known || (d != 1 && d != -1) || (step != 0 && step != d) {
					okPhi = false
					break
				}
				step = d
			} else {
				if init != nil && init != e {
					okPhi = false
					break
				}
				init = e
			}
		}
		if !okPhi || init == nil || step == 0 {
			continue
		}
		// the condition, as  coef*phi + rest <op> 0
		d := linOfValue(bin.X).minus(linOfValue(bin.Y))
		coef, rest := d.coefOf(phi)
		op := bin.Op
		var bound linComb // phi <op> bound
		switch coef {
		case 1:
			bound = rest.scale(-1)
		case -1:
			bound = rest
			op = swapOp(op)
		default:
			continue
		}
		// stays in the loop on the true edge (Succs[0] in body) or on the false edge
		if !body[h.Succs[0]] {
			if !body[h.Succs[1]] {
				continue
			}
			op = negOp(op)
		}
		cl := &countedLoop{h: h, phi: phi, asc: step > 0}
		li := linOfValue(init)
		switch {
		case step > 0 && (op == token.LSS || op == token.NEQ):
			cl.lo, cl.hi = li, bound.plusConst(-1)
		case step > 0 && op == token.LEQ:
			cl.lo, cl.hi = li, bound
		case step < 0 && (op == token.GTR || op == token.NEQ):
			cl.lo, cl.hi = bound.plusConst(1), li
		case step < 0 && op == token.GEQ:
			cl.lo, cl.hi = bound, li
		default:
			continue
		}
		return cl
	}
	return nil
}

// rangeOf: the inclusive interval of v over the loop's iterations when v is affine in the induction
// variable with coefficient +-1 (or does not depend on it).
func (cl *countedLoop) rangeOf(v ssa.Value) (lo, hi linComb, ok bool) {
	l := linOfValue(v)
	coef, rest := l.coefOf(cl.phi)
	switch coef {
	case 1:
		return rest.plus(cl.lo), rest.plus(cl.hi), true
	case -1:
		return rest.minus(cl.hi), rest.minus(cl.lo), true
	}
	return linComb{}, linComb{}, false
}

// loopCall is a call inside a counted loop.
type loopCall struct {
	cl   *countedLoop
	call *ssa.Call
}

// loopsCalling returns the counted loops of fn whose body calls one of names, with the call.
func loopsCalling(fn *ssa.Function, names ...string) []loopCall {
	var out []loopCall
	for _, h := range loopHeadersOf(fn) {
		body := loopBody(h)
		cl := countedLoopAt(h)
		if cl == nil {
			continue
		}
		for _, s := range callsTo(fn, names...) {
			if body[s.Instr.Block()] && s.Value() != nil {
				// innermost loop only
				if hs := enclosingLoops(s.Instr.Block()); len(hs) > 0 && hs[0] == h {
					out = append(out, loopCall{cl, s.Value()})
				}
			}
		}
	}
	return out
}

// heightArg: the height argument (first int argument) of a repository getter call.
func heightArg(call *ssa.Call) ssa.Value {
	for _, a := range call.Call.Args {
		if b, ok := a.Type().Underlying().(*types.Basic); ok && b.Info()&types.IsInteger != 0 {
			return a
		}
	}
	return nil
}

// ruleRevertRemovesRevertedHeights (C02.R11): BlockRepository.Revert(height) drops the hash->height entries of
// exactly the heights it removes: the loop that collects the hashes (through getHash) asks for the
// heights [new tip + 1, old tip], where new tip is the value stored as repo.height afterwards.
func (c *Check) ruleRevertRemovesRevertedHeights(rule string) {
	fn := c.Fn(rule, "storage.(*BlockRepository).Revert")
	fHeight := c.P.Field("storage", "BlockRepository", "height")
	if fn == nil {
		return
	}
	if fHeight == nil {
		c.Undecided(rule, "anchor:storage.BlockRepository.height", fn.Pos(), "field not found")
		return
	}
	lcs := loopsCalling(fn, "(*storage.BlockRepository).getHash", "(*storage.BlockRepository).Hash")
	c.Min(rule, "counted loops collecting the reverted hashes in Revert", len(lcs), 1)
	// the value stored as the new height, and the old height (a load of the field)
	var newHeight ssa.Value
	for _, st := range storesToField(fn, fHeight) {
		newHeight = st.Val
	}
	if newHeight == nil {
		c.Bad(rule, "storage.(*BlockRepository).Revert#stores-new-height", fn.Pos(), "value flow", nil, "Revert never stores the new height")
		return
	}
	for i, lc := range lcs {
		arg := heightArg(lc.call)
		key := fmt.Sprintf("storage.(*BlockRepository).Revert#removed-hash-range@%d", i+1)
		if arg == nil {
			c.Undecided(rule, key, lc.call.Pos(), "getter call without a height argument")
			continue
		}
		lo, hi, ok := lc.cl.rangeOf(arg)
		if !ok {
			if !derivesFromValue(arg, lc.cl.phi) {
				c.Bad(rule, key, lc.call.Pos(), "loop-range", nil,
					"the loop that collects the hashes of the removed heights asks for a height that does not depend on its counter: the same height is asked every time, so only one of the removed blocks is forgotten - the others stay known at their old heights (a peer on the abandoned branch still passes the same-chain test)")
				continue
			}
			c.Undecided(rule, key, lc.call.Pos(), "height argument is not affine in the loop counter")
			continue
		}
		wantLo := linOfValue(newHeight).plusConst(1)
		okLo := lo.equal(wantLo)
		okHi := false
		if len(hi.terms) == 1 && hi.k == 0 {
			for t, cf := range hi.terms {
				if cf == 1 && loadOfField(hi.atoms[t], fHeight) != nil {
					okHi = true
				}
			}
		}
		wit := []string{fmt.Sprintf("hashes are collected for heights [%s, %s]; new tip is %s", lo, hi, linOfValue(newHeight))}
		c.Decide(okLo && okHi, rule, key, lc.call.Pos(), "loop-range", wit,
			"the hashes removed from the heights map are those of the heights above the new tip up to the old tip",
			"the heights whose hashes are dropped from the hash->height map are not exactly the reverted heights (new tip + 1 .. old tip): a reverted block keeps a stale entry (or a surviving block loses its entry), so height->hash and hash->height stop being inverse")
	}
}

// ruleHeadersRangeIsMaxCount (C09.R14): Node.GetHeaders(height, maxCount) asks the repository for maxCount
// consecutive heights starting at the resolved start height: (last height asked) + 1 - (first
// height asked) is maxCount. A bound computed from the raw request height (-1 for "latest") is not.
func (c *Check) ruleHeadersRangeIsMaxCount(rule string) {
	fn := c.Fn(rule, "spynode.(*Node).GetHeaders")
	if fn == nil {
		return
	}
	maxCount := paramAt(fn, "maxCount", 3)
	if maxCount == nil {
		c.Undecided(rule, "anchor:GetHeaders.maxCount", fn.Pos(), "parameter not found")
		return
	}
	lcs := loopsCalling(fn, "(*storage.BlockRepository).Header", "(*storage.BlockRepository).getHeader")
	if len(lcs) == 0 {
		// other loop forms (count-controlled: `for len(result) < maxCount`) are not ranges
		c.Ok(rule, "spynode.(*Node).GetHeaders#range", fn.Pos(), "loop-range", "no counted loop over heights (different loop form)")
		return
	}
	for i, lc := range lcs {
		key := fmt.Sprintf("spynode.(*Node).GetHeaders#range-is-start+maxCount@%d", i+1)
		arg := heightArg(lc.call)
		if arg == nil {
			continue
		}
		lo, hi, ok := lc.cl.rangeOf(arg)
		if !ok {
			c.Undecided(rule, key, lc.call.Pos(), "height argument is not affine in the loop counter")
			continue
		}
		n := hi.plusConst(1).minus(lo)
		good := n.equal(linOfValue(maxCount))
		wit := []string{fmt.Sprintf("heights asked: [%s, %s], count %s", lo, hi, n)}
		c.Decide(good, rule, key, lc.call.Pos(), "loop-range", wit,
			"the heights read are start .. start+maxCount-1 for the resolved start height",
			"the loop over heights does not cover exactly maxCount heights from its own start: for a request relative to the tip (height -1) the end is computed from the unresolved height, so no or too few headers are returned")
	}
}

// ruleBenignSentinelsHandled (C01.R12): processBlocks ends (returning the error, which stops block processing for
// the connection) only for errors other than the sentinels ProcessBlock uses for "this block is
// not the next one / was not added", which are normal after a reorganisation raced with the block
// queue. Every sentinel ProcessBlock returns bare is compared against before the error return.
func (c *Check) ruleBenignSentinelsHandled(rule string) {
	pb := c.Fn(rule, "spynode.(*Node).ProcessBlock")
	fn := c.Fn(rule, "spynode.(*Node).processBlocks")
	if pb == nil || fn == nil {
		return
	}
	sentinels := map[*ssa.Global]bool{}
	for _, ret := range returnsOf(pb) {
		if len(ret.Results) == 0 {
			continue
		}
		for _, v := range resultValues(ret, len(ret.Results)-1) {
			for _, r := range rootsAll(v) {
				if u, ok := r.(*ssa.UnOp); ok && u.Op == token.MUL {
					r = u.X
				}
				if g, ok := r.(*ssa.Global); ok && g.Pkg == pb.Pkg && types.Implements(g.Type().(*types.Pointer).Elem(), errorIface()) {
					// benign = the block is refused before it was added to the chain; a sentinel returned only
					// after blocks.Add (a failure of the processing itself) rightly ends the processing
					var addI []ssa.Instruction
					for _, s := range callsTo(pb, "(*storage.BlockRepository).Add") {
						addI = append(addI, s.Instr)
					}
					if after, _ := alwaysPrecededBy(ret, addI); len(addI) > 0 && after {
						continue
					}
					sentinels[g] = true
				}
			}
		}
	}
	c.Min(rule, "sentinel errors returned bare by ProcessBlock", len(sentinels), 2)
	sites := callsTo(fn, "(*spynode.Node).ProcessBlock")
	c.Min(rule, "ProcessBlock calls in processBlocks", len(sites), 1)
	var names []string
	for g := range sentinels {
		names = append(names, g.Name())
	}
	sort.Strings(names)
	for _, s := range sites {
		call := s.Value()
		if call == nil {
			continue
		}
		for _, ret := range returnsOf(fn) {
			if len(ret.Results) == 0 {
				continue
			}
			from := false
			for _, v := range resultValues(ret, len(ret.Results)-1) {
				if derivesFromCall(v, "(*spynode.Node).ProcessBlock") == call || v == ssa.Value(call) {
					from = true
				}
			}
			if !from {
				continue
			}
			for g := range sentinels {
				g := g
				guard := equalEdge(func(a, b ssa.Value) bool {
					isG := func(v ssa.Value) bool {
						for _, r := range rootsAll(v) {
							if u, ok := r.(*ssa.UnOp); ok && u.Op == token.MUL && u.X == ssa.Value(g) {
								return true
							}
							if r == ssa.Value(g) {
								return true
							}
						}
						return false
					}
					return isG(a) || isG(b)
				}, false)
				// ... or the same test made by a small bool helper (`!isSkippedBlockError(err)`): the helper answers
				// false only where the error was found different from the sentinel
				viaHelper := condEdge(func(cd Cond) (bool, bool) {
					if cd.Call == nil {
						return false, false
					}
					h := cd.Call.Call.StaticCallee()
					if h == nil || h.Pkg == nil || !inModule(h.Pkg.Pkg) || h.Blocks == nil {
						return false, false
					}
					if helperFalseImpliesNotSentinel(h, g) {
						return true, false
					}
					return false, false
				})
				avoid, path := reachAvoid(call.Block(), ret.Block(), anyEdge(guard, viaHelper))
				c.Decide(!avoid, rule, fmt.Sprintf("spynode.(*Node).processBlocks#error-exit-excludes(%s)", g.Name()), ret.Pos(), "must-pass-through", pathWitness(fn, path),
					"the error exit is reached only after the error was found different from this sentinel",
					"processBlocks returns (ending block processing) on "+g.Name()+", which ProcessBlock returns for a block that is merely not next / not added after a reorganisation: the later blocks are never processed and no time-out fires")
			}
		}
	}
}

func errorIface() *types.Interface {
	return types.Universe.Lookup("error").Type().Underlying().(*types.Interface)
}

// ---------------------------------------------------------------------------------------------
// sibling agreement

// canonRel renders an integer relation up to negation (`if c {A} else {B}` and `if !c {B} else {A}`
// are the same guard).
func canonRel(r linRel) string {
	switch r.op {
	case token.EQL, token.NEQ:
		return r.e.String() + " ==/!= 0"
	}
	e := r.e
	if r.op == token.GTR {
		e = e.plusConst(-1) // e > 0  <=>  e-1 >= 0
	}
	neg := e.scale(-1).plusConst(-1) // !(e >= 0) <=> -e-1 >= 0
	a, b := e.String(), neg.String()
	if b < a {
		a = b
	}
	return a + " >=0 (or its negation)"
}

// getterShape collects what a height getter of the block repository computes with the height: the
// integer guards, the indexes into the cached / read header lists and the height handed to read.
func (c *Check) getterShape(fn *ssa.Function) map[string]token.Pos {
	out := map[string]token.Pos{}
	isInt := func(v ssa.Value) bool {
		b, ok := v.Type().Underlying().(*types.Basic)
		return ok && b.Info()&types.IsInteger != 0
	}
	for _, b := range fn.Blocks {
		for _, in := range b.Instrs {
			switch x := in.(type) {
			case *ssa.If:
				bin, ok := x.Cond.(*ssa.BinOp)
				if !ok || !isInt(bin.X) {
					continue
				}
				// "was something found": an index-or-minus-one value tested against -1 / 0 in any spelling
				if fi := foundIndexOf(bin.X); fi != nil {
					if k, isC := constInt(bin.Y); isC {
						switch {
						case k == -1 && (bin.Op == token.EQL || bin.Op == token.NEQ || bin.Op == token.GTR || bin.Op == token.LEQ),
							k == 0 && (bin.Op == token.GEQ || bin.Op == token.LSS):
							out["guard: found("+linOfValue(fi).String()+")"] = bin.Pos()
							continue
						}
					}
				}
				if r, ok := relOf(bin.X, bin.Y, bin.Op, true); ok {
					out["guard: "+canonRel(r)] = bin.Pos()
				}
			case *ssa.IndexAddr:
				name := "list"
				if f := anyFieldLoad(x.X); f != nil {
					name = "." + f.Name()
				} else if call := derivesFromCall(x.X, "(*storage.BlockRepository).read"); call != nil {
					name = "read()"
				}
				if name == "list" {
					continue // argument lists of variadic calls and the like
				}
				out["index into "+name+": "+linOfValue(x.Index).String()] = x.Pos()
			case *ssa.Call:
				if calleeShort(&x.Call) == "(*storage.BlockRepository).read" {
					if a := heightArg(x); a != nil {
						out["read height: "+linOfValue(a).String()] = x.Pos()
					}
				}
			}
		}
	}
	return out
}

// ruleHeightGettersAgree (C09.R13): getHash, getHeader and getTime answer "what is at height h" from the same
// two places (the cached newest file, or the stored file for h) and must agree on where a height
// lives: same guards on the height, same index into the cached list, same file read and same
// offset into it. A getter that deviates from the other two answers from the wrong slot (or reads
// past the cache) for some height.
func (c *Check) ruleHeightGettersAgree(rule string) {
	keys := []string{"storage.(*BlockRepository).getHash", "storage.(*BlockRepository).getHeader", "storage.(*BlockRepository).getTime"}
	var fns []*ssa.Function
	var shapes []map[string]token.Pos
	for _, k := range keys {
		fn := c.P.Fn(k)
		if fn == nil {
			continue // written in place in its exported caller: not comparable
		}
		// a getter that delegates to a sibling has the sibling's behaviour
		delegates := false
		for _, k2 := range keys {
			if k2 != k {
				short := strings.Replace(k2, "storage.(*BlockRepository)", "(*storage.BlockRepository)", 1)
				if len(callsTo(fn, short)) > 0 {
					delegates = true
				}
			}
		}
		if delegates {
			continue
		}
		fns = append(fns, fn)
		shapes = append(shapes, c.getterShape(fn))
		c.Touch(fn)
	}
	if len(fns) < 2 {
		c.Ok(rule, "storage.(*BlockRepository)#height-getters-agree", token.NoPos, "sibling-agreement", "fewer than two independent getters: nothing to compare")
		return
	}
	// elements that only differ in the error / unknown-height convention are not compared: only
	// elements mentioning the height parameter, a list index or the read height
	all := map[string]int{}
	for _, sh := range shapes {
		for e := range sh {
			all[e]++
		}
	}
	n := 0
	for i, fn := range fns {
		var wit []string
		pos := fn.Pos()
		for e, cnt := range all {
			_, has := shapes[i][e]
			if has && cnt == 1 && len(fns) > 2 {
				wit = append(wit, "only here: "+e)
				pos = shapes[i][e]
			}
			if !has && cnt == len(fns)-1 {
				wit = append(wit, "missing here (present in the other getters): "+e)
			}
			if len(fns) == 2 && cnt == 1 {
				if has {
					wit = append(wit, "only here: "+e)
					pos = shapes[i][e]
				}
			}
		}
		sort.Strings(wit)
		n += len(shapes[i])
		c.Decide(len(wit) == 0, rule, c.P.Key(fn)+"#agrees-with-sibling-getters", pos, "sibling-agreement", wit,
			"guards, cache index, file read and file offset are those of the sibling getters",
			"this getter locates a height differently from its sibling getters (guard, cache index, file read or offset): for some height it answers from the wrong slot, reads the wrong file or indexes past the cached headers")
	}
	c.Min(rule, "compared elements (guards, indexes, reads) in the height getters", n, 12)
}

// ---------------------------------------------------------------------------------------------
// C09 / C10: newest-file boundary in Revert

func (c *Check) blocksPerKey() int64 {
	full := int64(1000)
	if p := c.P.ByRel["storage"]; p != nil {
		if k, ok := p.Types.Scope().Lookup("blocksPerKey").(*types.Const); ok {
			if v, ok := constantInt(k); ok {
				full = v
			}
		}
	}
	return full
}

// ruleRevertStartsAtNewestFile (C09.R15 / C10.R8): Revert walks the block files downwards starting with the file that
// holds the current tip: the loop variable starts at (first height of the tip's file) - 1, i.e.
// (tip / perFile) * perFile - 1 (or tip - tip%perFile - 1), computed from the tip itself.
func (c *Check) ruleRevertStartsAtNewestFile(rule string) {
	fn := c.Fn(rule, "storage.(*BlockRepository).Revert")
	fHeight := c.P.Field("storage", "BlockRepository", "height")
	if fn == nil || fHeight == nil {
		return
	}
	per := c.blocksPerKey()
	n := 0
	for _, s := range sitesIn(fn) {
		if !(s.CC.IsInvoke() && s.CC.Method.Name() == "Remove") {
			continue
		}
		h := loopHeaderOf(s.Instr.Block())
		if h == nil {
			continue
		}
		body := loopBody(h)
		for _, x := range rootsAll(s.CC.Args[1]) {
			phi, ok := x.(*ssa.Phi)
			if !ok || phi.Block() != h {
				continue
			}
			for i, e := range phi.Edges {
				if body[h.Preds[i]] {
					continue
				}
				n++
				l := linOfValue(e)
				isTip := func(v ssa.Value) bool {
					lv := linOfValue(v)
					if lv.k != 0 || len(lv.terms) != 1 {
						return false
					}
					for t, cf := range lv.terms {
						return cf == 1 && loadOfField(lv.atoms[t], fHeight) != nil
					}
					return false
				}
				good := false
				if l.k == -1 && len(l.terms) == 1 {
					for t, cf := range l.terms {
						// per * (tip / per): the quotient atom comes from `tip / per` or from `tip % per`
						if bo, ok := stripConv(l.atoms[t]).(*ssa.BinOp); ok && cf == per && (bo.Op == token.QUO || bo.Op == token.REM) {
							if k, isC := constInt(bo.Y); isC && k == per && isTip(bo.X) {
								good = true
							}
						}
					}
				}
				c.Decide(good, rule, "storage.(*BlockRepository).Revert#file-walk-starts-below-tip-file", e.Pos(), "value flow", []string{"start value: " + l.String()},
					"the file walk starts at the last height below the file holding the current tip",
					"the height the file walk starts from is not (tip / perFile) * perFile - 1: when the tip is the first block of a file that file is not removed, so old-branch headers survive above the fork point in storage")
			}
		}
	}
	c.Min(rule, "start values of the file walk in Revert", n, 1)
}

// ---------------------------------------------------------------------------------------------
// C02: start height

// ruleStartHeightIsNextHeight (C02.R12): when the start block is recognised, the start height recorded is the
// height that block gets: the repository's last height + 1.
func (c *Check) ruleStartHeightIsNextHeight(rule string) {
	n := 0
	for _, fn := range c.P.FuncsIn("handlers") {
		for _, s := range callsTo(fn, "(*state.State).SetStartHeight") {
			call := s.Value()
			if call == nil || len(call.Call.Args) < 2 {
				continue
			}
			n++
			l := linOfValue(call.Call.Args[1])
			good := false
			if l.k == 1 && len(l.terms) == 1 {
				for t, cf := range l.terms {
					if cl, ok := stripConv(l.atoms[t]).(*ssa.Call); ok && cf == 1 && strings.HasSuffix(calleeShort(&cl.Call), "BlockRepository).LastHeight") {
						good = true
					}
				}
			}
			c.Decide(good, rule, c.P.Key(fn)+"#start-height-is-last-height+1", call.Pos(), "value flow", []string{"recorded start height: " + l.String()},
				"the recorded start height is the height the start block is stored at",
				"the start height recorded for the start block is not the repository's last height + 1: (for a start block directly above genesis it even equals the 'not found yet' marker -1), so headers keep being stored without their blocks being requested and verified")
			c.Touch(fn)
		}
	}
	c.Min(rule, "SetStartHeight calls in handlers", n, 1)
}

// ---------------------------------------------------------------------------------------------
// C03: cursor into the fetched outputs

// ruleFetchedCursorAdvances (C03.R13): fetchSpentOutputs reads the outputs fetched for the inputs whose parents are
// not stored through a cursor: every element read is read at a loop-carried cursor that advances
// by one on each path that uses it.
func (c *Check) ruleFetchedCursorAdvances(rule string) {
	fn := c.Fn(rule, "spynode.fetchSpentOutputs")
	if fn == nil {
		return
	}
	n := 0
	seen := map[ssa.Value]bool{}
	for _, b := range fn.Blocks {
		for _, in := range b.Instrs {
			ia, ok := in.(*ssa.IndexAddr)
			if !ok {
				continue
			}
			// the list: result of the output fetcher (an interface call) inside a loop
			isFetched := false
			for _, r := range rootsAll(ia.X) {
				if call, ok := r.(*ssa.Call); ok && call.Call.IsInvoke() && call.Call.Method.Name() == "GetOutputs" {
					isFetched = true
				}
			}
			h := loopHeaderOf(b)
			if !isFetched || h == nil {
				continue
			}
			idx := stripConv(ia.Index)
			if seen[idx] {
				continue
			}
			seen[idx] = true
			n++
			body := loopBody(h)
			phi, isPhi := idx.(*ssa.Phi)
			good := false
			var wit []string
			if isPhi && phi.Block() == h {
				good = true
				for i, e := range phi.Edges {
					if !body[h.Preds[i]] {
						continue
					}
					// the back-edge value: phi (not used on that path) or phi+1 (used)
					for _, src := range flattenPhiWithin(e, body, h) {
						d, known := linOfValue(src).minus(linOfValue(phi)).isConst()
						if !known || (d != 0 && d != 1) {
							good = false
							wit = append(wit, "carried value is not cursor / cursor+1: "+linOfValue(src).String())
						}
						if known && d == 0 {
							// unchanged: only allowed on paths that do not read at the cursor
							if src == ssa.Value(phi) {
								continue
							}
						}
					}
				}
				// every use is followed by the increment: the block of the use must not reach the
				// back edge with the phi itself
				for i, e := range phi.Edges {
					if body[h.Preds[i]] && reachableWithin(b, h.Preds[i], h) {
						for _, src := range flattenPhiAlong(e, b, body, h) {
							if src == ssa.Value(phi) {
								good = false
								wit = append(wit, "a path from the read back to the loop head leaves the cursor unchanged")
							}
						}
					}
				}
			} else {
				wit = append(wit, "the index is not a loop-carried cursor: "+linOfValue(idx).String())
			}
			if isPhi {
				// the read is behind cursor < len(fetched)
				g := func(iff *ssa.If, br int) bool {
					r, ok := edgeRel(iff, br)
					if !ok || r.Op != token.LSS {
						return false
					}
					l := lenOf(r.Y)
					return l != nil && stripConv(r.X) == ssa.Value(phi) && (l == ia.X || sameExpr(l, ia.X))
				}
				okB, wB := mustPass(ia, g)
				c.Decide(okB, rule, "spynode.fetchSpentOutputs#fetched-output-cursor-bounded", ia.Pos(), "bounds edge-cutset", wB,
					"the cursor is tested against the number of fetched outputs before the read",
					"the fetched outputs are read at the cursor without the cursor having been found smaller than their number: a fetcher that returns fewer outputs than asked makes the node panic")
			}
			c.Decide(good, rule, "spynode.fetchSpentOutputs#fetched-output-cursor-advances", ia.Pos(), "loop-carried value", wit,
				"each fetched output is read at a cursor that advances after the read",
				"the fetched outputs are not read through a cursor that advances after each read: every input whose parent is not stored receives the same (first) fetched output")
		}
	}
	c.Min(rule, "reads of the fetched outputs in fetchSpentOutputs", n, 1)
}

// flattenPhiWithin expands phis inside the loop body (not the header's) into their sources.
func flattenPhiWithin(v ssa.Value, body map[*ssa.BasicBlock]bool, h *ssa.BasicBlock) []ssa.Value {
	var out []ssa.Value
	seen := map[ssa.Value]bool{}
	var walk func(v ssa.Value)
	walk = func(v ssa.Value) {
		if seen[v] {
			return
		}
		seen[v] = true
		if p, ok := v.(*ssa.Phi); ok && p.Block() != h && body[p.Block()] {
			for _, e := range p.Edges {
				walk(e)
			}
			return
		}
		out = append(out, v)
	}
	walk(v)
	return out
}

// flattenPhiAlong: sources of v restricted to phi edges whose predecessor is reachable from block `from`
// inside the loop.
func flattenPhiAlong(v ssa.Value, from *ssa.BasicBlock, body map[*ssa.BasicBlock]bool, h *ssa.BasicBlock) []ssa.Value {
	var out []ssa.Value
	seen := map[ssa.Value]bool{}
	var walk func(v ssa.Value)
	walk = func(v ssa.Value) {
		if seen[v] {
			return
		}
		seen[v] = true
		if p, ok := v.(*ssa.Phi); ok && p.Block() != h && body[p.Block()] {
			for i, e := range p.Edges {
				pr := p.Block().Preds[i]
				if pr == from || reachableWithin(from, pr, h) {
					walk(e)
				}
			}
			return
		}
		out = append(out, v)
	}
	walk(v)
	return out
}

// ---------------------------------------------------------------------------------------------
// flags default to false

// ruleFlagOnlyFromCall (C03.R14): in ProcessBlock the "was in the mempool" classification of a block tx comes from
// MemPool.RemoveTransaction; where the mempool is not consulted the flag is false (never a
// constant true), otherwise every tx of a block processed while not ready is skipped as "seen".
func (c *Check) ruleFlagOnlyFromCall(rule, fnKey, callee, what, consequence string) {
	fn := c.Fn(rule, fnKey)
	if fn == nil {
		return
	}
	n := 0
	for _, s := range callsTo(fn, callee) {
		call := s.Value()
		if call == nil {
			continue
		}
		// phis merging the call's result with constants
		var res ssa.Value = call
		for _, r := range *call.Referrers() {
			if ex, ok := r.(*ssa.Extract); ok && ex.Index == 0 {
				res = ex
			}
		}
		for _, r := range *res.Referrers() {
			phi, ok := r.(*ssa.Phi)
			if !ok {
				continue
			}
			n++
			good := true
			var wit []string
			for i, e := range phi.Edges {
				if b, isC := isConstBool(e); isC && b {
					good = false
					wit = append(wit, fmt.Sprintf("constant true arrives from block %d (%s)", phi.Block().Preds[i].Index, c.P.Pos(lastPos(phi.Block().Preds[i]))))
				}
			}
			c.Decide(good, rule, fnKey+"#"+what+"-defaults-to-false", phi.Pos(), "phi-of-constants", wit,
				"where the call is skipped the flag is false", consequence)
		}
	}
	if n == 0 {
		c.Ok(rule, fnKey+"#"+what+"-defaults-to-false", fn.Pos(), "phi-of-constants", "the flag is the call's result on every path (no default)")
	}
}

// ---------------------------------------------------------------------------------------------
// emptiness

// emptinessOf recognises `len(X) == 0` style tests: returns X and whether the test being TRUE means empty.
func emptinessOf(v ssa.Value) (list ssa.Value, emptyWhenTrue bool, ok bool) {
	bin, isB := stripConv(v).(*ssa.BinOp)
	if !isB {
		return nil, false, false
	}
	x, y, op := bin.X, bin.Y, bin.Op
	if _, isC := constInt(x); isC {
		x, y = y, x
		op = swapOp(op)
	}
	k, isC := constInt(y)
	l := lenOf(x)
	if !isC || l == nil {
		return nil, false, false
	}
	switch {
	case op == token.EQL && k == 0, op == token.LSS && k == 1, op == token.LEQ && k == 0:
		return l, true, true
	case op == token.NEQ && k == 0, op == token.GTR && k == 0, op == token.GEQ && k == 1:
		return l, false, true
	}
	return nil, false, false
}

// ruleRemoveOnlyWhenEmpty (C11.R7): TxRepository.save removes the stored unconfirmed set only when the in-memory
// set is empty (exactly: len == 0); any other test drops a non-empty set at shutdown.
func (c *Check) ruleRemoveOnlyWhenEmpty(rule string) {
	fn := c.Fn(rule, "storage.(*TxRepository).save")
	f := c.P.Field("storage", "TxRepository", "unconfirmed")
	if fn == nil {
		return
	}
	if f == nil {
		c.Undecided(rule, "anchor:storage.TxRepository.unconfirmed", fn.Pos(), "field not found")
		return
	}
	n := 0
	for _, s := range sitesIn(fn) {
		if !(s.CC.IsInvoke() && s.CC.Method.Name() == "Remove") {
			continue
		}
		n++
		guard := func(iff *ssa.If, br int) bool {
			l, emptyWhenTrue, ok := emptinessOf(iff.Cond)
			if !ok || loadOfField(l, f) == nil {
				return false
			}
			return (br == 0) == emptyWhenTrue
		}
		ok, w := mustPass(s.Instr, guard)
		c.Decide(ok, rule, "storage.(*TxRepository).save#remove-only-when-empty", s.Pos(), "edge-cutset", w,
			"the stored set is removed only on paths where the in-memory set was found empty",
			"TxRepository.save can remove the stored unconfirmed set while the in-memory set is not empty: those txs are forgotten over a restart and re-delivered as new")
	}
	c.Min(rule, "removals of the stored unconfirmed set in save", n, 1)
}

// ---------------------------------------------------------------------------------------------
// C12 / C07: trusted flag

// ruleTrustedOnlyFromTrustedSource (C12.R6 / C07.R8): a mempool entry's trusted flag is set only where the caller said the
// tx came from the trusted peer: every store of a non-false value to memPoolTx.trusted is the
// `trusted` parameter itself, or happens on a path where that parameter was tested true.
func (c *Check) ruleTrustedOnlyFromTrustedSource(rule string) {
	f := c.P.Field("state", "memPoolTx", "trusted")
	if f == nil {
		c.Undecided(rule, "anchor:state.memPoolTx.trusted", token.NoPos, "field not found")
		return
	}
	n := 0
	for _, fn := range c.P.FuncsIn("state") {
		for _, st := range storesToField(fn, f) {
			n++
			key := fmt.Sprintf("%s#trusted-flag-store", c.P.Key(fn))
			if b, isC := isConstBool(st.Val); isC && !b {
				c.Ok(rule, key+"(false)", st.Pos(), "value flow", "stores false")
				continue
			}
			// parameters of bool type named trusted (by position: any bool parameter)
			var params []*ssa.Parameter
			for _, p := range fn.Params {
				if bt, ok := p.Type().Underlying().(*types.Basic); ok && bt.Kind() == types.Bool {
					params = append(params, p)
				}
			}
			fromParam := false
			for _, p := range params {
				if stripConv(st.Val) == ssa.Value(p) {
					fromParam = true
				}
			}
			if fromParam {
				c.Ok(rule, key+"(parameter)", st.Pos(), "value flow", "stores the caller's trusted argument")
				c.Touch(fn)
				continue
			}
			if len(params) == 0 {
				c.Bad(rule, key, st.Pos(), "value flow", nil, "the trusted flag is set in a function that is not told whether the source is trusted")
				continue
			}
			// `flag = flag || trusted` (and spellings through a local): every value merged into the store is the
			// flag's own old value, the caller's argument, false, or true on an edge that comes from testing
			// the old flag / behind the argument tested true
			if phi, isPhi := st.Val.(*ssa.Phi); isPhi {
				argGuard := boolEdge(func(v ssa.Value) bool {
					for _, p := range params {
						if stripConv(v) == ssa.Value(p) {
							return true
						}
					}
					return false
				}, true)
				all := true
				for ei, e := range phi.Edges {
					e = stripConv(e)
					okE := false
					if b, isC := isConstBool(e); isC {
						if !b {
							okE = true
						} else {
							pred := phi.Block().Preds[ei]
							if iff, isIf := lastIf(pred); isIf && loadOfField(normCond(iff.Cond).V, f) != nil {
								okE = true // came from `if old { … true … }`
							} else if o, _ := mustPass(pred.Instrs[len(pred.Instrs)-1], argGuard); o {
								okE = true
							}
						}
					} else if loadOfField(e, f) != nil {
						okE = true
					} else {
						for _, p := range params {
							if e == ssa.Value(p) {
								okE = true
							}
						}
					}
					if !okE {
						all = false
					}
				}
				if all {
					c.Ok(rule, key+"(guarded)", st.Pos(), "value flow", "stores the old flag or the caller's trusted argument")
					c.Touch(fn)
					continue
				}
			}
			guard := boolEdge(func(v ssa.Value) bool {
				for _, p := range params {
					if stripConv(v) == ssa.Value(p) {
						return true
					}
				}
				return false
			}, true)
			ok, w := mustPass(st, guard)
			c.Decide(ok, rule, key+"(guarded)", st.Pos(), "edge-cutset", w,
				"the flag is set only on paths where the caller's trusted argument was tested true",
				"a mempool entry is marked trusted on a path where the tx did not come from the trusted peer: a tx announced and delivered by untrusted peers only is reported safe")
			c.Touch(fn)
		}
	}
	c.Min(rule, "stores to memPoolTx.trusted in state", n, 2)
}

// ---------------------------------------------------------------------------------------------
// C13: already-have tests

// ruleRequestOnlyIfUnknownEverywhere (C13.R11): the headers handler asks for a block (AddBlockRequest) only after all
// three "already have it" tests answered no for that header: stored, requested, queued to request.
func (c *Check) ruleRequestOnlyIfUnknownEverywhere(rule string) {
	fn := c.Fn(rule, "handlers.(*HeadersHandler).Handle")
	if fn == nil {
		return
	}
	tests := []string{"(*storage.BlockRepository).Contains", "(*state.State).BlockIsRequested", "(*state.State).BlockIsToBeRequested"}
	n := 0
	sites := callsTo(fn, "(*state.State).AddBlockRequest")
	clears := callsTo(fn, "(*state.State).ClearBlockRequestsAfter")
	sites = append(sites, clears...)
	for _, s := range sites {
		h := loopHeaderOf(s.Instr.Block())
		if h == nil {
			continue
		}
		// only the requests made for headers that are not the next one (those pass the tests); the
		// pending-fork clear is always for such a header
		var testBlock *ssa.BasicBlock
		for _, ts := range callsTo(fn, tests[0]) {
			if loopHeaderOf(ts.Instr.Block()) == h {
				testBlock = ts.Instr.Block()
			}
		}
		isClear := calleeObjName(s.CC) == "ClearBlockRequestsAfter"
		if testBlock == nil || (!isClear && !reachableWithin(testBlock, s.Instr.Block(), h)) {
			continue
		}
		n++
		site := s.Value()
		sameHash := func(call *ssa.Call) bool {
			if site == nil || len(call.Call.Args) == 0 || len(site.Call.Args) == 0 {
				return true
			}
			a, b := call.Call.Args[len(call.Call.Args)-1], site.Call.Args[len(site.Call.Args)-1]
			return a == b || sameExpr(a, b)
		}
		if isClear {
			sameHash = nil // the clear is keyed by the parent; the tests are the ones on this header's hash in the loop
		}
		for _, t := range tests {
			guard := callEdge(false, -1, sameHash, t)
			if isClear {
				// the tests on the header's own hash: their argument is not the clear's (parent) argument
				guard = callEdge(false, -1, func(call *ssa.Call) bool {
					if site == nil || len(call.Call.Args) == 0 || len(site.Call.Args) == 0 {
						return true
					}
					a, b := call.Call.Args[len(call.Call.Args)-1], site.Call.Args[len(site.Call.Args)-1]
					return !(a == b || sameExpr(a, b)) && !mentionsFieldNamed(a, "PrevBlock")
				}, t)
			}
			avoid, path := reachAvoid2(h, s.Instr.Block(), guard, nil)
			what := "request"
			if isClear {
				what = "pending-fork-clear"
			}
			c.Decide(!avoid, rule, fmt.Sprintf("handlers.(*HeadersHandler).Handle#%s-only-after-%s-is-false", what, shortName(t)), s.Pos(), "edge-cutset", pathWitness(fn, path),
				"the request is reached only through the test's false edge",
				"a header can reach AddBlockRequest without "+shortName(t)+" having answered false in this iteration: a block that is already stored, requested or queued is requested a second time")
		}
	}
	c.Min(rule, "AddBlockRequest calls in the header loop", n, 1)
}

// ---------------------------------------------------------------------------------------------
// C14

// ruleAgeTestAppliesToRequested (C14.R8): MemPool.AddRequest re-requests a tx whose earlier request is older than the
// window: the age comparison is evaluated for entries that were requested before (it is reachable
// without passing the "never requested" edge), and its old-enough edge leads to the renewal.
func (c *Check) ruleAgeTestAppliesToRequested(rule string) {
	fn := c.Fn(rule, "state.(*MemPool).AddRequest")
	f := c.P.Field("state", "MemPool", "requests")
	if fn == nil || f == nil {
		return
	}
	// the `requested` flag: ok result of a lookup in memPool.requests
	isRequested := func(v ssa.Value) bool {
		ex, ok := stripConv(v).(*ssa.Extract)
		if !ok || ex.Index != 1 {
			return false
		}
		lk, ok := ex.Tuple.(*ssa.Lookup)
		return ok && loadOfField(lk.X, f) != nil
	}
	n := 0
	for _, b := range fn.Blocks {
		iff, ok := lastIf(b)
		if !ok {
			continue
		}
		bin, ok := iff.Cond.(*ssa.BinOp)
		if !ok {
			continue
		}
		// age comparison: one side derives from time.Time.Sub / Since of the stored request time
		isAge := false
		var look func(v ssa.Value, d int)
		look = func(v ssa.Value, d int) {
			if d > 5 || v == nil {
				return
			}
			if call, ok := stripConv(v).(*ssa.Call); ok {
				switch calleeShort(&call.Call) {
				case "(time.Time).Sub", "time.Since":
					isAge = true
					return
				}
				for _, a := range call.Call.Args {
					look(a, d+1)
				}
				return
			}
			if b2, ok := stripConv(v).(*ssa.BinOp); ok {
				look(b2.X, d+1)
				look(b2.Y, d+1)
			}
		}
		look(bin.X, 0)
		look(bin.Y, 0)
		if !isAge {
			continue
		}
		n++
		notRequested := boolEdge(isRequested, false)
		avoid, _ := reachAvoid(fn.Blocks[0], b, notRequested)
		c.Decide(avoid, rule, "state.(*MemPool).AddRequest#age-test-reached-for-requested-entries", bin.Pos(), "path-existence", nil,
			"the age of the earlier request is examined for entries that were requested before",
			"the age test of the earlier request is only reached for txs that were never requested: an expired request is never renewed, so a tx whose first peer never delivers is not requested from anyone else")
	}
	c.Min(rule, "request-age comparisons in AddRequest", n, 1)
}

// ruleNewEntriesRegistered (C14.R9 / C05.R12): every mempool entry created by newMemPoolTx in the state package is
// put into MemPool.txs on every path before the function returns (an entry that is filled in but
// not registered is forgotten: the tx is requested again and its inputs are not tracked by id).
func (c *Check) ruleNewEntriesRegistered(rule string) {
	f := c.P.Field("state", "MemPool", "txs")
	if f == nil {
		c.Undecided(rule, "anchor:state.MemPool.txs", token.NoPos, "field not found")
		return
	}
	n := 0
	entryT := c.P.NamedType("state", "memPoolTx")
	for _, fn := range c.P.FuncsIn("state") {
		var created []ssa.Value
		for _, s := range callsTo(fn, "state.newMemPoolTx") {
			if call := s.Value(); call != nil {
				created = append(created, call)
			}
		}
		if c.P.Key(fn) != "state.newMemPoolTx" && entryT != nil {
			// entries built in place: &memPoolTx{...}
			for _, b := range fn.Blocks {
				for _, in := range b.Instrs {
					if al, ok := in.(*ssa.Alloc); ok && al.Heap {
						if p, ok := al.Type().(*types.Pointer); ok && types.Identical(p.Elem(), entryT) {
							created = append(created, al)
						}
					}
				}
			}
		}
		for _, cv := range created {
			call := cv.(ssa.Instruction)
			n++
			var regs []ssa.Instruction
			for _, b := range fn.Blocks {
				for _, in := range b.Instrs {
					if mu, ok := in.(*ssa.MapUpdate); ok && loadOfField(mu.Map, f) != nil {
						for _, r := range rootsAll(mu.Value) {
							if r == cv {
								regs = append(regs, mu)
							}
						}
					}
				}
			}
			ok := len(regs) > 0
			var w []string
			if ok {
				ok, w = alwaysFollowedBy(call, regs, false, isErrorReturnBlock)
			}
			c.Decide(ok, rule, c.P.Key(fn)+"#new-entry-registered", call.Pos(), "must-be-followed-by", w,
				"the new entry is stored in MemPool.txs on every path",
				"a mempool entry is created but not stored in MemPool.txs on some path: the mempool forgets that the tx (or its request) was seen")
			c.Touch(fn)
		}
	}
	c.Min(rule, "newMemPoolTx calls in state", n, 2)
}

// ---------------------------------------------------------------------------------------------
// C04 / C03: confirmation state complete

// ruleConfirmedStateComplete (C04.R8 / C03.R15): in ProcessBlock's loop over the relevant txs of the block, every tx
// notification (HandleTx / HandleTxUpdate) is preceded, within the iteration, by setting the
// state's merkle proof and by an unconfirmed depth of 0 (a store of 0, or a freshly built state).
// A confirmation without the proof also defeats the "already confirmed" test of
// processUnconfirmedTx, which reads the stored proof.
func (c *Check) ruleConfirmedStateComplete(rule string) {
	fk := "spynode.(*Node).ProcessBlock"
	fn := c.Fn(rule, fk)
	ta := c.txAnchors(rule)
	if fn == nil || ta == nil {
		return
	}
	// the delivery loop: ranges over a []*wire.MsgTx
	var loops []*ssa.BasicBlock
	for _, h := range loopHeadersOf(fn) {
		rs := rangedSlice(h)
		if rs == nil {
			continue
		}
		if isTxListType(rs.Type()) {
			loops = append(loops, h)
		}
	}
	c.Min(rule, "loops over the block's relevant txs in ProcessBlock", len(loops), 1)
	stores := ta.stateStores(fn)
	n := 0
	for _, h := range loops {
		body := loopBody(h)
		var proofEv, depthEv []ssa.Instruction
		for _, s := range stores {
			if !body[s.St.Block()] {
				continue
			}
			if s.Field == ta.proof {
				if cst, ok := s.St.Val.(*ssa.Const); ok && cst.IsNil() {
					continue
				}
				proofEv = append(proofEv, s.St)
			}
			if s.Field == ta.depth {
				if k, ok := constInt(s.St.Val); ok && k == 0 {
					depthEv = append(depthEv, s.St)
				} else {
					c.Bad(rule, fk+"#depth-stored-in-confirmation-loop-is-0", s.St.Pos(), "value flow", nil,
						"an unconfirmed depth other than 0 is stored on a state in the loop that reports the block's txs as confirmed")
				}
			}
		}
		// a freshly built client.Tx has depth 0
		for b := range body {
			for _, in := range b.Instrs {
				if al, ok := in.(*ssa.Alloc); ok {
					if p, ok := al.Type().(*types.Pointer); ok {
						if nm, ok := p.Elem().(*types.Named); ok && nm == ta.clientTx {
							depthEv = append(depthEv, al)
						}
					}
				}
			}
		}
		for _, s := range c.handlerInvokes(fn, "HandleTx", "HandleTxUpdate") {
			if !body[s.Instr.Block()] {
				continue
			}
			n++
			for _, ev := range []struct {
				what   string
				events []ssa.Instruction
				bad    string
			}{
				{"merkle-proof", proofEv, "a confirmation notification is reachable in an iteration that did not set the state's merkle proof: the tx is reported (and stored) confirmed without a proof, and a later re-announcement is delivered as new again because the stored state has no proof"},
				{"depth-0", depthEv, "a confirmation notification is reachable in an iteration that did not reset the unconfirmed depth to 0: a tx seen unconfirmed before is reported confirmed with its old unconfirmed depth"},
			} {
				cut := map[*ssa.BasicBlock]bool{}
				for _, e := range ev.events {
					cut[e.Block()] = true
				}
				ok := true
				var w []string
				if !cut[s.Instr.Block()] && !cut[h] {
					if r, path := reachAvoid2(h, s.Instr.Block(), nil, cut); r {
						ok = false
						w = pathWitness(fn, path)
					}
				}
				c.Decide(ok, rule, fmt.Sprintf("%s#%s-after-%s", fk, s.CC.Method.Name(), ev.what), s.Pos(), "must-pass-through", w,
					"set in every iteration that reaches the notification", ev.bad)
			}
		}
	}
	c.Min(rule, "confirmation notifications in the relevant-tx loop", n, 2)
	// the refeed path builds confirmed states too: any depth it stores is 0
	if pf := c.P.Fn("spynode.(*Node).provideBlock"); pf != nil {
		for _, s := range ta.stateStores(pf) {
			if s.Field == ta.depth {
				k, ok := constInt(s.St.Val)
				c.Decide(ok && k == 0, rule, "spynode.(*Node).provideBlock#depth-stored-for-a-block-tx-is-0", s.St.Pos(), "value flow", nil,
					"a tx delivered from a block is stored with unconfirmed depth 0", "a tx delivered from a (refed) block is stored with an unconfirmed depth other than 0 although it carries a merkle proof")
			}
		}
		c.Touch(pf)
	}
}

// ---------------------------------------------------------------------------------------------
// C14: a transmitted batch is not carried into the next iteration

// valuesAfter: the values v may have at the loop's back edge on paths that pass through block `from`,
// expanding only the joins evaluated after `from` (a join evaluated before it is what the variable
// held at `from`).
func valuesAfter(v ssa.Value, from, h *ssa.BasicBlock, body map[*ssa.BasicBlock]bool) []ssa.Value {
	var out []ssa.Value
	seen := map[ssa.Value]bool{}
	var walk func(v ssa.Value)
	walk = func(v ssa.Value) {
		if seen[v] {
			return
		}
		seen[v] = true
		if p, ok := v.(*ssa.Phi); ok && p.Block() != h && body[p.Block()] && (p.Block() == from || reachableWithin(from, p.Block(), h)) && p.Block() != from {
			for i, e := range p.Edges {
				pr := p.Block().Preds[i]
				if pr == from || reachableWithin(from, pr, h) {
					walk(e)
				}
			}
			return
		}
		out = append(out, v)
	}
	walk(v)
	return out
}

// ruleFreshMessageAfterTransmit (C14.R10): in TxTracker.Check a getdata batch handed to TransmitMessage is replaced by a
// new message before the loop continues: the batch variable carried to the next iteration, on
// paths through the transmit, is never the transmitted message itself. Otherwise the same message
// keeps growing and is transmitted again, requesting the earlier txs a second time within the window.
func (c *Check) ruleFreshMessageAfterTransmit(rule, fnKey string) {
	fn := c.Fn(rule, fnKey)
	if fn == nil {
		return
	}
	n := 0
	for _, s := range sitesIn(fn) {
		if !s.CC.IsInvoke() || s.CC.Method.Name() != "TransmitMessage" || len(s.CC.Args) == 0 {
			continue
		}
		h := loopHeaderOf(s.Instr.Block())
		if h == nil {
			continue
		}
		n++
		body := loopBody(h)
		msg := s.CC.Args[0]
		if mi, ok := msg.(*ssa.MakeInterface); ok {
			msg = mi.X
		}
		bad := false
		var wit []string
		for _, in := range h.Instrs {
			phi, ok := in.(*ssa.Phi)
			if !ok {
				break
			}
			if !types.Identical(phi.Type(), msg.Type()) {
				continue
			}
			for i, e := range phi.Edges {
				pr := h.Preds[i]
				if !body[pr] || !(pr == s.Instr.Block() || reachableWithin(s.Instr.Block(), pr, h)) {
					continue
				}
				for _, src := range valuesAfter(e, s.Instr.Block(), h, body) {
					if src == msg {
						bad = true
						wit = append(wit, fmt.Sprintf("carried to the next iteration through block %d (%s)", pr.Index, c.P.Pos(lastPos(pr))))
					}
				}
			}
		}
		c.Decide(!bad, rule, fmt.Sprintf("%s#new-batch-after-transmit@%d", fnKey, n), s.Pos(), "loop-carried value", wit,
			"after a transmit the loop continues with a new message",
			"a transmitted getdata message is carried into the next iteration: it keeps accumulating and is transmitted again, so the txs of the earlier batch are requested a second time within the request window")
	}
	c.Min(rule, "TransmitMessage calls inside the tracker loop of "+fnKey, n, 2)
}

// ---------------------------------------------------------------------------------------------
// C18: per-connection flags

// ruleConnectionFlagsReset (C18.R9): every connection starts un-accepted and with the handshake incomplete:
// runConnection stores false into both flags before it starts the connection's goroutines. A
// flag left over from the previous connection lets a registration reject on the new connection be
// treated as an ordinary reject, and requests be written before the new handshake.
func (c *Check) ruleConnectionFlagsReset(rule string, flags map[string]*types.Var) {
	fn := c.Fn(rule, "client.(*RemoteClient).runConnection")
	if fn == nil {
		return
	}
	var gos []ssa.Instruction
	for _, b := range fn.Blocks {
		for _, in := range b.Instrs {
			if g, ok := in.(*ssa.Go); ok {
				gos = append(gos, g)
			}
			// threads started through the thread helper package
			if call, ok := in.(*ssa.Call); ok {
				if n := calleeName(&call.Call); strings.Contains(n, "/threads.") && strings.HasSuffix(n, ").Start") {
					gos = append(gos, call)
				}
			}
		}
	}
	c.Min(rule, "goroutines started by runConnection", len(gos), 2)
	var names []string
	for n := range flags {
		names = append(names, n)
	}
	sort.Strings(names)
	for _, name := range names {
		f := flags[name]
		if f == nil {
			c.Undecided(rule, "anchor:client.RemoteClient."+name, fn.Pos(), "field not found")
			continue
		}
		var resets []ssa.Instruction
		for _, s := range sitesIn(fn) {
			if atomicCallOn(s, "Store", f) {
				if b, isC := isConstBoolIface(s.CC.Args[1]); isC && !b {
					resets = append(resets, s.Instr)
				}
			}
		}
		ok := len(resets) > 0
		var w []string
		for _, g := range gos {
			if !ok {
				break
			}
			ok, w = alwaysPrecededBy(g, resets)
		}
		pos := fn.Pos()
		if len(resets) > 0 {
			pos = resets[0].Pos()
		}
		c.Decide(ok, rule, "client.(*RemoteClient).runConnection#"+name+"-reset-before-goroutines", pos, "must-pass-through", w,
			"the flag is stored false before the connection's goroutines start",
			"runConnection starts the connection's goroutines without resetting "+name+" to false: after a reconnect the new connection is treated as already "+name+" before its own accept arrived")
	}
}

// ---------------------------------------------------------------------------------------------
// C08: what makes a tx relevant

// ruleRelevantOnlyByMatch (C08.R10): IsRelevant answers true only behind checkContracts()==true or behind a
// subscribed hash comparing equal to a push data's hash: every way the returned value can be the
// constant true passes one of those edges.
func (c *Check) ruleRelevantOnlyByMatch(rule string) {
	fn := c.Fn(rule, "spynode.(*Node).IsRelevant")
	if fn == nil {
		return
	}
	fHashes := c.P.Field("spynode", "Node", "pushDataHashes")
	match := anyEdge(
		callEdge(true, -1, nil, "spynode.checkContracts"),
		condEdge(func(cd Cond) (bool, bool) {
			// hash.Equal(&subscribed) / array comparison with a subscribed hash
			if cd.Call != nil && calleeObjName(&cd.Call.Call) == "Equal" {
				for _, a := range cd.Call.Call.Args {
					if fHashes != nil && mentionsField(a, fHashes) {
						return true, true
					}
				}
			}
			if cd.Bin != nil && cd.Bin.Op == token.EQL && fHashes != nil && (mentionsField(cd.Bin.X, fHashes) || mentionsField(cd.Bin.Y, fHashes)) {
				return true, true
			}
			return false, false
		}),
	)
	n := 0
	for _, ret := range returnsOf(fn) {
		if fn.Recover != nil && ret.Block() == fn.Recover {
			continue
		}
		for _, rv := range resultValues(ret, 0) {
			srcs, all := constSources(ret, rv, 0)
			if !all && len(srcs) == 0 {
				// a computed answer: must itself be behind a match
				n++
				ok, w := mustPass(ret, match)
				c.Decide(ok, rule, "spynode.(*Node).IsRelevant#true-only-by-match(computed)", ret.Pos(), "edge-cutset", w,
					"a computed answer is returned only behind a match", "IsRelevant can answer with a value that is not decided by a contract / push-data match")
				continue
			}
			for _, s := range srcs {
				if b, isB := isConstBool(s.Val); !isB || !b {
					continue
				}
				n++
				ok, w := mustPassAt(s, match)
				c.Decide(ok, rule, "spynode.(*Node).IsRelevant#true-only-by-match", ret.Pos(), "edge-cutset", w,
					"true is answered only behind checkContracts()==true or a subscribed hash comparing equal",
					"IsRelevant can answer true without a contract-wide action having been found by checkContracts and without a push data matching a subscribed hash: transactions that match nothing are delivered")
			}
		}
	}
	c.Min(rule, "true answers of IsRelevant", n, 2)
}

// ---------------------------------------------------------------------------------------------
// C06: the confirming tx itself is skipped

// ruleSelfSkipPolarity (C06.R10): in ProcessBlock's loop over the conflicting txs, the cancel steps (state fetch, flags,
// save, update) are reached only through the edge on which the conflicting hash is NOT the block
// tx's own hash.
func (c *Check) ruleSelfSkipPolarity(rule string) {
	fn := c.Fn(rule, "spynode.(*Node).ProcessBlock")
	if fn == nil {
		return
	}
	isConfl := func(v ssa.Value) bool { return derivesFromCall(v, "(*state.MemPool).Conflicting") != nil }
	n := 0
	for _, h := range loopsRangingOver(fn, isConfl) {
		body := loopBody(h)
		// the self comparison: Equal(...) / == between an element of the conflict list and the block tx's hash
		self := condEdge(func(cd Cond) (bool, bool) {
			involves := func(v ssa.Value) bool {
				for _, r := range rootsAll(v) {
					if ia, ok := r.(*ssa.IndexAddr); ok && isConfl(ia.X) {
						return true
					}
				}
				return false
			}
			if cd.Call != nil && calleeObjName(&cd.Call.Call) == "Equal" && body[cd.Call.Block()] {
				for _, a := range cd.Call.Call.Args {
					if involves(a) {
						return true, false // the guard edge is "not equal"
					}
				}
			}
			if cd.Bin != nil && (cd.Bin.Op == token.EQL || cd.Bin.Op == token.NEQ) && body[cd.Bin.Block()] && (involves(cd.Bin.X) || involves(cd.Bin.Y)) {
				if _, isC := cd.Bin.Y.(*ssa.Const); !isC {
					return true, cd.Bin.Op == token.NEQ
				}
			}
			return false, false
		})
		for _, s := range callsTo(fn, "storage.FetchTxState", "storage.SaveTxState") {
			if !body[s.Instr.Block()] {
				continue
			}
			n++
			avoid, path := reachAvoid2(h, s.Instr.Block(), self, nil)
			c.Decide(!avoid, rule, fmt.Sprintf("spynode.(*Node).ProcessBlock#cancel-only-for-other-txs:%s", calleeObjName(s.CC)), s.Pos(), "edge-cutset", pathWitness(fn, path),
				"the cancel steps are reached only for conflicting txs other than the block tx itself",
				"the cancel steps for a conflicting tx are reachable without the hash having been found different from the block tx's own: the confirmed tx cancels itself (and the real losers are skipped)")
		}
	}
	c.Min(rule, "cancel steps in the conflict loop", n, 2)
}

// ---------------------------------------------------------------------------------------------
// C03 / C04: parallel lists

// ruleParallelListsAligned (C03.R17): the per-tx lists ProcessBlock builds for its notification loop (the txs, their
// new / known flags, their safe flags) get one element each on every path of an iteration that
// appends to any of them; the notification loop indexes all of them with the same i.
func (c *Check) ruleParallelListsAligned(rule string) {
	fn := c.Fn(rule, "spynode.(*Node).ProcessBlock")
	if fn == nil {
		return
	}
	// lists: local slices appended to inside the GetNextTx loop and indexed in a later loop
	var getNext *ssa.Call
	for _, s := range sitesIn(fn) {
		if s.CC.IsInvoke() && s.CC.Method.Name() == "GetNextTx" {
			getNext = s.Value()
		}
	}
	if getNext == nil {
		return
	}
	h := loopHeaderOf(getNext.Block())
	if h == nil {
		return
	}
	body := loopBody(h)
	// group appends by the header phi they feed (the list variable)
	lists := map[*ssa.Phi][]ssa.Instruction{}
	for _, in := range h.Instrs {
		phi, ok := in.(*ssa.Phi)
		if !ok {
			break
		}
		if _, isSl := phi.Type().Underlying().(*types.Slice); !isSl {
			continue
		}
		for b := range body {
			for _, in2 := range b.Instrs {
				if call, ok := in2.(*ssa.Call); ok && builtinCall(call, "append") != nil && len(call.Call.Args) > 0 {
					for _, r := range rootsAll(call.Call.Args[0]) {
						if r == ssa.Value(phi) {
							lists[phi] = append(lists[phi], call)
						}
					}
				}
			}
		}
	}
	// only the lists that are indexed (not ranged alone) after the loop matter: those read by index in a later loop
	var phis []*ssa.Phi
	for p, aps := range lists {
		if len(aps) > 0 {
			phis = append(phis, p)
		}
	}
	sort.Slice(phis, func(i, j int) bool { return phis[i].Pos() < phis[j].Pos() })
	if len(phis) < 2 {
		c.Ok(rule, "spynode.(*Node).ProcessBlock#parallel-lists", fn.Pos(), "per-iteration event count", "fewer than two lists are built in the tx loop")
		return
	}
	// the tx list: element type *wire.MsgTx; the others are compared with it
	var txList *ssa.Phi
	for _, p := range phis {
		if sl, ok := p.Type().Underlying().(*types.Slice); ok {
			if pt, ok := sl.Elem().(*types.Pointer); ok {
				if nm, ok := pt.Elem().(*types.Named); ok && nm.Obj().Name() == "MsgTx" {
					txList = p
				}
			}
		}
	}
	if txList == nil {
		return
	}
	n := 0
	for _, p := range phis {
		if p == txList {
			continue
		}
		// bool lists only (flags per tx); the txid list for cleanup gets every tx
		sl, _ := p.Type().Underlying().(*types.Slice)
		if bt, ok := sl.Elem().Underlying().(*types.Basic); !ok || bt.Kind() != types.Bool {
			continue
		}
		n++
		diff := func(in ssa.Instruction) int {
			for _, a := range lists[txList] {
				if a == in {
					return 1
				}
			}
			for _, a := range lists[p] {
				if a == in {
					return -1
				}
			}
			return 0
		}
		dc := iterationCounts(h, diff)
		ok := len(dc) == 1 && dc[0] != nil
		var wit []string
		for k, path := range dc {
			if k != 0 {
				wit = append([]string{fmt.Sprintf("an iteration path with (tx appends - flag appends) = %d:", k)}, pathWitness(fn, path)...)
			}
		}
		c.Decide(ok, rule, fmt.Sprintf("spynode.(*Node).ProcessBlock#flag-list-aligned-with-tx-list@%d", n), p.Pos(), "per-iteration event count", wit,
			"every path of an iteration appends to the tx list and to this flag list equally often",
			"on some path of an iteration a tx is appended to the delivered list without its flag (or the reverse): the notification loop then reads the flag of another tx or indexes past the end")
	}
	c.Min(rule, "per-tx flag lists in ProcessBlock", n, 2)
}

// ---------------------------------------------------------------------------------------------
// C13 / C01: block requests that were admitted go out on the wire, once

// handOvers lists the instructions of fn that hand a getdata message over for sending: TransmitMessage,
// queueOutgoing, or appending it to the handler's response list. The message value is returned too.
func handOvers(fn *ssa.Function) (ins []ssa.Instruction, msgs []ssa.Value) {
	isGetData := func(v ssa.Value) bool {
		if mi, ok := v.(*ssa.MakeInterface); ok {
			v = mi.X
		}
		p, ok := v.Type().(*types.Pointer)
		if !ok {
			return false
		}
		nm, ok := p.Elem().(*types.Named)
		return ok && nm.Obj().Name() == "MsgGetData"
	}
	strip := func(v ssa.Value) ssa.Value {
		if mi, ok := v.(*ssa.MakeInterface); ok {
			return mi.X
		}
		return v
	}
	for _, b := range fn.Blocks {
		for _, in := range b.Instrs {
			call, ok := in.(*ssa.Call)
			if !ok {
				continue
			}
			if call.Call.IsInvoke() && call.Call.Method.Name() == "TransmitMessage" && len(call.Call.Args) == 1 && isGetData(call.Call.Args[0]) {
				ins, msgs = append(ins, call), append(msgs, strip(call.Call.Args[0]))
				continue
			}
			if strings.HasSuffix(calleeShort(&call.Call), ").queueOutgoing") && len(call.Call.Args) == 2 && isGetData(call.Call.Args[1]) {
				ins, msgs = append(ins, call), append(msgs, strip(call.Call.Args[1]))
				continue
			}
			if builtinCall(call, "append") != nil {
				for _, v := range appendedValues(call) {
					if isGetData(v) {
						ins, msgs = append(ins, call), append(msgs, strip(v))
					}
				}
			}
		}
	}
	return
}

// ruleFilledRequestsGoOut (C13.R12 / C01.R13): in the functions that turn admitted block requests into getdata messages,
// every AddInvVect is followed, on every path to a non-error return, by a hand-over of a getdata
// message (response list, outgoing queue); and after a hand-over inside a loop the message
// variable carried into the next iteration is a new message (otherwise the same items go out again).
func (c *Check) ruleFilledRequestsGoOut(rule string, fnKeys ...string) {
	for _, fk := range fnKeys {
		fn := c.Fn(rule, fk)
		if fn == nil {
			continue
		}
		hs, msgs := handOvers(fn)
		var adds []*ssa.Call
		for _, s := range sitesIn(fn) {
			if call := s.Value(); call != nil && calleeObjName(s.CC) == "AddInvVect" {
				adds = append(adds, call)
			}
		}
		c.Min(rule, "AddInvVect calls in "+fk, len(adds), 1)
		c.Min(rule, "hand-overs of getdata messages in "+fk, len(hs), 1)
		for i, a := range adds {
			// from the AddInvVect no successful return is reachable without a hand-over executed afterwards;
			// an edge on which the message's list was found empty does not count as a way around
			cut := map[*ssa.BasicBlock]bool{}
			for _, hx := range hs {
				if hx.Block() != a.Block() || instrIndex(hx) > instrIndex(a) {
					cut[hx.Block()] = true
				}
			}
			nothingLeft := func(iff *ssa.If, br int) bool {
				r, ok := edgeRel(iff, br)
				if !ok || r.Op != token.EQL {
					return false
				}
				k, isC := constInt(r.Y)
				l := lenOf(r.X)
				return isC && k == 0 && l != nil && mentionsFieldNamed(l, "InvList")
			}
			ok := true
			var w []string
			if !cut[a.Block()] {
				for _, ret := range returnsOf(fn) {
					if isErrorReturnBlock(ret.Block()) {
						continue
					}
					// a return that answers with no response list at all abandons the whole message (the
					// handler does that for a header it cannot place); what the node then does is the
					// time-out's business, not this rule's
					if len(ret.Results) == 2 {
						if cst, isC := ret.Results[0].(*ssa.Const); isC && cst.IsNil() {
							continue
						}
					}
					if r, path := reachAvoid2(a.Block(), ret.Block(), nothingLeft, cut); r {
						ok = false
						w = pathWitness(fn, path)
					}
				}
			}
			c.Decide(ok, rule, fmt.Sprintf("%s#filled-getdata-goes-out@%d", fk, i+1), a.Pos(), "must-be-followed-by", w,
				"a getdata that received an item is handed over for sending on every path to a successful return",
				"an item is added to a getdata message that is then not handed over for sending on some path: the block is recorded as requested but the request never reaches the peer, and no time-out fires for it until the connection restarts")
		}
		// a message is replaced by a new one inside a loop only after it was handed over in that iteration
		for _, s := range callsTo(fn, "wire.NewMsgGetData") {
			call := s.Value()
			if call == nil || loopHeaderOf(call.Block()) == nil {
				continue
			}
			// a replacement: an item can have been added earlier in the same iteration
			hl := loopHeaderOf(call.Block())
			replaces := false
			for _, a := range adds {
				if a.Block() == call.Block() && instrIndex(a) < instrIndex(call) {
					replaces = true
				}
				if a.Block() != call.Block() && loopBody(hl)[a.Block()] && reachableWithin(a.Block(), call.Block(), hl) {
					replaces = true
				}
			}
			if !replaces {
				continue
			}
			ok, w := precededInIteration(call, hs)
			c.Decide(ok, rule, fmt.Sprintf("%s#getdata-replaced-only-after-hand-over", fk), call.Pos(), "must-pass-through", w,
				"inside the loop a new message is started only after the current one was handed over",
				"inside the loop the getdata message is replaced by a new one on a path that did not hand the current one over: the batch collected so far is dropped, its blocks are recorded as requested but never asked for")
		}
		// fresh message after a hand-over inside a loop
		for i, hi := range hs {
			h := loopHeaderOf(hi.Block())
			if h == nil {
				continue
			}
			body := loopBody(h)
			msg := msgs[i]
			bad := false
			var wit []string
			for _, in := range h.Instrs {
				phi, ok := in.(*ssa.Phi)
				if !ok {
					break
				}
				if !types.Identical(phi.Type(), msg.Type()) {
					continue
				}
				for j, e := range phi.Edges {
					pr := h.Preds[j]
					if !body[pr] || !(pr == hi.Block() || reachableWithin(hi.Block(), pr, h)) {
						continue
					}
					for _, src := range valuesAfter(e, hi.Block(), h, body) {
						if src == msg {
							bad = true
							wit = append(wit, fmt.Sprintf("carried to the next iteration through block %d (%s)", pr.Index, c.P.Pos(lastPos(pr))))
						}
					}
				}
			}
			// a message created before the loop and never replaced inside it is the same object in every iteration
			if in, ok := msg.(ssa.Instruction); ok && !body[in.Block()] {
				if _, isPhi := msg.(*ssa.Phi); !isPhi {
					bad = true
					wit = append(wit, "the message handed over is created outside the loop and not replaced after the hand-over")
				}
			}
			c.Decide(!bad, rule, fmt.Sprintf("%s#new-getdata-after-hand-over@%d", fk, i+1), hi.Pos(), "loop-carried value", wit,
				"after a hand-over the loop continues with a new message",
				"a getdata message that was handed over for sending is carried into the next iteration: it keeps growing and is handed over again, so the same blocks are requested more than once")
		}
	}
}

// ---------------------------------------------------------------------------------------------
// C01: time-outs fire

// ruleTimeoutsFire (C01.R14): State.CheckTimeouts is what turns a lost reply into a reconnect (every other C01
// rule relies on it: "otherwise no time-out can fire"). For each watched request (handshake, header
// request, each outstanding block request) there is an age test `elapsed > limit` (elapsed from
// time.Time.Sub / Since, limit a constant) whose true edge reaches only non-nil error returns,
// the pointer to the request time is loaded only behind its nil test, and the block test applies to
// requests whose body has not arrived (`block == nil`).
func (c *Check) ruleTimeoutsFire(rule string) {
	fn := c.Fn(rule, "state.(*State).CheckTimeouts")
	if fn == nil {
		return
	}
	n := 0
	for _, b := range fn.Blocks {
		iff, ok := lastIf(b)
		if !ok {
			continue
		}
		bin, ok := iff.Cond.(*ssa.BinOp)
		if !ok {
			continue
		}
		// elapsed seconds on one side, a constant on the other
		var elapsed ssa.Value
		var limitOnRight bool
		isElapsed := func(v ssa.Value) bool {
			call, ok := stripConv(v).(*ssa.Call)
			if !ok {
				return false
			}
			// the duration itself compared with a duration constant (`now.Sub(t) > 60*time.Second`)
			switch calleeShort(&call.Call) {
			case "(time.Time).Sub", "time.Since":
				return true
			}
			if calleeShort(&call.Call) != "(time.Duration).Seconds" {
				return false
			}
			for _, a := range call.Call.Args {
				if cl, ok := a.(*ssa.Call); ok {
					switch calleeShort(&cl.Call) {
					case "(time.Time).Sub", "time.Since":
						return true
					}
				}
			}
			return false
		}
		if isElapsed(bin.X) {
			elapsed, limitOnRight = bin.X, true
		} else if isElapsed(bin.Y) {
			elapsed, limitOnRight = bin.Y, false
		}
		if elapsed == nil {
			continue
		}
		n++
		key := fmt.Sprintf("state.(*State).CheckTimeouts#age-test@%d", n)
		other := bin.Y
		if !limitOnRight {
			other = bin.X
		}
		_, isConst := other.(*ssa.Const)
		op := bin.Op
		if !limitOnRight {
			op = swapOp(op)
		}
		c.Decide(isConst && (op == token.GTR || op == token.GEQ), rule, key+"-is-elapsed-greater-than-limit", bin.Pos(), "value shape", nil,
			"the test is `elapsed > limit` with a constant limit", "the age test of a watched request is not `elapsed > constant limit`: the time-out fires at once for fresh requests (endless reconnects) or never")
		// the true edge leads only to non-nil error returns
		succ := b.Succs[0]
		okRet := true
		var wit []string
		explore([]walkNode{mkNode(b, succ)}, func(nd walkNode) bool {
			if isExitBlock(nd.b) {
				if !isErrorReturnBlock(nd.b) && !errorReturnOnPath(nd) {
					okRet = false
					wit = []string{"reaches a nil-error return at " + c.P.Pos(lastPos(nd.b))}
				}
				return false
			}
			if nd.b == b || (loopHeaderOf(nd.b) != nil && loopHeaderOf(nd.b) == nd.b) {
				okRet = false
				wit = []string{"carries on at " + c.P.Pos(lastPos(nd.b))}
				return false
			}
			return okRet
		})
		c.Decide(okRet, rule, key+"-expired-returns-an-error", bin.Pos(), "edge-threaded reachability", wit,
			"an expired request makes CheckTimeouts return a non-nil error", "an expired request does not make CheckTimeouts return an error: the lost reply is never noticed and the node waits forever")
	}
	c.Min(rule, "age tests in State.CheckTimeouts", n, 3)
	// pointer loads behind their nil test
	for _, fname := range []string{"connectedTime", "headersRequested"} {
		f := c.P.Field("state", "State", fname)
		if f == nil {
			continue
		}
		for _, b := range fn.Blocks {
			for _, in := range b.Instrs {
				u, ok := in.(*ssa.UnOp)
				if !ok || u.Op != token.MUL {
					continue
				}
				inner, ok := u.X.(*ssa.UnOp)
				if !ok || inner.Op != token.MUL || fieldOfAddr(inner.X) != f {
					continue
				}
				okNil, w := mustPass(u, nilEdge(func(v ssa.Value) bool { return loadOfField(v, f) != nil }, false))
				c.Decide(okNil, rule, "state.(*State).CheckTimeouts#"+fname+"-loaded-behind-nil-test", u.Pos(), "edge-cutset", w,
					"the request time is loaded only where it was found non-nil", "the request time pointer is dereferenced without its nil test: CheckTimeouts panics whenever no such request is outstanding, which kills the monitor goroutine's process")
			}
		}
	}
	// the block age test applies to requests without a body
	fBlock := c.P.Field("state", "requestedBlock", "block")
	if fBlock != nil {
		for _, h := range loopHeadersOf(fn) {
			body := loopBody(h)
			for b := range body {
				iff, ok := lastIf(b)
				if !ok {
					continue
				}
				if bin, ok := iff.Cond.(*ssa.BinOp); ok && bin.Op == token.GTR || ok && bin.Op == token.GEQ {
					if _, isF := bin.X.Type().Underlying().(*types.Basic); isF && strings.Contains(bin.X.Type().String(), "float") {
						okB, w := mustPass(iff, nilEdge(func(v ssa.Value) bool { return loadOfField(v, fBlock) != nil }, true))
						c.Decide(okB, rule, "state.(*State).CheckTimeouts#block-age-tested-for-missing-bodies", bin.Pos(), "edge-cutset", w,
							"the block request age is examined for requests whose body has not arrived", "the block request time-out is evaluated for requests whose body already arrived (or not for the missing ones): received blocks waiting to be processed trigger reconnects, lost ones never do")
					}
				}
			}
		}
	}
}

// helperFalseImpliesNotSentinel: every way the bool function h can answer false has found its
// argument different from the sentinel g (an `==` with g that was false, on an edge or as the
// returned value itself).
func helperFalseImpliesNotSentinel(h *ssa.Function, g *ssa.Global) bool {
	if h.Signature.Results().Len() != 1 {
		return false
	}
	isG := func(v ssa.Value) bool {
		for _, r := range rootsAll(v) {
			if u, ok := r.(*ssa.UnOp); ok && u.Op == token.MUL && u.X == ssa.Value(g) {
				return true
			}
			if r == ssa.Value(g) {
				return true
			}
		}
		return false
	}
	neq := equalEdge(func(a, b ssa.Value) bool { return isG(a) || isG(b) }, false)
	ok := true
	var judge func(at ssa.Instruction, v ssa.Value, depth int)
	judge = func(at ssa.Instruction, v ssa.Value, depth int) {
		if phi, isPhi := v.(*ssa.Phi); isPhi && depth < 4 {
			for i, e := range phi.Edges {
				p := phi.Block().Preds[i]
				judge(p.Instrs[len(p.Instrs)-1], e, depth+1)
			}
			return
		}
		if b, isC := isConstBool(v); isC && b {
			return
		}
		if bo, isB := v.(*ssa.BinOp); isB && bo.Op == token.EQL && (isG(bo.X) || isG(bo.Y)) {
			return
		}
		if pass, _ := mustPass(at, neq); !pass {
			ok = false
		}
	}
	n := 0
	for _, r := range returnsOf(h) {
		if r.Block().Comment == "recover" {
			continue
		}
		for _, v := range resultValues(r, 0) {
			n++
			judge(r, v, 0)
		}
	}
	return ok && n > 0
}

// isTxListType: a list of *wire.MsgTx, or of small records that hold a *wire.MsgTx next to its flags.
func isTxListType(t types.Type) bool {
	sl, ok := t.Underlying().(*types.Slice)
	if !ok {
		return false
	}
	isTxPtr := func(t types.Type) bool {
		if p, ok := t.(*types.Pointer); ok {
			if n, ok := p.Elem().(*types.Named); ok && n.Obj().Name() == "MsgTx" {
				return true
			}
		}
		return false
	}
	if isTxPtr(sl.Elem()) {
		return true
	}
	if st, ok := sl.Elem().Underlying().(*types.Struct); ok && st.NumFields() <= 6 {
		for i := 0; i < st.NumFields(); i++ {
			if isTxPtr(st.Field(i).Type()) {
				return true
			}
		}
	}
	return false
}
