package main

import (
	"fmt"
	"go/token"
	"go/types"
	"strings"

	"golang.org/x/tools/go/ssa"
)

func init() {
	register(&PropDef{
		ID:    "C01",
		Title: "Chain converges to the trusted peer's best chain through extensions and reorgs",
		Explanation: "Decides structural necessary conditions of sync progress (the liveness claim itself is not decidable statically): " +
			"(R1) every SetInSync is behind BlockRequestsEmpty()==true (or the documented 'headers in sync before the start block' case StartHeight()==-1); " +
			"(R2) HandleInSync is delivered only behind IsReady()==true and is followed by SetNotifiedSync; " +
			"(R3) every getheaders that is queued successfully is followed by MarkHeadersRequested (otherwise the header time-out can never fire and a lost reply stalls the node forever); " +
			"(R4) in the header handler every ClearBlockRequests (fork below or at the tip) is preceded in the same iteration by ClearInSync, so the poller resumes asking for headers; " +
			"(R5) on the reconnect path of Node.Run the sync state is Reset before the next connection; " +
			"(R6) when ClearBlockRequestsAfter finds the fork point among the requested blocks, the not-yet-requested queue is emptied on every path of that branch; " +
			"(R7) every iteration of the block processor that popped a block asks the window for further requests before it loops; " +
			"(R8) the in-sync branch of the header handler and every accepted-header path clear the header-request mark.",
		NotDecided:  "convergence and 'never stalls permanently' over all interleavings, delays, duplications and restarts (liveness over schedules and wall-clock time-outs); correctness of the block locator.",
		Assumptions: []string{"the trusted peer answers getheaders/getdata"},
		Tech:        "guard edge cut-sets, must-pass-through / same-iteration event order on the CFG",
		Run:         runC01,
	})
	register(&PropDef{
		ID:    "C08",
		Title: "Subscription filter matches exactly subscribed push data and contract actions",
		Explanation: "Decides the structural skeleton of the relevance filter (weak claim): " +
			"(R1) every script walk has the outcome automaton: ErrNotPushOp → parse again (skip the opcode), any other error → stop this script without discarding pushes already seen and without answering true, success → the push is canonicalised and compared with every subscribed hash, equality answers true; " +
			"(R2) both script families are walked: output locking scripts and input unlocking scripts; " +
			"(R3) one canonicalisation everywhere (20 bytes are taken verbatim, anything else is Hash160'd): subscribe, unsubscribe and both compare sites; " +
			"(R4) the subscribed list is appended only by SubscribePushDatas and shrunk only by UnsubscribePushDatas, always under pushDataLock; the contract flag is written only by (Un)SubscribeContracts; " +
			"(R5) IsRelevant answers false only after the contract subscription was consulted and both script families were walked, and the contract-action test is consulted only behind IsSubscribedToContracts()==true.",
		NotDecided:  "the iff over arbitrary byte strings against an independent parser; no-crash of the external protocol.Deserialize; multiset semantics of subscribe/unsubscribe sequences (value level).",
		Assumptions: []string{"bitcoin.ParsePushDataScript consumes at least one byte or fails"},
		Tech:        "outcome automaton of parse calls on the CFG, value provenance of readers, canonicalisation shape matching, who-may-write, must-pass-through",
		Run:         runC08,
	})
}

func runC01(c *Check) {
	// ---- R1
	sites := c.P.CallersOf("(*state.State).SetInSync")
	n := 0
	for _, s := range sites {
		if c.P.isTestFile(s.Pos()) {
			continue
		}
		n++
		c.Touch(s.Fn)
		g := anyEdge(
			callEdge(true, -1, nil, "(*state.State).BlockRequestsEmpty"),
			func(iff *ssa.If, br int) bool {
				r, ok := edgeRel(iff, br)
				if !ok || r.Op != token.EQL {
					return false
				}
				x, y := r.X, r.Y
				if _, isC := y.(*ssa.Const); !isC {
					x, y = y, x
				}
				k, isC := constInt(y)
				if !isC {
					return false
				}
				if k == 0 && derivesFromCall(x, "(*state.State).TotalBlockRequestCount") != nil {
					return true
				}
				return k == -1 && derivesFromCall(x, "(*state.State).StartHeight") != nil
			})
		ok, w := mustPass(s.Instr, g)
		c.Decide(ok, "R1", c.P.Key(s.Fn)+"#SetInSync-only-when-no-block-outstanding", s.Pos(), "edge-cutset (disjunctive)", w,
			"in-sync only when no block request is outstanding (or before the start block is known)", "the node can declare itself in sync while announced blocks are still requested or queued: HandleInSync would be delivered before the node holds every announced block")
	}
	c.Min("R1", "SetInSync call sites", n, 3)

	// ---- R2
	nIS := 0
	for _, fn := range c.P.FuncsIn("spynode", "handlers") {
		for _, h := range c.handlerInvokes(fn, "HandleInSync") {
			nIS++
			c.Touch(fn)
			ok, w := mustPass(h.Instr, callEdge(true, -1, nil, "(*state.State).IsReady"))
			c.Decide(ok, "R2", c.P.Key(fn)+"#HandleInSync-behind-IsReady", h.Pos(), "edge-cutset", w, "delivered only when the state is in sync", "HandleInSync can be delivered while the state is not in sync")
			ok, w = mustPass(h.Instr, callEdge(false, -1, nil, "(*state.State).NotifiedSync"))
			c.Decide(ok, "R2", c.P.Key(fn)+"#HandleInSync-once", h.Pos(), "edge-cutset", w, "delivered only if not yet notified", "HandleInSync can be delivered again on every check")
			var ev []ssa.Instruction
			for _, s := range callsTo(fn, "(*state.State).SetNotifiedSync") {
				ev = append(ev, s.Instr)
			}
			ok, w = alwaysFollowedBy(h.Instr, withLoopHeaders(ev, nil), false, nil)
			// the invoke sits in a loop over handlers: accept the event after the loop
			if !ok {
				if lh := loopHeaderOf(h.Instr.Block()); lh != nil && len(lh.Instrs) > 0 {
					ok, w = alwaysFollowedBy(lh.Instrs[len(lh.Instrs)-1], ev, false, nil)
				}
			}
			c.Decide(ok, "R2", c.P.Key(fn)+"#notified-flag-set", h.Pos(), "must-pass-through", w, "the notified flag is set after the callbacks", "the notified flag is not set after HandleInSync")
		}
	}
	c.Min("R2", "HandleInSync invocations", nIS, 1)

	// ---- R3
	n3 := 0
	for _, fk := range []string{"spynode.(*Node).check", "spynode.(*UntrustedNode).check"} {
		fn := c.Fn("R3", fk)
		if fn == nil {
			continue
		}
		mark := "(*state.State).MarkHeadersRequested"
		if strings.Contains(fk, "Untrusted") {
			mark = "(*state.UntrustedState).MarkHeadersRequested"
		}
		var marks []ssa.Instruction
		for _, s := range callsTo(fn, mark) {
			marks = append(marks, s.Instr)
		}
		for _, s := range sitesIn(fn) {
			nm := calleeShort(s.CC)
			if nm != "(*spynode.Node).queueOutgoing" && nm != "(*spynode.MessageChannel).Add" {
				continue
			}
			a := s.Args()
			if len(a) != 1 || derivesFromCall(a[0], "spynode.buildHeaderRequest") == nil {
				continue
			}
			n3++
			call := s.Value()
			// success edge
			for _, b := range fn.Blocks {
				iff, ok := lastIf(b)
				if !ok {
					continue
				}
				for br := 0; br < 2; br++ {
					succ := false
					if nm == "(*spynode.Node).queueOutgoing" {
						succ = condEdge(func(cd Cond) (bool, bool) {
							if cd.Call == call {
								return true, true
							}
							return false, false
						})(iff, br)
					} else {
						succ = errNilEdge(sameCall(call), true)(iff, br)
					}
					if !succ {
						continue
					}
					okF := containsInstr(b.Succs[br], marks)
					var w []string
					if !okF {
						okF, w = alwaysFollowedBy(b.Succs[br].Instrs[0], marks, false, nil)
					}
					c.Decide(okF, "R3", fmt.Sprintf("%s#getheaders-%d-marked", fk, n3), s.Pos(), "must-pass-through", w,
						"a queued getheaders is recorded (MarkHeadersRequested)", "a getheaders can be queued without MarkHeadersRequested: if its reply is lost no time-out ever fires and, while headersRequested stays nil, a new poll is only sent under other conditions")
				}
			}
		}
	}
	c.Min("R3", "queued getheaders requests", n3, 3)

	// ---- R4
	if fn := c.Fn("R4", "handlers.(*HeadersHandler).Handle"); fn != nil {
		var cis []ssa.Instruction
		for _, s := range callsTo(fn, "(*state.State).ClearInSync") {
			cis = append(cis, s.Instr)
		}
		cl := callsTo(fn, "(*state.State).ClearBlockRequests")
		for i, s := range cl {
			start := fn.Blocks[0]
			if h := loopHeaderOf(s.Instr.Block()); h != nil {
				start = h
			}
			cut := map[*ssa.BasicBlock]bool{}
			for _, x := range cis {
				cut[x.Block()] = true
			}
			ok := containsBefore(s.Instr, cis)
			var w []string
			if !ok {
				r, p := reachAvoid2(start, s.Instr.Block(), nil, cut)
				ok = !r
				w = pathWitness(fn, p)
			}
			c.Decide(ok, "R4", fmt.Sprintf("handlers.(*HeadersHandler).Handle#ClearBlockRequests-%d-after-ClearInSync", i+1), s.Pos(), "same-iteration event order", w,
				"the in-sync flag is cleared before the request queue is dropped", "block requests are dropped for a fork while the node stays 'in sync': check() never polls for headers again and every later announcement is an unknown header – the node stalls below the peer's tip")
		}
		c.Min("R4", "ClearBlockRequests calls in Handle", len(cl), 1)

		// ---- R8
		var chr []ssa.Instruction
		for _, s := range callsTo(fn, "(*state.State).ClearHeadersRequested") {
			chr = append(chr, s.Instr)
		}
		for _, s := range callsTo(fn, "(*state.State).SetPendingSync") {
			ok, w := alwaysFollowedBy(s.Instr, chr, false, nil)
			c.Decide(ok, "R8", "handlers.(*HeadersHandler).Handle#in-sync-branch-clears-header-mark", s.Pos(), "must-pass-through", w,
				"the empty/known-tip reply clears the header-request mark", "the 'headers in sync' reply does not clear the header-request mark: the header time-out fires although the peer answered")
		}
		c.Min("R8", "ClearHeadersRequested calls in Handle", len(chr), 2)
	}

	// ---- R5
	if fn := c.Fn("R5", "spynode.(*Node).Run"); fn != nil {
		var resets []ssa.Instruction
		for _, s := range callsTo(fn, "(*state.State).Reset") {
			resets = append(resets, s.Instr)
		}
		opens := callsTo(fn, "(*spynode.MessageChannel).Open")
		okAll := len(resets) > 0 && len(opens) > 0
		var wit []string
		for _, o := range opens {
			h := loopHeaderOf(o.Instr.Block())
			if h == nil {
				okAll = false
				continue
			}
			cut := map[*ssa.BasicBlock]bool{}
			for _, r := range resets {
				cut[r.Block()] = true
			}
			// from the open, getting back to the loop header (next connection) must pass Reset
			for _, s := range o.Instr.Block().Succs {
				if r, p := reachAvoid2(s, h, nil, cut); r {
					okAll = false
					wit = pathWitness(fn, p)
				}
			}
		}
		c.Decide(okAll, "R5", "spynode.(*Node).Run#state-reset-before-reconnect", fn.Pos(), "must-pass-through", wit,
			"after a connection cycle the sync state is Reset before the next connect", "the run loop can reconnect without resetting the sync state: stale requested-block entries and flags survive and the new connection never re-requests them")
	}

	// ---- R6
	if sa := c.stateAnchors("R6"); sa != nil {
		c.ruleToRequestEmptied("R6", sa)
	}

	// ---- R7
	if fn := c.Fn("R7", "spynode.(*Node).processBlocks"); fn != nil {
		var next []ssa.Instruction
		for _, s := range callsTo(fn, "(*state.State).GetNextBlockToRequest") {
			next = append(next, s.Instr)
		}
		pb := callsTo(fn, "(*spynode.Node).ProcessBlock")
		for _, s := range pb {
			ok, w := alwaysFollowedBy(s.Instr, withLoopHeaders(next, nil), true, func(b *ssa.BasicBlock) bool { return true })
			c.Decide(ok, "R7", "spynode.(*Node).processBlocks#asks-for-more-after-each-block", s.Pos(), "same-iteration event order", w,
				"after each processed block the window is asked for further requests", "the block processor can loop without asking for the next block requests: queued blocks beyond the window are never requested")
		}
		c.Min("R7", "ProcessBlock calls in processBlocks", len(pb), 1)
		// and each hash obtained is queued
		for _, s := range callsTo(fn, "(*state.State).GetNextBlockToRequest") {
			var q []ssa.Instruction
			for _, x := range callsTo(fn, "(*spynode.Node).queueOutgoing") {
				q = append(q, x.Instr)
			}
			_ = s
			c.Decide(len(q) >= 2, "R7", "spynode.(*Node).processBlocks#requests-are-queued", s.Pos(), "must-call", nil, "block requests are queued for sending", "block requests obtained from the window are never queued")
		}
	}
	c.ruleResetEmptiesRequestState("R9")
	c.ruleConstIndexGuarded("R10", "spynode", "handlers", "state")
	c.ruleForkAlwaysFollowed("R22")
	c.ruleEmptyMeansAllEmpty("R11")
	c.ruleBenignSentinelsHandled("R12")
	c.ruleTimeoutsFire("R14")
	c.ruleRestartNotBehindStopping("R15")
	c.ruleTruncationKeepsForkPoint("R16")
	c.rulePendingSyncOnlyWhenPeerHasNoMore("R17")
	c.rulePopMovesLastSavedHash("R18")
	c.ruleSavedHashMovesOnlyWithPop("R19")
	c.ruleLastHashGuards("R20")
	c.ruleResetClearsConnectionState("R21")
	c.ruleFilledRequestsGoOut("R13", "handlers.(*HeadersHandler).Handle", "spynode.(*Node).processBlocks")
}

func containsBefore(in ssa.Instruction, set []ssa.Instruction) bool {
	for _, s := range set {
		if s.Block() == in.Block() && instrIndex(s) < instrIndex(in) {
			return true
		}
	}
	return false
}

// ---------------------------------------------------------------------------------------------

func runC08(c *Check) {
	isRel := c.Fn("R1", "spynode.(*Node).IsRelevant")
	if isRel == nil {
		return
	}
	fHashes := c.P.Field("spynode", "Node", "pushDataHashes")
	fContracts := c.P.Field("spynode", "Node", "sendContracts")
	if fHashes == nil || fContracts == nil {
		if fContracts == nil {
			c.ruleContractSubscriptionIsFlag("R16") // what the subscription is kept in now
		}
		c.Undecided("R0", "anchor:spynode.Node fields", token.NoPos, "pushDataHashes/sendContracts not found")
		return
	}
	// functions of the walk: IsRelevant and module helpers it reaches inside package spynode
	g := c.Graph()
	pred := g.Reach([]*ssa.Function{isRel}, func(f *ssa.Function) bool {
		return pkgOf(f) == nil || relPkg(pkgOf(f).Path()) != "spynode"
	})
	var walkFns []*ssa.Function
	for f := range pred {
		if f.Blocks != nil && pkgOf(f) != nil && relPkg(pkgOf(f).Path()) == "spynode" {
			walkFns = append(walkFns, f)
		}
	}
	// ---- R1 parse sites
	type psite struct {
		fn   *ssa.Function
		call *ssa.Call
	}
	var parses []psite
	for _, f := range walkFns {
		for _, s := range sitesIn(f) {
			if strings.HasSuffix(calleeName(s.CC), "bitcoin.ParsePushDataScript") {
				parses = append(parses, psite{f, s.Value()})
			}
		}
	}
	c.Min("R1", "ParsePushDataScript sites reachable from IsRelevant", len(parses), 1)
	famOut, famIn := false, false
	for i, ps := range parses {
		f, call := ps.fn, ps.call
		c.Touch(f)
		key := fmt.Sprintf("%s#parse-%d", c.P.Key(f), i+1)
		h := loopHeaderOf(call.Block())
		if h == nil {
			c.Bad("R1", key+"#in-loop", call.Pos(), "cfg-structure", nil, "the script parser is not called in a loop: only the first element of a script is examined")
			continue
		}
		body := loopBody(h)
		// find the tests on this call's error
		var errEx ssa.Value
		for _, r := range *call.Referrers() {
			if e, ok := r.(*ssa.Extract); ok && e.Index == call.Call.Signature().Results().Len()-1 {
				errEx = e
			}
		}
		var nonNilSucc, okSucc, notPushSucc, otherSucc *ssa.BasicBlock
		for b := range body {
			iff, ok := lastIf(b)
			if !ok {
				continue
			}
			for br := 0; br < 2; br++ {
				if errNilEdge(sameCall(call), false)(iff, br) && nonNilSucc == nil {
					nonNilSucc = b.Succs[br]
					okSucc = b.Succs[1-br]
				}
				// err == bitcoin.ErrNotPushOp
				r, ok := edgeRel(iff, br)
				if ok && r.Op == token.EQL {
					x, y := r.X, r.Y
					if x != errEx {
						x, y = y, x
					}
					if x == errEx || (errEx != nil && derivesFromValue(x, errEx)) {
						if u, ok := y.(*ssa.UnOp); ok {
							if gl, ok := u.X.(*ssa.Global); ok && gl.Name() == "ErrNotPushOp" {
								notPushSucc = b.Succs[br]
								otherSucc = b.Succs[1-br]
							}
						}
					}
				}
			}
		}
		// flat form `if err == ErrNotPushOp {…} else if err != nil {…}`: the malformed outcome is the
		// non-nil edge of the nil test that follows the inequality
		if otherSucc != nil {
			if iff2, ok := lastIf(otherSucc); ok && len(otherSucc.Instrs) == 1+countValueInstrs(otherSucc) {
				for k := 0; k < 2; k++ {
					if errNilEdge(sameCall(call), false)(iff2, k) {
						okSucc = otherSucc.Succs[1-k]
						otherSucc = otherSucc.Succs[k]
						break
					}
				}
			}
		}
		if nonNilSucc == nil || notPushSucc == nil {
			c.Bad("R1", key+"#outcomes-distinguished", call.Pos(), "outcome automaton", nil,
				"the parser's outcomes are not distinguished (err != nil, err == ErrNotPushOp): a non-push opcode must be skipped and a malformed script must stop the walk")
			continue
		}
		// (a) not-push: back to the parse call within the loop, without leaving it
		okSkip := notPushSucc == h || (body[notPushSucc] && reachableWithin(notPushSucc, call.Block(), nil) && !leavesLoopBefore(notPushSucc, call.Block(), body))
		c.Decide(okSkip, "R1", key+"#non-push-opcode-skipped", call.Pos(), "outcome automaton", nil,
			"on ErrNotPushOp the walk continues with the next element", "a non-push opcode ends the script walk (or the whole filter): pushes after an opcode such as OP_RETURN/OP_DUP are never compared")
		// (b) other error: leaves this script's loop, never answers true, keeps what was found
		okStop := !body[otherSucc] || leavesOnly(otherSucc, body)
		answersTrue := false
		discards := false
		nVisited := 0
		explore(entryNodesVia(otherSucc), func(n walkNode) bool {
			x := n.b
			if x == call.Block() {
				return false
			}
			nVisited++
			if x == h {
				return false
			}
			if ret, ok := x.Instrs[len(x.Instrs)-1].(*ssa.Return); ok && onlyViaError(x, otherSucc, body) {
				for _, v := range resultValues(ret, 0) {
					if b, isC := isConstBool(v); isC && b {
						answersTrue = true
					}
					// collector design: returning nil instead of the accumulated pushes discards them
					if cst, isC := v.(*ssa.Const); isC && cst.IsNil() && functionAppends(f) {
						discards = true
					}
				}
			}
			// the same defect after the collecting helper was expanded in place: on the failure path
			// the merged "collected so far" value is nil although another path delivers the accumulator
			if n.pred != nil {
				if pi := predIndex(n.pred, x); pi >= 0 {
					for _, in := range x.Instrs {
						phi, isPhi := in.(*ssa.Phi)
						if !isPhi {
							break
						}
						if _, isSl := phi.Type().Underlying().(*types.Slice); !isSl || pi >= len(phi.Edges) {
							continue
						}
						cst, isC := phi.Edges[pi].(*ssa.Const)
						if !isC || !cst.IsNil() {
							continue
						}
						for j, e := range phi.Edges {
							if j == pi {
								continue
							}
							for _, r := range rootsAll(e) {
								if call, ok := r.(*ssa.Call); ok && builtinCall(call, "append") != nil {
									discards = true
								}
							}
						}
					}
				}
			}
			return body[x] || !body[otherSucc] && nVisited < 12
		})
		c.Decide(okStop && !answersTrue, "R1", key+"#malformed-script-stops-walk", call.Pos(), "outcome automaton", nil,
			"any other parse error ends this script's walk without a match", "a malformed script does not end the walk of that script (possible endless loop) or answers 'relevant'")
		c.Decide(!discards, "R1", key+"#pushes-before-malformation-kept", call.Pos(), "outcome automaton", nil,
			"pushes seen before a malformation still count", "on a parse error the pushes collected so far are thrown away (nil is returned instead of the accumulated list): a subscribed push followed by a truncated tail is missed")
		// (c) success: canonicalise and compare with every subscribed hash; equality answers true
		data := ssa.Value(nil)
		for _, r := range *call.Referrers() {
			if e, ok := r.(*ssa.Extract); ok && e.Index == 1 {
				data = e
			}
		}
		okCanon := false
		if data != nil {
			for _, s := range sitesIn(f) {
				if calleeShort(s.CC) == "spynode.pushDataToHash" && len(s.CC.Args) == 1 && s.CC.Args[0] == data {
					okCanon = okSucc != nil && (s.Instr.Block() == okSucc || okSucc.Dominates(s.Instr.Block()))
				}
			}
			// pushDataToHash written in place: a Hash20 local canonicalised from this push on the success edge
			if !okCanon && okSucc != nil {
				for _, b := range f.Blocks {
					for _, in := range b.Instrs {
						if al, ok := in.(*ssa.Alloc); ok && (b == okSucc || okSucc.Dominates(b)) {
							if d := canonicalHashData(al); d != nil && (d == data || sharesRoot(d, data)) {
								okCanon = true
							}
						}
					}
				}
			}
		}
		c.Decide(okCanon, "R1", key+"#push-canonicalised", call.Pos(), "provenance", nil,
			"a parsed push goes through pushDataToHash on the success edge", "the parsed push data is not canonicalised with pushDataToHash before comparison")
		// family (followed through helper parameters to the call sites inside the walk)
		for _, name := range fieldNamesReaching(c, call.Call.Args[0], f, walkFns, 0) {
			if name == "LockingScript" {
				famOut = true
			}
			if name == "UnlockingScript" {
				famIn = true
			}
		}
	}
	// compare sites: Equal between an element of pushDataHashes and a canonicalised push leads to return true
	nCmp := 0
	for _, f := range walkFns {
		for _, b := range f.Blocks {
			iff, ok := lastIf(b)
			if !ok {
				continue
			}
			for br := 0; br < 2; br++ {
				if equalEdge(func(x, y ssa.Value) bool {
					if !mentionsField(x, fHashes) {
						return false
					}
					if derivesFromCall(y, "spynode.pushDataToHash") != nil || canonicalHashData(y) != nil {
						return true
					}
					// collector design: the canonical hashes arrive through a parameter / helper result
					for _, r := range rootsAll(y) {
						switch r.(type) {
						case *ssa.Parameter, *ssa.Call:
							return strings.HasSuffix(strings.TrimPrefix(y.Type().String(), "*"), "bitcoin.Hash20")
						}
					}
					return false
				}, true)(iff, br) {
					nCmp++
					okTrue := leadsToBoolReturn(b, b.Succs[br], true)
					inHashLoop := false
					if lh := loopHeaderOf(b); lh != nil {
						if rs := rangedSlice(lh); rs != nil && loadOfField(rs, fHashes) != nil {
							inHashLoop = true
						}
					}
					c.Decide(okTrue && inHashLoop, "R1", fmt.Sprintf("%s#match-%d-answers-true", c.P.Key(f), nCmp), ifPos(iff), "outcome automaton", nil,
						"the push is compared with every subscribed hash and equality answers true", "a matching push does not make the tx relevant (or only part of the subscribed list is compared)")
				}
			}
		}
	}
	c.Min("R1", "push-vs-subscription compare sites", nCmp, 1)

	// ---- R2
	c.Decide(famOut, "R2", "spynode.(*Node).IsRelevant#walks-output-scripts", isRel.Pos(), "provenance", nil, "output locking scripts are walked", "no script walk reads the outputs' locking scripts")
	c.Decide(famIn, "R2", "spynode.(*Node).IsRelevant#walks-input-scripts", isRel.Pos(), "provenance", nil, "input unlocking scripts are walked", "no script walk reads the inputs' unlocking scripts")

	// ---- R3 canonicalisation
	canonOK := func(fn *ssa.Function) bool {
		// either calls pushDataToHash, or has the shape itself: branch on len == 20, Hash160 on the other edge
		if len(callsTo(fn, "spynode.pushDataToHash")) > 0 {
			return true
		}
		for _, b := range fn.Blocks {
			iff, ok := lastIf(b)
			if !ok {
				continue
			}
			r, ok := edgeRel(iff, 0)
			if !ok || (r.Op != token.EQL && r.Op != token.NEQ) {
				continue
			}
			k, isC := constInt(r.Y)
			if !isC || k != 20 || lenOf(r.X) == nil {
				continue
			}
			eqBr := 0
			if r.Op == token.NEQ {
				eqBr = 1
			}
			// Hash160 must be on the non-equal side only
			hashOnOther, hashOnEq := false, false
			for _, s := range sitesIn(fn) {
				if strings.HasSuffix(calleeName(s.CC), "bitcoin.Hash160") {
					if b.Succs[1-eqBr] == s.Instr.Block() || b.Succs[1-eqBr].Dominates(s.Instr.Block()) {
						hashOnOther = true
					}
					if b.Succs[eqBr] == s.Instr.Block() || b.Succs[eqBr].Dominates(s.Instr.Block()) {
						hashOnEq = true
					}
				}
			}
			if hashOnOther && !hashOnEq {
				return true
			}
		}
		return false
	}
	for _, fk := range []string{"spynode.pushDataToHash", "spynode.(*Node).SubscribePushDatas", "spynode.(*Node).UnsubscribePushDatas"} {
		if fk == "spynode.pushDataToHash" && c.P.Fn(fk) == nil {
			// the helper was written in place at its call sites: each site is checked by shape (R1, below)
			c.Ok("R3", fk+"#canonicalisation", token.NoPos, "shape matching", "no pushDataToHash helper: canonicalisation is checked in place at every use")
			continue
		}
		fn := c.Fn("R3", fk)
		if fn == nil {
			continue
		}
		ok := canonOK(fn)
		if fk == "spynode.pushDataToHash" {
			// must have the shape itself
			ok = false
			for _, s := range sitesIn(fn) {
				if strings.HasSuffix(calleeName(s.CC), "bitcoin.Hash160") {
					ok = true
				}
			}
			ok = ok && canonOKShape(fn)
		}
		c.Decide(ok, "R3", fk+"#canonicalisation", fn.Pos(), "shape matching", nil,
			"20 bytes are taken verbatim, anything else is Hash160'd", "push data is not canonicalised as (len==20 ? verbatim : Hash160): raw-data and hash subscriptions are no longer equivalent / subscribe and unsubscribe disagree")
	}

	c.ruleCanonOnEveryPath("R3")
	c.ruleContractScanContinues("R6")
	c.ruleSubscribeAddsEach("R7", fHashes)
	isParam := func(name string, idx int) func(fnKey string) func(ssa.Value) bool {
		return func(fnKey string) func(ssa.Value) bool {
			return func(v ssa.Value) bool {
				fn := c.P.Fn(fnKey)
				if fn == nil {
					return false
				}
				p := paramAt(fn, name, idx)
				return p != nil && stripConv(v) == ssa.Value(p)
			}
		}
	}
	for _, fk := range []string{"spynode.(*Node).SubscribePushDatas", "spynode.(*Node).UnsubscribePushDatas"} {
		c.ruleLoopVisitsAll("R8", fk, isParam("pushDatas", 2)(fk), "listed-push-data",
			"the loop over the listed push datas can be left early without an error: the entries after that point are not (un)subscribed although the call reports success")
	}
	c.ruleSpliceRemovesOne("R9", 1, "spynode")
	c.ruleRelevantOnlyByMatch("R10")
	c.ruleEveryOutputParsed("R11")
	c.ruleRelevanceScansEverything("R13", "R14")
	c.ruleSubscriptionHashProvenance("R15")
	c.ruleContractSubscriptionIsFlag("R16")
	c.ruleLoopVarSliceStaysInIteration("R17", c.P.FuncsIn("client", "spynode"))

	// ---- R4 who may write
	nW := 0
	for _, fn := range c.P.FuncsIn("spynode") {
		for _, st := range storesToField(fn, fHashes) {
			nW++
			k := c.P.Key(topFn(fn))
			grow := appendOf(st.Val) != nil && loadOfField(appendOf(st.Val), fHashes) != nil
			switch {
			case grow:
				c.Decide(k == "spynode.(*Node).SubscribePushDatas", "R4", k+"#grows-subscriptions", st.Pos(), "who-may-write", nil, "only subscribe adds", "the subscribed list grows outside SubscribePushDatas")
			default:
				c.Decide(k == "spynode.(*Node).UnsubscribePushDatas", "R4", k+"#shrinks-subscriptions", st.Pos(), "who-may-write", nil, "only unsubscribe removes", "the subscribed list is replaced/shrunk outside UnsubscribePushDatas")
			}
		}
		for _, st := range storesToField(fn, fContracts) {
			k := c.P.Key(topFn(fn))
			b, isC := isConstBool(st.Val)
			want := map[string]bool{"spynode.(*Node).SubscribeContracts": true, "spynode.(*Node).UnsubscribeContracts": false}
			v, okFn := want[k]
			c.Decide(okFn && isC && b == v, "R4", k+"#contract-flag", st.Pos(), "who-may-write", nil, "contract flag written by its (un)subscribe method with the right value", "the contract subscription flag is written outside (Un)SubscribeContracts or with the wrong value")
		}
	}
	c.Min("R4", "writes of the subscribed list", nW, 2)
	c.lockset("R4", "spynode", "Node", "pushDataLock", map[*types.Var]bool{fHashes: true}, []string{"spynode"}, nil, 4)
	// unsubscribe removes exactly one occurrence per requested push data (break after removal)
	if fn := c.Fn("R4", "spynode.(*Node).UnsubscribePushDatas"); fn != nil {
		for _, st := range storesToField(fn, fHashes) {
			eq := equalEdge(func(x, y ssa.Value) bool {
				return derivesFromCall(x, "spynode.pushDataToHash") != nil || derivesFromCall(y, "spynode.pushDataToHash") != nil ||
					canonicalHashData(x) != nil || canonicalHashData(y) != nil
			}, true)
			okBreak := false
			for _, e := range dominatingEdges(st) {
				if !eq(e.Iff, e.Br) {
					continue
				}
				// the test sits in the scan over the subscribed list, and after the removal that scan is left
				if h := loopHeaderOf(e.Iff.Block()); h != nil {
					if rs := rangedSlice(h); rs != nil && loadOfField(rs, fHashes) != nil {
						body := loopBody(h)
						okBreak = !body[st.Block()] || !reachableWithin(st.Block(), h, nil) || leavesBeforeHeader(st.Block(), h, body)
					}
				}
			}
			ok, w := mustPass(st, eq)
			if ok && !okBreak {
				// the scan was written as a search that hands out the index of the match: the removal sits
				// after the scanning loop, which is then trivially left
				scans := 0
				outside := true
				for _, h := range loopHeadersOf(fn) {
					rs := rangedSlice(h)
					if rs == nil || loadOfField(rs, fHashes) == nil {
						continue
					}
					body := loopBody(h)
					hasEq := false
					for b := range body {
						if iff, isIf := lastIf(b); isIf && (eq(iff, 0) || eq(iff, 1)) {
							hasEq = true
						}
					}
					if !hasEq {
						continue
					}
					scans++
					if body[st.Block()] {
						outside = false
					}
				}
				okBreak = scans > 0 && outside
			}
			c.Decide(okBreak && ok, "R4", "spynode.(*Node).UnsubscribePushDatas#removes-one-matching-entry", st.Pos(), "edge-cutset+cfg-structure", w,
				"one entry equal to the canonical hash is removed, then the scan stops", "unsubscribe removes an entry that does not equal the requested hash, or keeps scanning after the removal (removing more than subscribing added)")
		}
	}

	// ---- R5 answers false only after everything was consulted
	var subs []ssa.Instruction
	for _, s := range callsTo(isRel, "(*spynode.Node).IsSubscribedToContracts") {
		subs = append(subs, s.Instr)
	}
	nF := 0
	for _, ret := range returnsOf(isRel) {
		for _, v := range resultValues(ret, 0) {
			if b, isC := isConstBool(v); isC && !b {
				nF++
				ok, w := alwaysPrecededBy(ret, subs)
				c.Decide(ok, "R5", "spynode.(*Node).IsRelevant#false-only-after-contract-check", ret.Pos(), "must-pass-through", w,
					"'not relevant' is answered only after the contract subscription was consulted", "IsRelevant can answer false without consulting the contract subscription: contract formations / instrument creations are missed in that state")
				// both families walked: every path to this return passes a loop over TxOut and a loop over TxIn
				for _, fam := range []string{"TxOut", "TxIn"} {
					var heads []ssa.Instruction
					for _, h := range isRel.Blocks {
						if loopBody(h) == nil {
							continue
						}
						if rs := rangedSlice(h); rs != nil && mentionsFieldNamed(rs, fam) && len(h.Instrs) > 0 {
							heads = append(heads, h.Instrs[len(h.Instrs)-1])
						}
					}
					// helper-based designs: a call whose argument mentions the family
					for _, s := range sitesIn(isRel) {
						for _, a := range s.CC.Args {
							if mentionsFieldNamed(a, fam) {
								heads = append(heads, s.Instr)
							}
						}
					}
					ok2, w2 := alwaysPrecededBy(ret, heads)
					if !ok2 {
						// an early "nothing subscribed" exit is behaviour-preserving for the script walks
						empty := func(iff *ssa.If, br int) bool {
							r, ok := edgeRel(iff, br)
							if !ok {
								return false
							}
							x, y, op := r.X, r.Y, r.Op
							if lenOf(x) == nil {
								x, y, op = y, x, swapOp(op)
							}
							l := lenOf(x)
							k, isC := constInt(y)
							return l != nil && loadOfField(l, fHashes) != nil && isC && ((k == 0 && (op == token.EQL || op == token.LEQ)) || (k == 1 && op == token.LSS))
						}
						ok2, w2 = mustPassOrHappen(ret, empty, heads)
					}
					c.Decide(ok2, "R5", "spynode.(*Node).IsRelevant#false-only-after-"+fam+"-scripts", ret.Pos(), "must-pass-through", w2,
						"'not relevant' is answered only after the "+fam+" scripts were walked", "IsRelevant can answer false without walking the "+fam+" scripts")
				}
			}
		}
	}
	c.Min("R5", "false returns of IsRelevant", nF, 1)
	for _, s := range callsTo(isRel, "spynode.checkContracts") {
		ok, w := mustPass(s.Instr, callEdge(true, -1, nil, "(*spynode.Node).IsSubscribedToContracts"))
		c.Decide(ok, "R5", "spynode.(*Node).IsRelevant#contracts-only-if-subscribed", s.Pos(), "edge-cutset", w,
			"contract actions count only when contracts are subscribed", "contract actions make a tx relevant although contracts are not subscribed")
	}
}

// fieldNamesReaching lists the names of struct fields in the backward slice of v, following helper
// parameters back to the arguments at the helper's call sites within fns.
func fieldNamesReaching(c *Check, v ssa.Value, in *ssa.Function, fns []*ssa.Function, depth int) []string {
	var out []string
	if depth > 3 {
		return out
	}
	for _, x := range rootsAll(v) {
		if f := fieldOfAddr(x); f != nil {
			out = append(out, f.Name())
		}
		if p, ok := x.(*ssa.Parameter); ok {
			pi := paramIndex(in, p)
			if pi < 0 {
				continue
			}
			for _, g := range fns {
				for _, s := range sitesIn(g) {
					if s.CC.StaticCallee() == in && pi < len(s.CC.Args) {
						out = append(out, fieldNamesReaching(c, s.CC.Args[pi], g, fns, depth+1)...)
					}
				}
			}
		}
	}
	return out
}

// canonOKShape: the function branches on len(b) == 20 with Hash160 only on the non-equal side.
func canonOKShape(fn *ssa.Function) bool {
	for _, b := range fn.Blocks {
		iff, ok := lastIf(b)
		if !ok {
			continue
		}
		r, ok := edgeRel(iff, 0)
		if !ok || (r.Op != token.EQL && r.Op != token.NEQ) {
			continue
		}
		k, isC := constInt(r.Y)
		if !isC || k != 20 || lenOf(r.X) == nil {
			continue
		}
		eqBr := 0
		if r.Op == token.NEQ {
			eqBr = 1
		}
		onOther, onEq := false, false
		for _, s := range sitesIn(fn) {
			if strings.HasSuffix(calleeName(s.CC), "bitcoin.Hash160") {
				if b.Succs[1-eqBr] == s.Instr.Block() || b.Succs[1-eqBr].Dominates(s.Instr.Block()) {
					onOther = true
				}
				if b.Succs[eqBr] == s.Instr.Block() || b.Succs[eqBr].Dominates(s.Instr.Block()) {
					onEq = true
				}
			}
		}
		if onOther && !onEq {
			return true
		}
	}
	return false
}

// leavesBeforeHeader: from b control cannot get back to loop header h while staying inside the loop.
func leavesBeforeHeader(b, h *ssa.BasicBlock, body map[*ssa.BasicBlock]bool) bool {
	back := false
	explore(succNodes(b), func(n walkNode) bool {
		if n.b == h {
			back = true
			return false
		}
		return body[n.b]
	})
	return !back
}

// onlyViaError: return block x is reached from the error successor without going through the loop
// again (so it is an outcome of the failed parse, not of a later iteration).
func onlyViaError(x, errSucc *ssa.BasicBlock, body map[*ssa.BasicBlock]bool) bool {
	if x == errSucc {
		return true
	}
	found := false
	explore(entryNodesVia(errSucc), func(n walkNode) bool {
		if n.b == x {
			found = true
			return false
		}
		if n.b != errSucc && loopBody(n.b) != nil {
			return false // a loop header: a new iteration starts here
		}
		return true
	})
	return found
}

// entryNodesVia: errSucc entered over the edges that carry the failed outcome. The callers only know
// the block; where it has a single predecessor the edge is known, otherwise no edge is assumed.
func entryNodesVia(b *ssa.BasicBlock) []walkNode {
	if len(b.Preds) == 1 {
		return []walkNode{mkNode(b.Preds[0], b)}
	}
	return []walkNode{{b: b}}
}

// countValueInstrs: the instructions of b that only compute the branch condition (no effects).
func countValueInstrs(b *ssa.BasicBlock) int {
	n := 0
	for _, in := range b.Instrs {
		switch in.(type) {
		case *ssa.BinOp, *ssa.UnOp, *ssa.ChangeInterface, *ssa.MakeInterface, *ssa.Extract, *ssa.Phi, *ssa.TypeAssert:
			n++
		}
	}
	return n
}

func functionAppends(f *ssa.Function) bool {
	for _, b := range f.Blocks {
		for _, in := range b.Instrs {
			if call, ok := in.(*ssa.Call); ok && builtinCall(call, "append") != nil {
				return true
			}
		}
	}
	return false
}

// leavesLoopBefore: from `from`, control can leave the loop body before reaching `to`.
func leavesLoopBefore(from, to *ssa.BasicBlock, body map[*ssa.BasicBlock]bool) bool {
	leaves := false
	explore(entryNodesVia(from), func(n walkNode) bool {
		if n.b == to {
			return false
		}
		if !body[n.b] {
			leaves = true
			return false
		}
		return true
	})
	return leaves
}

// leavesOnly: every path from b leaves the loop body without reaching the header again.
func leavesOnly(b *ssa.BasicBlock, body map[*ssa.BasicBlock]bool) bool {
	back := false
	explore(entryNodesVia(b), func(n walkNode) bool {
		if !body[n.b] {
			return false
		}
		if n.b != b && loopBody(n.b) != nil && sameLoop(n.b, body) {
			// back at the header: with the loop flag cleared on the way (`more = false; continue`) the
			// header can only leave - that is leaving, one block later
			stays := len(n.b.Succs) != 2
			for j, s2 := range n.b.Succs {
				if body[s2] && n.feasibleEdge(j) {
					stays = true
				}
			}
			if stays {
				back = true
			}
			return false
		}
		return true
	})
	return !back
}

func sameLoop(h *ssa.BasicBlock, body map[*ssa.BasicBlock]bool) bool {
	hb := loopBody(h)
	if len(hb) != len(body) {
		return false
	}
	for k := range hb {
		if !body[k] {
			return false
		}
	}
	return true
}
