package main

import (
	"fmt"
	"go/token"
	"go/types"
	"strings"

	"golang.org/x/tools/go/ssa"
)

func init() {
	register(&PropDef{
		ID:    "C02",
		Title: "Stored chain stays hash-linked and grows only at its tip for any peer input",
		Explanation: "Decides the guard/ownership skeleton of chain growth: " +
			"(R1) BlockRepository.Add/Revert/Load/Initialize are called only from the frozen set of chain writers (ProcessBlock, checkStartHeight, HeadersHandler.Handle, Node.load); " +
			"(R2) in ProcessBlock the header is added only behind Contains(hash)==false, header.PrevBlock == *LastHash() of the same repository, and IsMerkleRootValid()==true; " +
			"(R3) every checkStartHeight call (pre-start append) is behind equality of that header's PrevBlock with the last hash; " +
			"(R4) every enqueue in AddBlockRequest is behind parent-hash equality with the last queued/requested/saved hash; " +
			"(R5) the three views of the chain in BlockRepository (height, newest headers, hash->height map) are written together on every non-error path of every function that writes one of them; " +
			"(R6) they are accessed only under the repository mutex; " +
			"(R7) in ProcessBlock the block announcement follows the successful Add and its height is LastHeight() read after it; " +
			"(R8) in the header handler the loop-local last-hash cursor is rewritten in the same iteration after every call that moves the real last hash (checkStartHeight, AddBlockRequest, Revert); " +
			"(R9) Revert prunes the hash->height map with hashes obtained per height from the general getter, not from the newest-file cache.",
		NotDecided:  "that the two views are inverse for every message sequence (value level); contiguity of announced heights across reorg histories.",
		Assumptions: []string{"wire.BlockHeader.BlockHash is a pure function of the header", "tests may call the repository directly"},
		Tech:        "who-may-call, guard edge cut-sets with operand provenance, coupled field updates on all paths, lockset",
		Run:         runC02,
	})
	register(&PropDef{
		ID:    "C09",
		Title: "Block store queries stay consistent across add, revert, save and reload",
		Explanation: "Decides structural conditions of the block store API: " +
			"(R1) every index computed as a signed remainder of a caller-supplied height is reachable only behind a non-negativity test of that height (no panic below zero); " +
			"(R2) in Revert no in-memory view of the chain is modified on a path that can still reach an error return (a failing revert leaves the store unchanged); " +
			"(R3,R4) coupled updates and lockset as in C02; " +
			"(R5) in Node.GetHeaders every successful result's Headers is the accumulator of appended headers (the range is truncated at the tip, not replaced by an empty answer), and each append is behind a strict bound by the requested count; " +
			"(R6) the documented -1 is translated to the tip before the internal getters are used (Header, BlockHash, GetHeaders); " +
			"(R7) Revert re-reads the newest file from storage only after saving the in-memory tail, so an unsaved tail cannot be lost or resurrected; " +
			"(R8) the pruned hashes come from the general per-height getter; (R9) each removed file path depends on the removal loop's variable and the tail is saved before any removal.",
		NotDecided:  "file arithmetic at the 1000-header boundaries, save/load equality and the exact range count as value statements; behaviour of the two storage back ends.",
		Assumptions: []string{"storage calls are assumed fallible", "wire.BlockHeader (de)serialisation is trusted"},
		Tech:        "bounds guard edge cut-sets, all-or-nothing path typestate, value provenance of results",
		Run:         runC09,
	})
	register(&PropDef{
		ID:    "C10",
		Title: "A crash at any storage write leaves a chain store the node can resume from",
		Explanation: "Decides the ordering skeleton that keeps every crash image a loadable single-branch prefix: " +
			"(R1) in Revert no file removal can follow the truncating re-write of the remaining newest file (whole files are removed top-down first); " +
			"(R2) in Add a new file is started only on the success edge of saving the full one; " +
			"(R3) a failing Revert leaves memory unchanged (C09.R2); " +
			"(R4) in Load a further file is accepted only if the previous file was full; " +
			"(R5) in the reorg path of HeadersHandler.Handle the reorg record is saved successfully before BlockRepository.Revert, and the per-height tx-file removal loop comes before both; " +
			"(R6) in Revert the in-memory tail is saved before any file removal and every removal path follows the loop variable.",
		NotDecided:  "the property proper: enumeration of crash images and single-operation faults, and convergence after restart (dynamic fault enumeration).",
		Assumptions: []string{"each storage Write/Remove is atomic"},
		Tech:        "event-order path typestate on the CFG, guard edge cut-sets",
		Run:         runC10,
	})
}

type repoAnchors struct {
	height, lastHeaders, heights, mutex, store *types.Var
	set                                        map[*types.Var]bool
}

func (c *Check) repoAnchors(rule string) *repoAnchors {
	a := &repoAnchors{
		height:      c.P.Field("storage", "BlockRepository", "height"),
		lastHeaders: c.P.Field("storage", "BlockRepository", "lastHeaders"),
		heights:     c.P.Field("storage", "BlockRepository", "heights"),
		mutex:       c.P.Field("storage", "BlockRepository", "mutex"),
		store:       c.P.Field("storage", "BlockRepository", "store"),
	}
	if a.height == nil || a.lastHeaders == nil || a.heights == nil || a.mutex == nil || a.store == nil {
		c.Undecided(rule, "anchor:storage.BlockRepository fields", token.NoPos, "height/lastHeaders/heights/mutex/store not all found")
		return nil
	}
	a.set = map[*types.Var]bool{a.height: true, a.lastHeaders: true, a.heights: true}
	return a
}

// ---------------------------------------------------------------------------------------------

func runC02(c *Check) {
	a := c.repoAnchors("R0")
	if a == nil {
		return
	}
	// R1 who may call
	c.whoMayCall("R1", "(*storage.BlockRepository).Add", map[string]string{
		"spynode.(*Node).ProcessBlock":               "adds the processed block on top of the tip",
		"handlers.(HeadersHandler).checkStartHeight": "appends pre-start headers that link to the last hash",
	}, 2)
	c.whoMayCall("R1", "(*storage.BlockRepository).Revert", map[string]string{
		"handlers.(*HeadersHandler).Handle": "reorg below the tip announced by the trusted peer",
	}, 1)
	c.whoMayCall("R1", "(*storage.BlockRepository).Load", map[string]string{
		"spynode.(*Node).load": "start-up",
	}, 1)
	c.whoMayCall("R1", "(*storage.BlockRepository).Initialize", map[string]string{}, 0)

	// R2 ProcessBlock guards
	if fn := c.Fn("R2", "spynode.(*Node).ProcessBlock"); fn != nil {
		adds := callsTo(fn, "(*storage.BlockRepository).Add")
		for _, s := range adds {
			key := "spynode.(*Node).ProcessBlock#blocks.Add"
			hdr := s.Args()[len(s.Args())-1] // *wire.BlockHeader being added
			ok, w := mustPass(s.Instr, callEdge(false, -1, nil, "(*storage.BlockRepository).Contains"))
			c.Decide(ok, "R2", key+"#not-contained", s.Pos(), "edge-cutset", w, "behind Contains(hash)==false", "the header can be added although the block is already in the chain")
			link := equalEdge(func(x, y ssa.Value) bool {
				return mentionsFieldNamed(x, "PrevBlock") && derivesFromValue(x, hdr) &&
					derivesFromCall(y, "(*storage.BlockRepository).LastHash") != nil
			}, true)
			ok, w = mustPass(s.Instr, link)
			c.Decide(ok, "R2", key+"#parent-is-tip", s.Pos(), "edge-cutset+provenance", w,
				"behind header.PrevBlock == *blocks.LastHash() for the header being added",
				"a block can be added whose parent is not the current tip (no PrevBlock == LastHash() guard for the added header)")
			ok, w = mustPass(s.Instr, condEdge(func(cd Cond) (bool, bool) {
				if cd.Call != nil && cd.Call.Call.IsInvoke() && cd.Call.Call.Method.Name() == "IsMerkleRootValid" {
					return true, true
				}
				return false, false
			}))
			c.Decide(ok, "R2", key+"#merkle-valid", s.Pos(), "edge-cutset", w, "behind block.IsMerkleRootValid()==true", "a block is added to the chain without a successful merkle-root validation")
		}
		c.Min("R2", "blocks.Add calls in ProcessBlock", len(adds), 1)

		// R7 announcement after Add with height read after it
		var addI []ssa.Instruction
		for _, s := range adds {
			addI = append(addI, s.Instr)
		}
		n7 := 0
		for _, s := range sitesIn(fn) {
			if !s.CC.IsInvoke() || s.CC.Method.Name() != "HandleHeaders" {
				continue
			}
			n7++
			ok, w := alwaysPrecededBy(s.Instr, addI)
			c.Decide(ok, "R7", "spynode.(*Node).ProcessBlock#HandleHeaders-after-Add", s.Pos(), "path-typestate", w,
				"block announcement only after blocks.Add", "a block can be announced to handlers on a path that did not add it to the chain")
			// StartHeight provenance
			sh := false
			if len(s.CC.Args) >= 2 {
				for _, v := range rootsAll(s.CC.Args[1]) {
					al, isAl := v.(*ssa.Alloc)
					if !isAl {
						continue
					}
					for _, ref := range *al.Referrers() {
						fa, isFA := ref.(*ssa.FieldAddr)
						if !isFA || fieldOfAddr(fa) == nil || fieldOfAddr(fa).Name() != "StartHeight" {
							continue
						}
						for _, r2 := range *fa.Referrers() {
							if st, isSt := r2.(*ssa.Store); isSt {
								if lh := derivesFromCall(st.Val, "(*storage.BlockRepository).LastHeight"); lh != nil {
									if okp, _ := alwaysPrecededBy(lh, addI); okp {
										sh = true
									}
								}
							}
						}
					}
				}
			}
			c.Decide(sh, "R7", "spynode.(*Node).ProcessBlock#announced-height", s.Pos(), "provenance", nil,
				"announced StartHeight is LastHeight() read after the Add", "the announced height is not the repository height read after adding the block")
		}
		c.Min("R7", "HandleHeaders calls in ProcessBlock", n7, 1)
	}

	// R3 pre-start append
	if fn := c.Fn("R3", "handlers.(*HeadersHandler).Handle"); fn != nil {
		sites := callsTo(fn, "(handlers.HeadersHandler).checkStartHeight")
		for i, s := range sites {
			args := s.Args()
			hdr := args[len(args)-1]
			g := equalEdge(func(x, y ssa.Value) bool {
				return mentionsFieldNamed(x, "PrevBlock") && derivesFromValue(x, hdr)
			}, true)
			ok, w := mustPass(s.Instr, g)
			c.Decide(ok, "R3", fmt.Sprintf("handlers.(*HeadersHandler).Handle#checkStartHeight-%d-linked", i+1), s.Pos(), "edge-cutset+provenance", w,
				"behind lastHash == header.PrevBlock for this header", "a header can be appended to the chain (pre-start) without its PrevBlock being compared equal to the last hash")
		}
		c.Min("R3", "checkStartHeight calls", len(sites), 2)
	}

	// R4 enqueue linkage
	if sa := c.stateAnchors("R4"); sa != nil {
		c.ruleEnqueueLinkage("R4", sa)
	}

	// R5 coupled updates
	c.ruleRepoCoupled("R5", a)

	// R6 lockset
	c.lockset("R6", "storage", "BlockRepository", "mutex", a.set, []string{"storage"}, nil, 30)

	// R8 / R9 (added after seeded round 2)
	c.ruleHeaderCursorRefreshed("R8")
	c.ruleCursorStoreAfterAdmission("R10")
	c.ruleRevertPrunesViaGetter("R9", a)
	c.ruleRevertRemovesRevertedHeights("R11")
	c.ruleStartHeightIsNextHeight("R12")
	c.ruleEveryAddedBlockAnnounced("R13")
	c.ruleTipReadNotStale("R14")
	c.ruleGenesisAtHeightZero("R15", a)
	c.ruleCursorIsOwnHash("R16")
	c.ruleCursorMovesAfterRevert("R17")
}

// ruleRepoCoupled: any function that writes one of (height, lastHeaders, heights) writes the others on
// every non-error path.
func (c *Check) ruleRepoCoupled(rule string, a *repoAnchors) {
	n := 0
	for _, fn := range c.P.FuncsIn("storage") {
		accs := fieldAccesses(fn, a.set)
		writes := map[*types.Var][]ssa.Instruction{}
		fresh := false
		for _, ac := range accs {
			if !ac.Write {
				continue
			}
			if fa := accessAddr(ac); fa != nil && isFreshObject(fa) {
				fresh = true
				continue
			}
			writes[ac.Field] = append(writes[ac.Field], ac.Instr)
		}
		if len(writes) == 0 || fresh {
			continue
		}
		n++
		c.Touch(fn)
		key := c.P.Key(fn) + "#chain-views-coupled"
		var missing []string
		var wit []string
		for f := range a.set {
			if len(writes[f]) == 0 {
				missing = append(missing, f.Name())
			}
		}
		if len(missing) > 0 {
			c.Bad(rule, key, fn.Pos(), "coupled-updates", nil, "%s writes %d of the three chain views but never writes %s", c.P.Key(fn), len(writes), strings.Join(missing, ", "))
			continue
		}
		ok := true
		for f, ws := range writes {
			for g, others := range writes {
				if f == g {
					continue
				}
				ev := withLoopHeaders(others, nil)
				for _, w := range ws {
					okB, _ := alwaysPrecededBy(w, ev)
					okA, wA := alwaysFollowedBy(w, ev, false, isErrorReturnBlock)
					if !okB && !okA {
						ok = false
						wit = append([]string{fmt.Sprintf("write of %s at %s is not accompanied by a write of %s:", f.Name(), c.P.Pos(w.Pos()), g.Name())}, wA...)
					}
				}
			}
		}
		c.Decide(ok, rule, key, fn.Pos(), "coupled-updates", wit,
			"height, lastHeaders and heights are written together on every non-error path",
			"the chain views can get out of step: one is written on a path that does not write another")
	}
	c.Min(rule, "functions writing the chain views", n, 4)
}

// ---------------------------------------------------------------------------------------------

func runC09(c *Check) {
	a := c.repoAnchors("R0")
	if a == nil {
		return
	}
	// R1 negative remainder index
	n1 := 0
	for _, fn := range c.P.FuncsIn("storage") {
		for _, b := range fn.Blocks {
			for _, in := range b.Instrs {
				var idx ssa.Value
				switch x := in.(type) {
				case *ssa.IndexAddr:
					idx = x.Index
				case *ssa.Index:
					idx = x.Index
				default:
					continue
				}
				// the index is a remainder: x % k, or spelled out x - (x/k)*k
				var rem *ssa.BinOp
				li := linOfValue(idx)
				for t, cf := range li.terms {
					if bo, ok := stripConv(li.atoms[t]).(*ssa.BinOp); ok && (bo.Op == token.REM || bo.Op == token.QUO) {
						if k, isC := constInt(bo.Y); isC && k > 0 && cf == -k && len(li.terms) == 2 && li.k == 0 {
							rem = bo
						}
					}
				}
				if rem == nil {
					continue
				}
				bt, isBasic := rem.X.Type().Underlying().(*types.Basic)
				if !isBasic || bt.Info()&types.IsUnsigned != 0 {
					continue
				}
				// dividend must come from a parameter
				pi := -1
				for i, p := range fn.Params {
					if derivesFromValue(rem.X, p) {
						pi = i
					}
				}
				if pi < 0 {
					continue
				}
				n1++
				c.Touch(fn)
				p := fn.Params[pi]
				// the test may be on the parameter or on the value derived from it that is actually divided
				g := lowerBoundEdge(func(v ssa.Value) bool { return v == ssa.Value(p) || v == rem.X || sameExpr(v, rem.X) }, 0)
				okG, w := mustPass(in, g)
				c.Decide(okG, "R1", c.P.Key(fn)+"#index-by-remainder-of-"+p.Name(), in.Pos(), "bounds edge-cutset", w,
					"index height%N reachable only behind height >= 0",
					"a negative caller-supplied "+p.Name()+" reaches an index computed as "+p.Name()+" % N (negative remainder => out-of-range panic once a full file exists)")
			}
		}
	}
	c.Min("R1", "remainder-indexed reads in storage", n1, 3)

	// R2 Revert all-or-nothing
	if fn := c.Fn("R2", "storage.(*BlockRepository).Revert"); fn != nil {
		nW := 0
		for _, ac := range fieldAccesses(fn, a.set) {
			if !ac.Write {
				continue
			}
			nW++
			bad := false
			var wit []string
			for _, b := range fn.Blocks {
				if isErrorReturnBlock(b) && ac.Instr.Block() != b && canReachFromInstr(ac.Instr, b) {
					bad = true
					wit = []string{fmt.Sprintf("%s of %s at %s can be followed by the error return at %s", ac.Kind, ac.Field.Name(), c.P.Pos(ac.Instr.Pos()), c.P.Pos(lastPos(b)))}
					break
				}
			}
			c.Decide(!bad, "R2", fmt.Sprintf("storage.(*BlockRepository).Revert#%s-%s-after-last-fallible-step", ac.Kind, ac.Field.Name()), ac.Instr.Pos(), "path-typestate", wit,
				"no error return is reachable after this write", "Revert modifies "+ac.Field.Name()+" and can still fail afterwards: a failing revert would leave Contains/Height disagreeing with Hash(h)")
		}
		c.Min("R2", "writes to the chain views in Revert", nW, 3)

		// R7 re-read only after save
		var saves []ssa.Instruction
		for _, s := range callsTo(fn, "(*storage.BlockRepository).save") {
			saves = append(saves, s.Instr)
		}
		nR := 0
		for _, s := range sitesIn(fn) {
			if !s.CC.IsInvoke() || s.CC.Method.Name() != "Read" {
				continue
			}
			nR++
			ok, w := alwaysPrecededBy(s.Instr, saves)
			// alternative accepted design: lastHeaders rebuilt from memory, not from this read
			c.Decide(ok, "R7", "storage.(*BlockRepository).Revert#reload-after-save", s.Pos(), "path-typestate", w,
				"the newest file is re-read only after the in-memory tail was saved",
				"Revert rebuilds the in-memory tail from the stored newest file without saving the tail first: headers added since the last Save are lost (or a shorter stale file is loaded) while height is set to the target")
		}
		c.Min("R7", "storage reads in Revert", nR, 1)
	}

	// R8/R9 (added after seeded round 2)
	c.ruleRevertPrunesViaGetter("R8", a)
	c.ruleRevertFileLoop("R9")
	c.ruleMakeSizesBounded("R10", "spynode.(*Node).GetHeaders")
	c.ruleReadIsFresh("R11", a)
	c.ruleHeadersRangeIsMaxCount("R14")
	c.ruleHeightGettersAgree("R13")
	c.ruleRevertStartsAtNewestFile("R15")
	c.ruleLatestHeadersStart("R16")
	c.ruleGenesisAtHeightZero("R17", a)
	c.ruleRepoWritesUnderLock("R18", a)
	c.ruleTruncatedFileRewrittenInPlace("R19", a)
	c.ruleExplicitHeightNotClamped("R20")
	c.ruleSaveNotSkipped("R12", []string{"storage.(*BlockRepository).save", "storage.(*BlockRepository).Save"}, "storage", "BlockRepository",
		map[*types.Var]bool{a.lastHeaders: true, a.height: true}, map[string]bool{"storage.(*BlockRepository).Load": true, "storage.NewBlockRepository": true})

	// R3/R4
	c.ruleRepoCoupled("R3", a)
	c.lockset("R4", "storage", "BlockRepository", "mutex", a.set, []string{"storage"}, nil, 30)

	// R5 GetHeaders
	if fn := c.Fn("R5", "spynode.(*Node).GetHeaders"); fn != nil {
		// accumulator: value appended with results of blocks.Header
		var appends []*ssa.Call
		for _, b := range fn.Blocks {
			for _, in := range b.Instrs {
				if call, ok := in.(*ssa.Call); ok && builtinCall(call, "append") != nil {
					if derivesFromCall(call.Call.Args[1], "(*storage.BlockRepository).Header") != nil {
						appends = append(appends, call)
					}
				}
			}
		}
		c.Min("R5", "appends of fetched headers in GetHeaders", len(appends), 1)
		maxCount := paramAt(fn, "maxCount", 3)
		for _, ap := range appends {
			if maxCount == nil {
				c.Undecided("R5", "anchor:GetHeaders.maxCount", fn.Pos(), "count parameter not found")
				break
			}
			strict := func(iff *ssa.If, br int) bool {
				r, ok := edgeRel(iff, br)
				if !ok {
					return false
				}
				x, y, op := r.X, r.Y, r.Op
				if !derivesFromValue(y, maxCount) {
					x, y, op = y, x, swapOp(op)
				}
				if !derivesFromValue(y, maxCount) || derivesFromValue(x, maxCount) && !isPhiLike(x) {
					return false
				}
				return op == token.LSS
			}
			ok, w := mustPass(ap, strict)
			c.Decide(ok, "R5", "spynode.(*Node).GetHeaders#append-bounded-by-count", ap.Pos(), "bounds edge-cutset", w,
				"each appended header is behind `i < start+maxCount` (strict)",
				"headers are appended without a strict bound by the requested count (a range request returns more than maxCount headers)")
		}
		nOK := 0
		for _, ret := range returnsOf(fn) {
			if isNil, known := errIsNilReturn(ret); !known || !isNil {
				continue
			}
			nOK++
			derives := false
			for _, v := range resultValues(ret, 0) {
				for _, x := range rootsAll(v) {
					al, isAl := x.(*ssa.Alloc)
					if !isAl {
						continue
					}
					for _, ref := range *al.Referrers() {
						if fa, isFA := ref.(*ssa.FieldAddr); isFA && fieldOfAddr(fa) != nil && fieldOfAddr(fa).Name() == "Headers" {
							for _, r2 := range *fa.Referrers() {
								if st, isSt := r2.(*ssa.Store); isSt {
									for _, ap := range appends {
										if derivesFromValue(st.Val, ap) {
											derives = true
										}
									}
								}
							}
						}
					}
				}
			}
			c.Decide(derives, "R5", "spynode.(*Node).GetHeaders#result-is-accumulator", ret.Pos(), "provenance", nil,
				"successful result carries the accumulated headers", "a successful GetHeaders result does not carry the headers collected so far (reaching the tip must truncate the range, not empty it)")
		}
		c.Min("R5", "successful returns of GetHeaders", nOK, 1)
	}

	// R6 -1 means tip
	for _, spec := range []struct{ fn, callee string }{
		{"storage.(*BlockRepository).Header", "(*storage.BlockRepository).getHeader"},
		{"spynode.(*Node).BlockHash", "(*storage.BlockRepository).Hash"},
		{"spynode.(*Node).GetHeaders", "(*storage.BlockRepository).Header"},
	} {
		fn := c.Fn("R6", spec.fn)
		if fn == nil {
			continue
		}
		hp := paramAt(fn, "height", 2)
		if hp == nil {
			c.Undecided("R6", "anchor:"+spec.fn+".height", fn.Pos(), "height parameter not found")
			continue
		}
		isMinusOne := func(want bool) EdgePred {
			return func(iff *ssa.If, br int) bool {
				r, ok := edgeRel(iff, br)
				if !ok || (r.Op != token.EQL && r.Op != token.NEQ) {
					return false
				}
				k, isC := constInt(r.Y)
				if !isC || k != -1 || r.X != ssa.Value(hp) {
					return false
				}
				return (r.Op == token.EQL) == want
			}
		}
		anyTip := false
		sites := callsTo(fn, spec.callee)
		for _, s := range sites {
			args := s.Args()
			h := args[len(args)-1]
			tip, raw := false, false
			for _, x := range rootsAll(h) {
				if loadOfField(x, a.height) != nil {
					tip = true
				}
				if call, isCall := x.(*ssa.Call); isCall && calleeShort(&call.Call) == "(*storage.BlockRepository).LastHeight" {
					tip = true
				}
				if x == ssa.Value(hp) {
					raw = true
				}
			}
			if tip {
				anyTip = true
			}
			ok := true
			var w []string
			switch {
			case tip && raw:
				// one call, the argument is selected by a test of height against -1
				ok = false
				for _, b := range fn.Blocks {
					if iff, isIf := lastIf(b); isIf && (isMinusOne(true)(iff, 0) || isMinusOne(true)(iff, 1)) {
						ok = true
					}
				}
			case tip:
				ok, w = mustPass(s.Instr, isMinusOne(true))
			case raw:
				// the raw height is passed on only where it is known not to be -1
				ok, w = mustPass(s.Instr, isMinusOne(false))
			}
			c.Decide(ok, "R6", spec.fn+"#minus-one-is-tip", s.Pos(), "provenance+edge-cutset", w,
				"-1 is translated to the repository height before the lookup", "the documented -1 (tip) is not translated to the repository height before "+spec.callee+" is called")
		}
		c.Decide(anyTip || len(sites) == 0, "R6", spec.fn+"#handles-minus-one", fn.Pos(), "provenance", nil,
			"some lookup is made with the tip height", "no lookup in "+spec.fn+" uses the tip height: the documented -1 is not supported")
	}
}

func isPhiLike(v ssa.Value) bool {
	_, ok := v.(*ssa.Phi)
	return ok
}

func lastPos(b *ssa.BasicBlock) token.Pos {
	for i := len(b.Instrs) - 1; i >= 0; i-- {
		if p := b.Instrs[i].Pos(); p.IsValid() {
			return p
		}
	}
	return token.NoPos
}

// canReachFromInstr: block `to` can execute after instruction a.
func canReachFromInstr(a ssa.Instruction, to *ssa.BasicBlock) bool {
	for _, s := range a.Block().Succs {
		if reachable(s, to) {
			return true
		}
	}
	return false
}

// ---------------------------------------------------------------------------------------------

func runC10(c *Check) {
	a := c.repoAnchors("R0")
	if a == nil {
		return
	}
	if fn := c.Fn("R1", "storage.(*BlockRepository).Revert"); fn != nil {
		var removes, truncWrites []Site
		for _, s := range sitesIn(fn) {
			if !s.CC.IsInvoke() {
				continue
			}
			switch s.CC.Method.Name() {
			case "Remove":
				removes = append(removes, s)
			case "Write":
				// truncating write: data derives from a Read in this function
				if len(s.CC.Args) >= 3 {
					for _, x := range rootsAll(s.CC.Args[2]) {
						if call, ok := x.(*ssa.Call); ok && call.Call.IsInvoke() && call.Call.Method.Name() == "Read" {
							truncWrites = append(truncWrites, s)
							break
						}
					}
				}
			}
		}
		for _, w := range truncWrites {
			bad := false
			var wit []string
			for _, r := range removes {
				if canFollow(w.Instr, r.Instr) {
					bad = true
					wit = []string{fmt.Sprintf("Remove at %s can execute after the truncating Write at %s", c.P.Pos(r.Pos()), c.P.Pos(w.Pos()))}
				}
			}
			c.Decide(!bad, "R1", "storage.(*BlockRepository).Revert#remove-before-truncate", w.Pos(), "event-order", wit,
				"whole files are removed before the remaining newest file is truncated",
				"a block file can be removed after the newest remaining file was truncated: a crash in between leaves a short file below a full one, which Load rejects")
		}
		c.Min("R1", "truncating writes in Revert", len(truncWrites), 1)
		c.Min("R1", "file removals in Revert", len(removes), 1)
	}

	c.ruleRevertFileLoop("R6")
	c.ruleSetLastHashAfterAdd("R7")
	c.ruleRevertStartsAtNewestFile("R8")
	c.ruleHeightGettersAgree("R9")
	c.ruleRevertRemovesRevertedHeights("R10")
	if a := c.repoAnchors("R11"); a != nil {
		c.ruleRepoWritesUnderLock("R11", a)
		c.ruleTruncatedFileRewrittenInPlace("R12", a)
		c.ruleCursorMovesAfterRevert("R13")
		c.ruleForkAlwaysFollowed("R14")
	}

	if fn := c.Fn("R2", "storage.(*BlockRepository).Add"); fn != nil {
		n := 0
		for _, st := range storesToField(fn, a.lastHeaders) {
			if mentionsField(st.Val, a.lastHeaders) {
				continue // append to the current file
			}
			n++
			ok, w := mustPass(st, errNilEdge(callNamed("(*storage.BlockRepository).save"), true))
			c.Decide(ok, "R2", "storage.(*BlockRepository).Add#new-file-after-save", st.Pos(), "edge-cutset", w,
				"a new file is started only after the full one was saved successfully",
				"Add starts a new header file without a successful save of the full file: the full file may never reach storage")
		}
		c.Min("R2", "new-file resets in Add", n, 1)
	}

	// R3 == C09.R2 (re-evaluated here so that C10 stands alone)
	if fn := c.Fn("R3", "storage.(*BlockRepository).Revert"); fn != nil {
		for _, ac := range fieldAccesses(fn, a.set) {
			if !ac.Write {
				continue
			}
			bad := false
			for _, b := range fn.Blocks {
				if isErrorReturnBlock(b) && ac.Instr.Block() != b && canReachFromInstr(ac.Instr, b) {
					bad = true
				}
			}
			c.Decide(!bad, "R3", fmt.Sprintf("storage.(*BlockRepository).Revert#%s-%s-after-last-fallible-step", ac.Kind, ac.Field.Name()), ac.Instr.Pos(), "path-typestate", nil,
				"no error return is reachable after this write", "Revert modifies "+ac.Field.Name()+" and can still fail afterwards (single-operation failure leaves memory inconsistent)")
		}
	}

	if fn := c.Fn("R4", "storage.(*BlockRepository).Load"); fn != nil {
		full := int64(1000)
		if k, ok := c.P.ByRel["storage"].Types.Scope().Lookup("blocksPerKey").(*types.Const); ok {
			if v, ok := constantInt(k); ok {
				full = v
			}
		}
		n := 0
		for _, ac := range fieldAccesses(fn, map[*types.Var]bool{a.heights: true}) {
			if ac.Kind != "mapupdate" || loopHeaderOf(ac.Instr.Block()) == nil {
				continue
			}
			n++
			g := func(iff *ssa.If, br int) bool {
				r, ok := edgeRel(iff, br)
				if !ok || r.Op != token.EQL {
					return false
				}
				k, isC := constInt(r.Y)
				if !isC {
					return false
				}
				if _, isPhi := r.X.(*ssa.Phi); !isPhi {
					return false
				}
				return k == full || k == -1
			}
			ok, w := mustPass(ac.Instr, g)
			c.Decide(ok, "R4", "storage.(*BlockRepository).Load#next-file-only-after-full-file", ac.Instr.Pos(), "edge-cutset", w,
				"a further file is indexed only if the previous file was full (or there was none)",
				"Load accepts a file following a short (non-final) file: a torn image would be concatenated into a chain with a gap")
		}
		c.Min("R4", "per-file index updates in Load", n, 1)
	}

	if fn := c.Fn("R5", "handlers.(*HeadersHandler).Handle"); fn != nil {
		reverts := callsTo(fn, "(*storage.BlockRepository).Revert")
		for _, s := range reverts {
			ok, w := mustPass(s.Instr, errNilEdge(callNamed("(*storage.ReorgRepository).Save"), true))
			c.Decide(ok, "R5", "handlers.(*HeadersHandler).Handle#reorg-saved-before-revert", s.Pos(), "edge-cutset", w,
				"blocks.Revert only after reorgs.Save succeeded", "the block store is reverted without the reorg record having been saved successfully")
			rm := callsTo(fn, "(*storage.TxRepository).RemoveBlock", "(*storage.TxRepository).ReleaseBlock")
			okLoop := len(rm) > 0
			for _, r := range rm {
				h := loopHeaderOf(r.Instr.Block())
				if h == nil || !h.Dominates(s.Instr.Block()) || canFollowSameIteration(s.Instr, r.Instr, fn) {
					okLoop = false
				}
			}
			c.Decide(okLoop, "R5", "handlers.(*HeadersHandler).Handle#tx-files-removed-before-revert", s.Pos(), "event-order", nil,
				"the per-height tx-file removal loop precedes the revert", "tx files of reverted heights are not all removed before the block store is reverted")
		}
		c.Min("R5", "Revert calls in Handle", len(reverts), 1)
	}
}

// canFollowSameIteration: b can execute after a without starting a new iteration of any loop that
// contains a (i.e. without passing through the header of a loop enclosing a).
func canFollowSameIteration(a, b ssa.Instruction, fn *ssa.Function) bool {
	if a.Block() == b.Block() && instrIndex(a) < instrIndex(b) {
		return true
	}
	stop := map[*ssa.BasicBlock]bool{}
	for _, h := range enclosingLoops(a.Block()) {
		stop[h] = true
	}
	seen := map[*ssa.BasicBlock]bool{}
	var q []*ssa.BasicBlock
	for _, s := range a.Block().Succs {
		if !stop[s] && !seen[s] {
			seen[s] = true
			q = append(q, s)
		}
	}
	for len(q) > 0 {
		x := q[0]
		q = q[1:]
		if x == b.Block() {
			return true
		}
		for _, s := range x.Succs {
			if stop[s] || seen[s] {
				continue
			}
			seen[s] = true
			q = append(q, s)
		}
	}
	return false
}
