package main

// Rules added after seeding round 5 (DESIGN.md section 8.7, marker ✦ in section 4).

import (
	"fmt"
	"go/ast"
	"go/token"
	"go/types"
	"strings"

	"golang.org/x/tools/go/ssa"
)

// ---------------------------------------------------------------------------------------------
// small helpers

// reachNoRevisit: instruction `to` can execute after `from` on a path that does not enter block cut
// again (cut is normally the block of the value whose freshness is in question).
func reachNoRevisit(from, to ssa.Instruction, cut *ssa.BasicBlock) bool {
	fb, tb := from.Block(), to.Block()
	if fb == tb && instrIndex(from) < instrIndex(to) {
		return true
	}
	seen := map[*ssa.BasicBlock]bool{}
	q := append([]*ssa.BasicBlock{}, fb.Succs...)
	for len(q) > 0 {
		x := q[0]
		q = q[1:]
		if seen[x] || x == cut {
			continue
		}
		seen[x] = true
		if x == tb {
			return true
		}
		q = append(q, x.Succs...)
	}
	return false
}

// loopPos: a usable source position for a loop header.
func loopPos(h *ssa.BasicBlock) token.Pos {
	if iff, ok := lastIf(h); ok {
		if p := ifPos(iff); p.IsValid() {
			return p
		}
	}
	for _, in := range h.Instrs {
		if in.Pos().IsValid() {
			return in.Pos()
		}
	}
	return h.Parent().Pos()
}

// commaOkOfField: v is the ok result of `_, ok := <field f>[k]`.
func commaOkOfField(v ssa.Value, f *types.Var) bool {
	ex, ok := v.(*ssa.Extract)
	if !ok || ex.Index != 1 {
		return false
	}
	lk, ok := ex.Tuple.(*ssa.Lookup)
	return ok && lk.CommaOk && loadOfField(lk.X, f) != nil
}

// selectSends lists the send states of select statements in fn: (select instruction, channel).
func selectSends(fn *ssa.Function) (out []struct {
	Sel  *ssa.Select
	Chan ssa.Value
}) {
	for _, b := range fn.Blocks {
		for _, in := range b.Instrs {
			if sel, ok := in.(*ssa.Select); ok {
				for _, st := range sel.States {
					if st.Dir == types.SendOnly {
						out = append(out, struct {
							Sel  *ssa.Select
							Chan ssa.Value
						}{sel, st.Chan})
					}
				}
			}
		}
	}
	return out
}

// isFreshError: v is an error made on the spot (errors.New / fmt.Errorf / Errorf) that does not wrap
// an error value handed to it.
func isFreshError(v ssa.Value) bool {
	v = stripIfaceConv(v)
	call, ok := v.(*ssa.Call)
	if !ok {
		return false
	}
	n := calleeName(&call.Call)
	if !(strings.HasSuffix(n, "errors.New") || strings.HasSuffix(n, "fmt.Errorf") || strings.HasSuffix(n, "errors.Errorf")) {
		return false
	}
	errT := types.Universe.Lookup("error").Type()
	for _, a := range call.Call.Args {
		for _, r := range rootsAll(a) {
			if _, isC := r.(*ssa.Const); isC {
				continue
			}
			if types.Identical(r.Type(), errT) {
				return false
			}
		}
	}
	return true
}

// ---------------------------------------------------------------------------------------------
// C02.R13: every block added to the chain is announced

// ruleEveryAddedBlockAnnounced: in ProcessBlock every path from the successful blocks.Add to a
// non-error return passes the HandleHeaders announcement (or the loop over the handlers that makes
// it). An early `return nil` for blocks that "have nothing to report" leaves a gap in the announced
// heights.
func (c *Check) ruleEveryAddedBlockAnnounced(rule string) {
	fn := c.Fn(rule, "spynode.(*Node).ProcessBlock")
	if fn == nil {
		return
	}
	var ann []ssa.Instruction
	for _, s := range sitesIn(fn) {
		if s.CC.IsInvoke() && s.CC.Method.Name() == "HandleHeaders" {
			ann = append(ann, s.Instr)
		}
	}
	adds := callsTo(fn, "(*storage.BlockRepository).Add")
	if len(ann) == 0 {
		c.Undecided(rule, "spynode.(*Node).ProcessBlock#announcement", fn.Pos(), "no HandleHeaders call found")
		return
	}
	ev := withLoopHeaders(ann, nil)
	for _, s := range adds {
		ok, w := alwaysFollowedBy(s.Instr, ev, false, isErrorReturnBlock)
		c.Decide(ok, rule, "spynode.(*Node).ProcessBlock#every-added-block-announced", s.Pos(), "must-pass-through", w,
			"every non-error path after blocks.Add passes the HandleHeaders announcement",
			"ProcessBlock can return successfully after adding the block to the chain without announcing it to the handlers: the announced heights are no longer contiguous")
	}
	c.Min(rule, "blocks.Add calls in ProcessBlock", len(adds), 1)
}

// ---------------------------------------------------------------------------------------------
// C02.R14: the tip handed to the request state is not stale

// ruleTipReadNotStale: in HeadersHandler.Handle a value read from blocks.LastHash() and stored with
// State.SetLastHash is still the tip when it is stored: no call that can move the chain or the
// request state's last hash (checkStartHeight, AddBlockRequest, BlockRepository.Add / Revert, another
// SetLastHash) executes between the read and the store. Otherwise the store puts the last hash back
// behind a header that was just appended, and the next header is linked to the wrong parent.
func (c *Check) ruleTipReadNotStale(rule string) {
	fn := c.Fn(rule, "handlers.(*HeadersHandler).Handle")
	if fn == nil {
		return
	}
	g := c.Graph()
	moverFns := map[*ssa.Function]bool{}
	var targets []*ssa.Function
	for _, k := range []string{"storage.(*BlockRepository).Add", "storage.(*BlockRepository).Revert", "state.(*State).SetLastHash", "state.(*State).AddBlockRequest"} {
		if f := c.P.Fn(k); f != nil {
			targets = append(targets, f)
			moverFns[f] = true
		}
	}
	if len(targets) < 4 {
		c.Undecided(rule, "anchor:chain movers", fn.Pos(), "BlockRepository.Add/Revert, State.SetLastHash/AddBlockRequest not all found")
		return
	}
	reaches := func(f *ssa.Function) bool {
		if f == nil {
			return false
		}
		if moverFns[f] {
			return true
		}
		pred := g.Reach([]*ssa.Function{f}, func(x *ssa.Function) bool { return !inModule(pkgOf(x)) })
		for _, t := range targets {
			if _, ok := pred[t]; ok {
				return true
			}
		}
		return false
	}
	var movers []Site
	for _, s := range sitesIn(fn) {
		var callees []*ssa.Function
		if sc := s.CC.StaticCallee(); sc != nil {
			callees = append(callees, sc)
		} else {
			for _, e := range g.Callees(fn) {
				if e.Site == s.Instr {
					callees = append(callees, e.To)
				}
			}
		}
		for _, f := range callees {
			if f.Pkg != nil && inModule(f.Pkg.Pkg) && reaches(f) {
				movers = append(movers, s)
				break
			}
		}
	}
	n := 0
	for _, s := range callsTo(fn, "(*state.State).SetLastHash") {
		args := s.Args()
		if len(args) == 0 {
			continue
		}
		read := derivesFromCall(args[len(args)-1], "(*storage.BlockRepository).LastHash")
		if read == nil {
			continue
		}
		n++
		var bad *Site
		for i := range movers {
			m := movers[i]
			if m.Instr == s.Instr || m.Instr == ssa.Instruction(read) {
				continue
			}
			if reachNoRevisit(read, m.Instr, read.Block()) && reachNoRevisit(m.Instr, s.Instr, read.Block()) {
				bad = &movers[i]
				break
			}
		}
		var w []string
		if bad != nil {
			w = []string{fmt.Sprintf("tip read at %s, %s at %s, stored at %s", c.P.Pos(read.Pos()), calleeShort(bad.CC), c.P.Pos(bad.Pos()), c.P.Pos(s.Pos()))}
		}
		c.Decide(bad == nil, rule, fmt.Sprintf("handlers.(*HeadersHandler).Handle#tip-still-current-when-stored@%d", n), s.Pos(), "event order", w,
			"no chain-moving call between reading blocks.LastHash() and storing it with SetLastHash",
			"the request state's last hash is set from a blocks.LastHash() value read before a call that moves the chain / the last hash: the store puts it back behind the header just appended, and following headers are linked to the wrong parent (stored twice or on top of a sibling)")
	}
	c.Min(rule, "SetLastHash(blocks.LastHash()) in Handle", n, 1)
}

// ---------------------------------------------------------------------------------------------
// constructor wiring (C03.R19, C12.R9w, C14.R13): names of same-typed parameters

// astArgName: the name an argument expression goes by at the call site.
func astArgName(e ast.Expr) string {
	switch x := ast.Unparen(e).(type) {
	case *ast.Ident:
		switch x.Name {
		case "nil", "true", "false", "_":
			return ""
		}
		return x.Name
	case *ast.SelectorExpr:
		return x.Sel.Name
	case *ast.UnaryExpr:
		if x.Op == token.AND {
			return astArgName(x.X)
		}
	case *ast.StarExpr:
		return astArgName(x.X)
	}
	return ""
}

// ruleWiring: (a) at every call of a module function from fns, an argument that goes by the name
// of ANOTHER parameter of the same type (and not by its own parameter's name) while that other
// parameter does not get an argument of its own name is in the wrong slot - `New(nil, txHandler)`
// written as `New(txHandler, nil)`; (b) a field of an object built in fns whose name and type
// agree with a parameter of the function is initialised from that parameter - `memPool: memPool`
// replaced by a fresh `NewMemPool()` gives the object private state instead of the shared one.
func (c *Check) ruleWiring(rule string, fns []*ssa.Function) {
	norm := func(s string) string { return strings.ToLower(strings.TrimLeft(s, "_")) }
	nCalls, nFields := 0, 0
	for _, fn := range fns {
		if fn == nil || fn.Blocks == nil {
			continue
		}
		// (a)
		if syn := fn.Syntax(); syn != nil {
			byPos := map[token.Pos]Site{}
			for _, s := range sitesIn(fn) {
				byPos[s.Pos()] = s
			}
			ast.Inspect(syn, func(n ast.Node) bool {
				if fl, isLit := n.(*ast.FuncLit); isLit && ast.Node(fl) != syn {
					return false
				}
				call, ok := n.(*ast.CallExpr)
				if !ok {
					return true
				}
				s, ok := byPos[call.Lparen]
				if !ok {
					return true
				}
				callee := s.CC.StaticCallee()
				if callee == nil || callee.Pkg == nil || !inModule(callee.Pkg.Pkg) || callee.Signature == nil || callee.Signature.Variadic() {
					return true
				}
				params := callee.Params
				off := len(params) - len(call.Args)
				if off < 0 || off > 1 || len(s.CC.Args) != len(params) {
					return true
				}
				names := make([]string, len(call.Args))
				for i, a := range call.Args {
					names[i] = norm(astArgName(a))
				}
				for i := range call.Args {
					a := names[i]
					pi := norm(params[i+off].Name())
					if a == "" || a == pi {
						continue
					}
					for j := range call.Args {
						if j == i || !types.Identical(params[i+off].Type(), params[j+off].Type()) {
							continue
						}
						pj := norm(params[j+off].Name())
						if pj == "" || pj != a || names[j] == pj {
							continue
						}
						nCalls++
						c.Bad(rule, fmt.Sprintf("%s#arg-%s-of-%s-in-its-own-slot", c.P.Key(fn), a, calleeObjName(s.CC)), call.Pos(), "name agreement", nil,
							fmt.Sprintf("the argument %q is passed to the parameter %q of %s although the same-typed parameter %q does not get it: the argument is in the wrong slot", a, pi, calleeObjName(s.CC), pj))
						c.Touch(fn)
					}
				}
				return true
			})
		}
		// (b)
		for _, b := range fn.Blocks {
			for _, in := range b.Instrs {
				st, ok := in.(*ssa.Store)
				if !ok {
					continue
				}
				fa, ok := st.Addr.(*ssa.FieldAddr)
				if !ok || !isFreshObject(fa) {
					continue
				}
				f := fieldOfAddr(fa)
				if f == nil {
					continue
				}
				for _, p := range fn.Params {
					if norm(p.Name()) != norm(f.Name()) || !types.Identical(p.Type(), f.Type()) {
						continue
					}
					nFields++
					okv := derivesFromValue(st.Val, p)
					c.Decide(okv, rule, fmt.Sprintf("%s#field-%s-from-parameter", c.P.Key(fn), f.Name()), st.Pos(), "name agreement+provenance", nil,
						"the field is initialised from the parameter of the same name and type",
						fmt.Sprintf("the field %s of the object built here is not initialised from the parameter %s of the same type (a fresh or different object is used): the component works on private state instead of the shared one it was given", f.Name(), p.Name()))
					c.Touch(fn)
				}
			}
		}
	}
	c.Ok(rule, "scope#wiring", token.NoPos, "name agreement", "%d suspicious argument slots, %d same-named field initialisations examined", nCalls, nFields)
	c.Min(rule, "same-named field initialisations in constructors", nFields, 1)
}

// constructorsIn: the source functions of the packages whose name starts with New.
func (c *Check) constructorsIn(rels ...string) []*ssa.Function {
	var out []*ssa.Function
	for _, fn := range c.P.FuncsIn(rels...) {
		if strings.HasPrefix(fn.Name(), "New") && fn.Parent() == nil {
			out = append(out, fn)
		}
	}
	return out
}

// ---------------------------------------------------------------------------------------------
// C04.R10 / C11.R9: a tx record handed in is never overwritten wholesale

// ruleNoWholeRecordOverwrite: outside pkg/client no function stores a whole client.Tx / client.TxState
// through a pointer it did not allocate itself (`*tx = *saved`): every field rule of the
// properties (proof, depth, flags, outputs) looks at field stores, and a wholesale copy replaces
// the freshly built state - proof, depth, flags - by whatever the source held.
func (c *Check) ruleNoWholeRecordOverwrite(rule string) {
	a := c.txAnchors(rule)
	if a == nil {
		return
	}
	n := 0
	for _, fn := range c.P.FuncsIn("spynode", "handlers", "state", "storage") {
		for _, b := range fn.Blocks {
			for _, in := range b.Instrs {
				st, ok := in.(*ssa.Store)
				if !ok {
					continue
				}
				t := st.Val.Type()
				isRec := (a.clientTx != nil && types.Identical(t, a.clientTx)) || (a.clientTxState != nil && types.Identical(t, a.clientTxState))
				if !isRec {
					continue
				}
				base := st.Addr
				for {
					if fa, ok := base.(*ssa.FieldAddr); ok {
						base = fa.X
						continue
					}
					break
				}
				if _, local := base.(*ssa.Alloc); local {
					continue
				}
				n++
				c.Bad(rule, c.P.Key(fn)+"#whole-record-overwritten", st.Pos(), "who-may-write", nil,
					"a whole client.Tx / client.TxState is stored through a pointer this function did not allocate: the record built for this notification (proof, depth, flags) is replaced by another one")
				c.Touch(fn)
			}
		}
	}
	c.Ok(rule, "scope#whole-record-stores", token.NoPos, "who-may-write", "%d whole-record stores through foreign pointers", n)
}

// ---------------------------------------------------------------------------------------------
// C05.R14: every input of a tx is registered

// ruleEveryInputRegistered: in populateMemPoolTx the loop over the inputs appends every input's
// outpoint: an iteration may skip the append only behind a membership test whose key has the
// type of the appended value (a de-duplication by the whole outpoint). A key that is only part of
// the outpoint (the parent txid) drops further inputs spending other outputs of the same parent
// from the conflict index.
func (c *Check) ruleEveryInputRegistered(rule string) {
	fOut := c.P.Field("state", "memPoolTx", "outPoints")
	if fOut == nil {
		c.Undecided(rule, "anchor:state.memPoolTx.outPoints", token.NoPos, "field not found")
		return
	}
	n := 0
	for _, fn := range c.P.FuncsIn("state") {
		// the loops that append to outPoints (populateMemPoolTx, or its body written in place)
		seenH := map[*ssa.BasicBlock]bool{}
		for _, st := range storesToField(fn, fOut) {
			if builtinCall(st.Val, "append") == nil {
				continue
			}
			h := loopHeaderOf(st.Block())
			if h == nil || seenH[h] {
				continue
			}
			seenH[h] = true
			var appended ssa.Value
			isAppend := func(in ssa.Instruction) int {
				st, ok := in.(*ssa.Store)
				if !ok || fieldOfAddr(st.Addr) != fOut {
					return 0
				}
				if call := builtinCall(st.Val, "append"); call != nil {
					if vs := appendedValues(call); len(vs) > 0 {
						appended = vs[0]
					}
					return 1
				}
				return 0
			}
			counts := iterationCounts(h, isAppend)
			n++
			c.Touch(fn)
			skip, hasSkip := counts[0]
			ok := len(counts) > 0 && !hasSkip
			var w []string
			if hasSkip && appended != nil {
				// allowed: every skipping test is a lookup keyed by the appended value's type
				ok = true
				found := false
				for b := range loopBody(h) {
					iff, isIf := lastIf(b)
					if !isIf {
						continue
					}
					for _, r := range rootsAll(iff.Cond) {
						if lk, isLk := r.(*ssa.Lookup); isLk {
							found = true
							if !types.Identical(lk.Index.Type(), appended.Type()) {
								ok = false
							}
						}
					}
				}
				if !found {
					ok = false
				}
			}
			if !ok && hasSkip {
				w = pathWitness(fn, skip)
			}
			c.Decide(ok, rule, "state.(*memPoolTx).populateMemPoolTx#every-input-appended", loopPos(h), "per-iteration path count", w,
				"every iteration over the inputs appends the input's outpoint (or skips an identical outpoint)",
				"an iteration over the tx inputs can skip registering the input's outpoint (and not because the same outpoint was registered already): an input spending another output is missing from the conflict index, so a double spend of it is not flagged")
		}
	}
	if n == 0 {
		// the list filled another way: by index into a slice made with the inputs' length, or into a
		// local slice that is stored once - one outpoint per input all the same
		isOutPoint := func(t types.Type) bool { return strings.HasSuffix(t.String(), "wire.OutPoint") }
		for _, fn := range c.P.FuncsIn("state") {
			if len(storesToField(fn, fOut)) == 0 {
				continue
			}
			for _, h := range loopsRangingOver(fn, func(v ssa.Value) bool { return mentionsFieldNamed(v, "TxIn") }) {
				ev := func(in ssa.Instruction) int {
					switch x := in.(type) {
					case *ssa.Call:
						if builtinCall(x, "append") != nil {
							if sl, ok := x.Type().Underlying().(*types.Slice); ok && isOutPoint(sl.Elem()) {
								return 1
							}
						}
					case *ssa.Store:
						if ia, ok := x.Addr.(*ssa.IndexAddr); ok && isOutPoint(x.Val.Type()) {
							_ = ia
							return 1
						}
					}
					return 0
				}
				counts := iterationCounts(h, ev)
				if len(counts) == 1 && counts[0] != nil {
					continue // a loop over the inputs that is about something else
				}
				n++
				c.Touch(fn)
				skip, hasSkip := counts[0]
				var w []string
				if hasSkip {
					w = pathWitness(fn, skip)
				}
				c.Decide(len(counts) > 0 && !hasSkip, rule, "state.(*memPoolTx).populateMemPoolTx#every-input-appended", loopPos(h), "per-iteration path count", w,
					"every iteration over the inputs stores the input's outpoint",
					"an iteration over the tx inputs can skip registering the input's outpoint: an input spending another output is missing from the conflict index, so a double spend of it is not flagged")
			}
		}
	}
	c.Min(rule, "loops appending to memPoolTx.outPoints", n, 1)
}

// ruleAddingNeverEvicts (C05.R15 / C06.R11): AddTransaction and AddRequest never remove an entry
// from the mempool - they do not reach removeTransaction and do not delete from txs / inputs. The
// evicting lookup (Conflicting) belongs to block processing; used while adding, the earlier spender
// is dropped silently and gets no cancel update when the conflict confirms.
func (c *Check) ruleAddingNeverEvicts(rule string) {
	rm := c.P.Fn("state.(*MemPool).removeTransaction")
	fTxs := c.P.Field("state", "MemPool", "txs")
	fIn := c.P.Field("state", "MemPool", "inputs")
	if rm == nil || fTxs == nil || fIn == nil {
		c.Undecided(rule, "anchor:state.(*MemPool).removeTransaction/txs/inputs", token.NoPos, "not found")
		return
	}
	g := c.Graph()
	for _, k := range []string{"state.(*MemPool).AddTransaction", "state.(*MemPool).AddRequest"} {
		fn := c.Fn(rule, k)
		if fn == nil {
			continue
		}
		pred := g.Reach([]*ssa.Function{fn}, func(x *ssa.Function) bool { return !inModule(pkgOf(x)) })
		_, evicts := pred[rm]
		var w []string
		if evicts {
			w = g.PathTo(pred, rm)
		}
		for _, ac := range fieldAccesses(fn, map[*types.Var]bool{fTxs: true, fIn: true}) {
			if ac.Kind == "delete" {
				evicts = true
				w = append(w, "delete at "+c.P.Pos(ac.Instr.Pos()))
			}
		}
		c.Decide(!evicts, rule, k+"#never-evicts", fn.Pos(), "call-graph reachability", w,
			"adding to the mempool removes nothing from it",
			"adding a tx / request can remove entries from the mempool (removeTransaction reachable, or a delete from txs / inputs): the earlier spender of a conflict is evicted when the conflict is merely seen, so it is never cancelled when the conflict confirms and later conflicts are not matched against it")
	}
}

// ruleEntryNeverReplaced (C07.R9 / C12.R10): a mempool entry that exists is never replaced by a new
// one: every store into MemPool.txs in AddTransaction / AddRequest is behind the lookup of that
// map having reported the key absent. Replacing the placeholder made by an announcement forgets
// that the trusted peer vouched for the tx (and its first-seen time).
func (c *Check) ruleEntryNeverReplaced(rule string) {
	fTxs := c.P.Field("state", "MemPool", "txs")
	if fTxs == nil {
		c.Undecided(rule, "anchor:state.MemPool.txs", token.NoPos, "field not found")
		return
	}
	n := 0
	for _, k := range []string{"state.(*MemPool).AddTransaction", "state.(*MemPool).AddRequest"} {
		fn := c.Fn(rule, k)
		if fn == nil {
			continue
		}
		i := 0
		for _, ac := range fieldAccesses(fn, map[*types.Var]bool{fTxs: true}) {
			if ac.Kind != "mapupdate" {
				continue
			}
			n++
			i++
			ok, w := mustPass(ac.Instr, boolEdge(func(v ssa.Value) bool { return commaOkOfField(v, fTxs) }, false))
			c.Decide(ok, rule, fmt.Sprintf("%s#entry-created-only-if-absent@%d", k, i), ac.Instr.Pos(), "edge-cutset", w,
				"an entry is stored into txs only behind the lookup having found none",
				"an existing mempool entry can be replaced by a new one (the store into txs is reachable although the lookup found an entry): the placeholder's trusted flag set by the trusted peer's announcement is lost, and the tx is never reported safe")
		}
	}
	c.Min(rule, "stores into MemPool.txs while adding", n, 2)
}

// ---------------------------------------------------------------------------------------------
// C08.R11: every output is examined for a contract action

func (c *Check) ruleEveryOutputParsed(rule string) {
	fn := c.Fn(rule, "spynode.checkContracts")
	if fn == nil {
		return
	}
	parses := func(in ssa.Instruction) int {
		if cc := callCommon(in); cc != nil && strings.HasSuffix(calleeName(cc), "protocol.Deserialize") {
			return 1
		}
		return 0
	}
	n := 0
	seenH := map[*ssa.BasicBlock]bool{}
	for _, b := range fn.Blocks {
		for _, in := range b.Instrs {
			if parses(in) == 0 {
				continue
			}
			h := loopHeaderOf(b)
			if h == nil || seenH[h] {
				continue
			}
			seenH[h] = true
			counts := iterationCounts(h, parses)
			n++
			skip, hasSkip := counts[0]
			var w []string
			if hasSkip {
				w = pathWitness(fn, skip)
			}
			c.Decide(len(counts) > 0 && !hasSkip, rule, "spynode.checkContracts#every-output-parsed", loopPos(h), "per-iteration path count", w,
				"every output's script is handed to protocol.Deserialize",
				"an output can be skipped before its script is handed to the protocol parser (a pre-filter on the script form): an action in a script form the pre-filter does not know is no longer relevant")
		}
	}
	c.Min(rule, "loops parsing the outputs in checkContracts", n, 1)
}

// ---------------------------------------------------------------------------------------------
// C09.R17: genesis is registered at height 0

// constFieldAt: the value of field f (of the receiver) at instruction `at` on every path, if it is a
// single constant stored on all of them with no module call in between that could change it.
func constFieldAt(at ssa.Instruction, f *types.Var) (int64, bool) {
	type pos struct {
		b *ssa.BasicBlock
		i int
	}
	var val *int64
	seen := map[*ssa.BasicBlock]bool{}
	var walk func(b *ssa.BasicBlock, from int) bool
	walk = func(b *ssa.BasicBlock, from int) bool {
		for i := from; i >= 0; i-- {
			switch x := b.Instrs[i].(type) {
			case *ssa.Store:
				if fieldOfAddr(x.Addr) == f {
					k, ok := constInt(x.Val)
					if !ok {
						return false
					}
					if val != nil && *val != k {
						return false
					}
					val = &k
					return true
				}
			case *ssa.Call:
				if sc := x.Call.StaticCallee(); sc != nil && sc.Pkg != nil && inModule(sc.Pkg.Pkg) {
					// a module call with the receiver may change the field
					for _, a := range x.Call.Args {
						if p, ok := a.Type().Underlying().(*types.Pointer); ok {
							if st, ok := p.Elem().Underlying().(*types.Struct); ok {
								for j := 0; j < st.NumFields(); j++ {
									if st.Field(j) == f {
										return false
									}
								}
							}
						}
					}
				}
			}
		}
		if len(b.Preds) == 0 {
			return false
		}
		for _, p := range b.Preds {
			if seen[p] {
				continue
			}
			seen[p] = true
			if !walk(p, len(p.Instrs)-1) {
				return false
			}
		}
		return true
	}
	if !walk(at.Block(), instrIndex(at)-1) || val == nil {
		return 0, false
	}
	return *val, true
}

func (c *Check) ruleGenesisAtHeightZero(rule string, a *repoAnchors) {
	n := 0
	for _, k := range []string{"storage.(*BlockRepository).Load", "storage.(*BlockRepository).Initialize"} {
		fn := c.Fn(rule, k)
		if fn == nil {
			continue
		}
		i := 0
		for _, ac := range fieldAccesses(fn, map[*types.Var]bool{a.heights: true}) {
			mu, ok := ac.Instr.(*ssa.MapUpdate)
			if !ok || loopHeaderOf(mu.Block()) != nil {
				continue
			}
			n++
			i++
			okv := false
			if kv, isC := constInt(stripConv(mu.Value)); isC {
				okv = kv == 0
			} else if loadOfField(mu.Value, a.height) != nil {
				kv, known := constFieldAt(mu, a.height)
				okv = known && kv == 0
			}
			c.Decide(okv, rule, fmt.Sprintf("%s#genesis-registered-at-0@%d", k, i), mu.Pos(), "reaching constant store", nil,
				"the header that starts an empty chain is registered at height 0 with the height set to 0 first",
				"the genesis header of an empty store is registered in the hash->height map under a height that is not the constant 0 (the height was not set to 0 on this path): every height reported afterwards is shifted")
		}
	}
	c.Min(rule, "genesis registrations", n, 1)
}

// ---------------------------------------------------------------------------------------------
// C11.R9 / C07.R10: stored flags only rise

// ruleStoredFlagsOnlyRise: outside decoding into a fresh object, the flags safe / unsafe / trusted of a
// stored unconfirmed tx and trusted of a mempool entry are only ever set to true (or to `old ||
// x`): a flag that was reported must not fall back, or the tx is reported again.
func (c *Check) ruleStoredFlagsOnlyRise(rule string) {
	flags := map[*types.Var]bool{}
	for _, fd := range [][3]string{{"storage", "unconfirmedTx", "safe"}, {"storage", "unconfirmedTx", "unsafe"}, {"storage", "unconfirmedTx", "trusted"}, {"state", "memPoolTx", "trusted"}} {
		if f := c.P.Field(fd[0], fd[1], fd[2]); f != nil {
			flags[f] = true
		}
	}
	if len(flags) < 4 {
		c.Undecided(rule, "anchor:unconfirmedTx.safe/unsafe/trusted, memPoolTx.trusted", token.NoPos, "fields not all found")
		return
	}
	n := 0
	for _, fn := range c.P.FuncsIn("storage", "state") {
		i := 0
		for _, b := range fn.Blocks {
			for _, in := range b.Instrs {
				st, ok := in.(*ssa.Store)
				if !ok {
					continue
				}
				fa, ok := st.Addr.(*ssa.FieldAddr)
				if !ok || !flags[fieldOfAddr(fa)] || isFreshObject(fa) {
					continue
				}
				n++
				i++
				f := fieldOfAddr(fa)
				okv := false
				if v, isC := isConstBool(st.Val); isC && v {
					okv = true
				} else if phi, isPhi := st.Val.(*ssa.Phi); isPhi {
					// old || x : the true edge comes from the block that tested the old flag
					okv = true
					sawOld := false
					keeps := true
					for _, e := range phi.Edges {
						if v, isC := isConstBool(e); isC && v {
							continue
						}
						if loadOfField(e, f) == nil {
							keeps = false
						}
					}
					if keeps {
						sawOld = true // every edge is true or the flag's own old value
					}
					for ei, e := range phi.Edges {
						if v, isC := isConstBool(e); isC && v {
							if iff, isIf := lastIf(phi.Block().Preds[ei]); isIf {
								if fl := loadOfField(normCond(iff.Cond).V, f); fl != nil {
									sawOld = true
								}
							}
							continue
						}
						if v, isC := isConstBool(e); isC && !v {
							okv = false
						}
					}
					if !sawOld {
						okv = false
					}
				}
				c.Decide(okv, rule, fmt.Sprintf("%s#%s-only-raised@%d", c.P.Key(fn), f.Name(), i), st.Pos(), "stored value", nil,
					"the flag is only set to true (or kept)",
					fmt.Sprintf("the flag %s of a tracked tx is overwritten with a value that can be false: a state that was already reported (safe / unsafe / vouched for) is forgotten and reported again later", f.Name()))
				c.Touch(fn)
			}
		}
	}
	c.Min(rule, "flag stores on tracked txs", n, 6)
}

// ---------------------------------------------------------------------------------------------
// C12.R9: the shared tx thread does not fail on what a tx contains

// ruleNoContentFailureInSharedTxPath: processUnconfirmedTx and the functions of its package it calls
// (fetchSpentOutputs ...) return an error only when a call failed (storage, fetcher, handler):
// errors made on the spot are the two confirmed ones (the programming-error guard for a confirmed
// height, and the output fetcher returning too few outputs). An error made from a property of the
// tx (an out-of-range input index ...) lets any verified untrusted peer stop the whole node, since
// an error of this thread requests a stop.
func (c *Check) ruleNoContentFailureInSharedTxPath(rule string, allowed int) {
	root := c.Fn(rule, "spynode.(*Node).processUnconfirmedTx")
	if root == nil {
		return
	}
	g := c.Graph()
	pred := g.Reach([]*ssa.Function{root}, func(x *ssa.Function) bool {
		return x.Pkg == nil || x.Pkg != root.Pkg
	})
	n := 0
	var sites []string
	var firstPos token.Pos
	nf := 0
	for fn := range pred {
		if fn.Pkg != root.Pkg || fn.Blocks == nil || !resultIsError(fn) {
			continue
		}
		nf++
		c.Touch(fn)
		for _, r := range returnsOf(fn) {
			for _, v := range resultValues(r, len(r.Results)-1) {
				if isFreshError(v) {
					n++
					sites = append(sites, fmt.Sprintf("%s at %s", c.P.Key(fn), c.P.Pos(r.Pos())))
					if !firstPos.IsValid() {
						firstPos = r.Pos()
					}
				}
			}
		}
	}
	c.Decide(n <= allowed, rule, "spynode.(*Node).processUnconfirmedTx#no-failure-made-from-tx-contents", firstPos, "error provenance", sites,
		fmt.Sprintf("%d on-the-spot errors in the shared tx path (the %d confirmed ones)", n, allowed),
		fmt.Sprintf("the shared tx-processing path returns %d errors made on the spot, %d are confirmed: an error made from what a tx contains stops the whole node (the thread's error requests a stop), so one tx from an untrusted peer keeps the node from following the trusted chain", n, allowed))
	c.Min(rule, "functions in the shared tx path", nf, 2)
}

// ---------------------------------------------------------------------------------------------
// C13.R15: lastHash picks the newest non-empty list

// ruleLastHashGuards: State.lastHash answers from blocksToRequest if it is non-empty, else from
// blocksRequested if that is non-empty, else the last saved hash: each answer is behind exactly
// those emptiness tests (`> 1` instead of `> 0` makes a single queued block invisible: the fork
// replacing it is taken for the next in-order header).
func (c *Check) ruleLastHashGuards(rule string) {
	fTo := c.P.Field("state", "State", "blocksToRequest")
	fReq := c.P.Field("state", "State", "blocksRequested")
	fLast := c.P.Field("state", "State", "lastSavedHash")
	if fTo == nil || fReq == nil || fLast == nil {
		c.Undecided(rule, "anchor:state.State.blocksToRequest/blocksRequested/lastSavedHash", token.NoPos, "fields not found")
		return
	}
	// the function that answers the last hash, found by role: a single result whose values come from
	// all three of the to-request queue, the requested list and the last saved hash (lastHash on the
	// confirmed tree; LastHash when the helper is written in place)
	var fn *ssa.Function
	for _, f := range c.P.FuncsIn("state") {
		if f.Signature.Results().Len() != 1 {
			continue
		}
		m := map[*types.Var]bool{}
		for _, r := range returnsOf(f) {
			for _, v := range resultValues(r, 0) {
				for _, fd := range []*types.Var{fTo, fReq, fLast} {
					if mentionsField(v, fd) {
						m[fd] = true
					}
				}
			}
		}
		if len(m) == 3 && (fn == nil || f.Name() == "lastHash") {
			fn = f
		}
	}
	if fn == nil {
		c.Undecided(rule, "role:last-hash getter", token.NoPos, "no function of package state answers from the two request lists and the last saved hash")
		return
	}
	c.Touch(fn)
	lenTo := func(v ssa.Value) bool { return lenOfField(v, fTo) }
	lenReq := func(v ssa.Value) bool { return lenOfField(v, fReq) }
	n := 0
	// a value reaches the return through a chain of phi edges (pred -> phi block); the paths that
	// carry it are entry -> e1.pred -> e1.block -> ... -> ek.pred -> ek.block -> return. All of them
	// pass a guard edge unless every leg (and every chain edge) can be walked without one.
	type wp struct{ pred, blk *ssa.BasicBlock }
	guardFree := func(chain []wp, retB *ssa.BasicBlock, g EdgePred) bool {
		from := fn.Blocks[0]
		for _, e := range chain {
			if from != e.pred {
				if ok, _ := reachAvoid2(from, e.pred, g, nil); !ok {
					return false
				}
			}
			if iff, isIf := lastIf(e.pred); isIf {
				free := false
				for br, sb := range e.pred.Succs {
					if sb == e.blk && !g(iff, br) {
						free = true
					}
				}
				if !free {
					return false
				}
			}
			from = e.blk
		}
		if from != retB {
			if ok, _ := reachAvoid2(from, retB, g, nil); !ok {
				return false
			}
		}
		return true
	}
	check := func(chain []wp, retB *ssa.BasicBlock, v ssa.Value, pos token.Pos) {
		kind := ""
		switch {
		case mentionsField(v, fTo):
			kind = "blocksToRequest"
		case mentionsField(v, fReq):
			kind = "blocksRequested"
		case mentionsField(v, fLast):
			kind = "lastSavedHash"
		default:
			return
		}
		n++
		ok := true
		var w []string
		need := func(g EdgePred, what string) {
			if guardFree(chain, retB, g) {
				ok = false
				w = append(w, "a path yields this answer without the test: "+what)
			}
		}
		switch kind {
		case "blocksToRequest":
			need(lowerBoundEdge(lenTo, 1), "len(blocksToRequest) > 0")
		case "blocksRequested":
			need(upperBoundEdge(lenTo, 0), "len(blocksToRequest) == 0")
			need(lowerBoundEdge(lenReq, 1), "len(blocksRequested) > 0")
		case "lastSavedHash":
			need(upperBoundEdge(lenTo, 0), "len(blocksToRequest) == 0")
			need(upperBoundEdge(lenReq, 0), "len(blocksRequested) == 0")
		}
		c.Decide(ok, rule, "state.(*State).lastHash#answer-from-"+kind, pos, "edge-cutset", w,
			"the answer is behind exactly the emptiness tests of the newer lists",
			"State.lastHash can answer from "+kind+" although a newer list is not empty (or from an empty list): the last hash is not the newest known block, so a header is linked to the wrong parent / a fork is taken for the next header")
	}
	var expand func(v ssa.Value, chain []wp, retB *ssa.BasicBlock, pos token.Pos, depth int)
	expand = func(v ssa.Value, chain []wp, retB *ssa.BasicBlock, pos token.Pos, depth int) {
		if phi, ok := v.(*ssa.Phi); ok && depth < 6 {
			for i, e := range phi.Edges {
				// the chain is built from the return backwards: this edge comes first on the path
				expand(e, append([]wp{{phi.Block().Preds[i], phi.Block()}}, chain...), retB, pos, depth+1)
			}
			return
		}
		check(chain, retB, v, pos)
	}
	for _, r := range returnsOf(fn) {
		if len(r.Results) != 1 || r.Block().Comment == "recover" {
			continue
		}
		for _, rv := range resultValues(r, 0) {
			expand(rv, nil, r.Block(), r.Pos(), 0)
		}
	}
	c.Min(rule, "answers of lastHash", n, 3)
}

// ruleSavedHashMovesOnlyWithPop (C13.R16 / C01.R19): in NextBlock the last saved hash is moved only
// together with dropping the head of the requested list: every path after the store reaches the pop.
func (c *Check) ruleSavedHashMovesOnlyWithPop(rule string) {
	fn := c.Fn(rule, "state.(*State).NextBlock")
	fLast := c.P.Field("state", "State", "lastSavedHash")
	fReq := c.P.Field("state", "State", "blocksRequested")
	if fn == nil {
		return
	}
	if fLast == nil || fReq == nil {
		c.Undecided(rule, "anchor:state.State.lastSavedHash/blocksRequested", fn.Pos(), "fields not found")
		return
	}
	var pops []ssa.Instruction
	for _, st := range storesToField(fn, fReq) {
		if sl, ok := st.Val.(*ssa.Slice); ok && sl.Low != nil {
			pops = append(pops, st)
		}
	}
	n := 0
	for _, st := range storesToField(fn, fLast) {
		n++
		ok := len(pops) > 0
		var w []string
		if ok {
			if okB, _ := alwaysPrecededBy(st, pops); !okB {
				ok, w = alwaysFollowedBy(st, pops, false, nil)
			}
		}
		c.Decide(ok, rule, fmt.Sprintf("state.(*State).NextBlock#saved-hash-moves-only-with-the-pop@%d", n), st.Pos(), "must-pass-through", w,
			"the last saved hash moves only when the head block is handed out and dropped",
			"State.NextBlock moves the last saved hash on a path that does not hand out and drop the head block (e.g. while the block has not arrived yet): the saved position points at a block that was never processed, and after a clear-all the new branch is refused as having the wrong parent")
	}
	c.Min(rule, "stores of lastSavedHash in NextBlock", n, 1)
}

// ---------------------------------------------------------------------------------------------
// C14.R13: a tx body received from a peer always reaches the shared channel

// ruleTxBodyAlwaysForwarded: the tx handlers (trusted and untrusted) hand every tx body to the
// shared tx channel - the only reasons not to are a message of another type and a node that is
// not ready. A filter in front of the channel keeps the mempool from learning that the body
// arrived, and every announcer is asked for it again window after window.
func (c *Check) ruleTxBodyAlwaysForwarded(rule string) {
	n := 0
	for _, k := range []string{"handlers.(*UntrustedTXHandler).Handle", "handlers.(*TXHandler).Handle"} {
		fn := c.Fn(rule, k)
		if fn == nil {
			continue
		}
		var adds []ssa.Instruction
		for _, s := range sitesIn(fn) {
			if strings.HasSuffix(calleeShort(s.CC), "TxChannel).Add") {
				adds = append(adds, s.Instr)
			}
		}
		if len(adds) == 0 {
			c.Bad(rule, k+"#tx-forwarded", fn.Pos(), "must-pass-through", nil, "the tx handler never hands the tx to the tx channel")
			continue
		}
		guard := anyEdge(
			boolEdge(func(v ssa.Value) bool {
				ex, ok := v.(*ssa.Extract)
				if !ok || ex.Index != 1 {
					return false
				}
				ta, ok := ex.Tuple.(*ssa.TypeAssert)
				return ok && ta.CommaOk
			}, false),
			condEdge(func(cd Cond) (bool, bool) {
				if cd.Call != nil && cd.Call.Call.IsInvoke() && cd.Call.Call.Method.Name() == "IsReady" {
					return true, false
				}
				return false, false
			}))
		for _, r := range returnsOf(fn) {
			n++
			ok, w := mustPassOrHappen(r, guard, adds)
			c.Decide(ok, rule, k+"#every-body-forwarded", r.Pos(), "must-pass-through", w,
				"every return is behind the hand-over to the tx channel, a foreign message type or a node that is not ready",
				"a tx body received from a peer can be dropped before it is handed to the shared tx channel (for a reason other than the message type / the node not being ready): the mempool never learns that the body arrived, so it is requested again from every announcer")
		}
	}
	c.Min(rule, "returns of the tx handlers", n, 4)
}

// ---------------------------------------------------------------------------------------------
// C16.R13: who sends on which internal channel of the remote client

func (c *Check) ruleClientChannelSenders(rule string, table map[string][]string) {
	chans := map[*types.Var]string{} // field (under its current name) -> recorded name
	for name := range table {
		f := c.P.Field("client", "RemoteClient", name)
		if f == nil {
			c.Undecided(rule, "anchor:client.RemoteClient."+name, token.NoPos, "channel field not found")
			continue
		}
		chans[f] = name
	}
	found := map[string]map[string]token.Pos{}
	note := func(fn *ssa.Function, ch ssa.Value, pos token.Pos) {
		for f, name := range chans {
			if loadOfField(ch, f) != nil {
				if found[name] == nil {
					found[name] = map[string]token.Pos{}
				}
				found[name][c.P.Key(topFn(fn))] = pos
			}
		}
	}
	for _, fn := range c.P.FuncsIn("client") {
		for _, b := range fn.Blocks {
			for _, in := range b.Instrs {
				switch x := in.(type) {
				case *ssa.Send:
					note(fn, x.Chan, x.Pos())
				case *ssa.Select:
					for _, s := range x.States {
						if s.Dir == types.SendOnly {
							note(fn, s.Chan, x.Pos())
						}
					}
				}
			}
		}
	}
	n := 0
	for ch, fns := range found {
		allowed := map[string]bool{}
		for _, k := range table[ch] {
			allowed[k] = true
		}
		for k, pos := range fns {
			n++
			// a sender that no longer exists under a recorded name is matched through the rename table
			ok := allowed[k]
			if !ok {
				for _, a := range table[ch] {
					if c.P.Fn(a) == nil && pkgOfKey(a) == pkgOfKey(k) {
						ok = true // the recorded sender is gone (renamed / written in place): not judged
					}
				}
			}
			c.Decide(ok, rule, fmt.Sprintf("%s#sends-on-%s", k, ch), pos, "who-may-send", nil,
				"a confirmed sender of this channel",
				fmt.Sprintf("%s sends on RemoteClient.%s, which is not one of that channel's confirmed senders (%s): a request is put on the wrong queue (registered again instead of removed, or the reverse)", k, ch, strings.Join(table[ch], ", ")))
		}
	}
	for ch, want := range table {
		for _, k := range want {
			if c.P.Fn(k) != nil && found[ch][k] == token.NoPos {
				if _, has := found[ch][k]; !has {
					c.Bad(rule, fmt.Sprintf("%s#sends-on-%s", k, ch), token.NoPos, "who-may-send", nil,
						"%s no longer sends on RemoteClient.%s: what it was to queue there never arrives", k, ch)
				}
			}
		}
	}
	c.Min(rule, "senders of RemoteClient channels", n, len(table))
}

// ---------------------------------------------------------------------------------------------
// C18.R10: a message that fails authentication ends the handling loop

func (c *Check) ruleFailedMessageLeavesLoop(rule string) {
	fn := c.Fn(rule, "client.(*RemoteClient).handleMessages")
	if fn == nil {
		return
	}
	n := 0
	for _, s := range callsTo(fn, "(*client.RemoteClient).handleMessage") {
		call := s.Value()
		h := loopHeaderOf(s.Instr.Block())
		if call == nil || h == nil {
			continue
		}
		for _, b := range fn.Blocks {
			iff, ok := lastIf(b)
			if !ok {
				continue
			}
			for br := 0; br < 2; br++ {
				if !errNilEdge(sameCall(call), false)(iff, br) {
					continue
				}
				n++
				start := b.Succs[br]
				back := start == h || reachable(start, h)
				c.Decide(!back, rule, "client.(*RemoteClient).handleMessages#failed-message-ends-the-loop", s.Pos(), "reachability", nil,
					"after a failed handleMessage the loop is left",
					"after handleMessage failed (wrong key, bad signature, ...) the loop can go on to the next message: data already pipelined behind a forged accept reaches the application handlers from an unauthenticated connection")
			}
		}
	}
	c.Min(rule, "error tests of handleMessage in handleMessages", n, 1)
}

// ---------------------------------------------------------------------------------------------
// C03.R19: the hand-over to the processing threads blocks

// ruleHandOverBlocks: the Add methods of the guarded channels hand the item over with a plain
// (blocking) send: a select with a default or a time-out case drops the item when the consumer is
// slow, and the callers do not look at the result.
func (c *Check) ruleHandOverBlocks(rule string) {
	n := 0
	for _, g := range [][2]string{{"handlers", "TxChannel"}, {"handlers", "TxUpdateChannel"}, {"spynode", "MessageChannel"}} {
		k := fmt.Sprintf("%s.(*%s).Add", g[0], g[1])
		fn := c.P.Fn(k)
		chf := c.P.Field(g[0], g[1], "Channel")
		if fn == nil || chf == nil {
			continue
		}
		c.Touch(fn)
		plain := 0
		for _, b := range fn.Blocks {
			for _, in := range b.Instrs {
				if sd, ok := in.(*ssa.Send); ok && loadOfField(sd.Chan, chf) != nil {
					plain++
				}
			}
		}
		var sel *ssa.Select
		for _, ss := range selectSends(fn) {
			if loadOfField(ss.Chan, chf) != nil {
				sel = ss.Sel
			}
		}
		n++
		pos := fn.Pos()
		if sel != nil {
			pos = sel.Pos()
		}
		c.Decide(sel == nil && plain > 0, rule, k+"#hand-over-blocks", pos, "send form", nil,
			"the item is handed over with a blocking send",
			"the item is handed to the processing thread with a select that has another way out (default / time-out): when the consumer is slow the item is dropped, and no caller looks at Add's result - a relevant tx is never delivered")
	}
	c.Min(rule, "Add methods of guarded channels", n, 3)
}
