package main

import (
	"fmt"
	"go/token"
	"go/types"
	"os"
	"strings"

	"golang.org/x/tools/go/ssa"
)

func init() {
	register(&PropDef{
		ID:    "C20",
		Title: "Decoding hostile bytes fails cleanly",
		Explanation: "Decides structural conditions of the decoders of pkg/client and internal/storage: " +
			"(R1) a size that derives from decoded input (wire.ReadVarInt result, target of binary.Read, arithmetic on those) reaches make() only behind an upper-bound comparison against a constant or the remaining input length (and a lower bound for signed sizes); incremental append per successfully read element is accepted; a bound on an arithmetic expression counts only if the arithmetic is done in 64 bits (a 32-bit product can wrap past the test); " +
			"(R2) slice expressions over stored data with computed bounds are behind a bounds test against the data length; " +
			"(R3) an element of a freshly made slice of pointers is not dereferenced before it was assigned; " +
			"(R4) every decoding loop performs a successful read on every path through an iteration, and a failed read leaves the loop; " +
			"(R5) in the storage record readers each read's error is tested immediately and stops decoding.",
		NotDecided:  "actual peak allocation; panics inside dependencies (wire, bitcoin, bsor); CPU time.",
		Assumptions: []string{"io.ReadFull/binary.Read fail on short input", "bytes.Buffer.Len() is the remaining input"},
		Tech:        "taint-to-allocation dataflow with dominating-bound sanitisers, bounds guard edge cut-sets, per-iteration event counting",
		Run:         runC20,
	})
}

// taintCtx carries the interprocedural part of the decoded-input taint: parameters of module
// functions that receive a decoded size from a caller, and per-function summaries saying whether a
// result can carry an unbounded decoded value back.
type taintCtx struct {
	inScope    func(*ssa.Function) bool
	paramTaint map[*ssa.Parameter]bool
	summary    map[*ssa.Function]map[int]bool // fn -> result index -> may return an unbounded decoded value
	busy       map[*ssa.Function]bool
	taints     map[*ssa.Function]map[ssa.Value]bool
	// helperBounded[v]: v is the result of a module helper that was handed a decoded value and
	// returns it only behind a bound (or a value computed from such results)
	helperBounded map[ssa.Value]*ssa.Function
	dirty         bool
}

func newTaintCtx(inScope func(*ssa.Function) bool) *taintCtx {
	return &taintCtx{inScope: inScope, paramTaint: map[*ssa.Parameter]bool{}, summary: map[*ssa.Function]map[int]bool{},
		busy: map[*ssa.Function]bool{}, taints: map[*ssa.Function]map[ssa.Value]bool{}, helperBounded: map[ssa.Value]*ssa.Function{}}
}

func isIntegerType(t types.Type) bool {
	b, ok := t.Underlying().(*types.Basic)
	return ok && b.Info()&types.IsInteger != 0
}

// resultUnbounded: can result idx of callee return a decoded value that no bound was applied to,
// given the parameters currently known to be tainted?
func (tc *taintCtx) resultUnbounded(callee *ssa.Function, idx int) bool {
	if tc.busy[callee] {
		return true // recursion: assume the worst
	}
	tc.busy[callee] = true
	defer delete(tc.busy, callee)
	t := tc.decodedTaint(callee)
	for _, ret := range returnsOf(callee) {
		if idx >= len(ret.Results) {
			continue
		}
		v := ret.Results[idx]
		if !t[v] {
			continue
		}
		if ok, _ := sizeBounded(ret, v, t); !ok {
			return true
		}
	}
	return false
}

// decodedTaint computes the values of fn that derive from decoded input.
func (tc *taintCtx) decodedTaint(fn *ssa.Function) map[ssa.Value]bool {
	t := map[ssa.Value]bool{}
	srcAllocs := map[*ssa.Alloc]bool{}
	for _, p := range fn.Params {
		if tc.paramTaint[p] {
			t[p] = true
		}
	}
	for _, s := range sitesIn(fn) {
		switch calleeName(s.CC) {
		case "github.com/tokenized/pkg/wire.ReadVarInt":
			if call := s.Value(); call != nil {
				for _, r := range *call.Referrers() {
					if e, ok := r.(*ssa.Extract); ok && e.Index == 0 {
						t[e] = true
					}
				}
			}
		case "encoding/binary.Read":
			if len(s.CC.Args) == 3 {
				tgt := s.CC.Args[2]
				if mi, ok := tgt.(*ssa.MakeInterface); ok {
					tgt = mi.X
				}
				if a, ok := tgt.(*ssa.Alloc); ok {
					srcAllocs[a] = true
				}
			}
		}
	}
	changed := true
	for changed {
		changed = false
		for _, b := range fn.Blocks {
			for _, in := range b.Instrs {
				v, ok := in.(ssa.Value)
				if !ok || t[v] {
					continue
				}
				taint := false
				switch x := in.(type) {
				case *ssa.UnOp:
					if x.Op == token.MUL {
						if a, ok := x.X.(*ssa.Alloc); ok && srcAllocs[a] {
							taint = true
						}
					} else if t[x.X] {
						taint = true
					}
				case *ssa.Convert:
					taint = t[x.X]
					if h := tc.helperBounded[x.X]; h != nil && !taint {
						tc.helperBounded[x] = h
					}
				case *ssa.ChangeType:
					taint = t[x.X]
				case *ssa.BinOp:
					switch x.Op {
					case token.ADD, token.SUB, token.MUL, token.SHL:
						taint = t[x.X] || t[x.Y]
					}
				case *ssa.Phi:
					for _, e := range x.Edges {
						if t[e] {
							taint = true
						}
					}
				case *ssa.Extract:
					if call, ok := x.Tuple.(*ssa.Call); ok && isIntegerType(x.Type()) {
						taint = tc.callResultTainted(call, x.Index, t, x)
					}
				case *ssa.Call:
					if isIntegerType(x.Type()) {
						taint = tc.callResultTainted(x, 0, t, x)
					}
				}
				if taint {
					t[v] = true
					changed = true
				}
			}
		}
	}
	// hand decoded values down to module callees
	for _, s := range sitesIn(fn) {
		callee := s.CC.StaticCallee()
		if callee == nil || callee.Blocks == nil || !tc.inScope(callee) {
			continue
		}
		for i, a := range s.CC.Args {
			if t[a] && i < len(callee.Params) && !tc.paramTaint[callee.Params[i]] {
				tc.paramTaint[callee.Params[i]] = true
				tc.dirty = true
			}
		}
	}
	tc.taints[fn] = t
	return t
}

// callResultTainted: the call is to a module function that was given a decoded value; its result
// is tainted unless the callee bounds it on every return (then it is recorded as helper-bounded).
func (tc *taintCtx) callResultTainted(call *ssa.Call, idx int, t map[ssa.Value]bool, res ssa.Value) bool {
	callee := call.Call.StaticCallee()
	if callee == nil || callee.Blocks == nil || !tc.inScope(callee) {
		return false
	}
	given := false
	for i, a := range call.Call.Args {
		if t[a] && i < len(callee.Params) {
			given = true
			if !tc.paramTaint[callee.Params[i]] {
				tc.paramTaint[callee.Params[i]] = true
				tc.dirty = true
			}
		}
	}
	if !given {
		return false
	}
	if tc.resultUnbounded(callee, idx) {
		return true
	}
	tc.helperBounded[res] = callee
	return false
}

// taintChain returns the tainted values that v was computed from (including v).
func taintChain(v ssa.Value, t map[ssa.Value]bool) map[ssa.Value]bool {
	out := map[ssa.Value]bool{}
	var walk func(x ssa.Value)
	walk = func(x ssa.Value) {
		if out[x] || !t[x] {
			return
		}
		out[x] = true
		switch y := x.(type) {
		case *ssa.Convert:
			walk(y.X)
		case *ssa.ChangeType:
			walk(y.X)
		case *ssa.BinOp:
			walk(y.X)
			walk(y.Y)
		case *ssa.Phi:
			for _, e := range y.Edges {
				walk(e)
			}
		case *ssa.UnOp:
			walk(y.X)
		}
	}
	walk(v)
	return out
}

// taintSources reduces a taint chain to its origins: ReadVarInt extracts and binary.Read targets.
func taintSources(chain map[ssa.Value]bool) map[ssa.Value]bool {
	out := map[ssa.Value]bool{}
	for v := range chain {
		switch x := v.(type) {
		case *ssa.Extract:
			out[x] = true
		case *ssa.UnOp:
			if a, ok := x.X.(*ssa.Alloc); ok {
				out[a] = true
			}
		}
	}
	return out
}

func isSigned(tp types.Type) bool {
	b, ok := tp.Underlying().(*types.Basic)
	return ok && b.Info()&types.IsInteger != 0 && b.Info()&types.IsUnsigned == 0
}

// sizeBounded: is the decoded value size bounded on every path to instruction in? Upper bound by a
// constant or by a length of the input (and a lower bound if signed). A phi is decided per incoming
// edge (`if n > max { n = max }` bounds n although no single edge dominates the use).
func sizeBounded(in ssa.Instruction, size ssa.Value, t map[ssa.Value]bool) (bool, []string) {
	if phi, ok := size.(*ssa.Phi); ok {
		for i, e := range phi.Edges {
			if !t[e] {
				continue
			}
			pred := phi.Block().Preds[i]
			last := pred.Instrs[len(pred.Instrs)-1]
			if ok, w := sizeBoundedEdge(last, phi.Block(), e, t); !ok {
				return false, w
			}
		}
		return true, nil
	}
	return sizeBoundedEdge(in, nil, size, t)
}

// sizeBoundedEdge decides one value at one program point; if succ is non-nil the point is the edge
// from in's block to succ (the branch taken by that edge counts).
func sizeBoundedEdge(in ssa.Instruction, succ *ssa.BasicBlock, size ssa.Value, t map[ssa.Value]bool) (bool, []string) {
	chain := taintChain(size, t)
	srcs := taintSources(chain)
	inChain := func(v ssa.Value) bool {
		if chain[v] {
			return true
		}
		if !t[v] {
			return false
		}
		for s := range taintSources(taintChain(v, t)) {
			if srcs[s] {
				return true
			}
		}
		return false
	}
	// arithmetic on decoded values only bounds them if it cannot wrap: 64-bit operands
	wide := func(v ssa.Value) bool {
		bo, ok := v.(*ssa.BinOp)
		if !ok {
			if cv, isConv := v.(*ssa.Convert); isConv {
				if inner, isBo := cv.X.(*ssa.BinOp); isBo {
					bo, ok = inner, true
				}
			}
		}
		if !ok {
			return true
		}
		switch bo.Op {
		case token.MUL, token.ADD, token.SHL:
			if bt, isB := bo.Type().Underlying().(*types.Basic); isB {
				switch bt.Kind() {
				case types.Int64, types.Uint64, types.Int, types.Uint, types.Uintptr:
					return true
				}
				return false
			}
		}
		return true
	}
	inChainWide := func(v ssa.Value) bool { return inChain(v) && wide(v) }
	bounded := func(iff *ssa.If, br int) bool {
		if upperBoundEdge(inChainWide, maxDecodedAlloc)(iff, br) {
			return true
		}
		r, ok := edgeRel(iff, br)
		if !ok {
			return false
		}
		x, y, op := r.X, r.Y, r.Op
		if !inChain(x) {
			x, y, op = y, x, swapOp(op)
		}
		if !inChain(x) || !wide(x) {
			return false
		}
		if op != token.LEQ && op != token.LSS {
			return false
		}
		// y must be a length of the input
		for _, rr := range rootsAll(y) {
			if call, ok := rr.(*ssa.Call); ok {
				nm := calleeName(&call.Call)
				if strings.HasSuffix(nm, ".Len") || nm == "builtin.len" {
					return true
				}
			}
		}
		return false
	}
	// the edge into succ itself may be the bounding edge
	edgeIs := func(g EdgePred) bool {
		if succ == nil {
			return false
		}
		iff, ok := lastIf(in.Block())
		if !ok {
			return false
		}
		for br, sb := range in.Block().Succs {
			if sb == succ && g(iff, br) {
				return true
			}
		}
		return false
	}
	ok, w := mustPass(in, bounded)
	if !ok && edgeIs(bounded) {
		ok = true
	}
	okLow := true
	// a signed size needs a lower bound too, unless the upper bound was established on an unsigned
	// value of the chain (then the later conversion to a signed type cannot produce a negative)
	unsignedBound := func(iff *ssa.If, br int) bool {
		return upperBoundEdge(func(v ssa.Value) bool { return inChainWide(v) && !isSigned(v.Type()) }, maxDecodedAlloc)(iff, br)
	}
	if ok && isSigned(size.Type()) {
		if okU, _ := mustPass(in, unsignedBound); okU || edgeIs(unsignedBound) {
			return true, nil
		}
		okLow, w = mustPass(in, lowerBoundEdge(inChain, 0))
		if !okLow && edgeIs(lowerBoundEdge(inChain, 0)) {
			okLow = true
		}
	}
	return ok && okLow, w
}

func runC20(c *Check) {
	scope := []string{"client", "storage"}
	// ---- R1
	n1 := 0
	scoped := map[*ssa.Function]bool{}
	for _, fn := range c.P.FuncsIn(scope...) {
		scoped[fn] = true
	}
	tc := newTaintCtx(func(f *ssa.Function) bool { return scoped[f] })
	for round := 0; round < 8; round++ { // parameters tainted by callers: iterate to a fixpoint
		tc.dirty = false
		for _, fn := range c.P.FuncsIn(scope...) {
			tc.decodedTaint(fn)
		}
		if !tc.dirty {
			break
		}
	}
	for _, fn := range c.P.FuncsIn(scope...) {
		t := tc.decodedTaint(fn)
		for _, b := range fn.Blocks {
			for _, in := range b.Instrs {
				var size ssa.Value
				var helper *ssa.Function
				var what string
				pick := func(vs ...ssa.Value) {
					for _, v := range vs {
						if v != nil && t[v] && size == nil {
							size = v
						}
					}
					for _, v := range vs {
						if v != nil && size == nil && helper == nil && tc.helperBounded[v] != nil {
							helper = tc.helperBounded[v]
						}
					}
				}
				switch x := in.(type) {
				case *ssa.MakeSlice:
					pick(x.Len, x.Cap)
					what = types.TypeString(x.Type(), func(p *types.Package) string { return p.Name() })
				case *ssa.MakeMap:
					pick(x.Reserve)
					what = "map"
				case *ssa.Call:
					// growing a buffer by a decoded amount allocates just like make
					switch calleeShort(&x.Call) {
					case "(*strings.Builder).Grow", "(*bytes.Buffer).Grow":
						if len(x.Call.Args) == 2 {
							pick(x.Call.Args[1])
							what = "Grow"
						}
					case "slices.Grow":
						if len(x.Call.Args) == 2 {
							pick(x.Call.Args[1])
							what = "Grow"
						}
					}
					if what == "" {
						continue
					}
				default:
					continue
				}
				key := fmt.Sprintf("%s#make-%s", c.P.Key(fn), what)
				if size == nil {
					if helper != nil {
						n1++
						c.Touch(fn)
						c.Touch(helper)
						c.Ok("R1", key, in.Pos(), "taint-to-allocation", "the decoded size reaches the allocation only through %s, which returns it behind an upper bound on every path", c.P.Key(helper))
					}
					continue
				}
				n1++
				c.Touch(fn)
				ok, w := sizeBounded(in, size, t)
				c.Decide(ok, "R1", key, in.Pos(), "taint-to-allocation", w,
					"decoded size is bounded before the allocation", "a count/size decoded from the input reaches make("+what+", n) without an upper bound (and lower bound if signed): a few bytes can claim 2^63 elements (makeslice panic) or gigabytes")
			}
		}
	}
	c.Min("R1", "allocations sized by decoded input", n1, 10)

	// ---- R2 slicing with computed bounds over stored data
	n2 := 0
	for _, fn := range c.P.FuncsIn("storage") {
		for _, b := range fn.Blocks {
			for _, in := range b.Instrs {
				sl, ok := in.(*ssa.Slice)
				if !ok || sl.High == nil {
					continue
				}
				if _, isC := sl.High.(*ssa.Const); isC {
					continue
				}
				// data read from storage ([]byte from store.Read)
				fromStore := false
				for _, r := range rootsAll(sl.X) {
					if call, ok := r.(*ssa.Call); ok && call.Call.IsInvoke() && call.Call.Method.Name() == "Read" {
						fromStore = true
					}
				}
				if !fromStore {
					continue
				}
				if lenOf(sl.High) != nil {
					continue // data[:len(x)] style
				}
				n2++
				c.Touch(fn)
				// a bound that is the index a search handed out ("offset of the match or -1"): the test that
				// counts is the one in force where the offset was found
				highLin := linOfValue(sl.High)
				var guardAt ssa.Instruction = in
				for t, cf := range highLin.terms {
					if phi, ok := stripConv(highLin.atoms[t]).(*ssa.Phi); ok && cf == 1 {
						if fi := foundIndexOf(phi); fi != nil {
							rest := highLin.clone()
							delete(rest.terms, t)
							delete(rest.atoms, t)
							highLin = rest.plus(linOfValue(fi))
							if fin, ok := fi.(ssa.Instruction); ok {
								guardAt = fin.Block().Instrs[len(fin.Block().Instrs)-1]
								// the block where the found value is chosen: the first use as a phi input
								for _, r := range *fi.Referrers() {
									if p2, ok := r.(*ssa.Phi); ok {
										for i, e := range p2.Edges {
											if e == fi {
												pb := p2.Block().Preds[i]
												guardAt = pb.Instrs[len(pb.Instrs)-1]
											}
										}
									}
								}
							}
						}
					}
				}
				g := func(iff *ssa.If, br int) bool {
					// the meaning of the comparison: it implies len(data) - high >= 0
					target := highLin.scale(-1)
					lenKey := "len(" + atomKey(sl.X) + ")"
					target.terms[lenKey] += 1
					if target.terms[lenKey] == 0 {
						delete(target.terms, lenKey)
					}
					for _, e := range edgeGeq(iff, br) {
						if impliesGeq(e, target) {
							return true
						}
					}
					r, ok := edgeRel(iff, br)
					if !ok {
						return false
					}
					x, y, op := r.X, r.Y, r.Op
					atLeastHigh := func(e ssa.Value) bool {
						if sameExpr(e, sl.High) {
							return true
						}
						if bo, ok := e.(*ssa.BinOp); ok && bo.Op == token.ADD {
							if k, isC := constInt(bo.Y); isC && k >= 0 && sameExpr(bo.X, sl.High) {
								return true
							}
							if k, isC := constInt(bo.X); isC && k >= 0 && sameExpr(bo.Y, sl.High) {
								return true
							}
						}
						return false
					}
					if !atLeastHigh(x) {
						x, y, op = y, x, swapOp(op)
					}
					if !atLeastHigh(x) {
						return false
					}
					l := lenOf(y)
					if l == nil {
						return false
					}
					return (op == token.LEQ || op == token.LSS) && sameExpr(l, sl.X) || (op == token.LEQ || op == token.LSS) && sharesRoot(l, sl.X)
				}
				// multiplication-by-constant truncation `data[:K*n]` guarded by len(data) > K*n
				ok2, w := mustPass(guardAt, g)
				if !ok2 {
					// data[:len(data)-k]: never above the length
					t := linOfValue(sl.High).scale(-1)
					t.terms["len("+atomKey(sl.X)+")"] += 1
					if t.terms["len("+atomKey(sl.X)+")"] == 0 {
						delete(t.terms, "len("+atomKey(sl.X)+")")
					}
					if d, isC := t.isConst(); isC && d >= 0 {
						ok2, w = true, nil
					} else if os.Getenv("SPYDEBUG") != "" {
						fmt.Fprintf(os.Stderr, "DEBUG slice-upper-bound %s: len-high = %s\n", c.P.Pos(in.Pos()), t)
					}
				}
				c.Decide(ok2, "R2", fmt.Sprintf("%s#slice-upper-bound", c.P.Key(fn)), in.Pos(), "bounds edge-cutset", w,
					"the computed upper bound is tested against the data length", "stored data is sliced with a computed upper bound that is not tested against its length: a file whose size is not a multiple of the record size panics the node")
			}
		}
	}
	c.Min("R2", "computed slicing of stored data", n2, 4)

	// ---- R3 nil element of fresh pointer slice
	n3 := 0
	for _, fn := range c.P.FuncsIn(scope...) {
		if relPkg(fn.Pkg.Pkg.Path()) == "client" && !strings.HasPrefix(fn.Name(), "Deserialize") {
			continue // only decoders
		}
		for _, b := range fn.Blocks {
			for _, in := range b.Instrs {
				ms, ok := in.(*ssa.MakeSlice)
				if !ok {
					continue
				}
				st, ok := ms.Type().Underlying().(*types.Slice)
				if !ok {
					continue
				}
				if _, isPtr := st.Elem().Underlying().(*types.Pointer); !isPtr {
					continue
				}
				if k, isC := constInt(ms.Len); isC && k == 0 {
					continue
				}
				n3++
				// stores into elements
				var stores []ssa.Instruction
				var uses []ssa.Instruction
				for _, r := range *ms.Referrers() {
					ia, ok := r.(*ssa.IndexAddr)
					if !ok {
						continue
					}
					for _, r2 := range *ia.Referrers() {
						switch y := r2.(type) {
						case *ssa.Store:
							if y.Addr == ssa.Value(ia) {
								stores = append(stores, y)
							}
						case *ssa.UnOp:
							// loaded element used as receiver / dereferenced
							for _, r3 := range *y.Referrers() {
								switch z := r3.(type) {
								case *ssa.Call:
									if len(z.Call.Args) > 0 && z.Call.Args[0] == ssa.Value(y) && !z.Call.IsInvoke() {
										uses = append(uses, z)
									}
								case *ssa.FieldAddr:
									uses = append(uses, z)
								}
							}
						}
					}
				}
				for _, u := range uses {
					ok := false
					for _, s := range stores {
						if s.Block() == u.Block() && instrIndex(s) < instrIndex(u) {
							ok = true
						}
					}
					if !ok && len(stores) > 0 {
						start := fn.Blocks[0]
						if h := loopHeaderOf(u.Block()); h != nil {
							start = h
						}
						cut := map[*ssa.BasicBlock]bool{}
						for _, s := range stores {
							cut[s.Block()] = true
						}
						r, _ := reachAvoid2(start, u.Block(), nil, cut)
						ok = !r
					}
					c.Touch(fn)
					c.Decide(ok, "R3", fmt.Sprintf("%s#element-assigned-before-use", c.P.Key(fn)), u.Pos(), "nil-element dataflow", nil,
						"the element is assigned before it is used", "an element of a freshly made slice of pointers is used as a receiver before anything was stored in it (nil pointer dereference on the first record)")
				}
			}
		}
	}
	c.Min("R3", "fresh pointer slices in decoders", n3, 1)

	// ---- R4 decoding loops make progress
	n4 := 0
	isRead := func(cc *ssa.CallCommon) bool {
		nm := calleeShort(cc)
		if strings.Contains(nm, "ReadVarInt") || nm == "encoding/binary.Read" || nm == "io.ReadFull" || strings.HasSuffix(nm, ".Deserialize") {
			return true
		}
		switch nm {
		case "storage.readUnconfirmedTx", "storage.readPeer", "(*storage.ReorgBlock).Read", "(*storage.Reorg).Read", "client.DeserializeFeeQuote", "client.DeserializeFee", "(*bytes.Buffer).Read":
			return true
		}
		if cc.IsInvoke() && cc.Method.Name() == "Read" && len(cc.Args) == 1 {
			return true // io.Reader.Read
		}
		return false
	}
	for _, fn := range c.P.FuncsIn(scope...) {
		if fn.Parent() != nil {
			continue
		}
		for _, h := range fn.Blocks {
			body := loopBody(h)
			if body == nil {
				continue
			}
			var reads []*ssa.Call
			for b := range body {
				// only reads directly in this loop (not in nested loops)
				if lh := loopHeaderOf(b); lh != h {
					continue
				}
				for _, in := range b.Instrs {
					if call, ok := in.(*ssa.Call); ok && isRead(&call.Call) && resultIsErrorSig(call.Call.Signature()) {
						reads = append(reads, call)
					}
				}
			}
			if len(reads) == 0 {
				continue
			}
			n4++
			c.Touch(fn)
			key := fmt.Sprintf("%s#decoding-loop", c.P.Key(fn))
			// every iteration path executes at least one read
			cnt := iterationCounts(h, func(in ssa.Instruction) int {
				for _, r := range reads {
					if ssa.Instruction(r) == in {
						return 1
					}
				}
				return 0
			})
			_, zero := cnt[0]
			c.Decide(!zero, "R4", key+"#consumes-input", lastPos(h), "per-iteration event count", nil,
				"every iteration reads from the input", "an iteration of this decoding loop can complete without reading: on crafted input the loop never terminates")
			// a failed read leaves the loop
			for _, r := range reads {
				okExit := true
				found := false
				for b := range body {
					iff, isIf := lastIf(b)
					if !isIf {
						continue
					}
					for br := 0; br < 2; br++ {
						if errNilEdge(sameCall(r), false)(iff, br) {
							found = true
							// on failure the iteration must not be able to come back to the loop header
							// (edge-threaded: the failure may travel through a result variable first)
							seenN := map[walkNode]bool{}
							q := []walkNode{mkNode(b, b.Succs[br])}
							for len(q) > 0 {
								nd := q[0]
								q = q[1:]
								if seenN[nd] {
									continue
								}
								seenN[nd] = true
								if nd.b == h {
									// back at the loop head: fine only if, arriving this way, the loop condition
									// is known to fail (`more = false; continue`)
									stays := false
									for i, sx := range h.Succs {
										if body[sx] && nd.feasibleEdge(i) {
											stays = true
										}
									}
									if stays {
										okExit = false
										break
									}
									continue
								}
								if !body[nd.b] {
									continue
								}
								for i := range nd.b.Succs {
									if nd.feasibleEdge(i) {
										q = append(q, nd.step(i))
									}
								}
							}
						}
					}
				}
				c.Decide(found && okExit, "R4", key+"#failed-read-leaves-loop", r.Pos(), "edge-cutset", nil,
					"a failed read leaves the loop", "after a failed read the loop continues (or the error is not tested): garbage is decoded / the loop spins")
			}
		}
	}
	c.Min("R4", "decoding loops", n4, 10)

	// ---- R5 read errors checked in storage readers
	c.ruleReadErrorsChecked("R5", []string{"storage"}, 10)
	c.rulePreallocateOnlyAsCapacity("R6")
	c.ruleConstIndexGuarded("R7", "storage")
}

// maxDecodedAlloc: a constant bound on a decoded size only counts as a bound if it keeps the
// allocation proportionate (16M elements); `size <= math.MaxInt64` bounds nothing.
const maxDecodedAlloc = 1 << 24
