package main

// Rules added after seeding round 7 (✧ in DESIGN.md). The round asked for changes "that would really
// get merged": clean-ups, optimisations, defensive returns, lock scopes narrowed for a stated reason.
// The misses were again below the entry points the earlier rules anchor in, and each of them is a
// structural necessary condition of its property that a test samples at one input only.

import (
	"fmt"
	"go/token"
	"go/types"
	"strings"

	"golang.org/x/tools/go/ssa"
)

// ---------------------------------------------------------------------------------------------
// C04.R11: the proof conversion is total

// ruleProofConversionTotal: convertMerkleProof answers nil only for a nil input. An empty path is the
// complete proof of the only tx of a one-tx block: a "defensive" nil for it delivers the confirmation
// without a proof.
func (c *Check) ruleProofConversionTotal(rule string) {
	var fn *ssa.Function
	for _, f := range c.P.FuncsIn("spynode") {
		sig := f.Signature
		if f.Parent() != nil || sig.Recv() != nil || sig.Results().Len() != 1 || sig.Params().Len() < 1 {
			continue
		}
		if !strings.HasSuffix(sig.Results().At(0).Type().String(), "pkg/client.MerkleProof") ||
			!strings.HasSuffix(sig.Params().At(0).Type().String(), "wire.MerkleProof") {
			continue
		}
		if _, isPtr := sig.Params().At(0).Type().(*types.Pointer); !isPtr {
			continue
		}
		fn = f
	}
	if fn == nil {
		c.Undecided(rule, "anchor:spynode merkle proof conversion", token.NoPos, "no function *wire.MerkleProof -> *client.MerkleProof found in spynode")
		return
	}
	c.Touch(fn)
	param := fn.Params[0]
	g := nilEdge(func(v ssa.Value) bool { return stripConv(v) == ssa.Value(param) }, true)
	n := 0
	for _, b := range fn.Blocks {
		ret, ok := b.Instrs[len(b.Instrs)-1].(*ssa.Return)
		if !ok {
			continue
		}
		n++
		okv := true
		var w []string
		for _, leaf := range constLeaves(resultValues(ret, 0)) {
			if leaf.val.IsNil() {
				at := ssa.Instruction(ret)
				if leaf.pred != nil {
					at = leaf.pred.Instrs[len(leaf.pred.Instrs)-1]
				}
				if ok2, ww := mustPass(at, g); !ok2 {
					okv = false
					w = ww
				}
			}
		}
		c.Decide(okv, rule, fmt.Sprintf("%s#nil-only-for-nil-input@%d", c.P.Key(fn), n), ret.Pos(), "must-pass", w,
			"the conversion answers nil only behind `proof == nil`",
			"the merkle proof conversion can answer nil for a proof that exists (e.g. one with an empty path, the complete proof of the only tx of a block): the confirmation is stored and delivered without its proof")
	}
	c.Min(rule, "returns of the merkle proof conversion", n, 1)
}

type constLeaf struct {
	val  *ssa.Const
	pred *ssa.BasicBlock // the block the constant flows in from (nil: returned directly)
}

// constLeaves: the constants among vs, looking through phis (with the predecessor they come from).
func constLeaves(vs []ssa.Value) []constLeaf {
	var out []constLeaf
	seen := map[ssa.Value]bool{}
	var walk func(v ssa.Value, pred *ssa.BasicBlock)
	walk = func(v ssa.Value, pred *ssa.BasicBlock) {
		v = stripConv(v)
		if k, ok := v.(*ssa.Const); ok {
			out = append(out, constLeaf{k, pred})
			return
		}
		if seen[v] {
			return
		}
		seen[v] = true
		if phi, ok := v.(*ssa.Phi); ok {
			for i, e := range phi.Edges {
				walk(e, phi.Block().Preds[i])
			}
		}
	}
	for _, v := range vs {
		walk(v, nil)
	}
	return out
}

// ---------------------------------------------------------------------------------------------
// C05.R18 / C06.R13: the outpoints are filled in before they are registered

// rulePopulatedBeforeRegistering: every path of AddTransaction into the loop that registers the tx's
// outpoints as spenders has filled the outpoints in (for an entry created by an announcement as for a
// new one): otherwise the normal network path (inv, then the body) registers nothing and no conflict
// with that tx is ever seen.
func (c *Check) rulePopulatedBeforeRegistering(rule string) {
	fOut := c.P.Field("state", "memPoolTx", "outPoints")
	fn := c.Fn(rule, "state.(*MemPool).AddTransaction")
	if fn == nil {
		return
	}
	if fOut == nil {
		c.Undecided(rule, "anchor:state.memPoolTx.outPoints", fn.Pos(), "field not found")
		return
	}
	// the functions of the package that fill the field in
	fills := map[*ssa.Function]bool{}
	for _, f := range c.P.FuncsIn("state") {
		if len(storesToField(f, fOut)) > 0 {
			fills[f] = true
		}
	}
	var events []ssa.Instruction
	for _, st := range storesToField(fn, fOut) {
		events = append(events, st)
	}
	for _, s := range sitesIn(fn) {
		if sc := s.CC.StaticCallee(); sc != nil && fills[sc] {
			events = append(events, s.Instr)
		}
	}
	n := 0
	for _, h := range loopsRangingOver(fn, func(v ssa.Value) bool { return mentionsField(v, fOut) }) {
		n++
		okv, w := len(events) > 0, []string(nil)
		if okv {
			// a path may skip the filling behind `len(outPoints) > 0` (already filled in)
			okv, w = mustPassOrHappen(h.Instrs[0], nonEmptyFieldEdge(fOut), events)
		}
		c.Decide(okv, rule, fmt.Sprintf("state.(*MemPool).AddTransaction#outpoints-filled-before-registering@%d", n), loopPos(h), "always-preceded-by", w,
			"every path into the registering loop has filled the tx's outpoints in",
			"a path reaches the loop that registers the tx's outpoints without having filled them in (e.g. only a newly created entry is filled, not one created by an announcement): a tx that was announced before it was received registers no spender, and no conflict with it is ever found")
	}
	c.Min(rule, "loops over the tx's outpoints in AddTransaction", n, 1)
}

// nonEmptyFieldEdge: the edge shows len(x.f) > 0.
func nonEmptyFieldEdge(f *types.Var) EdgePred {
	return func(iff *ssa.If, br int) bool {
		r, ok := edgeRel(iff, br)
		if !ok {
			return false
		}
		x, y, op := r.X, r.Y, r.Op
		if !lenOfField(x, f) {
			if !lenOfField(y, f) {
				return false
			}
			x, y, op = y, x, swapOp(op)
		}
		k, isK := constInt(stripConv(y))
		if !isK {
			return false
		}
		switch op {
		case token.GTR:
			return k >= 0
		case token.NEQ:
			return k == 0
		case token.GEQ:
			return k >= 1
		}
		return false
	}
}

// ---------------------------------------------------------------------------------------------
// lock-guarded collections are not handed out (C08.R12 and the other lockset tables)

// aliasOfGuarded: v is (a slice of / a phi of) the value of a guarded slice or map field.
func aliasOfGuarded(v ssa.Value, guarded map[*types.Var]bool) *types.Var {
	seen := map[ssa.Value]bool{}
	var walk func(v ssa.Value) *types.Var
	walk = func(v ssa.Value) *types.Var {
		v = stripConv(v)
		if v == nil || seen[v] {
			return nil
		}
		seen[v] = true
		switch x := v.(type) {
		case *ssa.Phi:
			for _, e := range x.Edges {
				if f := walk(e); f != nil {
					return f
				}
			}
		case *ssa.Slice:
			return walk(x.X)
		case *ssa.MakeInterface:
			return walk(x.X)
		case *ssa.UnOp:
			if x.Op != token.MUL {
				return nil
			}
			switch a := x.X.(type) {
			case *ssa.FieldAddr:
				st, ok := a.X.Type().Underlying().(*types.Pointer)
				if !ok {
					return nil
				}
				s, ok := st.Elem().Underlying().(*types.Struct)
				if !ok {
					return nil
				}
				f := s.Field(a.Field)
				if !guarded[f] {
					return nil
				}
				switch f.Type().Underlying().(type) {
				case *types.Slice, *types.Map:
					return f
				}
			case *ssa.Alloc:
				for _, ref := range *a.Referrers() {
					if st, ok := ref.(*ssa.Store); ok && st.Addr == ssa.Value(a) {
						if f := walk(st.Val); f != nil {
							return f
						}
					}
				}
			}
		}
		return nil
	}
	return walk(v)
}

// guardedEscapes (part of every lockset rule): a function that takes the mutex and releases it before
// it returns does not return the guarded slice / map itself (only a copy), and does not read the
// elements of a value it loaded from a guarded slice / map field under the lock at a point where the
// lock is no longer held: the writers modify these collections in place under the lock, and elements
// shift under an unlocked reader.
func (c *Check) guardedEscapes(rule string, mu *types.Var, typ string, guarded map[*types.Var]bool, scope []string) {
	le := c.Locks()
	n := 0
	for _, fn := range c.P.FuncsIn(scope...) {
		if fn.Blocks == nil {
			continue
		}
		takes := false
		for _, s := range sitesIn(fn) {
			if k, d := lockOp(s.CC); k == mu && d == 1 {
				takes = true
			}
		}
		if !takes {
			continue
		}
		n++
		// a function that returns with the lock held hands the critical section over to its caller
		handsOver := false
		for _, ex := range le.Summary(fn).exits {
			if ex.delta[mu] > 0 {
				handsOver = true
			}
		}
		key := fmt.Sprintf("%s#guarded-collection-stays-inside", c.P.Key(fn))
		var bad *types.Var
		var pos token.Pos
		what := ""
		if !handsOver {
			for _, b := range fn.Blocks {
				ret, ok := b.Instrs[len(b.Instrs)-1].(*ssa.Return)
				if !ok {
					continue
				}
				for i := range ret.Results {
					for _, v := range resultValues(ret, i) {
						if f := aliasOfGuarded(v, guarded); f != nil {
							bad, pos, what = f, ret.Pos(), "returns the collection itself after releasing the lock: the caller reads it unlocked"
						}
					}
				}
			}
		}
		// element reads, outside the lock, of a value loaded under it
		for _, b := range fn.Blocks {
			for _, in := range b.Instrs {
				ld, ok := in.(*ssa.UnOp)
				if !ok || ld.Op != token.MUL {
					continue
				}
				if _, direct := ld.X.(*ssa.FieldAddr); !direct {
					continue
				}
				f := aliasOfGuarded(ld, guarded)
				if f == nil || !le.HeldBefore(ld)[mu] {
					continue
				}
				if use := elementUseOutside(le, ld, mu); use != nil {
					bad, pos, what = f, use.Pos(), fmt.Sprintf("reads its elements at %s, after the lock taken for the load at %s was released", c.P.Pos(use.Pos()), c.P.Pos(ld.Pos()))
				}
			}
		}
		if bad == nil {
			continue
		}
		c.Touch(fn)
		c.Bad(rule, key, pos, "alias escape", nil,
			"%s takes the %s-guarded collection %s out of its critical section (%s) while writers modify it in place (elements shift under the reader: an entry is missed or seen twice)", c.P.Key(fn), lockName(mu), bad.Name(), what)
	}
	c.Ok(rule, typ+"."+mu.Name()+"#guarded-collections-stay-inside", token.NoPos, "alias escape", "%d functions take %s; none returns a guarded slice / map itself or reads one it loaded under the lock after releasing it", n, lockName(mu))
}

// elementUseOutside: an instruction that reads elements of (an alias of) v where mu is not held.
func elementUseOutside(le *LockEngine, v ssa.Value, mu *types.Var) ssa.Instruction {
	seen := map[ssa.Value]bool{}
	work := []ssa.Value{v}
	for len(work) > 0 {
		x := work[0]
		work = work[1:]
		if seen[x] {
			continue
		}
		seen[x] = true
		refs := x.Referrers()
		if refs == nil {
			continue
		}
		for _, r := range *refs {
			elem := false
			switch u := r.(type) {
			case *ssa.Phi:
				work = append(work, u)
			case *ssa.ChangeType:
				work = append(work, u)
			case *ssa.Convert:
				work = append(work, u)
			case *ssa.MakeInterface:
				work = append(work, u)
			case *ssa.Slice:
				if u.X == x {
					work = append(work, u)
				}
			case *ssa.Store:
				if u.Val == x {
					if a, ok := u.Addr.(*ssa.Alloc); ok {
						for _, ar := range *a.Referrers() {
							if l, ok := ar.(*ssa.UnOp); ok && l.Op == token.MUL && l.X == ssa.Value(a) {
								work = append(work, l)
							}
						}
					}
				}
			case *ssa.IndexAddr:
				elem = u.X == x
			case *ssa.Index:
				elem = u.X == x
			case *ssa.Lookup:
				elem = u.X == x
			case *ssa.Range:
				elem = u.X == x
			case *ssa.MapUpdate:
				elem = u.Map == x
			case *ssa.Call:
				if bi, ok := u.Call.Value.(*ssa.Builtin); ok && (bi.Name() == "len" || bi.Name() == "cap") {
					continue
				}
				elem = true
			}
			if elem && !le.HeldBefore(r)[mu] {
				return r
			}
		}
	}
	return nil
}

// ---------------------------------------------------------------------------------------------
// C09.R20: an explicitly requested height is served as requested

// ruleExplicitHeightNotClamped: in Node.GetHeaders the first height handed to the repository is the
// requested height itself unless the request was "the most recent" (-1): every other value the start
// can take is assigned behind `height == -1`.
func (c *Check) ruleExplicitHeightNotClamped(rule string) {
	fn := c.Fn(rule, "spynode.(*Node).GetHeaders")
	if fn == nil {
		return
	}
	height := paramAt(fn, "height", 2)
	if height == nil {
		c.Undecided(rule, "anchor:GetHeaders.height", fn.Pos(), "parameter not found")
		return
	}
	g := equalEdge(func(a, b ssa.Value) bool {
		if stripConv(a) != ssa.Value(height) {
			return false
		}
		v, isInt := constInt(stripConv(b))
		return isInt && v == -1
	}, true)
	n := 0
	type hdrLoop struct {
		h   *ssa.BasicBlock
		phi *ssa.Phi
	}
	var loops []hdrLoop
	for _, s := range callsTo(fn, "(*storage.BlockRepository).Header") {
		if len(s.CC.Args) == 0 {
			continue
		}
		// the height argument: the loop variable, whatever else the loop condition tests
		if phi, ok := stripConv(s.CC.Args[len(s.CC.Args)-1]).(*ssa.Phi); ok && loopBody(phi.Block()) != nil {
			loops = append(loops, hdrLoop{phi.Block(), phi})
		}
	}
	for _, lc := range loops {
		var init ssa.Value
		body := loopBody(lc.h)
		for i, e := range lc.phi.Edges {
			if !body[lc.h.Preds[i]] {
				init = e
			}
		}
		if init == nil {
			continue
		}
		n++
		okv := true
		var w []string
		seen := map[ssa.Value]bool{}
		var walk func(v ssa.Value, pred *ssa.BasicBlock)
		walk = func(v ssa.Value, pred *ssa.BasicBlock) {
			v = stripConv(v)
			if v == ssa.Value(height) || seen[v] {
				return
			}
			seen[v] = true
			if phi, ok := v.(*ssa.Phi); ok {
				for i, e := range phi.Edges {
					walk(e, phi.Block().Preds[i])
				}
				return
			}
			var at ssa.Instruction
			if in, ok := v.(ssa.Instruction); ok && in.Block() != nil {
				at = in
			} else if pred != nil {
				at = pred.Instrs[len(pred.Instrs)-1]
			}
			if at == nil {
				okv = false
				return
			}
			if ok2, ww := mustPass(at, g); !ok2 {
				okv = false
				w = ww
			}
		}
		walk(init, nil)
		c.Decide(okv, rule, fmt.Sprintf("spynode.(*Node).GetHeaders#explicit-height-served-as-requested@%d", n), loopPos(lc.h), "must-pass", w,
			"the first height read is the requested one unless the request was -1",
			"the start height of an explicit request can be replaced (e.g. a negative height clamped to 0) outside the `height == -1` case: the headers returned are not the ones at the requested height, and the response says they are")
	}
	c.Min(rule, "header loops in GetHeaders", n, 1)
}

// ---------------------------------------------------------------------------------------------
// C07.R14 / C12.R12: the safe flag delivered is decided on every path

// ruleSafeDecidedBeforeDelivery: in processUnconfirmedTx every path to the delivery of the tx stores
// State.Safe: a stored record that is re-used keeps no earlier answer (a stale Safe=true would be
// delivered for a tx that only an untrusted peer has sent this time).
func (c *Check) ruleSafeDecidedBeforeDelivery(rule string) {
	fSafe := c.P.Field("client", "TxState", "Safe")
	fn := c.Fn(rule, "spynode.(*Node).processUnconfirmedTx")
	if fn == nil {
		return
	}
	if fSafe == nil {
		c.Undecided(rule, "anchor:client.TxState.Safe", fn.Pos(), "field not found")
		return
	}
	var events []ssa.Instruction
	for _, st := range storesToField(fn, fSafe) {
		events = append(events, st)
	}
	n := 0
	for _, s := range c.handlerInvokes(fn, "HandleTx") {
		n++
		okv, w := len(events) > 0, []string(nil)
		if okv {
			okv, w = alwaysPrecededBy(s.Instr, events)
		}
		c.Decide(okv, rule, fmt.Sprintf("spynode.(*Node).processUnconfirmedTx#safe-decided-before-delivery@%d", n), s.Pos(), "always-preceded-by", w,
			"every path to the delivery assigns State.Safe",
			"a path delivers the tx without assigning State.Safe: a record loaded from the store keeps the Safe answer of an earlier life, so a tx only an untrusted peer sent is delivered as safe")
	}
	c.Min(rule, "HandleTx deliveries in processUnconfirmedTx", n, 1)
}

// ---------------------------------------------------------------------------------------------
// C13.R19: sizes are subtracted from the list as it was before the cut

// ruleSizesSubtractedBeforeCut: the entries whose sizes are taken off the buffered-bytes count are read
// from the request list before the list is cut: read after the cut the removed entries are no longer
// there and nothing is subtracted.
func (c *Check) ruleSizesSubtractedBeforeCut(rule string) {
	fReq := c.P.Field("state", "State", "blocksRequested")
	fSize := c.P.Field("state", "State", "pendingBlockSize")
	if fReq == nil || fSize == nil {
		c.Undecided(rule, "anchor:state.State.blocksRequested / pendingBlockSize", token.NoPos, "fields not found")
		return
	}
	n := 0
	for _, fn := range c.P.FuncsIn("state") {
		cuts := storesToField(fn, fReq)
		for _, st := range storesToField(fn, fSize) {
			bin, ok := st.Val.(*ssa.BinOp)
			if !ok || bin.Op != token.SUB {
				continue
			}
			var loads []*ssa.UnOp
			for _, r := range rootsAll(bin.Y) {
				if u, isU := r.(*ssa.UnOp); isU && u.Op == token.MUL && loadOfField(u, fReq) != nil {
					loads = append(loads, u)
				}
			}
			if len(loads) == 0 {
				continue
			}
			n++
			okv := true
			var w []string
			for _, cut := range cuts {
				if isAppendStore(cut, fReq) {
					continue
				}
				for _, ld := range loads {
					if reachNoRevisit(cut, ld, nil) && !reachNoRevisit(ld, cut, nil) {
						okv = false
						w = []string{fmt.Sprintf("list cut at %s, entries read at %s", c.P.Pos(cut.Pos()), c.P.Pos(ld.Pos()))}
					}
				}
			}
			c.Decide(okv, rule, fmt.Sprintf("%s#sizes-subtracted-before-cut", c.P.Key(fn)), st.Pos(), "event order", w,
				"the entries whose sizes are subtracted are read before the list is cut",
				"the sizes taken off the buffered-bytes count are read from the request list after it was cut: the removed entries are gone, nothing is subtracted, the count only grows and block requests stall at the limit")
			c.Touch(fn)
		}
	}
	c.Min(rule, "subtractions of request sizes from pendingBlockSize", n, 2)
}

// ---------------------------------------------------------------------------------------------
// C13.R20: a request is a request whether or not its block has arrived

// ruleMembershipByHashOnly: BlockIsRequested decides by the hash alone: it reads no other field of the
// entries (a block that was delivered and waits to be processed is still requested: the headers
// handler uses the answer to recognise known headers and forks).
func (c *Check) ruleMembershipByHashOnly(rule string) {
	fn := c.Fn(rule, "state.(*State).BlockIsRequested")
	if fn == nil {
		return
	}
	rb := c.P.NamedType("state", "requestedBlock")
	fHash := c.P.Field("state", "requestedBlock", "hash")
	if rb == nil || fHash == nil {
		c.Undecided(rule, "anchor:state.requestedBlock", fn.Pos(), "type / hash field not found")
		return
	}
	st, _ := rb.Underlying().(*types.Struct)
	n := 0
	var bad *types.Var
	var pos token.Pos
	for _, b := range fn.Blocks {
		for _, in := range b.Instrs {
			fa, ok := in.(*ssa.FieldAddr)
			if !ok || st == nil {
				continue
			}
			p, ok := fa.X.Type().Underlying().(*types.Pointer)
			if !ok || !types.Identical(p.Elem(), rb) {
				continue
			}
			f := st.Field(fa.Field)
			if f == fHash {
				n++
			} else {
				bad, pos = f, fa.Pos()
			}
		}
	}
	name := ""
	if bad != nil {
		name = bad.Name()
	}
	c.Decide(bad == nil, rule, "state.(*State).BlockIsRequested#decides-by-hash-only", pos, "field reads", nil,
		"the answer depends on the entries' hashes only",
		"BlockIsRequested reads the field "+name+" of the entries: a block that was delivered and waits to be processed no longer counts as requested, a re-announced header of it is taken for unknown / a fork and the request list is cleared or extended wrongly")
	c.Min(rule, "reads of requestedBlock.hash in BlockIsRequested", n, 1)
}

// ---------------------------------------------------------------------------------------------
// C11.R12 / C15.R9: bytes handed to the store are the caller's own

// rulePooledBufferNotStored: the data handed to Storage.Write does not come out of a sync.Pool: the
// buffer goes back to the pool when the function returns, and a store that keeps the slice it was
// given (the in-memory one does) then holds bytes the next writer overwrites.
func (c *Check) rulePooledBufferNotStored(rule string, min int) {
	n := 0
	for _, fn := range c.P.FuncsIn("storage", "spynode", "handlers", "state") {
		for _, s := range sitesIn(fn) {
			if !s.CC.IsInvoke() || s.CC.Method.Name() != "Write" || len(s.CC.Args) < 3 {
				continue
			}
			if !strings.HasSuffix(s.CC.Value.Type().String(), "storage.Storage") {
				continue
			}
			n++
			var from *ssa.Call
			for _, r := range rootsAll(s.CC.Args[len(s.CC.Args)-2]) {
				if call, ok := r.(*ssa.Call); ok && strings.HasSuffix(calleeName(&call.Call), "sync.Pool).Get") {
					from = call
				}
			}
			// the receiver of buf.Bytes(): a buffer taken from a pool
			for _, r := range rootsAll(s.CC.Args[len(s.CC.Args)-2]) {
				if call, ok := r.(*ssa.Call); ok && len(call.Call.Args) > 0 && !call.Call.IsInvoke() {
					for _, r2 := range rootsAll(call.Call.Args[0]) {
						if c2, ok := r2.(*ssa.Call); ok && strings.HasSuffix(calleeName(&c2.Call), "sync.Pool).Get") {
							from = c2
						}
					}
				}
			}
			if from == nil {
				continue
			}
			c.Touch(fn)
			c.Bad(rule, fmt.Sprintf("%s#stored-bytes-not-pooled", c.P.Key(fn)), s.Pos(), "provenance", []string{"buffer taken from the pool at " + c.P.Pos(from.Pos())},
				"the bytes handed to Storage.Write come from a pooled buffer that is handed back when the function returns: a store that keeps the slice holds bytes the next writer overwrites, and a record read back is another record's (or a torn one)")
		}
	}
	c.Ok(rule, "storage#stored-bytes-not-pooled", token.NoPos, "provenance", "%d Storage.Write sites, none is handed bytes of a pooled buffer", n)
	c.Min(rule, "Storage.Write call sites", n, min)
}

// ---------------------------------------------------------------------------------------------
// C19.R12: an untrusted node that is starting is not taken for an inactive one

// ruleDialUnderLock: UntrustedNode.Run holds the node's lock from the stopping test over the dial to
// `active = true`: IsActive blocks for a node that is dialling and never answers false for it (the
// monitor drops nodes that answer false, and a dropped node that still connects is never stopped, so
// the count of running nodes never reaches zero and Stop does not return).
func (c *Check) ruleDialUnderLock(rule string) {
	fn := c.Fn(rule, "spynode.(*UntrustedNode).Run")
	if fn == nil {
		return
	}
	mu := c.P.Field("spynode", "UntrustedNode", "lock")
	fActive := c.P.Field("spynode", "UntrustedNode", "active")
	fStopping := c.P.Field("spynode", "UntrustedNode", "stopping")
	if mu == nil || fActive == nil || fStopping == nil {
		c.Undecided(rule, "anchor:spynode.UntrustedNode.lock/active/stopping", fn.Pos(), "fields not found")
		return
	}
	le := c.Locks()
	var raise *ssa.Store
	for _, st := range storesToField(fn, fActive) {
		if k, ok := st.Val.(*ssa.Const); ok && k.Value != nil && k.Value.String() == "true" {
			raise = st
		}
	}
	dials := callsTo(fn, "(*spynode.UntrustedNode).connect")
	if raise == nil || len(dials) == 0 {
		c.Undecided(rule, "shape:UntrustedNode.Run", fn.Pos(), "`active = true` or the call of connect not found in Run")
		return
	}
	okv := le.HeldBefore(raise)[mu]
	why := "the lock is not held where active is set"
	if okv {
		for _, d := range dials {
			if !le.HeldBefore(d.Instr)[mu] {
				okv = false
				why = "the lock is not held over the dial (connect)"
			}
		}
	}
	if okv {
		// one critical section: no release between the dial and the store
		for _, s := range sitesIn(fn) {
			if k, d := lockOp(s.CC); k == mu && d == -1 {
				if _, isDefer := s.Instr.(*ssa.Defer); isDefer {
					continue
				}
				for _, dl := range dials {
					if reachNoRevisit(dl.Instr, s.Instr, nil) && reachNoRevisit(s.Instr, raise, nil) {
						okv = false
						why = "the lock is released between the dial and `active = true`"
					}
				}
			}
		}
	}
	c.Decide(okv, rule, "spynode.(*UntrustedNode).Run#dial-and-activation-in-one-critical-section", raise.Pos(), "lock region", []string{why},
		"the stopping test, the dial and `active = true` are one critical section of the node's lock",
		"UntrustedNode.Run does not hold the node's lock from the dial to `active = true` ("+why+"): IsActive answers false for a node that is still dialling, the monitor drops it from the list, it connects anyway and is never stopped: the running count never reaches zero and Stop never returns")
}

// ---------------------------------------------------------------------------------------------
// C03.R21: the spent output of an input is an output of the parent

// ruleSpentOutputIsParentsOutput: what fetchSpentOutputs stores for an input that spends a stored tx
// is an element of the parent's own outputs (Tx.TxOut), not of the parent's spent outputs (Outputs,
// which is what the accessor InputOutput answers).
func (c *Check) ruleSpentOutputIsParentsOutput(rule string) {
	fn := c.Fn(rule, "spynode.fetchSpentOutputs")
	if fn == nil {
		return
	}
	fOutputs := c.P.Field("client", "Tx", "Outputs")
	if fOutputs == nil {
		c.Undecided(rule, "anchor:client.Tx.Outputs", fn.Pos(), "field not found")
		return
	}
	n := 0
	for _, b := range fn.Blocks {
		for _, in := range b.Instrs {
			st, ok := in.(*ssa.Store)
			if !ok {
				continue
			}
			ia, ok := st.Addr.(*ssa.IndexAddr)
			if !ok || loadOfField(ia.X, fOutputs) == nil {
				continue
			}
			n++
			okv := true
			why := ""
			for _, r := range rootsAll(st.Val) {
				switch x := r.(type) {
				case *ssa.Call:
					if nm := calleeName(&x.Call); strings.HasSuffix(nm, ".InputOutput") || strings.HasSuffix(nm, ".InputLockingScript") || strings.HasSuffix(nm, ".InputValue") {
						okv = false
						why = "through the accessor " + shortName(nm)
					}
				case *ssa.UnOp:
					if x.Op == token.MUL && loadOfField(x, fOutputs) != nil {
						okv = false
						why = "read from a tx's Outputs (its spent outputs)"
					}
				}
			}
			c.Decide(okv, rule, fmt.Sprintf("spynode.fetchSpentOutputs#spent-output-is-parents-output@%d", n), st.Pos(), "provenance", []string{why},
				"the stored spent output does not come from a tx's spent-output list",
				"the output stored for an input is taken from the parent's *spent* outputs ("+why+"), not from the parent's own outputs: the tx is delivered and persisted with the wrong (or an empty) output for every input whose parent is stored")
		}
	}
	c.Min(rule, "stores into the tx's spent-output list in fetchSpentOutputs", n, 2)
}

// ---------------------------------------------------------------------------------------------
// C02.R17 / C10.R13: the cursor moves to the fork point only after the chain did

// ruleCursorMovesAfterRevert: in HeadersHandler.Handle no SetLastHash precedes the Revert of the same
// header: if the revert (or anything before it) fails, the cursor would already be at the fork point
// while the repository still holds the old branch, and the next headers are appended on the old tip.
func (c *Check) ruleCursorMovesAfterRevert(rule string) {
	fn := c.Fn(rule, "handlers.(*HeadersHandler).Handle")
	if fn == nil {
		return
	}
	reverts := callsTo(fn, "(*storage.BlockRepository).Revert")
	sets := callsTo(fn, "(*state.State).SetLastHash")
	n := 0
	for _, r := range reverts {
		n++
		cut := loopHeaderOf(r.Instr.Block())
		okv := true
		var w []string
		for _, s := range sets {
			if reachNoRevisit(s.Instr, r.Instr, cut) {
				okv = false
				w = []string{fmt.Sprintf("SetLastHash at %s, Revert at %s", c.P.Pos(s.Pos()), c.P.Pos(r.Pos()))}
			}
		}
		c.Decide(okv, rule, fmt.Sprintf("handlers.(*HeadersHandler).Handle#cursor-moves-after-revert@%d", n), r.Pos(), "event order", w,
			"the request state's last hash is not moved before the repository was reverted",
			"the last hash is moved to the fork point before the repository is reverted: when the reorg's storage work fails in between, the cursor points at the fork while the chain still ends at the old tip, and the next headers of the new branch are appended on top of the old one")
	}
	c.Min(rule, "Revert calls in HeadersHandler.Handle", n, 1)
}
