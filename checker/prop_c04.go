package main

import (
	"fmt"
	"go/types"

	"golang.org/x/tools/go/ssa"
)

func init() {
	register(&PropDef{
		ID:    "C04",
		Title: "Confirmations carry valid merkle proofs; bad-merkle blocks are never accepted",
		Explanation: "Decides the structural discipline around wire.MerkleTree in ProcessBlock and provideBlock: " +
			"(R1) the header is added to the chain only behind block.IsMerkleRootValid()==true; " +
			"(R2) every HandleTx/HandleTxUpdate of block processing is behind a successful merkle validation of this block, and notifications that carry a proof are behind the computed-root test (FinalizeMerkleProofs root == header.MerkleRoot); " +
			"(R3) in the loop over block.GetNextTx every iteration adds this iteration's txid as a leaf exactly once on every path, and a proof registration never follows the leaf; " +
			"(R4) on every path through an iteration the number of proof registrations equals the number of appends to the delivered-tx list (registration order is the only link between proof i and tx i); " +
			"(R5) every MerkleProof stored into a delivered state is convertMerkleProof(proofs[i], header) with proofs from FinalizeMerkleProofs, i the index of the loop over that list (the same i that selects the tx) and header the header of the block being processed; " +
			"(R6) convertMerkleProof fills every field of client.MerkleProof from the corresponding source field.",
		NotDecided:  "that an independent verifier accepts the proof for every block shape (numeric); correctness of wire.MerkleTree (dependency).",
		Assumptions: []string{"wire.MerkleTree assigns the proof index when the leaf is added", "block.GetHeader() is stable"},
		Tech:        "guard edge cut-sets, per-iteration event counting on the CFG, value provenance of indices",
		Run:         runC04,
	})
}

func isMethodNamed(cc *ssa.CallCommon, name string) bool {
	o := calleeObj(cc)
	return o != nil && o.Name() == name
}

func runC04(c *Check) {
	ta := c.txAnchors("R0")
	if ta == nil {
		return
	}
	c.ruleNoMakeLenThenAppend("R7", "client", "spynode")
	c.ruleConfirmedStateComplete("R8")
	c.ruleNoWholeRecordOverwrite("R10")
	c.ruleProofConversionTotal("R11")
	c.ruleDecodeLoopsKeepEveryElement("R12", 10)
	c.ruleAlreadyConfirmedNeedsBlockInChain("R13")
	c.ruleNotificationFreshPerDelivery("R14")
	c.ruleNoCallTo("R15", "ResetTxs", []string{"handlers", "spynode", "state"}, "a block that was read to the end is rewound and handed out again: its txs are delivered a second time under the next height, with proofs for a header the node does not hold there")
	// R9 the proof's codec: a stored / transmitted confirmation is decoded with the proof it was written with
	if cp := c.P.CodecPkg("client"); cp != nil {
		for _, pr := range codecPairsIn(cp, "Serialize", "Deserialize") {
			if pr.Name == "MerkleProof" {
				c.compareCodecPair("R9", "client", pr)
			}
		}
	}
	merkleValid := condEdge(func(cd Cond) (bool, bool) {
		if cd.Call != nil && cd.Call.Call.IsInvoke() && cd.Call.Call.Method.Name() == "IsMerkleRootValid" {
			return true, true
		}
		return false, false
	})
	computedRoot := equalEdge(func(x, y ssa.Value) bool {
		fromTree := false
		for _, r := range rootsAll(x) {
			if call, ok := r.(*ssa.Call); ok && isMethodNamed(&call.Call, "FinalizeMerkleProofs") {
				fromTree = true
			}
		}
		return fromTree && mentionsFieldNamed(y, "MerkleRoot")
	}, true)

	// R1
	if fn := c.Fn("R1", "spynode.(*Node).ProcessBlock"); fn != nil {
		for _, s := range callsTo(fn, "(*storage.BlockRepository).Add") {
			ok, w := mustPass(s.Instr, merkleValid)
			c.Decide(ok, "R1", "spynode.(*Node).ProcessBlock#Add-behind-merkle-validation", s.Pos(), "edge-cutset", w,
				"header added only behind IsMerkleRootValid()==true", "a block whose transactions were not validated against its merkle root can be added to the chain")
		}
	}

	for _, fk := range []string{"spynode.(*Node).ProcessBlock", "spynode.(*Node).provideBlock"} {
		fn := c.Fn("R2", fk)
		if fn == nil {
			continue
		}
		// the tx loop
		var getNext *ssa.Call
		for _, s := range sitesIn(fn) {
			if s.CC.IsInvoke() && s.CC.Method.Name() == "GetNextTx" {
				getNext = s.Value()
			}
		}
		if getNext == nil {
			c.Bad("R3", fk+"#tx-loop", fn.Pos(), "cfg-structure", nil, "no block.GetNextTx loop found")
			continue
		}
		h := loopHeaderOf(getNext.Block())
		if h == nil {
			c.Bad("R3", fk+"#tx-loop", getNext.Pos(), "cfg-structure", nil, "GetNextTx is not called in a loop")
			continue
		}
		// R2 notifications behind validation
		for _, s := range c.handlerInvokes(fn, "HandleTx", "HandleTxUpdate") {
			inTxLoop := inLoop(s.Instr, h)
			key := fmt.Sprintf("%s#%s", fk, s.CC.Method.Name())
			if inTxLoop {
				ok, w := mustPass(s.Instr, anyEdge(merkleValid, computedRoot))
				c.Decide(ok, "R2", key+"-in-loop-behind-block-validation", s.Pos(), "edge-cutset", w,
					"behind the block-level merkle validation", "a notification inside the tx loop is reachable without any merkle validation of the block")
			} else {
				ok, w := mustPass(s.Instr, computedRoot)
				c.Decide(ok, "R2", key+"-behind-computed-root", s.Pos(), "edge-cutset", w,
					"behind computed root == header.MerkleRoot", "a notification carrying a merkle proof is delivered without the computed root having been compared equal to the header's merkle root")
			}
		}
		// R3 leaf discipline
		isTxid := func(v ssa.Value) bool {
			for _, r := range rootsAll(v) {
				if call, ok := r.(*ssa.Call); ok && isMethodNamed(&call.Call, "TxHash") {
					if derivesFromValue(call.Call.Args[0], getNext) {
						return true
					}
				}
			}
			return false
		}
		var addHash, addProof []Site
		for _, s := range sitesIn(fn) {
			if !inLoop(s.Instr, h) {
				continue
			}
			if isMethodNamed(s.CC, "AddHash") && calleeShort(s.CC) == "(*wire.MerkleTree).AddHash" {
				addHash = append(addHash, s)
			}
			if calleeShort(s.CC) == "(*wire.MerkleTree).AddMerkleProof" {
				addProof = append(addProof, s)
			}
		}
		c.Min("R3", "AddHash calls in "+fk, len(addHash), 1)
		c.Min("R3", "AddMerkleProof calls in "+fk, len(addProof), 1)
		isAddHash := func(in ssa.Instruction) int {
			for _, s := range addHash {
				if s.Instr == in {
					return 1
				}
			}
			return 0
		}
		// paths that leave through an error return are exempt: count only back-edge paths; but the
		// path that breaks out (tx == nil) is not an iteration either.
		counts := iterationCounts(h, isAddHash)
		okLeaf := len(counts) == 1 && counts[1] != nil
		var wit []string
		for n, p := range counts {
			if n != 1 {
				wit = append([]string{fmt.Sprintf("an iteration path that adds the txid as a leaf %d times:", n)}, pathWitness(fn, p)...)
			}
		}
		c.Decide(okLeaf, "R3", fk+"#one-leaf-per-tx", lastPos(h), "per-iteration event count", wit,
			"every iteration adds exactly one leaf on every path", "some path through the tx loop does not add the tx as a merkle leaf exactly once: the computed root cannot match (or proofs get wrong indexes)")
		for _, s := range addHash {
			a := s.Args()
			c.Decide(len(a) == 1 && isTxid(a[0]), "R3", fk+"#leaf-is-this-tx", s.Pos(), "provenance", nil,
				"the leaf is this iteration's txid", "the leaf added is not the txid of the transaction read in this iteration")
		}
		for _, p := range addProof {
			a := p.Args()
			c.Decide(len(a) == 1 && isTxid(a[0]), "R3", fk+"#proof-registered-for-this-tx", p.Pos(), "provenance", nil,
				"the proof is registered for this iteration's txid", "a merkle proof is registered for something other than this iteration's txid")
			bad := false
			for _, s := range addHash {
				if canFollowSameIteration(s.Instr, p.Instr, fn) {
					bad = true
				}
			}
			c.Decide(!bad, "R3", fk+"#proof-registered-before-leaf", p.Pos(), "event-order", nil,
				"registration precedes the leaf", "a proof can be registered after the tx's leaf was added (the tree assigns the proof index when the leaf is added)")
		}
		// R4 alignment: registrations vs appends of the tx to the delivered list
		var txAppends []*ssa.Call
		for b := range loopBody(h) {
			for _, in := range b.Instrs {
				if call, ok := in.(*ssa.Call); ok && builtinCall(call, "append") != nil {
					if sl, ok := call.Type().Underlying().(*types.Slice); ok {
						isTxPtr := func(t types.Type) bool {
							if p, ok := t.(*types.Pointer); ok {
								if n, ok := p.Elem().(*types.Named); ok && n.Obj().Name() == "MsgTx" {
									return true
								}
							}
							return false
						}
						elemOK := isTxPtr(sl.Elem())
						// the delivered list as a list of small records holding the tx next to its flags
						if st, ok := sl.Elem().Underlying().(*types.Struct); ok && !elemOK {
							for i := 0; i < st.NumFields(); i++ {
								if isTxPtr(st.Field(i).Type()) {
									elemOK = true
								}
							}
						}
						fromNext := len(call.Call.Args) > 1 && derivesFromValue(call.Call.Args[1], getNext)
						for _, av := range appendedValues(call) {
							if derivesFromValue(av, getNext) {
								fromNext = true
							}
						}
						if elemOK && fromNext {
							txAppends = append(txAppends, call)
						}
					}
				}
			}
		}
		c.Min("R4", "appends to the delivered-tx list in "+fk, len(txAppends), 1)
		diff := func(in ssa.Instruction) int {
			for _, p := range addProof {
				if p.Instr == in {
					return 1
				}
			}
			for _, a := range txAppends {
				if ssa.Instruction(a) == in {
					return -1
				}
			}
			return 0
		}
		dc := iterationCounts(h, diff)
		okAl := len(dc) == 1 && dc[0] != nil
		wit = nil
		for n, p := range dc {
			if n != 0 {
				wit = append([]string{fmt.Sprintf("an iteration path with (registrations - appends) = %d:", n)}, pathWitness(fn, p)...)
			}
		}
		c.Decide(okAl, "R4", fk+"#proofs-aligned-with-tx-list", lastPos(h), "per-iteration event count", wit,
			"registrations and list appends are paired on every path", "on some path a proof is registered without the tx being appended to the delivered list (or vice versa): proof i would be attached to the wrong tx")

		// R5 proof stores
		n5 := 0
		for _, s := range ta.stateStores(fn) {
			if s.Field != ta.proof {
				continue
			}
			if cst, ok := s.St.Val.(*ssa.Const); ok && cst.IsNil() {
				continue
			}
			n5++
			key := fmt.Sprintf("%s#MerkleProof-store", fk)
			call, ok := s.St.Val.(*ssa.Call)
			if !ok || calleeShort(&call.Call) != "spynode.convertMerkleProof" {
				c.Bad("R5", key, s.St.Pos(), "provenance", nil, "the stored proof is not produced by convertMerkleProof")
				continue
			}
			a := call.Call.Args
			// a[0] = proofs[i]
			var idx ssa.Value
			okSrc := false
			if u, ok := a[0].(*ssa.UnOp); ok {
				if ia, ok := u.X.(*ssa.IndexAddr); ok {
					idx = ia.Index
					for _, r := range rootsAll(ia.X) {
						if cl, ok := r.(*ssa.Call); ok && isMethodNamed(&cl.Call, "FinalizeMerkleProofs") {
							okSrc = true
						}
					}
				}
			}
			c.Decide(okSrc, "R5", key+"#from-this-tree", s.St.Pos(), "provenance", nil, "proof taken from FinalizeMerkleProofs of this block's tree", "the proof is not taken from the proofs computed for this block")
			// idx is the index of a loop over the delivered list, and the record's tx is list[idx]
			okIdx := false
			if idx != nil {
				if lh := loopHeaderOf(s.St.Block()); lh != nil {
					if rs := rangedSlice(lh); rs != nil {
						for _, ap := range txAppends {
							if derivesFromValue(rs, ap) {
								// same index selects the tx: some IndexAddr(list, idx) in the loop
								for b := range loopBody(lh) {
									for _, in := range b.Instrs {
										if ia, ok := in.(*ssa.IndexAddr); ok && ia.Index == idx && derivesFromValue(ia.X, ap) {
											okIdx = true
										}
									}
								}
							}
						}
					}
				}
			}
			c.Decide(okIdx, "R5", key+"#index-is-list-index", s.St.Pos(), "provenance", nil,
				"proof index is the index of the delivered-tx list entry being notified", "the proof is selected with an index that is not the loop index over the delivered-tx list (e.g. a constant): txs would get each other's proofs")
			okHdr := len(a) == 2 && derivesFromHeader(a[1])
			c.Decide(okHdr, "R5", key+"#header-of-this-block", s.St.Pos(), "provenance", nil, "proof carries block.GetHeader()", "the proof is converted with a header that is not the processed block's header")
		}
		c.Min("R5", "MerkleProof stores in "+fk, n5, 1)
	}

	// R6 convertMerkleProof coverage
	if fn := c.Fn("R6", "spynode.convertMerkleProof"); fn != nil {
		want := map[string]func(v ssa.Value) bool{
			"Index":             func(v ssa.Value) bool { return mentionsFieldNamed(v, "Index") && derivesFromParam(v, fn, 0) },
			"Path":              func(v ssa.Value) bool { return mentionsFieldNamed(v, "Path") && derivesFromParam(v, fn, 0) },
			"BlockHeader":       func(v ssa.Value) bool { return derivesFromParam(v, fn, 1) },
			"DuplicatedIndexes": func(v ssa.Value) bool { return true },
		}
		for name, pred := range want {
			f := c.P.Field("client", "MerkleProof", name)
			if f == nil {
				c.Undecided("R6", "anchor:client.MerkleProof."+name, fn.Pos(), "field not found")
				continue
			}
			sts := storesToField(fn, f)
			ok := len(sts) > 0
			for _, st := range sts {
				if !pred(st.Val) {
					ok = false
				}
			}
			c.Decide(ok, "R6", "spynode.convertMerkleProof#fills-"+name, fn.Pos(), "provenance", nil, name+" filled from its source", "client.MerkleProof."+name+" is not filled from the corresponding source field")
		}
		// DuplicatedIndexes elements come from mp.DuplicatedIndexes
		okDup := false
		for _, b := range fn.Blocks {
			for _, in := range b.Instrs {
				if st, ok := in.(*ssa.Store); ok {
					if ia, ok := st.Addr.(*ssa.IndexAddr); ok && mentionsFieldNamed(st.Val, "DuplicatedIndexes") && derivesFromParam(st.Val, fn, 0) {
						// the destination is the result's list: the field itself, or a local slice that is stored into the field
						dest := mentionsFieldNamed(ia.X, "DuplicatedIndexes")
						if f := c.P.Field("client", "MerkleProof", "DuplicatedIndexes"); f != nil && !dest {
							for _, fs := range storesToField(fn, f) {
								if sharesRoot(fs.Val, ia.X) {
									dest = true
								}
							}
						}
						if dest {
							okDup = true
						}
					}
				}
			}
		}
		c.Decide(okDup, "R6", "spynode.convertMerkleProof#copies-duplicated-indexes", fn.Pos(), "provenance", nil, "duplicated indexes copied element-wise from the wire proof", "the duplicated-index list is not copied from the wire proof")
	}
}

func derivesFromHeader(v ssa.Value) bool {
	for _, r := range rootsAll(v) {
		if call, ok := r.(*ssa.Call); ok && call.Call.IsInvoke() && call.Call.Method.Name() == "GetHeader" {
			return true
		}
	}
	return false
}
