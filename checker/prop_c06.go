package main

import (
	"fmt"
	"go/types"

	"golang.org/x/tools/go/ssa"
)

func init() {
	register(&PropDef{
		ID:    "C06",
		Title: "A confirmed double spend cancels the losing unconfirmed transaction",
		Explanation: "Decides the provenance/ordering skeleton of the cancel path in Node.ProcessBlock and MemPool.Conflicting: " +
			"(R1) inside the loop over the result of MemPool.Conflicting(tx) the key passed to FetchTxState and the TxID of the emitted TxUpdate derive from the loop element (the conflicting unconfirmed tx), not from the confirming block transaction; " +
			"(R2) on that path the fetched state gets UnSafe=true, Cancelled=true and Safe=false before a successful SaveTxState, which precedes HandleTxUpdate, and HandleTxUpdate is reached on every non-error path of the branch; " +
			"(R3) the cancel is guarded by membership of the conflicting txid in the unconfirmed snapshot; " +
			"(R4) in MemPool.Conflicting every hash appended to the result is passed to removeTransaction in the same iteration; " +
			"(R5) the cancel branch has no exit other than error returns, so the confirming tx continues to relevance classification (its leaf is added exactly once per iteration, see C04.R3); " +
			"(R6) every block tx that was neither in the unconfirmed snapshot nor in the mempool reaches MemPool.Conflicting in its iteration, whatever its own relevance; (R7) Conflicting does not iterate the live map-held spender list while removing from it; (R8) every block tx, also one seen before it confirmed, reaches MemPool.Conflicting in its iteration.",
		NotDecided:  "the interaction of mempool, unconfirmed set, tx-state store and block store over a history; which txs Conflicting returns for a given pool.",
		Assumptions: []string{"containsHash is a pure membership test"},
		Tech:        "value provenance in a ranged loop, path typestate (flags → save → notify), guard edge cut-sets, per-iteration pairing",
		Run:         runC06,
	})
}

func runC06(c *Check) {
	ta := c.txAnchors("R0")
	fn := c.Fn("R1", "spynode.(*Node).ProcessBlock")
	if ta == nil || fn == nil {
		return
	}
	isConfl := func(v ssa.Value) bool {
		return derivesFromCall(v, "(*state.MemPool).Conflicting") != nil
	}
	loops := loopsRangingOver(fn, isConfl)
	if len(loops) == 0 {
		c.Bad("R1", "spynode.(*Node).ProcessBlock#walks-conflicting", fn.Pos(), "cfg-structure", nil,
			"ProcessBlock never iterates the result of MemPool.Conflicting: a confirmed double spend cancels nothing")
		return
	}
	h := loops[0]
	elem := func(v ssa.Value) bool {
		for _, x := range rootsAll(v) {
			if ia, ok := x.(*ssa.IndexAddr); ok && isConfl(ia.X) {
				return true
			}
		}
		return false
	}
	fromBlockTx := func(v ssa.Value) bool {
		for _, x := range rootsAll(v) {
			if call, ok := x.(*ssa.Call); ok && call.Call.IsInvoke() && call.Call.Method.Name() == "GetNextTx" {
				return true
			}
		}
		return false
	}
	var fetch, save []Site
	for _, s := range sitesIn(fn) {
		if !inLoop(s.Instr, h) {
			continue
		}
		switch calleeShort(s.CC) {
		case "storage.FetchTxState":
			fetch = append(fetch, s)
		case "storage.SaveTxState":
			save = append(save, s)
		}
	}
	var upd []Site
	for _, s := range c.handlerInvokes(fn, "HandleTxUpdate") {
		if inLoop(s.Instr, h) {
			upd = append(upd, s)
		}
	}
	c.Min("R1", "FetchTxState calls in the conflicting loop", len(fetch), 1)
	c.Min("R2", "HandleTxUpdate calls in the conflicting loop", len(upd), 1)
	key := "spynode.(*Node).ProcessBlock#cancel"

	// R1 provenance
	for _, f := range fetch {
		k := f.Args()[2]
		c.Decide(elem(k) && !fromBlockTx(k), "R1", key+"#state-fetched-for-conflicting-tx", f.Pos(), "provenance", nil,
			"FetchTxState is keyed by the conflicting tx's id", "the stored state is fetched for the confirming block tx (or something else), not for the conflicting unconfirmed tx")
	}
	for _, u := range upd {
		okID := false
		bad := false
		if al, isAl := u.CC.Args[len(u.CC.Args)-1].(*ssa.Alloc); isAl {
			for _, ref := range *al.Referrers() {
				if fa, isFA := ref.(*ssa.FieldAddr); isFA && fieldOfAddr(fa) == ta.updTxID {
					for _, r2 := range *fa.Referrers() {
						if st, isSt := r2.(*ssa.Store); isSt {
							fromFetched := false
							for _, f := range fetch {
								if derivesFromValue(st.Val, f.Value()) {
									fromFetched = true
								}
							}
							if elem(st.Val) || fromFetched {
								okID = true
							}
							if fromBlockTx(st.Val) && !elem(st.Val) && !fromFetched {
								bad = true
							}
						}
					}
				}
			}
		}
		c.Decide(okID && !bad, "R1", key+"#update-carries-conflicting-txid", u.Pos(), "provenance", nil,
			"the cancel update's TxID is the conflicting tx's id", "the cancel update carries the confirming tx's id (or an unrelated one) instead of the cancelled tx's id")
	}

	// R2 flags → save → notify
	if len(fetch) == 1 && len(save) == 1 {
		obj := save[0].Args()[2]
		var uT, cT, sF []ssa.Instruction
		for _, s := range ta.stateStores(fn) {
			if !inLoop(s.St, h) || !sameObject(s.Obj, obj) {
				continue
			}
			if b, isC := isConstBool(s.St.Val); isC {
				switch {
				case s.Field == ta.unsafe && b:
					uT = append(uT, s.St)
				case s.Field == ta.cancelled && b:
					cT = append(cT, s.St)
				case s.Field == ta.safe && !b:
					sF = append(sF, s.St)
				}
			}
		}
		for name, set := range map[string][]ssa.Instruction{"UnSafe=true": uT, "Cancelled=true": cT, "Safe=false": sF} {
			ok, w := alwaysPrecededBy(save[0].Instr, set)
			c.Decide(ok && len(set) > 0, "R2", key+"#"+name+"-before-save", save[0].Pos(), "path-typestate", w,
				name+" is stored on the fetched state before it is saved", "the cancelled tx's state is saved without "+name)
		}
		c.Decide(derivesFromValue(obj, fetch[0].Value()), "R2", key+"#saves-fetched-state", save[0].Pos(), "provenance", nil,
			"the saved state is the one fetched for the conflicting tx", "the state saved in the cancel branch is not the fetched one")
		for _, u := range upd {
			ok, w := mustPass(u.Instr, errNilEdge(sameCall(save[0].Value()), true))
			c.Decide(ok, "R2", key+"#notify-after-successful-save", u.Pos(), "edge-cutset", w,
				"HandleTxUpdate only after SaveTxState succeeded", "the cancel update can be delivered without the cancelled state having been saved")
		}
	} else {
		c.Bad("R2", key+"#single-fetch-and-save", lastPos(h), "cfg-structure", nil, "expected one FetchTxState and one SaveTxState in the cancel loop, found %d and %d", len(fetch), len(save))
	}

	// R3 membership guard + must reach notification
	fromSnapshot := func(v ssa.Value) bool { return derivesFromCall(v, "(*storage.TxRepository).GetUnconfirmed") != nil }
	memberCall := callEdge(true, -1, func(call *ssa.Call) bool {
		a := call.Call.Args
		return len(a) == 2 && elem(a[0]) && fromSnapshot(a[1])
	}, "spynode.containsHash")
	// the same membership test written in place (found-flag loop over the snapshot)
	member := func(iff *ssa.If, br int) bool {
		if memberCall(iff, br) {
			return true
		}
		if iff.Block() == nil {
			return false
		}
		cd := normCond(iff.Cond)
		truth := (br == 0) != cd.Neg
		if truth && cd.V != nil && inlineMembership(iff, cd.V, elem, fromSnapshot) {
			return true
		}
		// `indexOf(conflict, unconfirmed) >= 0`
		return indexMembership(iff, br, elem, fromSnapshot)
	}
	for _, u := range upd {
		ok, w := mustPass(u.Instr, member)
		c.Decide(ok, "R3", key+"#only-delivered-txs", u.Pos(), "edge-cutset", w,
			"cancel update only for conflicting txs that are in the unconfirmed snapshot", "a cancel update can be sent for a tx that was never delivered (no containsHash(conflict, unconfirmed) guard)")
	}
	// from the membership true edge every non-error path reaches HandleTxUpdate (R2) and nothing but error returns leaves (R5)
	var updI []ssa.Instruction
	for _, u := range upd {
		updI = append(updI, u.Instr)
	}
	nGuard := 0
	for b := range loopBody(h) {
		iff, ok := lastIf(b)
		if !ok {
			continue
		}
		for br := 0; br < 2; br++ {
			if !member(iff, br) {
				continue
			}
			nGuard++
			first := b.Succs[br].Instrs[0]
			okReach, w := alwaysFollowedBy(first, withLoopHeaders(updI, nil), true, isErrorReturnBlock)
			c.Decide(okReach, "R2", key+"#notification-reached", ifPos(iff), "path-typestate", w,
				"every non-error path of the cancel branch delivers the update", "a path through the cancel branch skips HandleTxUpdate without returning an error")
			// R5: exits reachable from the branch before returning to the conflict loop header are error returns
			okExit := true
			var wit []string
			steps := 0
			explore([]walkNode{mkNode(b, b.Succs[br])}, func(n walkNode) bool {
				steps++
				if steps > 2000 || n.b == h {
					return false
				}
				if isExitBlock(n.b) {
					if !isErrorReturnBlock(n.b) && !errorReturnOnPath(n) {
						okExit = false
						wit = []string{"non-error exit at " + c.P.Pos(lastPos(n.b))}
					}
					return false
				}
				return true
			})
			c.Decide(okExit, "R5", key+"#only-error-exits", ifPos(iff), "cfg-structure", wit,
				"the cancel branch leaves block processing only through error returns", "the cancel branch can end block processing with a non-error return: the block would not be processed normally")
		}
	}
	c.Min("R3", "containsHash(conflict, unconfirmed) guards", nGuard, 1)

	c.ruleConflictingIteratesCopy("R7")
	c.ruleConflictingRemovesEach("R4")
	c.ruleSelfSkipPolarity("R10")
	c.ruleAddingNeverEvicts("R11")
	c.ruleSpenderListExtendsItsOwn("R12")
	c.rulePopulatedBeforeRegistering("R13")
	c.ruleUnconfirmedSetKeepsEveryEntry("R14")
	c.ruleConflictingConsultsEveryInput("R15")
	c.ruleProcessedTxRegistered("R16")
	c.ruleLoopVisitsAll("R9", "spynode.(*Node).ProcessBlock", isConfl, "conflicting-tx",
		"the loop over the conflicting txs can be left early without an error (break): the conflicts after that point get no cancelled update although they were evicted from double-spend tracking")

	// R6 (added after seeded round 2)
	c.ruleConflictingForEveryUnseenTx("R6", "R8")

	// R4 Conflicting removes what it returns
	if cf := c.Fn("R4", "state.(*MemPool).Conflicting"); cf != nil {
		n := 0
		for _, b := range cf.Blocks {
			for _, in := range b.Instrs {
				call, ok := in.(*ssa.Call)
				if !ok || builtinCall(call, "append") == nil {
					continue
				}
				// an append whose result is only iterated (a copy of the list) is not the accumulator
				iterated := false
				for _, r := range *call.Referrers() {
					if lc, ok := r.(*ssa.Call); ok && builtinCall(lc, "len") != nil {
						iterated = true
					}
				}
				if iterated {
					continue
				}
				// only appends that build the returned list
				returned := false
				for _, ret := range returnsOf(cf) {
					for _, v := range resultValues(ret, 0) {
						if derivesFromValue(v, call) {
							returned = true
						}
					}
				}
				if !returned {
					continue
				}
				n++
				var rm []ssa.Instruction
				for _, s := range callsTo(cf, "(*state.MemPool).removeTransaction") {
					// same element
					a := s.Args()
					if len(a) == 1 && sharesRoot(a[0], call.Call.Args[1]) {
						rm = append(rm, s.Instr)
					}
				}
				ok2, w := alwaysFollowedBy(call, rm, true, nil)
				c.Decide(ok2, "R4", fmt.Sprintf("state.(*MemPool).Conflicting#returned-hash-removed"), call.Pos(), "per-iteration pairing", w,
					"each returned hash is removed from the mempool in the same iteration", "a conflicting txid is returned without being dropped from double-spend tracking")
			}
		}
		c.Min("R4", "appends in Conflicting", n, 1)
	}
}

// sharesRoot: the two values have a common non-constant origin (same loaded element).
func sharesRoot(a, b ssa.Value) bool {
	ra := map[ssa.Value]bool{}
	for _, x := range rootsAll(a) {
		switch x.(type) {
		case *ssa.Const:
			continue
		}
		ra[x] = true
	}
	for _, y := range rootsAll(b) {
		if _, isC := y.(*ssa.Const); isC {
			continue
		}
		if ra[y] {
			if _, isT := y.Type().Underlying().(*types.Basic); isT {
				continue
			}
			return true
		}
	}
	return false
}
