package main

import (
	"fmt"
	"go/token"
	"go/types"
	"sort"
	"strings"

	"golang.org/x/tools/go/ssa"
)

func init() {
	register(&PropDef{
		ID:    "C19",
		Title: "Stop always terminates the node, persists its state and silences handlers",
		Explanation: "Decides the pairing/ordering/ownership skeleton of shutdown: " +
			"(R1) in every module function every mutex acquired is released on every exit (lock typestate with hand-over summaries for the TxRepository Get*/Release* protocol, whose summaries are frozen and re-derived), and no lock is acquired twice; " +
			"(R2) the guarded channels are sent on only inside their Add method (under the channel lock, after the open test) and closed only in Close; " +
			"(R3) in Node.Run and UntrustedNode.Run the phases are ordered: channels are closed only after the incoming-thread counter reached zero, state is saved only after the processing counter reached zero, the connection is never closed after the channels, and stopped/active is set only after the saves; " +
			"(R4) every goroutine started in internal/spynode is accounted: it increments a counter and defers the matching decrement of the same counter (or is bracketed by untrustedCount / a WaitGroup that is waited on), and that counter is one a shutdown wait loop tests for zero; " +
			"(R5) client.Handler callbacks are not reachable from Stop or the exported query/submit methods of Node, only from Run's accounted goroutines; " +
			"(R6) every consumer loop over a guarded channel can only end when the channel is closed (it keeps draining); " +
			"(R7) every loop of the goroutine entry functions that sleeps or blocks on a read has an exit that depends on isStopping() (shutdown wait loops: on a counter reaching zero); " +
			"(R8) the must-acquire lock-order graph over mutex fields is acyclic; " +
			"(R9) a stop request is final: Stop sets hardStop and requests the stop on every path before it waits, the run loop takes its restart path only behind hardStop==false, and requestStop sets the stopping flag unless already stopping/stopped.",
		NotDecided:  "termination within a bounded time for every stop/disconnect placement; reconnection without re-announcing blocks; liveness of third-party blocking calls.",
		Assumptions: []string{"net.Conn.Close unblocks a pending read", "lock identity is the mutex field (instances are not distinguished)"},
		Tech:        "lock typestate with inferred summaries, who-may-send/close, event order on the CFG, goroutine accounting patterns, call-graph reachability, loop-exit dependence, lock-order cycle detection",
		Run:         runC19,
	})
}

var handOver = map[string]struct {
	lock  string
	delta int
	when  string // "always" or "err==nil"
	why   string
}{
	"storage.(*TxRepository).GetUnconfirmed":      {"unconfirmedLock", +1, "always", "returns holding the lock so propagated txs cannot interleave with block processing"},
	"storage.(*TxRepository).GetBlock":            {"blockLock", +1, "err==nil", "returns holding the lock iff it succeeded"},
	"storage.(*TxRepository).FinalizeUnconfirmed": {"unconfirmedLock", -1, "always", "releases the lock taken by GetUnconfirmed"},
	"storage.(*TxRepository).ReleaseUnconfirmed":  {"unconfirmedLock", -1, "always", "releases the lock taken by GetUnconfirmed"},
	"storage.(*TxRepository).RemoveBlock":         {"blockLock", -1, "always", "releases the lock taken by GetBlock"},
	"storage.(*TxRepository).ReleaseBlock":        {"blockLock", -1, "always", "releases the lock taken by GetBlock"},
}

func runC19(c *Check) {
	le := c.Locks()
	scope := []string{"spynode", "handlers", "state", "storage", "client"}

	// ---- R1 pairing
	nLock := 0
	nFn := 0
	for _, fn := range c.P.FuncsIn(scope...) {
		has := false
		for _, s := range sitesDeep(fn) {
			if _, d := lockOp(s.CC); d == 1 {
				if s.Fn == fn {
					nLock++
				}
				has = true
			}
			if _, d := lockOp(s.CC); d != 0 {
				has = true
			}
		}
		key := c.P.Key(fn)
		ho, isHO := handOver[key]
		// functions that call hand-over functions must be checked too
		if !has && !isHO {
			callsHO := false
			for _, s := range sitesIn(fn) {
				if f := s.CC.StaticCallee(); f != nil {
					if _, ok := handOver[c.P.Key(f)]; ok {
						callsHO = true
					}
				}
			}
			if !callsHO {
				continue
			}
		}
		// a local closure that is only ever called by its parent (`release := func(...) {...}; release(...)`)
		// is part of the parent's body: its lock effects are applied at the call sites there
		if fn.Parent() != nil && closureOnlyCalledByParent(fn) {
			continue
		}
		nFn++
		c.Touch(fn)
		sum := le.Summary(fn)
		if sum.undecided != "" {
			c.Undecided("R1", key+"#locks-balanced", fn.Pos(), "%s", sum.undecided)
			continue
		}
		var wit []string
		ok := true
		for _, ex := range sum.exits {
			for k, v := range ex.delta {
				if isHO && k == c.P.Field("storage", "TxRepository", ho.lock) { // by identity: the field may have been renamed
					want := ho.delta
					if ho.when == "err==nil" && ex.errNil == 0 {
						want = 0
					}
					if v != want {
						ok = false
						wit = append(wit, fmt.Sprintf("exit at %s: %s %+d (hand-over table says %+d %s)", c.P.Pos(ex.pos), lockName(k), v, ho.delta, ho.when))
					}
					continue
				}
				if v != 0 {
					ok = false
					wit = append(wit, fmt.Sprintf("exit at %s leaves %s with count %+d", c.P.Pos(ex.pos), lockName(k), v))
				}
			}
			if isHO {
				mu := c.P.Field("storage", "TxRepository", ho.lock)
				want := ho.delta
				if ho.when == "err==nil" && ex.errNil == 0 {
					want = 0
				}
				if ex.delta[mu] != want {
					ok = false
					wit = append(wit, fmt.Sprintf("exit at %s: %s %+d, hand-over table says %+d (%s)", c.P.Pos(ex.pos), lockName(mu), ex.delta[mu], want, ho.when))
				}
			}
		}
		sort.Strings(wit)
		if len(wit) > 5 {
			wit = wit[:5]
		}
		msgOK := "every lock acquired is released on every exit"
		if isHO {
			msgOK = "lock effect matches the frozen hand-over protocol: " + ho.why
		}
		c.Decide(ok, "R1", key+"#locks-balanced", fn.Pos(), "lock typestate", wit, msgOK,
			"a mutex is not released on some exit (or released without being held): every later user of that lock blocks forever and Stop cannot complete")
		// double acquisition
		for _, s := range sitesIn(fn) {
			if k, d := lockOp(s.CC); d == 1 && k != nil && le.MayHeldBefore(s.Instr, k) {
				c.Bad("R1", key+"#double-acquire-"+k.Name(), s.Pos(), "lock typestate", nil, "%s is acquired while it may already be held by this function", lockName(k))
			}
		}
	}
	c.Min("R1", "Lock() call sites", nLock, 170)
	c.Min("R1", "functions with lock effects", nFn, 150)

	// ---- R2 guarded channels
	type gch struct{ rel, typ string }
	n2 := 0
	for _, g := range []gch{{"spynode", "MessageChannel"}, {"handlers", "TxChannel"}, {"handlers", "TxUpdateChannel"}} {
		chf := c.P.Field(g.rel, g.typ, "Channel")
		lockf := c.P.Field(g.rel, g.typ, "lock")
		openf := c.P.Field(g.rel, g.typ, "open")
		if chf == nil || lockf == nil || openf == nil {
			c.Undecided("R2", "anchor:"+g.rel+"."+g.typ, token.NoPos, "Channel/lock/open fields not found")
			continue
		}
		addKey := fmt.Sprintf("%s.(*%s).Add", g.rel, g.typ)
		closeKey := fmt.Sprintf("%s.(*%s).Close", g.rel, g.typ)
		for _, fn := range c.P.AllSrc {
			for _, b := range fn.Blocks {
				for _, in := range b.Instrs {
					switch x := in.(type) {
					case *ssa.Send:
						if loadOfField(x.Chan, chf) == nil {
							continue
						}
						n2++
						k := c.P.Key(fn)
						okWho := k == addKey
						okLock := le.HeldBefore(x)[lockf]
						okOpen, w := mustPass(x, boolEdge(func(v ssa.Value) bool { return anyFieldLoad(v) == openf }, true))
						c.Decide(okWho && okLock && okOpen, "R2", k+"#send-on-"+g.typ, x.Pos(), "who-may-send+lockset+edge-cutset", w,
							"send only in Add, under the channel lock, behind open==true", "a send on "+g.typ+".Channel outside Add / without the lock / without the open test can hit a closed channel and panic during shutdown")
					case *ssa.Select:
						for _, sst := range x.States {
							if sst.Dir != types.SendOnly || loadOfField(sst.Chan, chf) == nil {
								continue
							}
							n2++
							k := c.P.Key(fn)
							okOpen, w := mustPass(x, boolEdge(func(v ssa.Value) bool { return anyFieldLoad(v) == openf }, true))
							c.Decide(k == addKey && le.HeldBefore(x)[lockf] && okOpen, "R2", k+"#send-on-"+g.typ, x.Pos(), "who-may-send+lockset+edge-cutset", w,
								"send only in Add, under the channel lock, behind open==true", "a send on "+g.typ+".Channel outside Add / without the lock / without the open test can hit a closed channel and panic during shutdown")
						}
					case *ssa.Call:
						if bi, ok := x.Call.Value.(*ssa.Builtin); ok && bi.Name() == "close" && loadOfField(x.Call.Args[0], chf) != nil {
							n2++
							k := c.P.Key(fn)
							okOpen, w := mustPass(x, boolEdge(func(v ssa.Value) bool { return anyFieldLoad(v) == openf }, true))
							c.Decide(k == closeKey && le.HeldBefore(x)[lockf] && okOpen, "R2", k+"#close-"+g.typ, x.Pos(), "who-may-close+lockset", w,
								"closed only in Close, under the lock, if open", "the channel can be closed outside Close / twice / without the lock")
						}
					}
				}
			}
		}
	}
	c.Min("R2", "sends/closes on guarded channels", n2, 6)

	// ---- R3 phased shutdown
	for _, spec := range []struct {
		fn, typ   string
		inc, proc string
		closes    []string
		saves     []string
		done      string
		doneVal   bool
	}{
		{"spynode.(*Node).Run", "Node", "incomingCount", "processingCount",
			[]string{"(*spynode.MessageChannel).Close", "(*handlers.TxChannel).Close"},
			[]string{"(*storage.BlockRepository).Save", "(*storage.TxRepository).Save", "(*storage.PeerRepository).Save"}, "stopped", true},
		{"spynode.(*UntrustedNode).Run", "UntrustedNode", "incomingCount", "processingCount",
			[]string{"(*spynode.MessageChannel).Close"}, nil, "active", false},
	} {
		fn := c.Fn("R3", spec.fn)
		if fn == nil {
			continue
		}
		incF := c.P.Field("spynode", spec.typ, spec.inc)
		procF := c.P.Field("spynode", spec.typ, spec.proc)
		doneF := c.P.Field("spynode", spec.typ, spec.done)
		zeroEdge := func(f *types.Var) EdgePred {
			return func(iff *ssa.If, br int) bool {
				r, ok := edgeRel(iff, br)
				if !ok || r.Op != token.EQL {
					return false
				}
				k, isC := constInt(r.Y)
				if !isC || k != 0 {
					return false
				}
				call, ok := r.X.(*ssa.Call)
				if !ok || calleeName(&call.Call) != "sync/atomic.LoadUint32" {
					return false
				}
				fa, ok := call.Call.Args[0].(*ssa.FieldAddr)
				return ok && fieldOfAddr(fa) == f
			}
		}
		var closeSites, saveSites []Site
		for _, n := range spec.closes {
			closeSites = append(closeSites, callsTo(fn, n)...)
		}
		for _, n := range spec.saves {
			saveSites = append(saveSites, callsTo(fn, n)...)
		}
		c.Min("R3", "channel closes in "+spec.fn, len(closeSites), len(spec.closes))
		for _, s := range closeSites {
			ok, w := mustPass(s.Instr, zeroEdge(incF))
			c.Decide(ok, "R3", spec.fn+"#channels-closed-after-incoming-stopped:"+calleeObjName(s.CC), s.Pos(), "edge-cutset", w,
				"channel closed only after the incoming-thread counter reached zero", "a channel is closed while incoming threads may still be running: they would block in Add or lose messages")
		}
		// connection close not after channel close (same run-loop iteration)
		for _, s := range sitesIn(fn) {
			if s.CC.IsInvoke() && s.CC.Method.Name() == "Close" && strings.Contains(s.CC.Value.Type().String(), "net.Conn") {
				bad := false
				for _, cs := range closeSites {
					if canFollowSameIteration(cs.Instr, s.Instr, fn) {
						bad = true
					}
				}
				okBefore := len(closeSites) > 0
				for _, cs := range closeSites {
					if !canFollowSameIteration(s.Instr, cs.Instr, fn) {
						okBefore = false
					}
				}
				c.Decide(!bad && okBefore, "R3", spec.fn+"#connection-closed-first", s.Pos(), "event-order", nil,
					"the connection is closed before the channels", "the connection is closed after (or not before) the channels: the reader thread keeps producing into closed channels")
				// ... and before waiting for the incoming threads: closing it is what ends a reader blocked in a read
				behindWait, _ := mustPass(s.Instr, zeroEdge(incF))
				c.Decide(!behindWait, "R3", spec.fn+"#connection-closed-before-waiting", s.Pos(), "edge-cutset", nil,
					"the connection is closed before the wait for the incoming threads", "the connection is closed only after the incoming-thread counter reached zero: a reader blocked on a silent peer never returns, the counter never reaches zero and the run loop never ends (no reconnect, Stop never returns)")
			}
		}
		c.Min("R3", "saves in "+spec.fn, len(saveSites), len(spec.saves))
		for _, s := range saveSites {
			ok, w := mustPass(s.Instr, zeroEdge(procF))
			c.Decide(ok, "R3", spec.fn+"#saved-after-processing-stopped:"+calleeShort(s.CC), s.Pos(), "edge-cutset", w,
				"state saved only after the processing counter reached zero", "state is saved while processing threads may still modify it")
			okC := true
			for _, cs := range closeSites {
				if !canFollowSameIteration(cs.Instr, s.Instr, fn) {
					okC = false
				}
			}
			c.Decide(okC, "R3", spec.fn+"#saved-after-channels-closed:"+calleeShort(s.CC), s.Pos(), "event-order", nil,
				"saves follow the channel closes", "a save can happen before the channels are closed")
		}
		if doneF != nil {
			for _, st := range storesToField(fn, doneF) {
				b, isC := isConstBool(st.Val)
				if !isC || b != spec.doneVal {
					continue
				}
				ok, w := mustPass(st, zeroEdge(procF))
				if spec.fn == "spynode.(*Node).Run" {
					// load failure returns before anything started: only paths that opened the channels count
					ok = true
					for _, o := range callsTo(fn, "(*handlers.TxChannel).Open") {
						if r, p := reachAvoid(o.Instr.Block(), st.Block(), zeroEdge(procF)); r {
							ok = false
							w = pathWitness(fn, p)
						}
					}
				}
				c.Decide(ok, "R3", spec.fn+"#"+spec.done+"-after-processing-stopped", st.Pos(), "edge-cutset", w,
					spec.done+" is set only after all processing threads stopped", spec.done+" can be set while processing threads are still running: Stop would return with handlers still being invoked")
				for _, sv := range saveSites {
					cut := map[*ssa.BasicBlock]bool{sv.Instr.Block(): true}
					okS := true
					for _, o := range callsTo(fn, "(*handlers.TxChannel).Open") {
						if r, _ := reachAvoid2(o.Instr.Block(), st.Block(), nil, cut); r {
							okS = false
						}
					}
					c.Decide(okS, "R3", spec.fn+"#"+spec.done+"-after:"+calleeShort(sv.CC), st.Pos(), "must-pass-through", nil,
						"the node is marked stopped only after this save", "the node can be marked stopped (Stop returns) without "+calleeShort(sv.CC)+" having run")
				}
			}
		}
	}

	// ---- R4 goroutine accounting
	waited := map[*types.Var]bool{}
	for _, fn := range c.P.FuncsIn("spynode") {
		for _, b := range fn.Blocks {
			iff, ok := lastIf(b)
			if !ok {
				continue
			}
			r, ok := edgeRel(iff, 0)
			if ok && r.Op != token.EQL {
				r, ok = edgeRel(iff, 1)
			}
			if !ok || r.Op != token.EQL {
				continue
			}
			if call, ok := r.X.(*ssa.Call); ok && calleeName(&call.Call) == "sync/atomic.LoadUint32" {
				if fa, ok := call.Call.Args[0].(*ssa.FieldAddr); ok {
					if k, isC := constInt(r.Y); isC && k == 0 && loopHeaderOf(b) != nil {
						waited[fieldOfAddr(fa)] = true
					}
				}
			}
		}
	}
	nGo := 0
	for _, fn := range c.P.FuncsIn("spynode") {
		for _, b := range fn.Blocks {
			for _, in := range b.Instrs {
				g, ok := in.(*ssa.Go)
				if !ok {
					continue
				}
				nGo++
				c.Touch(fn)
				key := fmt.Sprintf("%s#go", c.P.Key(fn))
				var body *ssa.Function
				if mc, ok := g.Call.Value.(*ssa.MakeClosure); ok {
					body, _ = mc.Fn.(*ssa.Function)
				} else if f := g.Call.StaticCallee(); f != nil {
					body = f
				}
				if body == nil || body.Blocks == nil {
					c.Undecided("R4", key, g.Pos(), "goroutine body not resolvable")
					continue
				}
				inc := map[*types.Var]int{}
				dec := map[*types.Var]int{}
				decDeferred := map[*types.Var]bool{}
				wgDone := false
				for _, s := range sitesIn(body) {
					if calleeName(s.CC) == "sync/atomic.AddUint32" && len(s.CC.Args) == 2 {
						fa, ok := s.CC.Args[0].(*ssa.FieldAddr)
						if !ok {
							continue
						}
						f := fieldOfAddr(fa)
						if k, isC := constInt(s.CC.Args[1]); isC && k == 1 {
							inc[f]++
						} else {
							dec[f]++
							if _, isDefer := s.Instr.(*ssa.Defer); isDefer {
								decDeferred[f] = true
							}
						}
					}
					if calleeName(s.CC) == "(*sync.WaitGroup).Done" {
						if _, isDefer := s.Instr.(*ssa.Defer); isDefer {
							wgDone = true
						}
					}
				}
				ok2 := false
				why := "no counter increment with matching deferred decrement and no WaitGroup"
				for f, n := range inc {
					if n == 1 && dec[f] == 1 {
						if !waited[f] {
							why = "counter " + f.Name() + " is never waited on by a shutdown loop"
							continue
						}
						if decDeferred[f] {
							ok2 = true
						} else {
							// bracketed form: inc; call; dec with nothing that can skip the dec (no early return)
							ok2 = len(returnsOf(body)) == 1
							why = "decrement of " + f.Name() + " is not deferred and the body has several exits"
						}
					}
				}
				if wgDone {
					// spawning function must Add before and Wait after
					hasAdd, hasWait := false, false
					for _, s := range sitesIn(fn) {
						switch calleeName(s.CC) {
						case "(*sync.WaitGroup).Add":
							if ok, _ := alwaysPrecededBy(g, []ssa.Instruction{s.Instr}); ok || s.Instr.Block() == g.Block() {
								hasAdd = true
							}
						case "(*sync.WaitGroup).Wait":
							hasWait = true
						}
					}
					ok2 = hasAdd && hasWait
					why = "WaitGroup Add-before-go / Wait missing"
				}
				c.Decide(ok2, "R4", key, g.Pos(), "goroutine accounting", nil,
					"the goroutine is counted and the shutdown path waits for it", "a goroutine is started without being accounted for ("+why+"): Stop can return while it still runs and invokes handlers")
			}
		}
	}
	c.Min("R4", "go statements in internal/spynode", nGo, 12)

	// ---- R5 handler silence
	g := c.Graph()
	hIface := c.P.NamedType("client", "Handler")
	invokesHandler := func(f *ssa.Function) bool {
		if f.Blocks == nil {
			return false
		}
		for _, s := range sitesIn(f) {
			if s.CC.IsInvoke() && hIface != nil && types.Identical(s.CC.Value.Type(), hIface) {
				return true
			}
		}
		return false
	}
	exempt := map[string]string{
		"Run":          "the run loop itself",
		"ProcessBlock": "entry of the block processor (exported for tests); called only from processBlocks",
		"Scan":         "offline peer scan tool, not part of a running node",
		"AddPeer":      "offline tool",
	}
	nRoots := 0
	for _, fn := range c.P.FuncsIn("spynode") {
		if fn.Parent() != nil {
			continue
		}
		r := fn.Signature.Recv()
		if r == nil || !strings.HasSuffix(r.Type().String(), "spynode.Node") || !ast_IsExported(fn.Name()) {
			continue
		}
		if _, ok := exempt[fn.Name()]; ok {
			continue
		}
		nRoots++
		pred := g.Reach([]*ssa.Function{fn}, func(f *ssa.Function) bool { return !inModule(pkgOf(f)) })
		var bad *ssa.Function
		for f := range pred {
			if invokesHandler(f) {
				if bad == nil || c.P.Key(f) < c.P.Key(bad) {
					bad = f
				}
			}
		}
		if bad != nil {
			c.Bad("R5", c.P.Key(fn)+"#reaches-handler-callback", fn.Pos(), "call-graph reachability", g.PathTo(pred, bad),
				"a client.Handler callback is reachable from the exported method %s, which can run on the caller's goroutine after Stop returned", fn.Name())
		}
	}
	c.Min("R5", "exported Node methods examined", nRoots, 30)
	if !c.hasBad("R5") {
		c.Ok("R5", "exported-Node-methods-do-not-reach-handlers", token.NoPos, "call-graph reachability", "%d exported methods of Node (other than Run/ProcessBlock/offline tools) cannot reach a handler callback", nRoots)
	}
	// ProcessBlock is only called by the block thread
	c.whoMayCall("R5", "(*spynode.Node).ProcessBlock", map[string]string{"spynode.(*Node).processBlocks": "the block processing goroutine"}, 1)

	// ---- R6 drain
	nDrain := 0
	for _, fn := range c.P.FuncsIn("spynode") {
		for _, h := range fn.Blocks {
			body := loopBody(h)
			if body == nil {
				continue
			}
			// header receives from a guarded channel with comma-ok
			isChanRange := false
			for _, in := range h.Instrs {
				if u, ok := in.(*ssa.UnOp); ok && u.Op == token.ARROW && u.CommaOk {
					if f := anyFieldLoad(u.X); f != nil && f.Name() == "Channel" {
						isChanRange = true
					}
				}
			}
			if !isChanRange {
				continue
			}
			nDrain++
			c.Touch(fn)
			okDrain := true
			var wit []string
			for b := range body {
				if b == h {
					continue
				}
				for _, s := range b.Succs {
					if !body[s] {
						okDrain = false
						wit = append(wit, "leaves the loop at "+c.P.Pos(lastPos(b)))
					}
				}
				if isExitBlock(b) {
					okDrain = false
					wit = append(wit, "returns from inside the loop at "+c.P.Pos(lastPos(b)))
				}
			}
			c.Decide(okDrain, "R6", c.P.Key(fn)+"#drains-until-close", lastPos(h), "cfg-structure", wit,
				"the consumer only stops when the channel is closed", "the consumer of a guarded channel can stop before the channel is closed: producers then block inside Add holding the channel lock, Close blocks and Stop never returns")
		}
	}
	c.Min("R6", "consumers of guarded channels", nDrain, 3)

	// ---- R7 stop-aware loops
	nLoops := 0
	blocking := func(cc *ssa.CallCommon) bool {
		n := calleeName(cc)
		return n == "time.Sleep" || strings.HasSuffix(n, "sleepUntilStop") || strings.HasSuffix(n, "wire.ReadMessageN")
	}
	for _, fn := range c.P.FuncsIn("spynode") {
		if fn.Parent() != nil {
			continue
		}
		for _, h := range fn.Blocks {
			body := loopBody(h)
			if body == nil {
				continue
			}
			blocks := false
			for b := range body {
				if loopHeaderOf(b) != h {
					continue
				}
				for _, in := range b.Instrs {
					if cc := callCommon(in); cc != nil && blocking(cc) {
						blocks = true
					}
				}
			}
			if !blocks {
				continue
			}
			nLoops++
			c.Touch(fn)
			okExit := false
			kind := ""
			for b := range body {
				iff, ok := lastIf(b)
				if !ok {
					continue
				}
				leaves := false
				for _, s := range b.Succs {
					if !body[s] {
						leaves = true
					}
				}
				if !leaves {
					continue
				}
				// a loop controlled by a bool variable (`for running := true; running; {...}`): the exit
				// depends on the tests that decide where the variable is set
				conds := []ssa.Value{iff.Cond}
				if phi, isPhi := normCond(iff.Cond).V.(*ssa.Phi); isPhi && body[phi.Block()] {
					for i := range phi.Edges {
						for x := phi.Block().Preds[i]; x != nil && body[x]; x = x.Idom() {
							if ci, ok := lastIf(x); ok && x != b {
								conds = append(conds, ci.Cond)
							}
							if x == h {
								break
							}
						}
					}
				}
				var rootVals []ssa.Value
				for _, cv := range conds {
					rootVals = append(rootVals, rootsAll(cv)...)
				}
				for _, x := range rootVals {
					if call, ok := x.(*ssa.Call); ok {
						n := calleeName(&call.Call)
						if strings.HasSuffix(n, ".isStopping") || strings.HasSuffix(n, ".isStopped") {
							okExit, kind = true, "isStopping()"
						}
						if n == "sync/atomic.LoadUint32" {
							okExit, kind = true, "thread counter"
						}
					}
					// the stop flags read directly (isStopped()/isStopping() written in place)
					if f := anyFieldLoad(x); f != nil && (f == c.P.Field("spynode", "Node", "stopping") || f == c.P.Field("spynode", "Node", "stopped")) {
						okExit, kind = true, "stop flag"
					}
				}
			}
			// sleepUntilStop itself: bounded loop (counts to n)
			if fn.Name() == "sleepUntilStop" {
				okExit, kind = true, "bounded count + isStopping()"
			}
			c.Decide(okExit, "R7", fmt.Sprintf("%s#loop@%d-exits-on-stop", c.P.Key(fn), h.Index), lastPos(h), "loop-exit dependence", nil,
				"the loop has an exit that depends on "+kind, "a sleeping/blocking loop has no exit that depends on the stop request: its goroutine never ends and Stop waits forever")
		}
	}
	c.Min("R7", "sleeping/blocking loops in internal/spynode", nLoops, 12)

	// ---- R9 a stop request is final
	fHard := c.P.Field("spynode", "Node", "hardStop")
	fStopping := c.P.Field("spynode", "Node", "stopping")
	fStopped := c.P.Field("spynode", "Node", "stopped")
	if fn := c.Fn("R9", "spynode.(*Node).Stop"); fn != nil && fHard != nil {
		var hs []ssa.Instruction
		for _, st := range storesToField(fn, fHard) {
			if b, isC := isConstBool(st.Val); isC && b {
				hs = append(hs, st)
			}
		}
		nWait := 0
		// the wait points: isStopped() in a loop, or the stopped flag read in a loop (written in place)
		var waits []ssa.Instruction
		for _, s := range callsTo(fn, "(*spynode.Node).isStopped") {
			waits = append(waits, s.Instr)
		}
		for _, b := range fn.Blocks {
			for _, in := range b.Instrs {
				if u, ok := in.(*ssa.UnOp); ok && fStopped != nil && loadOfField(u, fStopped) != nil {
					waits = append(waits, u)
				}
			}
		}
		for _, wi := range waits {
			if loopHeaderOf(wi.Block()) == nil {
				continue
			}
			nWait++
			ok, w := alwaysPrecededBy(wi, hs)
			c.Decide(ok, "R9", "spynode.(*Node).Stop#hard-stop-set-before-waiting", wi.Pos(), "must-pass-through", w,
				"Stop marks the stop as final (hardStop) on every path before it waits for the run loop", "Stop can wait for the run loop without having marked the stop as final: if a restart was already in progress the run loop reconnects and Stop waits forever")
		}
		c.Min("R9", "wait loops in Stop", nWait, 1)
		c.ruleRestartNotBehindStopping("R10")
		c.whoMayCall("R11", "(*spynode.Node).requestStop", requestStopCallers, 4)
		c.ruleDialUnderLock("R12")
		c.ruleFieldWriters("R14", "spynode", "Node", "connection", map[string]string{"spynode.(*Node).Run": "closed and cleared in the phased shutdown", "spynode.(*Node).connect": "set when dialled"}, "the phased shutdown closes the connection only when the field is set, and that close is what unblocks the reader: cleared elsewhere without closing, the incoming thread never ends and Stop / reconnect hang")
		c.ruleHandlerCallbackCallers("R13", "HandleHeaders", map[string]string{"spynode.(*Node).ProcessBlock": "a block was added", "spynode.(*Node).provideBlock": "refeed"}, "a block header is announced to the handlers outside block processing (e.g. on every (re)connect): processed blocks are announced again")
		var rq []ssa.Instruction
		for _, s := range callsTo(fn, "(*spynode.Node).requestStop") {
			rq = append(rq, s.Instr)
		}
		// direct store of stopping=true also counts
		if fStopping != nil {
			for _, st := range storesToField(fn, fStopping) {
				if b, isC := isConstBool(st.Val); isC && b {
					rq = append(rq, st)
				}
			}
		}
		for _, wi := range waits {
			if loopHeaderOf(wi.Block()) != nil {
				already := boolEdge(func(v ssa.Value) bool { return anyFieldLoad(v) == fStopping }, true)
				ok, w := mustPassOrHappen(wi, already, rq)
				c.Decide(ok, "R9", "spynode.(*Node).Stop#stop-requested-before-waiting", wi.Pos(), "must-pass-through", w,
					"Stop requests the stop before it waits", "Stop can wait without having requested the stop")
			}
		}
	}
	if fn := c.Fn("R9", "spynode.(*Node).Run"); fn != nil && fHard != nil {
		// the restart path (Reset / stopping=false) is only taken behind hardStop == false
		notHard := boolEdge(func(v ssa.Value) bool { return anyFieldLoad(v) == fHard }, false)
		n := 0
		for _, s := range callsTo(fn, "(*state.State).Reset") {
			n++
			ok, w := mustPass(s.Instr, notHard)
			c.Decide(ok, "R9", "spynode.(*Node).Run#restart-only-if-not-hard-stop", s.Pos(), "edge-cutset", w,
				"the run loop restarts only when no final stop was requested", "the run loop can reconnect although Stop was called (hardStop is not consulted on the restart path)")
		}
		if fStopping != nil {
			for _, st := range storesToField(fn, fStopping) {
				if b, isC := isConstBool(st.Val); isC && !b {
					n++
					ok, w := mustPass(st, notHard)
					c.Decide(ok, "R9", "spynode.(*Node).Run#stopping-cleared-only-if-not-hard-stop", st.Pos(), "edge-cutset", w,
						"the stop request is withdrawn only for a restart", "the stop request is cleared although Stop was called")
				}
			}
		}
		c.Min("R9", "restart actions in Run", n, 2)
	}
	if fn := c.Fn("R9", "spynode.(*Node).requestStop"); fn != nil && fStopping != nil && fStopped != nil {
		n := 0
		for _, st := range storesToField(fn, fStopping) {
			if b, isC := isConstBool(st.Val); isC && b {
				n++
			}
		}
		// every return either found the node stopped/stopping or has set stopping
		okAll := n > 0
		for _, ret := range returnsOf(fn) {
			var ev []ssa.Instruction
			for _, st := range storesToField(fn, fStopping) {
				ev = append(ev, st)
			}
			already := anyEdge(boolEdge(func(v ssa.Value) bool { return anyFieldLoad(v) == fStopping }, true), boolEdge(func(v ssa.Value) bool { return anyFieldLoad(v) == fStopped }, true))
			if ok, _ := mustPassOrHappen(ret, already, ev); !ok {
				okAll = false
			}
		}
		c.Decide(okAll, "R9", "spynode.(*Node).requestStop#sets-stopping", fn.Pos(), "edge-cutset", nil,
			"requestStop sets stopping unless the node is already stopping or stopped", "requestStop can return without setting the stopping flag although the node is running")
	}

	// ---- R8 lock order
	type edge struct{ a, b lockKey }
	edges := map[edge]token.Pos{}
	for _, fn := range c.P.FuncsIn(scope...) {
		if fn.Blocks == nil {
			continue
		}
		for _, s := range sitesIn(fn) {
			var acquired []lockKey
			if k, d := lockOp(s.CC); d == 1 && k != nil {
				acquired = append(acquired, k)
			} else if callee := s.CC.StaticCallee(); callee != nil && callee.Blocks != nil && inModule(pkgOf(callee)) {
				for k := range le.MustAcquire(callee) {
					acquired = append(acquired, k)
				}
			}
			if len(acquired) == 0 {
				continue
			}
			for held := range le.HeldBefore(s.Instr) {
				for _, k := range acquired {
					if _, ok := edges[edge{held, k}]; !ok {
						edges[edge{held, k}] = s.Pos()
					}
				}
			}
		}
	}
	// cycle detection
	adj := map[lockKey][]lockKey{}
	for e := range edges {
		adj[e.a] = append(adj[e.a], e.b)
	}
	var cyc []string
	state := map[lockKey]int{}
	var stack []lockKey
	var dfs func(k lockKey) bool
	dfs = func(k lockKey) bool {
		state[k] = 1
		stack = append(stack, k)
		for _, n := range adj[k] {
			if state[n] == 1 {
				i := 0
				for j, x := range stack {
					if x == n {
						i = j
					}
				}
				for _, x := range stack[i:] {
					cyc = append(cyc, lockName(x))
				}
				cyc = append(cyc, lockName(n))
				return true
			}
			if state[n] == 0 && dfs(n) {
				return true
			}
		}
		stack = stack[:len(stack)-1]
		state[k] = 2
		return false
	}
	var keys []lockKey
	for k := range adj {
		keys = append(keys, k)
	}
	sort.Slice(keys, func(i, j int) bool { return lockName(keys[i]) < lockName(keys[j]) })
	found := false
	for _, k := range keys {
		if state[k] == 0 && dfs(k) {
			found = true
			break
		}
	}
	var el []string
	for e, p := range edges {
		el = append(el, fmt.Sprintf("%s -> %s (%s)", lockName(e.a), lockName(e.b), c.P.Pos(p)))
	}
	sort.Strings(el)
	c.Notes = append(c.Notes, fmt.Sprintf("C19.R8: lock-order edges: %s", strings.Join(el, "; ")))
	c.Decide(!found, "R8", "lock-order-graph#acyclic", token.NoPos, "lock-order cycle detection", cyc,
		fmt.Sprintf("%d must-acquire lock-order edges, no cycle", len(edges)), "the lock-order graph has a cycle: two goroutines taking the locks in opposite order deadlock and Stop never returns")
	c.Min("R8", "lock-order edges", len(edges), 3)
}

// closureOnlyCalledByParent: every use of the closure value of fn in its parent is a direct call.
func closureOnlyCalledByParent(fn *ssa.Function) bool {
	parent := fn.Parent()
	if parent == nil {
		return false
	}
	found := false
	for _, b := range parent.Blocks {
		for _, in := range b.Instrs {
			mc, ok := in.(*ssa.MakeClosure)
			if !ok || mc.Fn != ssa.Value(fn) {
				continue
			}
			found = true
			for _, r := range *mc.Referrers() {
				switch x := r.(type) {
				case *ssa.Call:
					if x.Call.Value != ssa.Value(mc) {
						return false
					}
				case *ssa.Defer:
					if x.Call.Value != ssa.Value(mc) {
						return false
					}
				case *ssa.DebugRef:
				default:
					return false
				}
			}
		}
	}
	return found
}
