package main

import (
	"strings"
	"reflect"
	"go/constant"
	"go/token"
	"go/types"

	"golang.org/x/tools/go/ssa"
)

// ---------------------------------------------------------------------------------------------
// value shapes

func stripConv(v ssa.Value) ssa.Value {
	for {
		switch x := v.(type) {
		case *ssa.Convert:
			v = x.X
		case *ssa.ChangeType:
			v = x.X
		default:
			return v
		}
	}
}

// loadOfField: v is `*(&x.f)`; returns the FieldAddr.
func loadOfField(v ssa.Value, f *types.Var) *ssa.FieldAddr {
	v = stripConv(v)
	u, ok := v.(*ssa.UnOp)
	if !ok || u.Op != token.MUL {
		return nil
	}
	fa, ok := u.X.(*ssa.FieldAddr)
	if !ok || fieldOfAddr(fa) != f {
		return nil
	}
	return fa
}

// anyFieldLoad returns the field loaded by v when v is `*(&x.f)` (or x.f on a struct value).
func anyFieldLoad(v ssa.Value) *types.Var {
	v = stripConv(v)
	switch x := v.(type) {
	case *ssa.UnOp:
		if x.Op == token.MUL {
			if fa, ok := x.X.(*ssa.FieldAddr); ok {
				return fieldOfAddr(fa)
			}
		}
	case *ssa.Field:
		return fieldOfAddr(x)
	}
	return nil
}

func builtinCall(v ssa.Value, name string) *ssa.Call {
	c, ok := stripConv(v).(*ssa.Call)
	if !ok {
		return nil
	}
	b, ok := c.Call.Value.(*ssa.Builtin)
	if !ok || b.Name() != name {
		return nil
	}
	return c
}

// lenOf: v is len(x); returns x.
func lenOf(v ssa.Value) ssa.Value {
	if c := builtinCall(v, "len"); c != nil && len(c.Call.Args) == 1 {
		return c.Call.Args[0]
	}
	return nil
}

// lenOfField: v is len(*(&x.f)).
func lenOfField(v ssa.Value, f *types.Var) bool {
	x := lenOf(v)
	return x != nil && loadOfField(x, f) != nil
}

// appendOf: v is append(base, ...); returns base.
func appendOf(v ssa.Value) ssa.Value {
	if c := builtinCall(v, "append"); c != nil && len(c.Call.Args) >= 1 {
		return c.Call.Args[0]
	}
	return nil
}

// storesToField lists stores `x.f = v` in fn.
func storesToField(fn *ssa.Function, f *types.Var) []*ssa.Store {
	var out []*ssa.Store
	for _, b := range fn.Blocks {
		for _, in := range b.Instrs {
			if st, ok := in.(*ssa.Store); ok {
				if fa, ok := st.Addr.(*ssa.FieldAddr); ok && fieldOfAddr(fa) == f {
					out = append(out, st)
				}
			}
		}
	}
	return out
}

// isFreshObject: the FieldAddr base is an allocation made in this function (constructor pattern).
func isFreshObject(fa *ssa.FieldAddr) bool {
	switch b := fa.X.(type) {
	case *ssa.Alloc:
		return true
	case *ssa.UnOp:
		_ = b
	}
	return false
}

// ---------------------------------------------------------------------------------------------
// relations established by branch edges

// Rel is "X op Y" known to hold on an edge.
type Rel struct {
	X, Y ssa.Value
	Op   token.Token
}

func negOp(op token.Token) token.Token {
	switch op {
	case token.LSS:
		return token.GEQ
	case token.LEQ:
		return token.GTR
	case token.GTR:
		return token.LEQ
	case token.GEQ:
		return token.LSS
	case token.EQL:
		return token.NEQ
	case token.NEQ:
		return token.EQL
	}
	return token.ILLEGAL
}

func swapOp(op token.Token) token.Token {
	switch op {
	case token.LSS:
		return token.GTR
	case token.LEQ:
		return token.GEQ
	case token.GTR:
		return token.LSS
	case token.GEQ:
		return token.LEQ
	}
	return op
}

// edgeRel returns the comparison that holds on branch br of iff, if its condition is a comparison.
func edgeRel(iff *ssa.If, br int) (Rel, bool) {
	c := normCond(iff.Cond)
	if c.Bin == nil {
		return Rel{}, false
	}
	op := c.Bin.Op
	switch op {
	case token.LSS, token.LEQ, token.GTR, token.GEQ, token.EQL, token.NEQ:
	default:
		return Rel{}, false
	}
	truth := (br == 0) != c.Neg
	if !truth {
		op = negOp(op)
	}
	return canonRelation(Rel{c.Bin.X, c.Bin.Y, op}), true
}

// canonRelation rewrites an integer comparison into the form the guards are written against, so that
// algebraically equal spellings decide the same way: a constant goes to the right; `x <= y-1` is
// `x < y`, `x >= y+1` is `x > y`, `x < y+1` is `x <= y`, `x > y-1` is `x >= y`; for a length
// (never negative) `< 1` and `<= 0` are `== 0`, and `>= 1`, `!= 0` are `> 0`. Only single-term
// sides are rewritten; anything else is returned unchanged.
func canonRelation(r Rel) Rel {
	bx, ok := r.X.Type().Underlying().(*types.Basic)
	if !ok || bx.Info()&types.IsInteger == 0 {
		return r
	}
	lx, ly := linOfValue(r.X), linOfValue(r.Y)
	atom := func(l linComb) (ssa.Value, bool) {
		if len(l.terms) == 0 {
			return nil, true
		}
		if len(l.terms) == 1 {
			for t, cf := range l.terms {
				if cf == 1 {
					return l.atoms[t], true
				}
			}
		}
		return nil, false
	}
	ax, okx := atom(lx)
	ay, oky := atom(ly)
	if !okx || !oky {
		return r
	}
	op := r.Op
	if ax == nil && ay == nil {
		return r
	}
	if ax == nil { // constant on the left: swap
		ax, ay = ay, ax
		lx, ly = ly, lx
		op = swapOp(op)
	}
	d := ly.k - lx.k // ax <op> ay + d
	mk := func(k int64) ssa.Value { return ssa.NewConst(constant.MakeInt64(k), ax.Type()) }
	if ay == nil {
		// against a constant d
		nonNeg := lenOf(ax) != nil
		if bt, ok := ax.Type().Underlying().(*types.Basic); ok && bt.Info()&types.IsUnsigned != 0 {
			nonNeg = true
		}
		if nonNeg {
			switch {
			case op == token.LSS && d == 1, op == token.LEQ && d == 0:
				return Rel{ax, mk(0), token.EQL}
			case op == token.GEQ && d == 1, op == token.NEQ && d == 0:
				return Rel{ax, mk(0), token.GTR}
			}
		}
		if lx.k == 0 && r.X == ax {
			if _, isC := r.Y.(*ssa.Const); isC && op == r.Op {
				return r // already canonical
			}
		}
		return Rel{ax, mk(d), op}
	}
	switch {
	case d == 0:
	case d == -1 && op == token.LEQ:
		op, d = token.LSS, 0
	case d == 1 && op == token.GEQ:
		op, d = token.GTR, 0
	case d == 1 && op == token.LSS:
		op, d = token.LEQ, 0
	case d == -1 && op == token.GTR:
		op, d = token.GEQ, 0
	}
	if d != 0 {
		return r
	}
	if !types.Identical(ax.Type(), ay.Type()) {
		return r
	}
	return Rel{ax, ay, op}
}

// upperBoundEdge: on this edge, match(v) <= max for some operand v (max < 0 means: any constant bound).
func upperBoundEdge(match func(ssa.Value) bool, max int64) EdgePred {
	return func(iff *ssa.If, br int) bool {
		r, ok := edgeRel(iff, br)
		if !ok {
			return false
		}
		x, y, op := r.X, r.Y, r.Op
		if !match(x) {
			if !match(y) {
				return false
			}
			x, y, op = y, x, swapOp(op)
		}
		k, ok := constInt(y)
		if !ok {
			return false
		}
		var bound int64
		switch op {
		case token.LSS:
			bound = k - 1
		case token.LEQ, token.EQL:
			bound = k
		default:
			return false
		}
		if max < 0 {
			return true
		}
		return bound <= max
	}
}

// lowerBoundEdge: on this edge, match(v) >= min.
func lowerBoundEdge(match func(ssa.Value) bool, min int64) EdgePred {
	return func(iff *ssa.If, br int) bool {
		r, ok := edgeRel(iff, br)
		if !ok {
			return false
		}
		x, y, op := r.X, r.Y, r.Op
		if !match(x) {
			if !match(y) {
				return false
			}
			x, y, op = y, x, swapOp(op)
		}
		k, ok := constInt(y)
		if !ok {
			return false
		}
		switch op {
		case token.GTR:
			return k+1 >= min
		case token.GEQ, token.EQL:
			return k >= min
		case token.NEQ:
			// x != k with k == min-1 on an unsigned/len quantity gives x >= min only for len; callers opt in
			return false
		}
		return false
	}
}

// nilEdge: on this edge match(x) is nil (isNil=true) or non-nil.
func nilEdge(match func(ssa.Value) bool, isNil bool) EdgePred {
	return func(iff *ssa.If, br int) bool {
		r, ok := edgeRel(iff, br)
		if !ok || (r.Op != token.EQL && r.Op != token.NEQ) {
			return false
		}
		var x ssa.Value
		if isNilConst(r.Y) {
			x = r.X
		} else if isNilConst(r.X) {
			x = r.Y
		} else {
			return false
		}
		if !match(x) {
			return false
		}
		return (r.Op == token.EQL) == isNil
	}
}

// boolEdge: on this edge the (normalised) condition value satisfying match is `want`.
func boolEdge(match func(ssa.Value) bool, want bool) EdgePred {
	return condEdge(func(c Cond) (bool, bool) {
		if match(c.V) {
			return true, want
		}
		return false, false
	})
}

// hashEqualEdge: on this edge two values are equal, compared either with ==/!= or with an
// `Equal` method (bitcoin.Hash32/Hash20/PublicKey style). match gets both operands.
func equalEdge(match func(a, b ssa.Value) bool, want bool) EdgePred {
	return func(iff *ssa.If, br int) bool {
		c := normCond(iff.Cond)
		truth := (br == 0) != c.Neg
		if c.Call != nil && c.Idx < 0 {
			o := calleeObj(&c.Call.Call)
			// errors.Is(err, ErrX): the error (chain) is the sentinel
			if nm := calleeName(&c.Call.Call); (nm == "errors.Is" || strings.HasSuffix(nm, "/errors.Is")) && len(c.Call.Call.Args) == 2 {
				a, b := c.Call.Call.Args[0], c.Call.Call.Args[1]
				if match(a, b) || match(b, a) {
					return truth == want
				}
				return false
			}
			if o != nil && o.Name() == "Equal" && len(c.Call.Call.Args) == 2 {
				a, b := c.Call.Call.Args[0], c.Call.Call.Args[1]
				if match(a, b) || match(b, a) {
					return truth == want
				}
			}
			return false
		}
		if c.Bin != nil && (c.Bin.Op == token.EQL || c.Bin.Op == token.NEQ) {
			eq := truth == (c.Bin.Op == token.EQL)
			if match(c.Bin.X, c.Bin.Y) || match(c.Bin.Y, c.Bin.X) {
				return eq == want
			}
		}
		return false
	}
}

// ---------------------------------------------------------------------------------------------
// path queries with cut blocks

// reachAvoid2: like reachAvoid but also refuses to leave any block in cut (the instructions in a
// cut block count as "the required event happened").
func reachAvoid2(from, target *ssa.BasicBlock, guard EdgePred, cut map[*ssa.BasicBlock]bool) (bool, []*ssa.BasicBlock) {
	if from == target {
		return true, []*ssa.BasicBlock{from}
	}
	start := walkNode{b: from}
	prev := map[walkNode]walkNode{start: {}}
	queue := []walkNode{start}
	pathTo := func(n walkNode) []*ssa.BasicBlock {
		var path []*ssa.BasicBlock
		for x := n; x.b != nil; x = prev[x] {
			path = append([]*ssa.BasicBlock{x.b}, path...)
		}
		return path
	}
	for len(queue) > 0 {
		if len(prev) > walkBudget {
			return reachPlain(from, target, guard, cut) // too many path states: fall back to the plain CFG walk
		}
		n := queue[0]
		queue = queue[1:]
		b := n.b
		if cut[b] {
			continue
		}
		var iff *ssa.If
		if k := len(b.Instrs); k > 0 {
			iff, _ = b.Instrs[k-1].(*ssa.If)
		}
		for i, s := range b.Succs {
			if iff != nil && guard != nil && guard(n.effectiveIf(iff), i) {
				continue
			}
			if !n.feasibleEdge(i) {
				continue
			}
			nn := n.step(i)
			if _, seen := prev[nn]; seen {
				continue
			}
			prev[nn] = n
			if s == target {
				return true, pathTo(nn)
			}
			queue = append(queue, nn)
		}
	}
	return false, nil
}

// walkBudget bounds the number of (block, path facts) states one query may visit.
const walkBudget = 40000

// reachPlain: reachability on the bare CFG (no path facts), the conservative fallback.
func reachPlain(from, target *ssa.BasicBlock, guard EdgePred, cut map[*ssa.BasicBlock]bool) (bool, []*ssa.BasicBlock) {
	if from == target {
		return true, []*ssa.BasicBlock{from}
	}
	prev := map[*ssa.BasicBlock]*ssa.BasicBlock{from: nil}
	queue := []*ssa.BasicBlock{from}
	for len(queue) > 0 {
		b := queue[0]
		queue = queue[1:]
		if cut[b] {
			continue
		}
		var iff *ssa.If
		if k := len(b.Instrs); k > 0 {
			iff, _ = b.Instrs[k-1].(*ssa.If)
		}
		for i, s := range b.Succs {
			if iff != nil && guard != nil && guard(iff, i) {
				continue
			}
			if _, seen := prev[s]; seen {
				continue
			}
			prev[s] = b
			if s == target {
				var path []*ssa.BasicBlock
				for x := s; x != nil; x = prev[x] {
					path = append([]*ssa.BasicBlock{x}, path...)
				}
				return true, path
			}
			queue = append(queue, s)
		}
	}
	return false, nil
}

// mustPassOrHappen: every entry->in path traverses a guard edge or executes one of events first.
func mustPassOrHappen(in ssa.Instruction, guard EdgePred, events []ssa.Instruction) (bool, []string) {
	b := in.Block()
	fn := b.Parent()
	cut := map[*ssa.BasicBlock]bool{}
	for _, e := range events {
		if e.Block() == b {
			if instrIndex(e) < instrIndex(in) {
				return true, nil
			}
			continue
		}
		cut[e.Block()] = true
	}
	ok, path := reachAvoid2(fn.Blocks[0], b, guard, cut)
	if !ok {
		return true, nil
	}
	return false, pathWitness(fn, path)
}

func isExitBlock(b *ssa.BasicBlock) bool {
	if len(b.Instrs) == 0 {
		return false
	}
	switch b.Instrs[len(b.Instrs)-1].(type) {
	case *ssa.Return, *ssa.Panic:
		return true
	}
	return false
}

// alwaysFollowedBy: after instruction a, every path to a function exit (or, when sameIteration is
// set, back to a block that dominates a's block) executes one of events. okExit can whitelist
// exits (e.g. error returns).
func alwaysFollowedBy(a ssa.Instruction, events []ssa.Instruction, sameIteration bool, okExit func(*ssa.BasicBlock) bool) (bool, []string) {
	ab := a.Block()
	fn := ab.Parent()
	evBlocks := map[*ssa.BasicBlock][]ssa.Instruction{}
	for _, e := range events {
		evBlocks[e.Block()] = append(evBlocks[e.Block()], e)
	}
	for _, e := range evBlocks[ab] {
		if instrIndex(e) > instrIndex(a) {
			return true, nil
		}
	}
	if isExitBlock(ab) && (okExit == nil || !okExit(ab)) {
		return false, pathWitness(fn, []*ssa.BasicBlock{ab})
	}
	prev := map[walkNode]walkNode{}
	var queue []walkNode
	push := func(s walkNode, from walkNode) {
		if _, seen := prev[s]; seen {
			return
		}
		prev[s] = from
		queue = append(queue, s)
	}
	bad := func(n walkNode) ([]string, bool) {
		var path []*ssa.BasicBlock
		for x := n; x.b != nil; x = prev[x] {
			path = append([]*ssa.BasicBlock{x.b}, path...)
			if x.b == ab {
				break
			}
		}
		return pathWitness(fn, path), true
	}
	startN := walkNode{b: ab}
	prev[startN] = walkNode{}
	for _, s := range ab.Succs {
		if sameIteration && s.Dominates(ab) {
			w, _ := bad(startN)
			return false, append(w, "loops back without the required event")
		}
		push(mkNode(ab, s), startN)
	}
	for len(queue) > 0 {
		n := queue[0]
		queue = queue[1:]
		b := n.b
		if len(evBlocks[b]) > 0 {
			continue
		}
		if isExitBlock(b) {
			if okExit != nil && okExit(b) {
				continue
			}
			// "error returns are fine": a single `return err` of a result variable is an error return on the
			// paths that enter it with a non-nil value
			if okExit != nil && reflect.ValueOf(okExit).Pointer() == reflect.ValueOf(isErrorReturnBlock).Pointer() && errorReturnOnPath(n) {
				continue
			}
			w, _ := bad(n)
			return false, w
		}
		for i, s := range b.Succs {
			if !n.feasibleEdge(i) {
				continue
			}
			if sameIteration && s != ab && s.Dominates(ab) {
				w, _ := bad(n)
				return false, append(w, "loops back without the required event")
			}
			if s == ab {
				continue
			}
			push(n.step(i), n)
		}
	}
	return true, nil
}

// returnsOf lists the Return instructions of fn.
func returnsOf(fn *ssa.Function) []*ssa.Return {
	var out []*ssa.Return
	for _, b := range fn.Blocks {
		if n := len(b.Instrs); n > 0 {
			if r, ok := b.Instrs[n-1].(*ssa.Return); ok {
				out = append(out, r)
			}
		}
	}
	return out
}

// resultValues resolves the values a Return yields for result i, looking through the
// defer-spilled result slots (`*t0 = v; rundefers; t = *t0; return t`).
func resultValues(ret *ssa.Return, i int) []ssa.Value {
	if i >= len(ret.Results) {
		return nil
	}
	v := ret.Results[i]
	if u, ok := v.(*ssa.UnOp); ok && u.Op == token.MUL {
		if a, ok := u.X.(*ssa.Alloc); ok {
			// find the last store to a in this block before the load; else all stores
			var last ssa.Value
			for _, in := range ret.Block().Instrs {
				if in == ssa.Instruction(u) {
					break
				}
				if st, ok := in.(*ssa.Store); ok && st.Addr == a {
					last = st.Val
				}
			}
			if last != nil {
				return []ssa.Value{last}
			}
			var all []ssa.Value
			for _, r := range *a.Referrers() {
				if st, ok := r.(*ssa.Store); ok && st.Addr == a {
					all = append(all, st.Val)
				}
			}
			return all
		}
	}
	return []ssa.Value{v}
}

// errIsNilReturn: the error result (last result) of ret is the nil constant.
func errIsNilReturn(ret *ssa.Return) (isNil bool, known bool) {
	n := len(ret.Results)
	if n == 0 {
		return false, false
	}
	vals := resultValues(ret, n-1)
	if len(vals) != 1 {
		return false, false
	}
	if c, ok := vals[0].(*ssa.Const); ok {
		return c.IsNil(), true
	}
	return false, true // some non-constant error value: treat as non-nil on this path
}

// paramIndex returns the index of v among fn.Params or -1.
func paramIndex(fn *ssa.Function, v ssa.Value) int {
	for i, p := range fn.Params {
		if p == v {
			return i
		}
	}
	return -1
}

// derivesFromParam: v's slice contains parameter number i of its function.
func derivesFromParam(v ssa.Value, fn *ssa.Function, i int) bool {
	if i >= len(fn.Params) {
		return false
	}
	return derivesFromValue(v, fn.Params[i])
}

func paramNamed(fn *ssa.Function, name string) *ssa.Parameter {
	for _, p := range fn.Params {
		if p.Name() == name {
			return p
		}
	}
	return nil
}

// paramAt: the parameter called name, or – if it was renamed – the one at its recorded position
// (receiver counted as position 0).
func paramAt(fn *ssa.Function, name string, idx int) *ssa.Parameter {
	if p := paramNamed(fn, name); p != nil {
		return p
	}
	if idx >= 0 && idx < len(fn.Params) {
		return fn.Params[idx]
	}
	return nil
}

func constantInt(o *types.Const) (int64, bool) {
	return constantInt64(o.Val())
}

// loopHeaderOf returns the innermost natural-loop header containing b (nil if b is in no loop).
func loopHeaderOf(b *ssa.BasicBlock) *ssa.BasicBlock {
	var best *ssa.BasicBlock
	for h := b; h != nil; h = h.Idom() {
		// h is a loop header containing b if some predecessor p of h is dominated by h and b reaches p
		if !h.Dominates(b) {
			continue
		}
		for _, p := range h.Preds {
			if h.Dominates(p) && (p == b || reachableWithin(b, p, h)) {
				if best == nil {
					best = h
				}
			}
		}
		if best != nil {
			return best
		}
	}
	return nil
}

// reachableWithin: to is reachable from from without passing through header h (stays in the loop body).
func reachableWithin(from, to, h *ssa.BasicBlock) bool {
	if from == to {
		return true
	}
	seen := map[*ssa.BasicBlock]bool{from: true}
	q := []*ssa.BasicBlock{from}
	for len(q) > 0 {
		x := q[0]
		q = q[1:]
		for _, s := range x.Succs {
			if s == h || seen[s] {
				continue
			}
			if s == to {
				return true
			}
			seen[s] = true
			q = append(q, s)
		}
	}
	return false
}

// withLoopHeaders extends a set of event instructions by the terminators of the innermost loop
// headers that contain them: passing through a loop whose body performs the event counts as the
// event (zero iterations = nothing to account for).
func withLoopHeaders(events []ssa.Instruction, notContaining ssa.Instruction) []ssa.Instruction {
	out := append([]ssa.Instruction{}, events...)
	for _, e := range events {
		if h := loopHeaderOf(e.Block()); h != nil && len(h.Instrs) > 0 {
			// do not count loops that also contain the instruction under scrutiny
			if notContaining != nil && (notContaining.Block() == h || (h.Dominates(notContaining.Block()) && reachableWithin(notContaining.Block(), e.Block(), h) && loopHeaderOf(notContaining.Block()) == h)) {
				continue
			}
			out = append(out, h.Instrs[len(h.Instrs)-1])
		}
	}
	return out
}

// ifPos gives a usable position for an If (the SSA instruction itself has none).
func ifPos(iff *ssa.If) token.Pos {
	if p := iff.Cond.Pos(); p.IsValid() {
		return p
	}
	for i := len(iff.Block().Instrs) - 1; i >= 0; i-- {
		if p := iff.Block().Instrs[i].Pos(); p.IsValid() {
			return p
		}
	}
	return token.NoPos
}

// errOf returns the call whose error result v is (directly or via Extract of the last result).
func errOf(v ssa.Value) *ssa.Call { return errOfSeen(v, map[ssa.Value]bool{}) }

func errOfSeen(v ssa.Value, seen map[ssa.Value]bool) *ssa.Call {
	if seen[v] {
		return nil
	}
	seen[v] = true
	switch x := v.(type) {
	case *ssa.Call:
		if resultIsErrorSig(x.Call.Signature()) && x.Call.Signature().Results().Len() == 1 {
			return x
		}
	case *ssa.Extract:
		if c, ok := x.Tuple.(*ssa.Call); ok {
			sig := c.Call.Signature()
			if x.Index == sig.Results().Len()-1 && resultIsErrorSig(sig) {
				return c
			}
		}
	case *ssa.Phi:
		// `err` variable merged from one call only
		var only *ssa.Call
		for _, e := range x.Edges {
			if e == v || seen[e] {
				continue // loop-carried: the variable keeps what it had
			}
			c := errOfSeen(e, seen)
			if c == nil {
				if k, ok := e.(*ssa.Const); ok && k.IsNil() {
					continue
				}
				return nil
			}
			if only != nil && only != c {
				return nil
			}
			only = c
		}
		return only
	}
	return nil
}

func resultIsErrorSig(sig *types.Signature) bool {
	r := sig.Results()
	if r.Len() == 0 {
		return false
	}
	return types.Identical(r.At(r.Len()-1).Type(), types.Universe.Lookup("error").Type())
}

// errNilEdge: on this edge the error result of a call matching pred is nil (want=true) / non-nil.
func errNilEdge(pred func(call *ssa.Call) bool, wantNil bool) EdgePred {
	return func(iff *ssa.If, br int) bool {
		r, ok := edgeRel(iff, br)
		if !ok || (r.Op != token.EQL && r.Op != token.NEQ) {
			return false
		}
		var x ssa.Value
		if isNilConst(r.Y) {
			x = r.X
		} else if isNilConst(r.X) {
			x = r.Y
		} else {
			return false
		}
		call := errOf(x)
		if call == nil || !pred(call) {
			return false
		}
		return (r.Op == token.EQL) == wantNil
	}
}

func callNamed(names ...string) func(*ssa.Call) bool {
	return func(c *ssa.Call) bool {
		n := calleeShort(&c.Call)
		for _, w := range names {
			if n == w {
				return true
			}
		}
		return false
	}
}

// sameCall matches exactly this call instruction.
func sameCall(want *ssa.Call) func(*ssa.Call) bool {
	return func(c *ssa.Call) bool { return c == want }
}

// sameExpr: structural equality of side-effect-free address/load expressions (go/ssa does no CSE,
// so `s[i]` evaluated twice yields two distinct loads).
func sameExpr(a, b ssa.Value) bool {
	a, b = stripConv(a), stripConv(b)
	if a == b {
		return true
	}
	switch x := a.(type) {
	case *ssa.UnOp:
		y, ok := b.(*ssa.UnOp)
		return ok && x.Op == y.Op && sameExpr(x.X, y.X)
	case *ssa.IndexAddr:
		y, ok := b.(*ssa.IndexAddr)
		return ok && sameExpr(x.X, y.X) && sameExpr(x.Index, y.Index)
	case *ssa.FieldAddr:
		y, ok := b.(*ssa.FieldAddr)
		return ok && x.Field == y.Field && sameExpr(x.X, y.X)
	case *ssa.Field:
		y, ok := b.(*ssa.Field)
		return ok && x.Field == y.Field && sameExpr(x.X, y.X)
	case *ssa.Const:
		y, ok := b.(*ssa.Const)
		return ok && x.Value != nil && y.Value != nil && x.Value.ExactString() == y.Value.ExactString()
	case *ssa.BinOp:
		y, ok := b.(*ssa.BinOp)
		if !ok || x.Op != y.Op {
			return false
		}
		if sameExpr(x.X, y.X) && sameExpr(x.Y, y.Y) {
			return true
		}
		if x.Op == token.ADD || x.Op == token.MUL {
			return sameExpr(x.X, y.Y) && sameExpr(x.Y, y.X)
		}
	case *ssa.Call:
		// len(x) evaluated twice
		y, ok := b.(*ssa.Call)
		if ok {
			if lx, ly := lenOf(x), lenOf(y); lx != nil && ly != nil {
				return sameExpr(lx, ly)
			}
		}
	}
	return false
}
