package main

import (
	"fmt"
	"go/ast"
	"go/constant"
	"go/token"
	"go/types"
	"regexp"
	"sort"
	"strings"

	"golang.org/x/tools/go/packages"
	"golang.org/x/tools/go/ssa"
)

func init() {
	register(&PropDef{
		ID:    "C15",
		Title: "Client wire messages round-trip exactly and preserve stream framing",
		Explanation: "Decides the agreement of sibling codecs and tables in pkg/client (and the stored tx record): " +
			"(R1) the MessageType constants are pairwise distinct, each has exactly one name (names distinct), exactly one case in PayloadForType returning a fresh payload whose Type() returns that constant, and every payload type appears; " +
			"(R2) for every type with Serialize and Deserialize (37 payloads, TxState, MerkleProof, fee helpers) writer and reader yield the same wire grammar: same primitives in the same order (varint / fixed width and endianness / nested codec / raw bytes), the same optional and repeated structure, the same field order, and loop bounds that are the same quantity on both sides (a written count, or an equality the writer validates); " +
			"(R3) in every reader each fallible read's error is tested immediately and leads to an error return (a strict prefix surfaces as an error); " +
			"(R4) the message envelope is type varint then payload, nothing else.",
		NotDecided:  "equality of decoded values (nil vs empty), varint boundary behaviour and the codecs of dependency types (wire.MsgTx, bitcoin.Hash32, …) – value level / outside the module.",
		Assumptions: []string{"dependency codecs are symmetric", "the grammar extractor recognises the idioms listed in DESIGN.md section 3; anything else is reported undecided"},
		Tech:        "codec grammar extraction from the type-checked AST and writer/reader comparison, constant table bijection, error-check dominance on SSA",
		Run:         runC15,
	})
}

var presenceCond = regexp.MustCompile(`^!?[A-Za-z_][A-Za-z0-9_.]*(==|!=)var:nil$|^len\([A-Za-z_][A-Za-z0-9_.]*\)((==|!=|>)0|(>=|<)1)$`)

type codecPair struct {
	Name   string
	Writer *codecFn
	Reader *codecFn
}

// codecPairsIn finds the Serialize/Deserialize (or given) method pairs of a package.
func codecPairsIn(p *packages.Package, wName, rName string) []codecPair {
	var out []codecPair
	sc := p.Types.Scope()
	for _, n := range sc.Names() {
		tn, ok := sc.Lookup(n).(*types.TypeName)
		if !ok {
			continue
		}
		wd := findFuncDecl(p, tn.Name(), wName)
		rd := findFuncDecl(p, tn.Name(), rName)
		if wd == nil || rd == nil {
			continue
		}
		out = append(out, codecPair{tn.Name(), extractCodec(p, wd, true), extractCodec(p, rd, false)})
	}
	return out
}

func freeCodecPair(p *packages.Package, name, wName, rName string) (codecPair, bool) {
	wd := findFuncDecl(p, "", wName)
	rd := findFuncDecl(p, "", rName)
	if wd == nil || rd == nil {
		return codecPair{}, false
	}
	return codecPair{name, extractCodec(p, wd, true), extractCodec(p, rd, false)}, true
}

// compareLoops checks loop-bound agreement, walking both op lists in parallel (same structure).
func compareLoops(wops, rops []cop, wfn *codecFn) []string {
	var bad []string
	for i := range wops {
		if i >= len(rops) {
			break
		}
		wo, ro := wops[i], rops[i]
		switch wo.Kind {
		case "Loop":
			counted := i > 0 && wops[i-1].Kind == "V" && wops[i-1].Arg == wo.Bound
			if counted {
				// reader must bound by the value it just read (directly or via make)
				okR := i > 0 && rops[i-1].Kind == "V" && (ro.Bound == rops[i-1].Arg || ro.Bound == wo.Bound || strings.HasPrefix(ro.Bound, "len("))
				if okR && ro.Var != "" && rops[i-1].Var != "" && ro.Var != rops[i-1].Var {
					// the loop is bounded by something other than the variable the count was read into
					// (a clamped or otherwise derived length): elements the writer emitted stay unread
					okR = false
				}
				if !okR {
					bad = append(bad, fmt.Sprintf("reader loop bound %q (%s) is not the count read before it (%s %q %s)", ro.Bound, ro.Var, rops[i-1].Kind, rops[i-1].Arg, rops[i-1].Var))
				}
			} else {
				// implicit bound: both sides must use the same quantity, or the writer validates equality
				if wo.Bound != ro.Bound {
					ok := false
					for _, ck := range wfn.Checks {
						if ck == wo.Bound+"=="+ro.Bound {
							ok = true
						}
					}
					if !ok {
						bad = append(bad, fmt.Sprintf("the writer emits %s elements without writing a count, the reader expects %s elements, and the writer does not validate that they are equal", wo.Bound, ro.Bound))
					}
				}
			}
			bad = append(bad, compareLoops(wo.Body, ro.Body, wfn)...)
		case "Alt":
			bad = append(bad, compareLoops(wo.A, ro.A, wfn)...)
			bad = append(bad, compareLoops(wo.B, ro.B, wfn)...)
		}
	}
	return bad
}

func (c *Check) compareCodecPair(rule string, rel string, pr codecPair) {
	key := rel + "." + pr.Name + "#codec-pair"
	pos := pr.Writer.Pos
	if len(pr.Writer.Undecided)+len(pr.Reader.Undecided) > 0 {
		c.Undecided(rule, key, pos, "unrecognised codec idiom: %v %v", pr.Writer.Undecided, pr.Reader.Undecided)
		return
	}
	ws, rs := opsString(pr.Writer.Ops), opsString(pr.Reader.Ops)
	var bad []string
	if ws != rs {
		bad = append(bad, "writer grammar: "+ws, "reader grammar: "+rs)
	}
	wf, rf := strings.Join(pr.Writer.Fields, ","), strings.Join(pr.Reader.Fields, ",")
	if wf != rf {
		bad = append(bad, "writer field order: "+wf, "reader field order: "+rf)
	}
	if ws == rs {
		bad = append(bad, compareLoops(pr.Writer.Ops, pr.Reader.Ops, pr.Writer)...)
	}
	// presence of an optional part must be exactly nil-ness of the field (a representable non-nil
	// value must not be written as absent)
	var walk func(ops []cop)
	walk = func(ops []cop) {
		for _, o := range ops {
			switch o.Kind {
			case "Alt":
				if !presenceCond.MatchString(o.Cond) {
					bad = append(bad, fmt.Sprintf("the optional part is written under the condition %q, which is more than a nil test of the field: a non-nil value can be written as absent", o.Cond))
				}
				walk(o.A)
				walk(o.B)
			case "Loop":
				walk(o.Body)
			}
		}
	}
	walk(pr.Writer.Ops)
	bad = append(bad, presenceFlagAgrees(pr.Writer.Ops)...)
	if len(bad) == 0 {
		c.Ok(rule, key, pos, "codec grammar", "grammar %q fields [%s]", ws, wf)
	} else {
		c.Bad(rule, key, pos, "codec grammar", bad, "writer and reader of %s disagree: a value written by one is not read back by the other (framing of every following message shifts)", pr.Name)
	}
}

func runC15(c *Check) {
	p := c.P.CodecPkg("client")
	if p == nil {
		c.Undecided("R0", "anchor:pkg/client", token.NoPos, "package not loaded")
		return
	}
	c.ruleNoMakeLenThenAppend("R5", "client")
	// ---- R1 tables
	type mt struct {
		name string
		val  uint64
		obj  *types.Const
	}
	var consts []mt
	sc := p.Types.Scope()
	for _, n := range sc.Names() {
		if !strings.HasPrefix(n, "MessageType") {
			continue
		}
		if k, ok := sc.Lookup(n).(*types.Const); ok {
			if v, ok := constant.Uint64Val(k.Val()); ok {
				consts = append(consts, mt{n, v, k})
			}
		}
	}
	sort.Slice(consts, func(i, j int) bool { return consts[i].val < consts[j].val })
	c.Min("R1", "MessageType constants", len(consts), 37)
	seenVal := map[uint64]string{}
	for _, k := range consts {
		if prev, dup := seenVal[k.val]; dup {
			c.Bad("R1", "client."+k.name+"#distinct-code", k.obj.Pos(), "table bijection", nil, "type code %d is shared by %s and %s", k.val, prev, k.name)
		}
		seenVal[k.val] = k.name
	}
	// names table
	nameOf := map[string]string{}
	for _, f := range p.Syntax {
		ast.Inspect(f, func(n ast.Node) bool {
			vs, ok := n.(*ast.ValueSpec)
			if !ok || len(vs.Names) != 1 || vs.Names[0].Name != "MessageTypeNames" || len(vs.Values) != 1 {
				return true
			}
			cl, ok := vs.Values[0].(*ast.CompositeLit)
			if !ok {
				return false
			}
			for _, el := range cl.Elts {
				kv, ok := el.(*ast.KeyValueExpr)
				if !ok {
					continue
				}
				kid, ok1 := kv.Key.(*ast.Ident)
				lit, ok2 := kv.Value.(*ast.BasicLit)
				if ok1 && ok2 {
					if _, dup := nameOf[kid.Name]; dup {
						c.Bad("R1", "client."+kid.Name+"#single-name", kv.Pos(), "table bijection", nil, "%s has two entries in MessageTypeNames", kid.Name)
					}
					nameOf[kid.Name] = lit.Value
				}
			}
			return false
		})
	}
	revName := map[string]string{}
	for k, v := range nameOf {
		if prev, dup := revName[v]; dup {
			c.Bad("R1", "client."+k+"#distinct-name", token.NoPos, "table bijection", nil, "name %s is shared by %s and %s", v, prev, k)
		}
		revName[v] = k
	}
	// PayloadForType switch
	caseType := map[string]string{} // const name -> payload type
	if fd := findFuncDecl(p, "", "PayloadForType"); fd != nil {
		ast.Inspect(fd, func(n ast.Node) bool {
			cc, ok := n.(*ast.CaseClause)
			if !ok {
				return true
			}
			for _, e := range cc.List {
				id, ok := e.(*ast.Ident)
				if !ok {
					continue
				}
				typ := ""
				for _, st := range cc.Body {
					if rs, ok := st.(*ast.ReturnStmt); ok && len(rs.Results) == 1 {
						if u, ok := rs.Results[0].(*ast.UnaryExpr); ok && u.Op == token.AND {
							if cl, ok := u.X.(*ast.CompositeLit); ok {
								if tid, ok := cl.Type.(*ast.Ident); ok {
									typ = tid.Name
								}
							}
						}
					}
				}
				if _, dup := caseType[id.Name]; dup {
					c.Bad("R1", "client."+id.Name+"#single-case", cc.Pos(), "table bijection", nil, "%s has two cases in PayloadForType", id.Name)
				}
				caseType[id.Name] = typ
			}
			return true
		})
	} else {
		c.Undecided("R1", "anchor:client.PayloadForType", token.NoPos, "function not found")
	}
	// Type() methods
	typeConst := map[string]string{} // payload type -> const name returned by Type()
	for _, n := range sc.Names() {
		if fd := findFuncDecl(p, n, "Type"); fd != nil && fd.Body != nil {
			for _, st := range fd.Body.List {
				if rs, ok := st.(*ast.ReturnStmt); ok && len(rs.Results) == 1 {
					if id, ok := rs.Results[0].(*ast.Ident); ok {
						typeConst[n] = id.Name
					}
				}
			}
		}
	}
	usedTypes := map[string]string{}
	for _, k := range consts {
		key := "client." + k.name
		_, hasName := nameOf[k.name]
		typ := caseType[k.name]
		ok := hasName && typ != "" && typeConst[typ] == k.name
		var why []string
		if !hasName {
			why = append(why, "no entry in MessageTypeNames")
		}
		if typ == "" {
			why = append(why, "no case in PayloadForType returning &T{}")
		} else if typeConst[typ] != k.name {
			why = append(why, fmt.Sprintf("PayloadForType returns %s whose Type() returns %s", typ, typeConst[typ]))
		}
		if prev, dup := usedTypes[typ]; dup && typ != "" {
			ok = false
			why = append(why, fmt.Sprintf("payload type %s is also produced for %s", typ, prev))
		}
		usedTypes[typ] = k.name
		c.Decide(ok, "R1", key+"#code-name-payload-agree", k.obj.Pos(), "table bijection", why,
			"code, name, payload constructor and Type() agree", "the tables for "+k.name+" do not map one-to-one")
	}
	for typ, k := range typeConst {
		if caseType[k] != typ {
			c.Bad("R1", "client."+typ+"#payload-registered", token.NoPos, "table bijection", nil, "payload type %s (Type() = %s) is not produced by PayloadForType for that code", typ, k)
		}
	}

	// ---- R2 / R4 codec pairs
	pairs := codecPairsIn(p, "Serialize", "Deserialize")
	c.Min("R2", "Serialize/Deserialize pairs in pkg/client", len(pairs), 40)
	for _, pr := range pairs {
		rule := "R2"
		if pr.Name == "Message" {
			rule = "R4"
		}
		c.compareCodecPair(rule, "client", pr)
	}
	for _, fp := range [][3]string{{"FeeQuote", "SerializeFeeQuote", "DeserializeFeeQuote"}, {"Fee", "SerializeFee", "DeserializeFee"}} {
		if pr, ok := freeCodecPair(p, fp[0], fp[1], fp[2]); ok {
			c.compareCodecPair("R2", "client", pr)
		} else {
			c.Undecided("R2", "anchor:client."+fp[1], token.NoPos, "free codec pair not found")
		}
	}
	// envelope shape
	for _, pr := range pairs {
		if pr.Name == "Message" {
			ws := opsString(pr.Writer.Ops)
			c.Decide(ws == "V N:MessagePayload", "R4", "client.Message#envelope", pr.Writer.Pos, "codec grammar", []string{ws},
				"envelope is type varint then payload", "the message envelope is not exactly (type varint, payload)")
		}
	}

	// ---- R3 errors of reads are checked
	c.ruleReadErrorsChecked("R3", []string{"client"}, 80)
	c.ruleWriteOnlyWhatSerialized("R6")
	c.rulePreallocateOnlyAsCapacity("R8")
	c.rulePooledBufferNotStored("R9", 8)
	c.ruleDecodeLoopsKeepEveryElement("R10", 10)
	c.ruleSpentOutputsPerInput("R11")
	c.ruleTxStateStoredAsGiven("R12")
	c.Touch(c.P.Fn("storage.FetchTxState"))
}

// readerFunctions: module functions that take a stream to read from.
func (c *Check) readerFunctions(rels []string) []*ssa.Function {
	var out []*ssa.Function
	for _, fn := range c.P.FuncsIn(rels...) {
		if fn.Parent() != nil {
			continue
		}
		isReader := false
		for _, p := range fn.Params {
			switch p.Type().String() {
			case "io.Reader", "*bytes.Buffer", "*bytes.Reader":
				isReader = true
			}
		}
		n := fn.Name()
		if isReader && (strings.HasPrefix(n, "Deserialize") || strings.HasPrefix(n, "Read") || strings.HasPrefix(n, "read")) {
			out = append(out, fn)
		}
	}
	return out
}

// ruleReadErrorsChecked: in reader functions every call that returns an error has that error
// tested at once, and the failing edge leads to an error return.
func (c *Check) ruleReadErrorsChecked(rule string, rels []string, min int) {
	n := 0
	for _, fn := range c.readerFunctions(rels) {
		c.Touch(fn)
		for _, s := range sitesIn(fn) {
			call := s.Value()
			if call == nil || !resultIsErrorSig(call.Call.Signature()) {
				continue
			}
			if _, isB := call.Call.Value.(*ssa.Builtin); isB {
				continue
			}
			if nm := calleeName(s.CC); strings.HasSuffix(nm, "pkg/errors.Wrap") || strings.HasSuffix(nm, "pkg/errors.Wrapf") || strings.HasSuffix(nm, "pkg/errors.New") ||
				strings.HasSuffix(nm, "pkg/errors.Errorf") || strings.HasSuffix(nm, "pkg/errors.WithStack") || strings.HasSuffix(nm, "pkg/errors.WithMessage") || nm == "errors.New" || nm == "fmt.Errorf" {
				continue // builds an error value, reads nothing
			}
			n++
			key := fmt.Sprintf("%s#error-of-%s-checked", c.P.Key(fn), calleeObjName(s.CC))
			// find the If testing this call's error
			var test *ssa.If
			br := 0
			for _, b := range fn.Blocks {
				iff, ok := lastIf(b)
				if !ok {
					continue
				}
				for k := 0; k < 2; k++ {
					if errNilEdge(sameCall(call), false)(iff, k) {
						test, br = iff, k
					}
				}
			}
			if test == nil {
				// returned directly?
				direct := false
				for _, ret := range returnsOf(fn) {
					for _, v := range ret.Results {
						if errOf(v) == call {
							direct = true
						}
						// returned through a result variable joined from several paths
						seenP := map[ssa.Value]bool{}
						var walk func(x ssa.Value)
						walk = func(x ssa.Value) {
							if seenP[x] {
								return
							}
							seenP[x] = true
							if phi, ok := x.(*ssa.Phi); ok {
								for _, e := range phi.Edges {
									walk(e)
								}
								return
							}
							if ex, ok := x.(*ssa.Extract); ok && ex.Tuple == ssa.Value(call) {
								direct = true
							}
							if x == ssa.Value(call) {
								direct = true
							}
						}
						walk(v)
					}
				}
				c.Decide(direct, rule, key, s.Pos(), "error-check dominance", nil, "error returned directly", "the error of this read is never tested: a truncated input would be decoded as a shorter/different value")
				continue
			}
			ok := test.Block() == call.Block() || test.Block().Idom() == call.Block()
			// failing edge must lead only to error returns (or leave a decoding loop)
			fail := test.Block().Succs[br]
			leads := true
			seen := map[walkNode]bool{}
			q := []walkNode{mkNode(test.Block(), fail)}
			steps := 0
			for len(q) > 0 && steps < 80 {
				nd := q[0]
				q = q[1:]
				if seen[nd] {
					continue
				}
				seen[nd] = true
				steps++
				x := nd.b
				if isExitBlock(x) {
					if !isErrorReturnBlock(x) && !returnsErrValue(x, call) {
						leads = false
					}
					continue
				}
				// another read on the failing path means decoding continued
				for _, in := range x.Instrs {
					if cc := callCommon(in); cc != nil && in != ssa.Instruction(call) {
						nm := calleeShort(cc)
						if strings.Contains(nm, "ReadVarInt") || strings.Contains(nm, "binary.Read") || strings.HasSuffix(nm, ".Deserialize") || strings.Contains(nm, "io.ReadFull") {
							leads = false
						}
					}
				}
				for i := range x.Succs {
					if nd.feasibleEdge(i) {
						q = append(q, nd.step(i))
					}
				}
			}
			c.Decide(ok && leads, rule, key, s.Pos(), "error-check dominance", nil,
				"error tested immediately; the failing edge stops decoding", "after this read fails decoding continues (or the test is not immediate): a strict prefix of an encoding could decode to a message")
		}
	}
	c.Min(rule, "fallible reads in reader functions", n, min)
}

func calleeObjName(cc *ssa.CallCommon) string {
	if o := calleeObj(cc); o != nil {
		return o.Name()
	}
	return "call"
}

// returnsErrValue: the block returns the error value of call (e.g. `return txid, &tx, err`).
func returnsErrValue(b *ssa.BasicBlock, call *ssa.Call) bool {
	r, ok := b.Instrs[len(b.Instrs)-1].(*ssa.Return)
	if !ok || len(r.Results) == 0 {
		return false
	}
	for _, v := range resultValues(r, len(r.Results)-1) {
		if errOf(v) == call {
			return true
		}
		if _, isC := v.(*ssa.Const); !isC {
			return true
		}
	}
	return false
}

// presenceFlagAgrees (C15.R2, presence clause): a bool written directly in front of an optional part
// is that part's presence flag (the reader decides by it): its value must be the very condition
// under which the part is written - the literal true in the branch that writes the part, or an
// expression that canonicalises to the branch condition. A flag computed from a narrower
// condition (`hash != nil && !hash.IsZero()`) announces "absent" for a part that is then written.
func presenceFlagAgrees(ops []cop) []string {
	var bad []string
	negate := func(s string) string {
		if strings.HasPrefix(s, "!") {
			return s[1:]
		}
		if strings.HasSuffix(s, "==var:nil") {
			return strings.TrimSuffix(s, "==var:nil") + "!=var:nil"
		}
		if strings.HasSuffix(s, "!=var:nil") {
			return strings.TrimSuffix(s, "!=var:nil") + "==var:nil"
		}
		return "!" + s
	}
	for i, o := range ops {
		switch o.Kind {
		case "Loop":
			bad = append(bad, presenceFlagAgrees(o.Body)...)
		case "Alt":
			bad = append(bad, presenceFlagAgrees(o.A)...)
			bad = append(bad, presenceFlagAgrees(o.B)...)
			if i == 0 || len(o.B) != 0 || ops[i-1].Kind != "F" || ops[i-1].Typ != "bool" {
				continue
			}
			flag := ops[i-1].Arg
			present := o.Cond // condition under which the part is written
			if o.Swapped {
				present = negate(present)
			}
			switch {
			case flag == "then:var:true":
				if o.Swapped {
					bad = append(bad, fmt.Sprintf("the presence flag is written true in the branch that does not write the optional part (condition %q)", o.Cond))
				}
			case flag == "then:var:false":
				if !o.Swapped {
					bad = append(bad, fmt.Sprintf("the presence flag is written false in the branch that writes the optional part (condition %q)", o.Cond))
				}
			case flag == "var:true" || flag == "var:false":
				bad = append(bad, fmt.Sprintf("the presence flag in front of the optional part is the constant %s", strings.TrimPrefix(flag, "var:")))
			case flag == "":
			default:
				if flag != present && negate(flag) != negate(present) {
					bad = append(bad, fmt.Sprintf("the presence flag is written as %q but the optional part is written under %q: the reader is told the part is absent (or present) when it is not", flag, present))
				}
			}
		}
	}
	return bad
}
