package main

// Rules added after seeding round 6 (DESIGN.md section 8.8, marker ❖ in section 4): the wrong one of
// two similar things, boundary / absent cases, lifecycle and lock scope.

import (
	"fmt"
	"go/token"
	"go/types"
	"strings"

	"golang.org/x/tools/go/ssa"
)

// lastFieldOf: the field a loaded list value is read from (`x.a.b` -> b), nil for other values.
func lastFieldOf(v ssa.Value) *types.Var {
	v = stripConv(v)
	if u, ok := v.(*ssa.UnOp); ok && u.Op == token.MUL {
		if fa, ok := u.X.(*ssa.FieldAddr); ok {
			return fieldOfAddr(fa)
		}
	}
	if f, ok := v.(*ssa.Field); ok {
		return fieldOfAddr(f)
	}
	return nil
}

// sameListValue: l and x denote the same list: the same expression, or loads of the same field of
// objects that share a root (two lists hanging off one object - `tx.Outputs` and `tx.Tx.TxOut` -
// are different lists).
func sameListValue(l, x ssa.Value) bool {
	if sameExpr(l, x) {
		return true
	}
	if !sharesRoot(l, x) {
		return false
	}
	fl, fx := lastFieldOf(l), lastFieldOf(x)
	if fl == nil || fx == nil {
		return true
	}
	return fl == fx
}

// ---------------------------------------------------------------------------------------------
// C05.R16 / C06.R12: the spender list of an outpoint extends itself, under its own key

// ruleSpenderListExtendsItsOwn: every store into MemPool.inputs while adding a tx is either a fresh
// one-element list, or `append(list, txid)` where list is what the lookup of the SAME key returned.
// Stored under another key (the parent txid instead of the outpoint hash) the later spenders are never
// found by Conflicting; extended from another list (the accumulated conflicts) a tx is registered as a
// spender of an outpoint it does not spend and gets cancelled with it.
func (c *Check) ruleSpenderListExtendsItsOwn(rule string) {
	fIn := c.P.Field("state", "MemPool", "inputs")
	fn := c.Fn(rule, "state.(*MemPool).AddTransaction")
	if fn == nil {
		return
	}
	if fIn == nil {
		c.Undecided(rule, "anchor:state.MemPool.inputs", fn.Pos(), "field not found")
		return
	}
	n := 0
	for _, ac := range fieldAccesses(fn, map[*types.Var]bool{fIn: true}) {
		mu, ok := ac.Instr.(*ssa.MapUpdate)
		if !ok {
			continue
		}
		n++
		okv := false
		why := ""
		if call := builtinCall(mu.Value, "append"); call != nil && len(call.Call.Args) >= 1 {
			base := call.Call.Args[0]
			// base is the value of a lookup on inputs ...
			var lk *ssa.Lookup
			for _, r := range rootsAll(base) {
				if l, isL := r.(*ssa.Lookup); isL && loadOfField(l.X, fIn) != nil {
					lk = l
				}
			}
			switch {
			case lk == nil:
				if ms, isFresh := stripConv(base).(*ssa.Slice); isFresh {
					_ = ms
				}
				why = "the list stored is not an extension of the list found for this outpoint"
			case !sameExpr(lk.Index, mu.Key):
				why = "the list is stored under another key than the one it was looked up with"
			default:
				// ... and only of that lookup: no other list is merged into it
				okv = true
				for _, r := range rootsAll(base) {
					if cl, isCall := r.(*ssa.Call); isCall && cl != call {
						if _, bi := cl.Call.Value.(*ssa.Builtin); !bi {
							okv = false
							why = "the list stored derives from another list than the one found for this outpoint"
						}
					}
					if p, isPhi := r.(*ssa.Phi); isPhi {
						_ = p
					}
				}
				if ex, isEx := stripConv(base).(*ssa.Extract); !isEx || ex.Tuple != ssa.Value(lk) {
					if stripConv(base) != ssa.Value(lk) {
						okv = false
						why = "the list extended is not the list found for this outpoint"
					}
				}
			}
		} else {
			// a fresh list holding the tx
			okv = true
			for _, r := range rootsAll(mu.Value) {
				if l, isL := r.(*ssa.Lookup); isL && loadOfField(l.X, fIn) != nil && !sameExpr(l.Index, mu.Key) {
					okv = false
					why = "a list found under another key is stored here"
				}
			}
		}
		c.Decide(okv, rule, fmt.Sprintf("state.(*MemPool).AddTransaction#spender-list-extends-its-own@%d", n), mu.Pos(), "provenance", []string{why},
			"the list stored for an outpoint is a fresh one or the list found for that outpoint, extended",
			"the spender list stored for an outpoint is not the list found under that same key extended by the new tx ("+why+"): a spender is registered under the wrong outpoint or is missing from its own, so a confirmed double spend cancels the wrong txs / misses a loser")
	}
	c.Min(rule, "stores into MemPool.inputs in AddTransaction", n, 1)
}

// ruleConflictsAccumulatedForEveryInput (C05.R17 / C07.R11): in the loop registering the inputs, on every
// path of an iteration that found an existing spender list (lookup ok) the list is merged into the
// conflicts (the accumulating call executes): a tx conflicting on several inputs must flag the earlier
// spenders of each of them.
func (c *Check) ruleConflictsAccumulatedForEveryInput(rule string) {
	fIn := c.P.Field("state", "MemPool", "inputs")
	fn := c.Fn(rule, "state.(*MemPool).AddTransaction")
	if fn == nil {
		return
	}
	if fIn == nil {
		c.Undecided(rule, "anchor:state.MemPool.inputs", fn.Pos(), "field not found")
		return
	}
	n := 0
	plainDone := map[*ssa.BasicBlock]bool{}
	for _, b := range fn.Blocks {
		for _, in := range b.Instrs {
			lk, ok := in.(*ssa.Lookup)
			if !ok || loadOfField(lk.X, fIn) == nil {
				continue
			}
			h := loopHeaderOf(b)
			if h == nil {
				continue
			}
			var val ssa.Value
			if lk.CommaOk {
				for _, r := range *lk.Referrers() {
					if ex, isEx := r.(*ssa.Extract); isEx && ex.Index == 0 {
						val = ex
					}
				}
			} else {
				// `conflicts = merge(conflicts, inputs[key]); inputs[key] = append(inputs[key], txid)`: a missing key
				// yields the empty list - the merge must simply run in every iteration
				val = lk
				isMerge := func(in2 ssa.Instruction) int {
					call, isCall := in2.(*ssa.Call)
					if !isCall {
						return 0
					}
					if bi, isB := call.Call.Value.(*ssa.Builtin); isB && bi.Name() == "append" && len(call.Call.Args) > 0 {
						if l2, isL := call.Call.Args[0].(*ssa.Lookup); isL && loadOfField(l2.X, fIn) != nil {
							return 0 // the registration append
						}
					}
					for _, a := range call.Call.Args {
						if l2, isL := a.(*ssa.Lookup); isL && !l2.CommaOk && loadOfField(l2.X, fIn) != nil {
							return 1
						}
					}
					return 0
				}
				// only once per loop
				if plainDone[h] {
					continue
				}
				plainDone[h] = true
				counts := iterationCounts(h, isMerge)
				if len(counts) == 1 {
					if _, only0 := counts[0]; only0 {
						continue // this loop does not merge at all: not the registration loop of the conflicts
					}
				}
				n++
				skip, hasSkip := counts[0]
				var w []string
				if hasSkip {
					w = pathWitness(fn, skip)
				}
				c.Decide(!hasSkip, rule, "state.(*MemPool).AddTransaction#conflicts-accumulated-for-every-input", lk.Pos(), "per-iteration must-pass-through", w,
					"every iteration merges the spenders found for the input into the conflicts",
					"an iteration can register an input without merging its earlier spenders into the reported conflicts: a tx double-spending two different txs flags only some of them, the others are later reported safe")
				continue
			}
			// the accumulating uses of the found list: calls / appends that take it
			var acc []ssa.Instruction
			body := loopBody(h)
			for bb := range body {
				for _, in2 := range bb.Instrs {
					call, isCall := in2.(*ssa.Call)
					if !isCall || val == nil {
						continue
					}
					if _, isMU := in2.(*ssa.MapUpdate); isMU {
						continue
					}
					uses := false
					for _, a := range call.Call.Args {
						if a == val {
							uses = true
						}
					}
					// appending the new tx to the list is registration, not accumulation
					if bi, isB := call.Call.Value.(*ssa.Builtin); isB && bi.Name() == "append" && len(call.Call.Args) > 0 && call.Call.Args[0] == val {
						uses = false
					}
					if uses {
						acc = append(acc, in2)
					}
				}
			}
			n++
			if len(acc) == 0 {
				c.Bad(rule, "state.(*MemPool).AddTransaction#conflicts-accumulated-for-every-input", lk.Pos(), "per-iteration must-pass-through", nil,
					"the spender list found for an input is never merged into the conflicts")
				continue
			}
			// from the ok==true edge back to the header without passing an accumulation
			cut := map[*ssa.BasicBlock]bool{}
			for _, a := range acc {
				cut[a.Block()] = true
			}
			bad := false
			var w []string
			for _, bb := range fn.Blocks {
				iff, isIf := lastIf(bb)
				if !isIf || !body[bb] {
					continue
				}
				for br := 0; br < 2; br++ {
					if !boolEdge(func(v ssa.Value) bool {
						ex, isEx := v.(*ssa.Extract)
						return isEx && ex.Index == 1 && ex.Tuple == ssa.Value(lk)
					}, true)(iff, br) {
						continue
					}
					start := bb.Succs[br]
					if cut[start] {
						continue
					}
					if r, p := reachAvoid2(start, h, nil, cut); r || start == h {
						bad = true
						w = pathWitness(fn, p)
					}
				}
			}
			c.Decide(!bad, rule, "state.(*MemPool).AddTransaction#conflicts-accumulated-for-every-input", lk.Pos(), "per-iteration must-pass-through", w,
				"every iteration that finds earlier spenders merges them into the conflicts",
				"an iteration can find earlier spenders of an input without merging them into the reported conflicts (e.g. only while the list is still empty): a tx double-spending two different txs flags only the first, the other is later reported safe")
		}
	}
	c.Min(rule, "lookups of an input's spenders in AddTransaction", n, 1)
}

// ---------------------------------------------------------------------------------------------
// E10: the "not found" value of a found-index variable is not an index

// ruleFoundIndexSentinel: a variable that is a constant before a searching loop and the loop's index where
// the loop found its element, and that is afterwards compared with that constant to decide "found",
// must start from a value that is no index (negative): started from 0, an element found at position
// 0 counts as not found.
func (c *Check) ruleFoundIndexSentinel(rule string, fns []*ssa.Function) {
	n := 0
	for _, fn := range fns {
		if fn == nil || fn.Blocks == nil {
			continue
		}
		k := 0
		for _, b := range fn.Blocks {
			for _, in := range b.Instrs {
				phi, ok := in.(*ssa.Phi)
				if !ok {
					continue
				}
				bt, isInt := phi.Type().Underlying().(*types.Basic)
				if !isInt || bt.Info()&types.IsInteger == 0 {
					continue
				}
				// a join after a loop: one edge a constant, another an index of a loop (range / counted)
				var cst *int64
				hasIdx := false
				for _, e := range phi.Edges {
					e = stripConv(e)
					if kv, isC := constInt(e); isC {
						kv := kv
						cst = &kv
						continue
					}
					if isRangeIndex(e) {
						hasIdx = true
						continue
					}
					if p2, isP := e.(*ssa.Phi); isP {
						// the loop-carried copy of the same variable
						for _, e2 := range p2.Edges {
							e2 = stripConv(e2)
							if isRangeIndex(e2) {
								hasIdx = true
							}
							if kv, isC := constInt(e2); isC && cst == nil {
								kv := kv
								cst = &kv
							}
						}
					}
				}
				if cst == nil || !hasIdx || loopHeaderOf(b) != nil && phi.Block() == loopHeaderOf(b) {
					continue
				}
				// compared with the constant afterwards?
				compared := false
				if refs := phi.Referrers(); refs != nil {
					for _, r := range *refs {
						if bo, isB := r.(*ssa.BinOp); isB && (bo.Op == token.EQL || bo.Op == token.NEQ || bo.Op == token.LSS || bo.Op == token.GEQ) {
							if kv, isC := constInt(stripConv(bo.Y)); isC && kv == *cst {
								compared = true
							}
							if kv, isC := constInt(stripConv(bo.X)); isC && kv == *cst {
								compared = true
							}
						}
					}
				}
				if !compared {
					continue
				}
				n++
				k++
				c.Decide(*cst < 0, rule, fmt.Sprintf("%s#found-index-sentinel@%d", c.P.Key(fn), k), phi.Pos(), "value set of a merged variable", nil,
					"the not-found value of the index variable is negative",
					fmt.Sprintf("a variable holds %d before a searching loop and the index of the match after it, and is then compared with %d to decide whether something was found: %d is itself an index, so an element found at that position counts as not found (the first / only entry can never be matched)", *cst, *cst, *cst))
				c.Touch(fn)
			}
		}
	}
	c.Ok(rule, "scope#found-index-variables", token.NoPos, "value set of a merged variable", "%d found-index variables examined", n)
}

// ---------------------------------------------------------------------------------------------
// C09.R18 / C10.R11: storage writes of the block repository happen under its mutex

func (c *Check) ruleRepoWritesUnderLock(rule string, a *repoAnchors) {
	le := c.Locks()
	n := 0
	for _, fn := range c.P.FuncsIn("storage") {
		if fn.Signature.Recv() == nil || !strings.HasSuffix(fn.Signature.Recv().Type().String(), "BlockRepository") {
			continue
		}
		for _, s := range sitesIn(fn) {
			if !s.CC.IsInvoke() || loadOfField(s.CC.Value, a.store) == nil {
				continue
			}
			switch s.CC.Method.Name() {
			case "Write", "Remove":
			default:
				continue
			}
			n++
			held := le.HeldBefore(s.Instr)[a.mutex]
			if !held {
				held = c.entryHeld(fn, a.mutex, 0, map[*ssa.Function]bool{}) && !releasedBefore(le, s.Instr, a.mutex)
			}
			c.Decide(held, rule, fmt.Sprintf("%s#store-%s-under-mutex", c.P.Key(fn), s.CC.Method.Name()), s.Pos(), "lockset", nil,
				"the storage operation happens while the repository mutex is held",
				"a block file is written / removed while the repository mutex is not held (a snapshot written after the lock was released): a Revert or Add that runs in between is overwritten by the stale snapshot - the stored chain no longer matches the chain in memory and does not load")
			c.Touch(fn)
		}
	}
	c.Min(rule, "storage writes / removals in BlockRepository", n, 3)
}

// releasedBefore: the function itself may have released k before in (an Unlock of k can precede in).
func releasedBefore(le *LockEngine, in ssa.Instruction, k *types.Var) bool {
	fn := in.Parent()
	for _, s := range sitesIn(fn) {
		if kk, d := lockOp(s.CC); kk == k && d == -1 {
			if _, isDefer := s.Instr.(*ssa.Defer); isDefer {
				continue
			}
			if canFollow(s.Instr, in) {
				return true
			}
		}
	}
	return false
}

// ---------------------------------------------------------------------------------------------
// C13.R17: a received block is filed under its own hash

func (c *Check) ruleBlockFiledUnderOwnHash(rule string) {
	fn := c.Fn(rule, "handlers.(*BlockHandler).Handle")
	if fn == nil {
		return
	}
	n := 0
	for _, s := range callsTo(fn, "(*state.State).AddBlock") {
		args := s.Args()
		if len(args) < 2 {
			continue
		}
		n++
		key := args[len(args)-2]
		okv := false
		for _, r := range rootsAll(key) {
			if call, isCall := r.(*ssa.Call); isCall {
				if o := calleeObj(&call.Call); o != nil && o.Name() == "BlockHash" {
					okv = true
				}
			}
		}
		if mentionsFieldNamed(key, "PrevBlock") {
			okv = false
		}
		c.Decide(okv, rule, fmt.Sprintf("handlers.(*BlockHandler).Handle#block-filed-under-own-hash@%d", n), s.Pos(), "provenance", nil,
			"the key handed to AddBlock is the block header's own hash",
			"a received block is handed to the request list under a hash that is not its own (its parent's): it is stored in its parent's slot, so an unrequested child is accepted and a block is processed in its predecessor's place")
	}
	c.Min(rule, "AddBlock calls in BlockHandler.Handle", n, 2)
}

// ruleRequestFilledWhereFound (C13.R18): the request a received block is written into is an element of
// blocksRequested read in this function, and the lock is not released between reading it and
// writing it (a request looked up in one critical section and filled in another may have been
// cleared in between: its size is then added to the byte count of nothing).
func (c *Check) ruleRequestFilledWhereFound(rule string) {
	fBlock := c.P.Field("state", "requestedBlock", "block")
	fReq := c.P.Field("state", "State", "blocksRequested")
	fLock := c.P.Field("state", "State", "lock")
	if fBlock == nil || fReq == nil || fLock == nil {
		c.Undecided(rule, "anchor:state.requestedBlock.block / State.blocksRequested / State.lock", token.NoPos, "fields not found")
		return
	}
	n := 0
	for _, fn := range c.P.FuncsIn("state") {
		for _, st := range storesToField(fn, fBlock) {
			fa := st.Addr.(*ssa.FieldAddr)
			if isFreshObject(fa) {
				continue
			}
			if _, isAlloc := stripConv(fa.X).(*ssa.Alloc); isAlloc {
				continue
			}
			if k, isC := st.Val.(*ssa.Const); isC && k.IsNil() {
				continue
			}
			n++
			// the object derives from an element of blocksRequested loaded in this function
			var elem ssa.Instruction
			for _, r := range rootsAll(fa.X) {
				if ia, isIA := r.(*ssa.IndexAddr); isIA && mentionsField(ia.X, fReq) {
					elem = ia
				}
			}
			okv := elem != nil
			why := "the request written into is not an element of the requested list read here (it comes from elsewhere, e.g. an earlier critical section)"
			if okv {
				for _, s := range sitesIn(fn) {
					if kk, d := lockOp(s.CC); kk == fLock && d == -1 {
						if _, isDefer := s.Instr.(*ssa.Defer); isDefer {
							continue
						}
						if reachNoRevisit(elem, s.Instr, nil) && reachNoRevisit(s.Instr, st, nil) {
							okv = false
							why = "the lock is released between finding the request and writing the block into it"
						}
					}
				}
			}
			c.Decide(okv, rule, fmt.Sprintf("%s#request-filled-where-found", c.P.Key(fn)), st.Pos(), "provenance+lock region", []string{why},
				"the block is written into a request found in the same critical section",
				"a received block is written into a request that was not found in the same critical section ("+why+"): a reorg clearing the requests in between leaves the block's size in the buffered-bytes count with nothing buffered, and requests stall")
			c.Touch(fn)
		}
	}
	c.Min(rule, "stores of a received block into a request", n, 1)
}

// ---------------------------------------------------------------------------------------------
// C14.R15: the age of a request is measured from the request

func (c *Check) ruleRequestAgeFromRequestTime(rule string) {
	fReqs := c.P.Field("state", "MemPool", "requests")
	fn := c.Fn(rule, "state.(*MemPool).AddRequest")
	if fn == nil {
		return
	}
	if fReqs == nil {
		c.Undecided(rule, "anchor:state.MemPool.requests", fn.Pos(), "field not found")
		return
	}
	n := 0
	for _, s := range sitesIn(fn) {
		if !strings.HasSuffix(calleeName(s.CC), "time.Time).Sub") {
			continue
		}
		args := s.CC.Args
		if len(args) < 2 {
			continue
		}
		n++
		okv := false
		for _, r := range rootsAll(args[len(args)-1]) {
			if lk, isL := r.(*ssa.Lookup); isL && loadOfField(lk.X, fReqs) != nil {
				okv = true
			}
		}
		c.Decide(okv, rule, fmt.Sprintf("state.(*MemPool).AddRequest#request-age-from-request-time@%d", n), s.Pos(), "provenance", nil,
			"the time subtracted in the window test is the request time looked up for this txid",
			"the request window is measured from a time that is not the recorded request time of this txid (e.g. the entry's first-seen time, which is never refreshed): after the first expiry every announcer is asked at once")
	}
	c.Min(rule, "age computations in AddRequest", n, 1)
}

// ---------------------------------------------------------------------------------------------
// C15.R8 / C20.R6: a clamped element count is a capacity, never a length

func (c *Check) rulePreallocateOnlyAsCapacity(rule string) {
	pre := c.P.Fn("client.preallocate")
	if pre == nil {
		c.Undecided(rule, "anchor:client.preallocate", token.NoPos, "function not found")
		return
	}
	n := 0
	for _, fn := range c.P.FuncsIn("client") {
		for _, s := range sitesIn(fn) {
			if s.CC.StaticCallee() != pre {
				continue
			}
			call := s.Value()
			if call == nil {
				continue
			}
			n++
			okv := true
			for _, r := range *call.Referrers() {
				var user ssa.Instruction = r
				if cv, isConv := r.(*ssa.Convert); isConv {
					if rr := cv.Referrers(); rr != nil && len(*rr) == 1 {
						user = (*rr)[0]
					}
				}
				ms, isMS := user.(*ssa.MakeSlice)
				if !isMS {
					if _, dbg := user.(*ssa.DebugRef); dbg {
						continue
					}
					okv = false
					continue
				}
				if kv, isC := constInt(ms.Len); !isC || kv != 0 {
					okv = false
				}
			}
			c.Decide(okv, rule, fmt.Sprintf("%s#clamped-count-is-capacity", c.P.Key(fn)), s.Pos(), "use of a clamped count", nil,
				"the clamped count is used as the capacity of an empty slice that is appended to",
				"the clamped element count is used as the LENGTH of the slice (or otherwise than as a capacity) while the loop still runs up to the claimed count: a valid message with more elements than the clamp indexes past the slice and panics")
			c.Touch(fn)
		}
	}
	c.Min(rule, "uses of preallocate", n, 5)
}

// ---------------------------------------------------------------------------------------------
// C16.R14: every response kind is handed to the requests goroutine

// ruleResponsesAlwaysForwarded: in RemoteClient.handleMessage each case of the type switch that hands
// the message to the requests goroutine (addRequestResponse) does so on every path through the
// case: a shortcut for "this one is not a response" (RequestHeight == 0 is the genesis request)
// leaves the waiting call to time out.
func (c *Check) ruleResponsesAlwaysForwarded(rule string) {
	fn := c.Fn(rule, "client.(*RemoteClient).handleMessage")
	if fn == nil {
		return
	}
	var fw []ssa.Instruction
	for _, s := range callsTo(fn, "(*client.RemoteClient).addRequestResponse") {
		fw = append(fw, s.Instr)
	}
	n := 0
	seen := map[*ssa.BasicBlock]bool{}
	for _, b := range fn.Blocks {
		for _, in := range b.Instrs {
			ta, ok := in.(*ssa.TypeAssert)
			if !ok || !ta.CommaOk {
				continue
			}
			// the block entered when the assertion holds
			var okv ssa.Value
			for _, r := range *ta.Referrers() {
				if ex, isEx := r.(*ssa.Extract); isEx && ex.Index == 1 {
					okv = ex
				}
			}
			if okv == nil {
				continue
			}
			for _, bb := range fn.Blocks {
				iff, isIf := lastIf(bb)
				if !isIf || iff.Cond != okv {
					continue
				}
				caseB := bb.Succs[0]
				if seen[caseB] {
					continue
				}
				// a response case: some forward call is dominated by it
				isResp := false
				for _, f := range fw {
					if caseB.Dominates(f.Block()) {
						isResp = true
					}
				}
				if !isResp {
					continue
				}
				seen[caseB] = true
				n++
				okF, w := alwaysFollowedBy(caseB.Instrs[0], fw, false, isErrorReturnBlock)
				for _, f := range fw {
					if f.Block() == caseB {
						okF = true
					}
				}
				c.Decide(okF, rule, fmt.Sprintf("client.(*RemoteClient).handleMessage#%s-always-forwarded", shortTypeName(ta.AssertedType)), ta.Pos(), "must-pass-through", w,
					"every path through the case hands the message to the requests goroutine",
					"a response of this kind can leave handleMessage without being handed to the requests goroutine: the call waiting for it times out although the server answered")
			}
		}
	}
	c.Min(rule, "response cases in handleMessage", n, 6)
}

func shortTypeName(t types.Type) string {
	s := t.String()
	if i := strings.LastIndex(s, "."); i >= 0 {
		s = s[i+1:]
	}
	return strings.TrimPrefix(s, "*")
}

// ruleRequestTimerAfterSend (C16.R15): the timer that bounds the wait for a response is started after the
// request was handed to the send queue: started at the top of the call, the time the request
// spends waiting for the connection counts against it and the call fails the moment it is sent.
func (c *Check) ruleRequestTimerAfterSend(rule string) {
	n := 0
	for _, fn := range c.P.FuncsIn("client") {
		var sends []ssa.Instruction
		for _, s := range callsTo(fn, "(*client.RemoteClient).sendMessage") {
			sends = append(sends, s.Instr)
		}
		if len(sends) == 0 {
			continue
		}
		for _, s := range sitesIn(fn) {
			if calleeName(s.CC) != "time.After" || len(s.CC.Args) != 1 {
				continue
			}
			if derivesFromCall(s.CC.Args[0], "(*client.RemoteClient).RequestTimeout") == nil {
				continue
			}
			n++
			ok, w := alwaysPrecededBy(s.Instr, sends)
			c.Decide(ok, rule, fmt.Sprintf("%s#request-timer-started-after-send", c.P.Key(fn)), s.Pos(), "event order", w,
				"the request time-out starts after the request was queued for sending",
				"the timer bounding the wait for the response is started before the request is queued for sending: while the client waits for the connection / handshake the time-out runs, and the call fails as soon as the request goes out although the server answers promptly")
			c.Touch(fn)
		}
	}
	c.Min(rule, "request time-out timers", n, 5)
}

// ---------------------------------------------------------------------------------------------
// C17.R8: the id told to the server is the id expected

func (c *Check) ruleReadyIDStoredIsIDSent(rule string) {
	fn := c.Fn(rule, "client.(*RemoteClient).Ready")
	fNext := c.P.Field("client", "RemoteClient", "nextMessageID")
	fMsgNext := c.P.Field("client", "Ready", "NextMessageID")
	if fn == nil {
		return
	}
	if fNext == nil || fMsgNext == nil {
		c.Undecided(rule, "anchor:client.RemoteClient.nextMessageID / Ready.NextMessageID", fn.Pos(), "fields not found")
		return
	}
	var stored []ssa.Value
	var pos token.Pos
	for _, s := range sitesIn(fn) {
		if atomicCallOn(s, "Store", fNext) && len(s.CC.Args) >= 2 {
			v := s.CC.Args[1]
			if mi, ok := v.(*ssa.MakeInterface); ok {
				v = mi.X
			}
			stored = append(stored, stripConv(v))
			pos = s.Pos()
		}
	}
	var sent []ssa.Value
	for _, st := range storesToField(fn, fMsgNext) {
		sent = append(sent, stripConv(st.Val))
	}
	if len(stored) == 0 || len(sent) == 0 {
		c.Undecided(rule, "client.(*RemoteClient).Ready#id-stored-is-id-sent", fn.Pos(), "store of nextMessageID / Ready.NextMessageID not found (%d / %d)", len(stored), len(sent))
		return
	}
	ok := true
	for _, a := range stored {
		for _, b := range sent {
			if a != b && !sameExpr(a, b) {
				ok = false
			}
		}
	}
	c.Decide(ok, rule, "client.(*RemoteClient).Ready#id-stored-is-id-sent", pos, "value identity", nil,
		"the next message id stored as expected is the value sent in the Ready message",
		"the id sent to the server in Ready and the id stored as the next expected one are different values (a default applied to one of them only): the server starts at an id the client refuses, and no notification is ever delivered")
}

// ---------------------------------------------------------------------------------------------
// C12.R11 / C07.R12: only an existing entry can vouch

func (c *Check) ruleTrustedAnswerNeedsEntry(rule string) {
	fn := c.Fn(rule, "state.(*MemPool).IsTrusted")
	fTxs := c.P.Field("state", "MemPool", "txs")
	if fn == nil {
		return
	}
	if fTxs == nil {
		c.Undecided(rule, "anchor:state.MemPool.txs", fn.Pos(), "field not found")
		return
	}
	exists := boolEdge(func(v ssa.Value) bool { return commaOkOfField(v, fTxs) }, true)
	n := 0
	var check func(at ssa.Instruction, v ssa.Value, pos token.Pos, depth int)
	check = func(at ssa.Instruction, v ssa.Value, pos token.Pos, depth int) {
		if phi, ok := v.(*ssa.Phi); ok && depth < 4 {
			for i, e := range phi.Edges {
				p := phi.Block().Preds[i]
				check(p.Instrs[len(p.Instrs)-1], e, pos, depth+1)
			}
			return
		}
		if b, isC := isConstBool(v); isC && !b {
			return
		}
		n++
		ok, w := mustPass(at, exists)
		c.Decide(ok, rule, fmt.Sprintf("state.(*MemPool).IsTrusted#true-only-for-an-entry@%d", n), pos, "edge-cutset", w,
			"a possibly-true answer is given only behind the lookup having found the entry",
			"IsTrusted can answer true for a txid that has no mempool entry: after a restart (the mempool is empty) every stored unconfirmed tx counts as vouched for by the trusted peer and is reported safe")
	}
	for _, r := range returnsOf(fn) {
		if r.Block().Comment == "recover" || len(r.Results) != 1 {
			continue
		}
		for _, v := range resultValues(r, 0) {
			check(r, v, r.Pos(), 0)
		}
	}
	c.Min(rule, "answers of IsTrusted", n, 1)
}

// ---------------------------------------------------------------------------------------------
// C11.R11 (with ruleStoredFlagsOnlyRise): a flag is raised behind the argument of its own name

func (c *Check) ruleFlagRaisedBehindItsArgument(rule string) {
	norm := func(s string) string { return strings.ToLower(s) }
	n := 0
	for _, fd := range [][3]string{{"storage", "unconfirmedTx", "safe"}, {"storage", "unconfirmedTx", "trusted"}, {"state", "memPoolTx", "trusted"}} {
		f := c.P.Field(fd[0], fd[1], fd[2])
		if f == nil {
			c.Undecided(rule, "anchor:"+fd[1]+"."+fd[2], token.NoPos, "field not found")
			continue
		}
		for _, fn := range c.P.FuncsIn(fd[0]) {
			var p *ssa.Parameter
			for _, pp := range fn.Params {
				if bt, ok := pp.Type().Underlying().(*types.Basic); ok && bt.Kind() == types.Bool && norm(pp.Name()) == norm(f.Name()) {
					p = pp
				}
			}
			if p == nil {
				continue
			}
			for _, st := range storesToField(fn, f) {
				fa := st.Addr.(*ssa.FieldAddr)
				if isFreshObject(fa) {
					continue
				}
				b, isC := isConstBool(st.Val)
				if cnd := selfOrCond(st); cnd != nil {
					// `flag = flag || c`: c must be (derived from) the argument of the flag's name
					n++
					okc := derivesFromValue(cnd, p)
					c.Decide(okc, rule, fmt.Sprintf("%s#%s-raised-behind-its-argument", c.P.Key(fn), f.Name()), st.Pos(), "edge-cutset+name agreement", nil,
						"the flag is raised only where the caller's argument of the same name is true",
						fmt.Sprintf("the flag %s is raised from a value that is not the caller's %s argument", f.Name(), p.Name()))
					c.Touch(fn)
					continue
				}
				if !isC || !b {
					continue // other forms are judged by the only-rise rule / the trusted-source rule
				}
				n++
				ok, w := mustPass(st, boolEdge(func(v ssa.Value) bool { return stripConv(v) == ssa.Value(p) }, true))
				c.Decide(ok, rule, fmt.Sprintf("%s#%s-raised-behind-its-argument", c.P.Key(fn), f.Name()), st.Pos(), "edge-cutset+name agreement", w,
					"the flag is raised only where the caller's argument of the same name is true",
					fmt.Sprintf("the flag %s is raised on a path where the caller's %s argument was not tested true (another argument guards it): a tx re-announced by a trusted peer is silently marked safe and never gets its safe report", f.Name(), p.Name()))
				c.Touch(fn)
			}
		}
	}
	c.Ok(rule, "scope#flag-raises", token.NoPos, "edge-cutset+name agreement", "%d flag raises in functions with a same-named argument examined", n)
}

// ---------------------------------------------------------------------------------------------
// C19.R11: who may request a final stop

var requestStopCallers = map[string]string{
	"spynode.(*Node).Stop":                 "the user asks the node to stop",
	"spynode.(*Node).processUnconfirmedTxs": "a storage failure while processing a tx ends the node",
	"spynode.(*Node).monitorIncoming":      "the connection's reader ends the run loop iteration",
	"spynode.(*Node).restart":              "restart is a stop with the restart flag set",
}

// ---------------------------------------------------------------------------------------------
// C01.R21: a reconnect starts from a clean per-connection state

// resetFields: the fields State.Reset puts back on the confirmed tree (read one by one: everything that
// describes the connection or the requests made over it).
var resetFields = []string{"connectedTime", "versionReceived", "protocolVersion", "handshakeComplete", "sentSendHeaders", "wasInSync",
	"isInSync", "memPoolRequested", "headersRequested", "blocksRequested", "blocksToRequest", "pendingSync", "pendingBlockSize"}

func (c *Check) ruleResetClearsConnectionState(rule string) {
	fn := c.Fn(rule, "state.(*State).Reset")
	if fn == nil {
		return
	}
	n := 0
	for _, name := range resetFields {
		f := c.P.Field("state", "State", name)
		if f == nil {
			c.Undecided(rule, "anchor:state.State."+name, fn.Pos(), "field not found")
			continue
		}
		n++
		ok := len(storesToField(fn, f)) > 0
		c.Decide(ok, rule, "state.(*State).Reset#resets-"+name, fn.Pos(), "coupled-updates", nil,
			"Reset puts the field back",
			"State.Reset no longer resets "+name+": what the previous connection did survives the reconnect (a handshake step is not repeated, a request is believed to be outstanding), and the node stalls on the new connection without any time-out pending")
	}
	c.Min(rule, "per-connection fields reset", n, len(resetFields))
}

// ruleCursorIsOwnHash (C02.R16): inside the header loop the last-hash cursor is only ever moved to the hash of
// the header just handled (its BlockHash()), never to a hash read from the repository / state:
// moved back to the fork parent, a sibling header in the same message is linked on top of the
// header just placed.
func (c *Check) ruleCursorIsOwnHash(rule string) {
	fn := c.Fn(rule, "handlers.(*HeadersHandler).Handle")
	if fn == nil {
		return
	}
	cursor := headerCursor(fn)
	if cursor == nil {
		c.Undecided(rule, "anchor:Handle.lastHash-cursor", fn.Pos(), "no local initialised from state.LastHash() found")
		return
	}
	n := 0
	for _, r := range *cursor.Referrers() {
		st, ok := r.(*ssa.Store)
		if !ok || st.Addr != ssa.Value(cursor) || loopHeaderOf(st.Block()) == nil {
			continue
		}
		n++
		own := derivesFromCall(st.Val, "(*wire.BlockHeader).BlockHash") != nil
		other := derivesFromCall(st.Val, "(*storage.BlockRepository).LastHash") != nil || derivesFromCall(st.Val, "(*state.State).LastHash") != nil || mentionsFieldNamed(st.Val, "PrevBlock")
		c.Decide(own && !other, rule, fmt.Sprintf("handlers.(*HeadersHandler).Handle#cursor-moves-to-own-hash@%d", n), st.Pos(), "provenance", nil,
			"the cursor is moved to the hash of the header just handled",
			"inside the header loop the last-hash cursor is set to something else than the hash of the header just handled (the fork parent, the repository's tip): the next header of the same message is linked against the wrong block (a sibling is appended on top of the header just placed)")
	}
	c.Min(rule, "cursor moves inside the header loop", n, 3)
}

// ruleTruncatedFileRewrittenInPlace (C10.R12 / C09.R19): in Revert the truncated data is written back to the
// path it was read from (the file holding the fork point), not to a path computed from the old
// height (the file that was just removed).
func (c *Check) ruleTruncatedFileRewrittenInPlace(rule string, a *repoAnchors) {
	fn := c.Fn(rule, "storage.(*BlockRepository).Revert")
	if fn == nil {
		return
	}
	n := 0
	for _, s := range sitesIn(fn) {
		if !s.CC.IsInvoke() || s.CC.Method.Name() != "Write" || loadOfField(s.CC.Value, a.store) == nil || len(s.CC.Args) < 3 {
			continue
		}
		// the Read the written data comes from
		var read *ssa.Call
		for _, r := range rootsAll(s.CC.Args[2]) {
			if call, ok := r.(*ssa.Call); ok && call.Call.IsInvoke() && call.Call.Method.Name() == "Read" && loadOfField(call.Call.Value, a.store) != nil {
				read = call
			}
		}
		if read == nil || len(read.Call.Args) < 2 {
			continue
		}
		n++
		same := read.Call.Args[1] == s.CC.Args[1] || sameExpr(read.Call.Args[1], s.CC.Args[1])
		c.Decide(same, rule, fmt.Sprintf("storage.(*BlockRepository).Revert#truncated-file-rewritten-in-place@%d", n), s.Pos(), "value identity", nil,
			"the truncated data is written to the path it was read from",
			"the truncated data is written to another path than the one it was read from (a path built from the old height): a revert across a file boundary re-creates the removed newest file with a copy of the lower one and leaves the lower file untruncated - the stored chain is no longer one hash-linked branch")
	}
	c.Min(rule, "re-writes of read data in Revert", n, 1)
}

// ---------------------------------------------------------------------------------------------
// E11: a searching loop written with an index covers the whole list

// acceptedPartialSearches: functions of the confirmed tree whose index-written searching loops deliberately
// start after the first / end before the last element (function -> number of such loops).
var acceptedPartialSearches = map[string]int{}

// ruleSearchCoversWholeList: a counted loop that can be left early (a search: it stops at the element it
// looks for) and reads list[i] with a bound taken from len(list) runs i up to len(list)-1. Bounded
// by `len-1` ("last") the final element is never looked at: the only / last entry cannot be found.
// (Where the loop starts is not judged: the first element is often handled before the loop.)
func (c *Check) ruleSearchCoversWholeList(rule string, fns []*ssa.Function) {
	n := 0
	for _, fn := range fns {
		if fn == nil || fn.Blocks == nil {
			continue
		}
		partial := 0
		var firstPos token.Pos
		var detail string
		for _, h := range loopHeadersOf(fn) {
			cl := countedLoopAt(h)
			if cl == nil {
				continue
			}
			body := loopBody(h)
			early := false
			for b := range body {
				if b == h {
					continue
				}
				for _, s := range b.Succs {
					if !body[s] {
						early = true
					}
				}
			}
			if !early {
				continue
			}
			judged := map[string]bool{}
			for b := range body {
				for _, in := range b.Instrs {
					ia, ok := in.(*ssa.IndexAddr)
					if !ok {
						continue
					}
					if _, isSl := ia.X.Type().Underlying().(*types.Slice); !isSl {
						continue
					}
					if xi, isInstr := ia.X.(ssa.Instruction); isInstr && body[xi.Block()] {
						// the list itself is produced inside the loop unless it is a reload of the same place
						if u, isU := ia.X.(*ssa.UnOp); !isU || u.Op != token.MUL {
							continue
						}
					}
					lo, hi, ok := cl.rangeOf(ia.Index)
					if !ok {
						continue
					}
					// only loops whose bound speaks about this list's length
					var lenAtom ssa.Value
					for t := range hi.terms {
						if l := lenOf(hi.atoms[t]); l != nil && sameListValue(l, ia.X) {
							lenAtom = hi.atoms[t]
						}
					}
					if lenAtom == nil {
						continue
					}
					k := fmt.Sprintf("%p", h)
					if judged[k] {
						continue
					}
					judged[k] = true
					n++
					// a loop may well start behind the first element (handled before the loop); what is judged is the
					// upper end: len-1 is the last element, anything below leaves the tail unexamined
					_ = lo
					full := true
					if len(hi.terms) == 1 && hi.k < -1 {
						for _, cf := range hi.terms {
							if cf == 1 {
								full = false
							}
						}
					}
					if !full {
						partial++
						if !firstPos.IsValid() {
							firstPos = loopPos(h)
							detail = fmt.Sprintf("indexes run from %s to %s", lo, hi)
						}
					}
				}
			}
		}
		key := c.P.Key(fn)
		if partial > acceptedPartialSearches[key] {
			c.Bad(rule, key+"#search-covers-whole-list", firstPos, "loop-range", []string{detail},
				"a searching loop over a list stops its index before len-1 (%d such loops, %d confirmed for this function): the last element is never looked at, so the only / last entry of the list cannot be found", partial, acceptedPartialSearches[key])
			c.Touch(fn)
		}
	}
	c.Ok(rule, "scope#index-searches", token.NoPos, "loop-range", "%d index-written searching loops examined", n)
}
