package main

import (
	"encoding/json"
	"fmt"
	"os"
	"strings"
)

var pendingReason = map[string]string{}

func writeManifest(path string) error {
	type level struct {
		Category  string `json:"category"`
		Text      string `json:"text"`
		DesignRef string `json:"design_ref"`
	}
	type check struct {
		PropertyID   string `json:"property_id"`
		QuickCmd     string `json:"quick_cmd"`
		ThoroughCmd  string `json:"thorough_cmd"`
		EvidenceFile string `json:"evidence_file"`
		ReplayCmd    string `json:"replay_cmd_template"`
		Engine       string `json:"engine"`
		Level        level  `json:"level_claimed"`
		LevelNote    string `json:"level_note"`
		Technique    string `json:"technique"`
	}
	type na struct {
		PropertyID string `json:"property_id"`
		Reason     string `json:"reason"`
	}
	baseline := "cd /repo && GOFLAGS=-mod=mod go test -json -vet=off -count=1 -timeout 25m ./..."
	m := map[string]interface{}{
		"version":   1,
		"setup_cmd": "cd /verif && mkdir -p bin evidence && cd checker && GOFLAGS=-mod=mod GOPROXY=off GOSUMDB=off GOTOOLCHAIN=local GOWORK=off go build -o ../bin/spycheck .",
		"hooks": map[string]interface{}{
			"guard":            "verif",
			"enable":           "static analysis needs no hooks: /repo is loaded with -tags verif so that guarded files would be seen, but no hook commit exists",
			"baseline_off_cmd": baseline,
			"source_commits":   []string{},
			"add_only":         true,
		},
		"engines": []map[string]interface{}{
			{"name": "spycheck", "path": "checker/", "serves_properties": propIDs(),
				"kind_free_text": "repository-specific static analyser over go/packages + go/ssa (x/tools v0.29.0): guard edge cut-sets, path typestate, lock typestate/lockset/lock order, who-may-call, value provenance, coupled field updates, codec grammar extraction, taint-to-allocation"},
		},
		"notes": "Technique family: static analysis only. Every claimed property is claimed at level 'other': the check decides structural necessary conditions of the property (listed in each evidence file's coverage.explanation) on every path / call site of the current /repo tree, not the behavioural property itself (coverage.not_decided). Exit codes: 0 held, 1 + VIOLATION line, 2 undecided (anchor missing, type error, unrecognised shape) without a VIOLATION line. Known findings: /verif/known_findings.json.",
	}
	var checks []check
	nas := []na{}
	for i := 1; i <= 20; i++ {
		id := fmt.Sprintf("C%02d", i)
		d := registry[id]
		if d == nil {
			r := pendingReason[id]
			if r == "" {
				r = "static rules for this property are not built yet in this snapshot; see DESIGN.md section 4 for the planned rules"
			}
			nas = append(nas, na{id, r})
			continue
		}
		checks = append(checks, check{
			PropertyID:   id,
			QuickCmd:     "./check " + id + " quick",
			ThoroughCmd:  "./check " + id + " thorough",
			EvidenceFile: "/verif/evidence/" + id + ".json",
			ReplayCmd:    "./bin/spycheck -replay {path}",
			Engine:       "spycheck",
			Level: level{Category: "other",
				Text:      "Static analysis of the resolved program (SSA/CFG/call graph/AST+types). " + d.Explanation + " All paths of the analysed functions and all call sites in the module are covered, which no test does; the behavioural property itself is NOT decided: " + d.NotDecided,
				DesignRef: "DESIGN.md section 4, " + id},
			LevelNote: "Trusted: go/types and go/ssa (x/tools v0.29.0); the rule tables frozen in /verif/checker after reading the pinned tree; dependencies (wire, bitcoin, storage, logger) are not analysed. " + strings.Join(d.Assumptions, "; "),
			Technique: "static analysis: " + d.Technique(),
		})
	}
	m["checks"] = checks
	m["not_applicable"] = nas
	b, err := json.MarshalIndent(m, "", " ")
	if err != nil {
		return err
	}
	return os.WriteFile(path, append(b, '\n'), 0o644)
}

// Technique names the deciding methods of a property.
func (d *PropDef) Technique() string {
	if d.Tech != "" {
		return d.Tech
	}
	return "guard edge cut-sets on SSA CFG, value provenance, who-may-call, lockset"
}
