package main

import (
	"go/token"
	"go/types"
	"strings"

	"golang.org/x/tools/go/ssa"
)

func init() {
	register(&PropDef{
		ID:    "C11",
		Title: "Transaction tracking survives a clean restart",
		Explanation: "Decides the persistence skeleton of transaction tracking: " +
			"(R1) unconfirmedTx.Write and readUnconfirmedTx have the same record grammar and the same field order (txid, ms time, unsafe, safe, trusted), and the millisecond conversion constants are inverse; " +
			"(R2) TxRepository.save and Load agree (version byte, then records until end of data); the reorg records' writers and readers agree as well; " +
			"(R3) Node.load calls TxRepository.Load, Node.Run reaches TxRepository.Save before it marks the node stopped on every path that started processing, and FinalizeUnconfirmed calls save on every path; " +
			"(R4) Node.GetTx consults the stored tx state before the external fetcher (what handlers saw is what GetTx returns; C03.R5 decides saved-before-notified); " +
			"(R5) the stored tx record codec (client.Tx) agrees writer/reader.",
		NotDecided:  "behaviour after restart over histories (no re-delivery, update instead of new, safe reported once): history-quantified; equality of stored and delivered bytes.",
		Assumptions: []string{"a clean stop runs Node.Run to its end"},
		Tech:        "codec grammar comparison, must-pass-through on the CFG, constant agreement",
		Run:         runC11,
	})
}

func runC11(c *Check) {
	p := c.P.CodecPkg("storage")
	if p == nil {
		c.Undecided("R0", "anchor:internal/storage", token.NoPos, "package not loaded")
		return
	}
	cmp := func(rule, name string, wd, rd [2]string) {
		w := findFuncDecl(p, wd[0], wd[1])
		r := findFuncDecl(p, rd[0], rd[1])
		if w == nil || r == nil {
			c.Undecided(rule, "anchor:storage."+name, token.NoPos, "writer %v or reader %v not found", wd, rd)
			return
		}
		pr := codecPair{name, extractCodec(p, w, true), extractCodec(p, r, false)}
		// "nothing stored" (no file / empty file) is not part of the byte grammar of a stored record:
		// a top-level alternative with an empty side is reduced to its non-empty side on both sides
		pr.Writer.Ops, pr.Reader.Ops = stripEmptyTopAlt(pr.Writer.Ops), stripEmptyTopAlt(pr.Reader.Ops)
		// a reader that loops until the data is exhausted matches an uncounted trailing writer loop
		if n := len(pr.Writer.Ops); n > 0 && len(pr.Reader.Ops) == n {
			relax(pr.Writer.Ops, pr.Reader.Ops)
		}
		c.compareCodecPair(rule, "storage", pr)
	}
	cmp("R1", "unconfirmedTx", [2]string{"unconfirmedTx", "Write"}, [2]string{"", "readUnconfirmedTx"})
	cmp("R2", "TxRepository(unconfirmed file)", [2]string{"TxRepository", "save"}, [2]string{"TxRepository", "Load"})
	cmp("R2", "Reorg", [2]string{"Reorg", "Write"}, [2]string{"Reorg", "Read"})
	cmp("R2", "ReorgBlock", [2]string{"ReorgBlock", "Write"}, [2]string{"ReorgBlock", "Read"})

	// time conversion constants
	if wf, rf := c.Fn("R1", "storage.(*unconfirmedTx).Write"), c.Fn("R1", "storage.readUnconfirmedTx"); wf != nil && rf != nil {
		var k1, k2 int64 = -1, -2
		for _, b := range wf.Blocks {
			for _, in := range b.Instrs {
				if bo, ok := in.(*ssa.BinOp); ok && bo.Op == token.QUO && derivesFromCall(bo.X, "(time.Time).UnixNano") != nil {
					if k, ok := constAsInt(bo.Y); ok {
						k1 = k
					}
				}
			}
		}
		for _, s := range sitesIn(rf) {
			if calleeName(s.CC) == "time.Unix" && len(s.CC.Args) == 2 {
				if bo, ok := s.CC.Args[1].(*ssa.BinOp); ok && bo.Op == token.MUL {
					if k, ok := constAsInt(bo.Y); ok {
						k2 = k
					}
				}
			}
		}
		c.Decide(k1 == k2 && k1 > 0, "R1", "storage.unconfirmedTx#time-scale-inverse", wf.Pos(), "constant agreement", nil,
			"first-seen time is written as UnixNano/K and read back as Unix(0, v*K) with the same K", "the first-seen time is scaled differently when written and when read back")
	}

	// ---- R3 must-call
	if fn := c.Fn("R3", "spynode.(*Node).load"); fn != nil {
		calls := callsTo(fn, "(*storage.TxRepository).Load")
		okAll := len(calls) > 0
		for _, ret := range returnsOf(fn) {
			if isNil, known := errIsNilReturn(ret); known && isNil {
				var ev []ssa.Instruction
				for _, s := range calls {
					ev = append(ev, s.Instr)
				}
				if ok, _ := alwaysPrecededBy(ret, ev); !ok {
					okAll = false
				}
			}
		}
		c.Decide(okAll, "R3", "spynode.(*Node).load#loads-unconfirmed", fn.Pos(), "must-pass-through", nil,
			"every successful load has loaded the unconfirmed set", "Node.load can succeed without loading the unconfirmed transactions: delivered txs would be delivered again as new after a restart")
	}
	if fn := c.Fn("R3", "spynode.(*Node).Run"); fn != nil {
		stopped := c.P.Field("spynode", "Node", "stopped")
		var saves []ssa.Instruction
		for _, s := range callsTo(fn, "(*storage.TxRepository).Save") {
			saves = append(saves, s.Instr)
		}
		// only paths that opened the processing channel count (load failure returns early)
		n := 0
		if stopped != nil {
			for _, st := range storesToField(fn, stopped) {
				if b, isC := isConstBool(st.Val); !isC || !b {
					continue
				}
				n++
				// from every Open of the tx channel, reaching the store requires a Save
				okAll := len(saves) > 0
				var wit []string
				for _, o := range callsTo(fn, "(*handlers.TxChannel).Open") {
					cut := map[*ssa.BasicBlock]bool{}
					for _, s := range saves {
						cut[s.Block()] = true
					}
					if r, p := reachAvoid2(o.Instr.Block(), st.Block(), nil, cut); r && !cut[o.Instr.Block()] {
						okAll = false
						wit = pathWitness(fn, p)
					}
				}
				c.Decide(okAll, "R3", "spynode.(*Node).Run#saves-unconfirmed-before-stopped", st.Pos(), "must-pass-through", wit,
					"once processing has started, stopped=true is reached only after TxRepository.Save", "the node can be marked stopped after processing transactions without saving the unconfirmed set")
			}
		}
		c.Min("R3", "stopped=true stores in Run", n, 1)
	}
	if fn := c.Fn("R3", "storage.(*TxRepository).FinalizeUnconfirmed"); fn != nil {
		var saves []ssa.Instruction
		for _, s := range callsTo(fn, "(*storage.TxRepository).save") {
			saves = append(saves, s.Instr)
		}
		okAll := len(saves) > 0
		for _, ret := range returnsOf(fn) {
			if ok, _ := alwaysPrecededBy(ret, saves); !ok {
				okAll = false
			}
		}
		c.Decide(okAll, "R3", "storage.(*TxRepository).FinalizeUnconfirmed#saves", fn.Pos(), "must-pass-through", nil,
			"the unconfirmed set is saved after every processed block", "FinalizeUnconfirmed can return without saving the unconfirmed set")
	}

	// ---- R4 GetTx reads storage first
	if fn := c.Fn("R4", "spynode.(*Node).GetTx"); fn != nil {
		var fetch []ssa.Instruction
		for _, s := range callsTo(fn, "storage.FetchTxState") {
			fetch = append(fetch, s.Instr)
		}
		n := 0
		for _, s := range sitesIn(fn) {
			if s.CC.IsInvoke() && s.CC.Method.Name() == "GetTx" {
				n++
				ok, w := alwaysPrecededBy(s.Instr, fetch)
				c.Decide(ok, "R4", "spynode.(*Node).GetTx#storage-first", s.Pos(), "must-pass-through", w,
					"the external fetcher is consulted only after the stored state", "GetTx can answer from the external fetcher without looking at the stored tx state")
			}
		}
		// a stored tx is returned as is
		okRet := false
		for _, ret := range returnsOf(fn) {
			for _, v := range resultValues(ret, 0) {
				if derivesFromCall(v, "storage.FetchTxState") != nil && mentionsFieldNamed(v, "Tx") {
					okRet = true
				}
			}
		}
		c.Decide(okRet && n > 0, "R4", "spynode.(*Node).GetTx#returns-stored-tx", fn.Pos(), "provenance", nil,
			"a stored transaction is returned from the stored record", "GetTx never returns the stored record's transaction")
	}

	// ---- R5 client.Tx codec
	if cp := c.P.CodecPkg("client"); cp != nil {
		for _, pr := range codecPairsIn(cp, "Serialize", "Deserialize") {
			if pr.Name == "Tx" || pr.Name == "TxState" || pr.Name == "MerkleProof" {
				c.compareCodecPair("R5", "client", pr)
			}
		}
	}
	// ---- R6 saving is not skipped (or a modified flag is maintained by every mutator)
	{
		pers := map[*types.Var]bool{}
		if f := c.P.Field("storage", "TxRepository", "unconfirmed"); f != nil {
			pers[f] = true
		}
		for _, n := range []string{"time", "safe", "unsafe", "trusted"} {
			if f := c.P.Field("storage", "unconfirmedTx", n); f != nil {
				pers[f] = true
			}
		}
		c.ruleSaveNotSkipped("R6", []string{"storage.(*TxRepository).save", "storage.(*TxRepository).Save"}, "storage", "TxRepository", pers,
			map[string]bool{"storage.(*TxRepository).Load": true, "storage.NewTxRepository": true, "storage.newUnconfirmedTx": true, "storage.readUnconfirmedTx": true})
	}
	c.ruleRemoveOnlyWhenEmpty("R7")
	c.ruleWriteOnlyWhatSerialized("R8")
	c.ruleNoWholeRecordOverwrite("R9")
	c.ruleStoredFlagsOnlyRise("R10")
	c.ruleFlagRaisedBehindItsArgument("R11")
	c.rulePooledBufferNotStored("R12", 8)
	c.ruleUnconfirmedSetKeepsEveryEntry("R13")
	c.ruleTxStateStoredAsGiven("R15")
	c.whoMayCall("R14", "storage.SaveTxState", map[string]string{"spynode.(*Node).processUnconfirmedTx": "delivery of an unconfirmed tx and its conflicts", "spynode.(*Node).ProcessBlock": "confirmations and cancellations", "spynode.(*Node).provideBlock": "refeed", "spynode.(*Node).checkTxDelays": "safe after the delay"}, 6)
	c.Touch(c.P.Fn("storage.FetchTxState"))
	// the list helpers ProcessBlock uses to take a confirmed tx out of the unconfirmed list are part of the
	// mechanism (the shared discipline rules run over them)
	for _, k := range []string{"spynode.removeHash", "spynode.containsHash"} {
		if fn := c.P.Fn(k); fn != nil {
			c.Touch(fn)
		}
	}
}

// relax marks reader loops that run until the input is exhausted as matching an uncounted writer
// loop when it is the last operation of its sequence.
func relax(w, r []cop) {
	for i := range w {
		if i >= len(r) {
			return
		}
		if w[i].Kind == "Loop" && r[i].Kind == "Loop" {
			counted := i > 0 && w[i-1].Kind == "V" && w[i-1].Arg == w[i].Bound
			if !counted && (r[i].Bound == "rest" || strings.HasPrefix(r[i].Bound, "var:")) && i == len(w)-1 {
				r[i].Bound = w[i].Bound
			}
			relax(w[i].Body, r[i].Body)
		}
		if w[i].Kind == "Alt" && r[i].Kind == "Alt" {
			relax(w[i].A, r[i].A)
			relax(w[i].B, r[i].B)
		}
	}
}

func constAsInt(v ssa.Value) (int64, bool) {
	c, ok := v.(*ssa.Const)
	if !ok || c.Value == nil {
		return 0, false
	}
	if k, ok := constInt(v); ok {
		return k, true
	}
	f := c.Float64()
	if f == float64(int64(f)) {
		return int64(f), true
	}
	return 0, false
}

// stripEmptyTopAlt: [Alt{X|}] -> X (only at the top level, only when the whole grammar is that Alt).
func stripEmptyTopAlt(ops []cop) []cop {
	if len(ops) == 1 && ops[0].Kind == "Alt" && len(ops[0].B) == 0 {
		return ops[0].A
	}
	return ops
}
