package main

import (
	"fmt"
	"go/token"
	"go/types"

	"golang.org/x/tools/go/ssa"
)

// Rules added after the first round of independently seeded changes (see DESIGN.md section 8).

// ruleHeaderCursorRefreshed (C02.R8): in HeadersHandler.Handle the loop-local "last hash" cursor
// that guards every append must be rewritten, in the same iteration, after every event that moves
// the real last hash (header accepted, block store reverted).
func (c *Check) ruleHeaderCursorRefreshed(rule string) {
	fn := c.Fn(rule, "handlers.(*HeadersHandler).Handle")
	if fn == nil {
		return
	}
	// the cursor: a local initialised from state.LastHash() that is compared with PrevBlock
	cursor := headerCursor(fn)
	if cursor == nil {
		c.Undecided(rule, "anchor:Handle.lastHash-cursor", fn.Pos(), "no local initialised from state.LastHash() found")
		return
	}
	var stores []ssa.Instruction
	for _, r := range *cursor.Referrers() {
		if st, ok := r.(*ssa.Store); ok && st.Addr == ssa.Value(cursor) {
			stores = append(stores, st)
		}
	}
	n := 0
	for _, s := range callsTo(fn, "(handlers.HeadersHandler).checkStartHeight", "(*state.State).AddBlockRequest", "(*storage.BlockRepository).Revert") {
		if loopHeaderOf(s.Instr.Block()) == nil {
			continue
		}
		n++
		ok, w := alwaysFollowedBy(s.Instr, stores, true, func(b *ssa.BasicBlock) bool { return true })
		c.Decide(ok, rule, fmt.Sprintf("handlers.(*HeadersHandler).Handle#cursor-refreshed-after-%s@%d", calleeObjName(s.CC), n), s.Pos(), "same-iteration event order", w,
			"the last-hash cursor is rewritten before the next header is examined", "after this call moved the node's last hash the loop-local cursor is not updated on some path: a later header of the same message is linked against a stale hash and can be appended although its parent is not the tip")
	}
	c.Min(rule, "cursor-moving calls in Handle", n, 6)
}

// ruleRevertPrunesViaGetter (C02.R9 / C09.R8): the hashes Revert removes from the hash->height map
// come from the general height getter (or a walk over the map), never from the newest-file cache.
func (c *Check) ruleRevertPrunesViaGetter(rule string, a *repoAnchors) {
	fn := c.Fn(rule, "storage.(*BlockRepository).Revert")
	if fn == nil {
		return
	}
	n := 0
	for _, ac := range fieldAccesses(fn, map[*types.Var]bool{a.heights: true}) {
		if ac.Kind != "delete" {
			continue
		}
		n++
		key := ac.Instr.(*ssa.Call).Call.Args[1]
		viaGetter := derivesFromCall(key, "(*storage.BlockRepository).getHash") != nil || derivesFromCall(key, "(*storage.BlockRepository).getHeader") != nil
		viaMap := false
		fromCache := false
		for _, x := range rootsAll(key) {
			if nx, ok := x.(*ssa.Next); ok {
				if rg, ok := nx.Iter.(*ssa.Range); ok && loadOfField(rg.X, a.heights) != nil {
					viaMap = true
				}
			}
			if loadOfField(x, a.lastHeaders) != nil {
				fromCache = true
			}
		}
		c.Decide((viaGetter || viaMap) && !fromCache, rule, "storage.(*BlockRepository).Revert#pruned-hashes-from-general-getter", ac.Instr.Pos(), "provenance", nil,
			"the hashes pruned from the map are looked up per height with the general getter", "the hashes pruned from the hash->height map are taken from the newest-file cache: a revert across a file boundary leaves hashes of the older file in the map (Contains/Height answer for blocks that were reverted)")
	}
	c.Min(rule, "map prunes in Revert", n, 1)
}

// ruleRemoveReportsBody (C03.R10): MemPool.removeTransaction answers true only when the body was present.
func (c *Check) ruleRemoveReportsBody(rule string) {
	fn := c.Fn(rule, "state.(*MemPool).removeTransaction")
	fOut := c.P.Field("state", "memPoolTx", "outPoints")
	if fn == nil || fOut == nil {
		return
	}
	loops := loopsRangingOver(fn, func(v ssa.Value) bool { return mentionsField(v, fOut) })
	bodyOf := map[*ssa.BasicBlock]bool{}
	for _, h := range loops {
		for b := range loopBody(h) {
			if b != h {
				bodyOf[b] = true
			}
		}
	}
	present := lowerBoundEdge(func(v ssa.Value) bool { x := lenOf(v); return x != nil && loadOfField(x, fOut) != nil }, 1)
	n := 0
	ok := true
	var wit []string
	var checkVal func(v ssa.Value, at *ssa.BasicBlock, seen map[ssa.Value]bool)
	checkVal = func(v ssa.Value, at *ssa.BasicBlock, seen map[ssa.Value]bool) {
		if seen[v] {
			return
		}
		seen[v] = true
		if b, isC := isConstBool(v); isC {
			if b {
				n++
				if !bodyOf[at] {
					if len(at.Instrs) == 0 {
						ok = false
					} else if okP, w := mustPass(at.Instrs[0], present); !okP {
						ok = false
						wit = w
					}
				}
			}
			return
		}
		if phi, isPhi := v.(*ssa.Phi); isPhi {
			for i, e := range phi.Edges {
				checkVal(e, phi.Block().Preds[i], seen)
			}
			return
		}
		// any other computed value: must derive from the outpoint list
		if !mentionsField(v, fOut) {
			ok = false
		}
		n++
	}
	for _, ret := range returnsOf(fn) {
		for _, v := range resultValues(ret, 0) {
			checkVal(v, ret.Block(), map[ssa.Value]bool{})
		}
	}
	c.Decide(ok && n > 0, rule, "state.(*MemPool).removeTransaction#true-only-if-body-present", fn.Pos(), "constant provenance + edge-cutset", wit,
		"'was in the mempool' is answered only for entries whose body (outpoints) was present", "removeTransaction answers true for an entry that was only announced (no body): block processing then treats the tx as already seen and judged, skips the relevance and double-spend checks, and a relevant tx first seen in a block is never delivered")
}

// ruleInputsDeleteGuard (C05.R8): the spender list of an outpoint is deleted only when it holds
// nothing but the tx being removed.
func (c *Check) ruleInputsDeleteGuard(rule string) {
	fn := c.Fn(rule, "state.(*MemPool).removeTransaction")
	fIn := c.P.Field("state", "MemPool", "inputs")
	if fn == nil || fIn == nil {
		return
	}
	n := 0
	for _, ac := range fieldAccesses(fn, map[*types.Var]bool{fIn: true}) {
		if ac.Kind != "delete" {
			continue
		}
		n++
		orig := func(v ssa.Value) bool {
			l := lenOf(v)
			if l == nil {
				return false
			}
			if ex, ok := l.(*ssa.Extract); ok {
				if lk, ok := ex.Tuple.(*ssa.Lookup); ok && loadOfField(lk.X, fIn) != nil {
					return true
				}
			}
			if lk, ok := l.(*ssa.Lookup); ok && loadOfField(lk.X, fIn) != nil {
				return true
			}
			return false
		}
		shrunk := func(v ssa.Value) bool {
			l := lenOf(v)
			if l == nil || orig(v) {
				return false
			}
			for _, x := range rootsAll(l) {
				if lk, ok := x.(*ssa.Lookup); ok && loadOfField(lk.X, fIn) != nil {
					return true
				}
			}
			return false
		}
		g := anyEdge(upperBoundEdge(orig, 1), upperBoundEdge(shrunk, 0))
		ok, w := mustPass(ac.Instr, g)
		c.Decide(ok, rule, "state.(*MemPool).removeTransaction#delete-only-last-spender", ac.Instr.Pos(), "edge-cutset", w,
			"the outpoint entry is deleted only when the registered list has at most this one spender", "the outpoint's spender list is deleted although another unconfirmed spender may remain registered: a later tx spending that outpoint is not flagged against it")
	}
	c.Min(rule, "deletes of inputs entries in removeTransaction", n, 1)
}

// ruleConflictsAlwaysHandled (C05.R6c): once AddTransaction added the tx, every return is behind
// the loop over its conflicts (or behind `no conflicts`).
func (c *Check) ruleConflictsAlwaysHandled(rule string) {
	fn := c.Fn(rule, "spynode.(*Node).processUnconfirmedTx")
	if fn == nil {
		return
	}
	adds := callsTo(fn, "(*state.MemPool).AddTransaction")
	if len(adds) != 1 {
		return
	}
	call := adds[0].Value()
	isConf := func(v ssa.Value) bool {
		e, ok := v.(*ssa.Extract)
		return ok && e.Tuple == ssa.Value(call) && e.Index == 0
	}
	loops := loopsRangingOver(fn, isConf)
	if len(loops) == 0 {
		return
	}
	h := loops[0]
	noConf := upperBoundEdge(func(v ssa.Value) bool { x := lenOf(v); return x != nil && isConf(x) }, 0)
	// start: the added==true successor
	var start *ssa.BasicBlock
	for _, b := range fn.Blocks {
		if iff, ok := lastIf(b); ok {
			for br := 0; br < 2; br++ {
				if condEdge(func(cd Cond) (bool, bool) {
					if cd.Call == call && cd.Idx == 2 {
						return true, true
					}
					return false, false
				})(iff, br) {
					start = b.Succs[br]
				}
			}
		}
	}
	if start == nil {
		c.Undecided(rule, "anchor:processUnconfirmedTx.added-edge", fn.Pos(), "the added result of AddTransaction is not tested")
		return
	}
	okAll := true
	var wit []string
	for _, ret := range returnsOf(fn) {
		if !reachable(start, ret.Block()) {
			continue
		}
		if isErrorReturnBlock(ret.Block()) {
			continue
		}
		if r, p := reachAvoid2(start, ret.Block(), noConf, map[*ssa.BasicBlock]bool{h: true}); r {
			okAll = false
			wit = pathWitness(fn, p)
		}
	}
	c.Decide(okAll, rule, "spynode.(*Node).processUnconfirmedTx#conflicts-handled-on-every-path", call.Pos(), "edge-cutset", wit,
		"after the mempool accepted the tx, no successful return skips the loop over its conflicts", "a path returns successfully after the mempool reported conflicts without walking them (e.g. the new tx is filtered out first): the earlier spender is never flagged unsafe and is later reported safe")
}

// ruleConflictingForEveryUnseenTx (C06.R6, C06.R8): per iteration of the block tx loop (the loop
// around block.GetNextTx), explored over every path from the loop header back to it:
//
//	R6  every iteration that takes the "was not in the mempool" edge consults MemPool.Conflicting
//	    (before or after that edge – the order within the iteration does not matter);
//	R8  every iteration consults MemPool.Conflicting, i.e. also the block txs that were seen before
//	    (the property quantifies over "seen before or not").
func (c *Check) ruleConflictingForEveryUnseenTx(rule, ruleAll string) {
	fn := c.Fn(rule, "spynode.(*Node).ProcessBlock")
	if fn == nil {
		return
	}
	var h *ssa.BasicBlock
	for _, s := range sitesIn(fn) {
		if s.CC.IsInvoke() && s.CC.Method.Name() == "GetNextTx" {
			h = loopHeaderOf(s.Instr.Block())
		}
	}
	if h == nil {
		c.Undecided(rule, "anchor:ProcessBlock block tx loop", fn.Pos(), "no loop around block.GetNextTx found")
		return
	}
	conf := map[ssa.Instruction]bool{}
	for _, s := range callsTo(fn, "(*state.MemPool).Conflicting") {
		conf[s.Instr] = true
	}
	inMemPool := func(v ssa.Value) bool { return derivesFromCall(v, "(*state.MemPool).RemoveTransaction") != nil }
	// marker blocks: successors entered only over a "not in mempool" edge
	notSeen := map[*ssa.BasicBlock]bool{}
	var guardPos token.Pos
	for b := range loopBody(h) {
		iff, ok := lastIf(b)
		if !ok {
			continue
		}
		for br := 0; br < 2; br++ {
			if boolEdge(inMemPool, false)(iff, br) && !boolEdge(inMemPool, false)(iff, 1-br) && len(b.Succs[br].Preds) == 1 {
				notSeen[b.Succs[br]] = true
				guardPos = ifPos(iff)
			}
		}
	}
	c.Min(rule, "not-in-mempool branches in ProcessBlock", len(notSeen), 1)
	const mConf, mEdge = 1, 2
	masks := iterationMasks(h, func(b *ssa.BasicBlock) int {
		m := 0
		if notSeen[b] {
			m |= mEdge
		}
		for _, in := range b.Instrs {
			if conf[in] {
				m |= mConf
			}
		}
		return m
	})
	okUnseen, okAll := true, true
	var wUnseen, wAll []string
	for m, path := range masks {
		if m&mConf == 0 {
			okAll = false
			wAll = pathWitness(fn, path)
			if m&mEdge != 0 {
				okUnseen = false
				wUnseen = pathWitness(fn, path)
			}
		}
	}
	c.Decide(okUnseen, rule, "spynode.(*Node).ProcessBlock#unseen-tx-checked-for-conflicts", guardPos, "per-iteration path exploration", wUnseen,
		"every block tx not seen before is checked with MemPool.Conflicting", "a block tx that was not seen before can be passed over without consulting MemPool.Conflicting (e.g. because it is not relevant itself): the unconfirmed tx it double-spends is never cancelled")
	c.Decide(okAll, ruleAll, "spynode.(*Node).ProcessBlock#every-block-tx-checked-for-conflicts", lastPos(h), "per-iteration path exploration", wAll,
		"every block tx, seen before or not, is checked with MemPool.Conflicting", "a block tx that was seen before it confirmed (its body is in the mempool or it is in the unconfirmed set) completes its iteration without MemPool.Conflicting: the delivered unconfirmed tx it double-spends is never cancelled")
}

// iterationMasks explores every path of one iteration of the loop with header h (h back to h;
// paths that leave the loop are ignored) and returns the distinct OR-ed block masks with a witness.
func iterationMasks(h *ssa.BasicBlock, mask func(*ssa.BasicBlock) int) map[int][]*ssa.BasicBlock {
	body := loopBody(h)
	res := map[int][]*ssa.BasicBlock{}
	if body == nil {
		return res
	}
	type st struct {
		nd walkNode
		m  int
	}
	type item struct {
		s    st
		path []*ssa.BasicBlock
	}
	seen := map[st]bool{}
	work := []item{{st{walkNode{b: h}, 0}, []*ssa.BasicBlock{h}}}
	for len(work) > 0 {
		it := work[len(work)-1]
		work = work[:len(work)-1]
		if seen[it.s] {
			continue
		}
		seen[it.s] = true
		blk := it.s.nd.b
		m := it.s.m | mask(blk)
		for i, s := range blk.Succs {
			if !it.s.nd.feasibleEdge(i) {
				continue
			}
			if s == h {
				// a path that comes back only to leave (`more = false; continue`) is not an iteration
				if len(h.Succs) == 2 {
					nn := it.s.nd.step(i)
					stays := false
					for j, s2 := range h.Succs {
						if body[s2] && nn.feasibleEdge(j) {
							stays = true
						}
					}
					if !stays {
						continue
					}
				}
				if _, ok := res[m]; !ok {
					res[m] = append(append([]*ssa.BasicBlock{}, it.path...), h)
				}
				continue
			}
			if !body[s] {
				continue
			}
			work = append(work, item{st{it.s.nd.step(i), m}, append(append([]*ssa.BasicBlock{}, it.path...), s)})
		}
	}
	return res
}

// ruleRevertFileLoop (C09.R9 / C10.R6): in Revert each file removal computes its path from the
// loop variable, and the in-memory tail is saved before any removal.
func (c *Check) ruleRevertFileLoop(rule string) {
	fn := c.Fn(rule, "storage.(*BlockRepository).Revert")
	if fn == nil {
		return
	}
	var removes []Site
	for _, s := range sitesIn(fn) {
		if s.CC.IsInvoke() && s.CC.Method.Name() == "Remove" {
			removes = append(removes, s)
		}
	}
	for _, r := range removes {
		h := loopHeaderOf(r.Instr.Block())
		if h == nil {
			continue
		}
		okPhi := false
		for _, x := range rootsAll(r.CC.Args[1]) {
			if phi, ok := x.(*ssa.Phi); ok && phi.Block() == h {
				okPhi = true
			}
		}
		c.Decide(okPhi, rule, "storage.(*BlockRepository).Revert#removed-path-follows-loop", r.Pos(), "provenance", nil,
			"each iteration removes the file selected by the loop variable", "the removal loop removes a path that does not depend on its loop variable: the same file is removed every time and the files below it survive the revert")
	}
	for _, s := range callsTo(fn, "(*storage.BlockRepository).save") {
		bad := false
		for _, r := range removes {
			if canFollow(r.Instr, s.Instr) {
				bad = true
			}
		}
		c.Decide(!bad, rule, "storage.(*BlockRepository).Revert#tail-saved-before-removals", s.Pos(), "event-order", nil,
			"the in-memory tail is saved before any file is removed", "the pre-revert save can run after files were removed: it re-creates the old branch's top file (its path is built from the not yet reverted height), so a crash leaves old-branch headers above the fork")
	}
}

var _ = token.ADD

// ---------------------------------------------------------------------------------------------
// round 3

// ruleToRequestEmptied (C01.R6 / C13.R9): when ClearBlockRequestsAfter finds the fork point among
// the requested blocks, the not-yet-requested queue is emptied on every path of that branch.
func (c *Check) ruleToRequestEmptied(rule string, sa *stateAnchors) {
	fn := c.Fn(rule, "state.(*State).ClearBlockRequestsAfter")
	if fn == nil {
		return
	}
	var emptied []ssa.Instruction
	for _, st := range storesToField(fn, sa.blocksToRequest) {
		if cst, ok := st.Val.(*ssa.Const); ok && cst.IsNil() {
			emptied = append(emptied, st)
		}
		if sl, ok := st.Val.(*ssa.Slice); ok {
			if k, isC := constInt(sl.High); isC && k == 0 {
				emptied = append(emptied, st)
			}
		}
	}
	nB := 0
	for _, b := range fn.Blocks {
		iff, ok := lastIf(b)
		if !ok {
			continue
		}
		for br := 0; br < 2; br++ {
			if equalEdge(func(x, y ssa.Value) bool { return mentionsField(x, sa.rbHash) }, true)(iff, br) {
				nB++
				okF := containsInstr(b.Succs[br], emptied)
				var w []string
				if !okF {
					okF, w = alwaysFollowedBy(b.Succs[br].Instrs[0], emptied, false, nil)
				}
				c.Decide(okF, rule, "state.(*State).ClearBlockRequestsAfter#to-request-queue-emptied", ifPos(iff), "must-pass-through", w,
					"when the fork point is a requested block the not-yet-requested queue is emptied", "a fork at a requested block can leave the old branch's not-yet-requested hashes queued: the new branch is refused (wrong previous hash) and the stale branch is downloaded")
			}
		}
	}
	c.Min(rule, "fork-point matches among requested blocks", nB, 1)
}

// ruleSizeCoupledWithCounter (C13.R10): every overwrite of a request's size is accompanied, on the
// same paths, by adding that size to the buffered-bytes counter.
func (c *Check) ruleSizeCoupledWithCounter(rule string, sa *stateAnchors) {
	n := 0
	for _, fn := range c.P.FuncsIn("state") {
		for _, st := range storesToField(fn, sa.rbSize) {
			if fa := st.Addr.(*ssa.FieldAddr); isFreshObject(fa) {
				continue
			}
			n++
			var adds []ssa.Instruction
			for _, p := range storesToField(fn, sa.pendingBlockSize) {
				if bo, ok := p.Val.(*ssa.BinOp); ok && bo.Op == token.ADD {
					if sameExpr(bo.Y, st.Val) || sameExpr(bo.X, st.Val) || mentionsField(bo.Y, sa.rbSize) || mentionsField(bo.X, sa.rbSize) {
						adds = append(adds, p)
					}
				}
			}
			ok := containsInstr(st.Block(), adds)
			var w []string
			if !ok {
				okB, _ := alwaysPrecededBy(st, adds)
				okA, wA := alwaysFollowedBy(st, adds, true, nil)
				ok, w = okB || okA, wA
			}
			c.Decide(ok, rule, c.P.Key(fn)+"#size-and-counter-move-together", st.Pos(), "coupled-updates", w,
				"the recorded size of a request changes only together with the buffered-bytes counter", "a request's recorded size is overwritten on a path that does not add it to pendingBlockSize: the pop later subtracts a different amount than was added and the counter never returns to zero (or goes negative)")
		}
	}
	c.Min(rule, "stores to requestedBlock.size", n, 1)
}

// ruleFirstLinkChecked (C12.R5b): the linkage test of the untrusted headers starts from the hash of
// the first header, the one that was looked up in the node's chain.
func (c *Check) ruleFirstLinkChecked(rule string) {
	fn := c.Fn(rule, "handlers.(*UntrustedHeadersHandler).Handle")
	if fn == nil {
		return
	}
	var known ssa.Value
	for _, s := range callsTo(fn, "(*storage.BlockRepository).Height") {
		known = s.Args()[0]
	}
	if known == nil {
		c.Bad(rule, "handlers.(*UntrustedHeadersHandler).Handle#first-header-looked-up", fn.Pos(), "provenance", nil, "the first header is never looked up in the node's chain")
		return
	}
	n := 0
	okAny := false
	for _, b := range fn.Blocks {
		iff, ok := lastIf(b)
		if !ok {
			continue
		}
		cd := normCond(iff.Cond)
		if cd.Call == nil {
			continue
		}
		o := calleeObj(&cd.Call.Call)
		if o == nil || o.Name() != "Equal" || len(cd.Call.Call.Args) != 2 {
			continue
		}
		a0, a1 := cd.Call.Call.Args[0], cd.Call.Call.Args[1]
		if !mentionsFieldNamed(a0, "PrevBlock") && !mentionsFieldNamed(a1, "PrevBlock") {
			continue
		}
		n++
		other := a1
		if mentionsFieldNamed(a1, "PrevBlock") {
			other = a0
		}
		if derivesFromValue(other, known) {
			okAny = true
		}
	}
	c.Decide(n > 0 && okAny, rule, "handlers.(*UntrustedHeadersHandler).Handle#chain-starts-at-known-header", fn.Pos(), "provenance", nil,
		"the linkage test compares against a running hash that starts with the known first header's hash", "no linkage test ties the following headers to the first (known) header: a peer is verified with one known header followed by a self-linked foreign chain")
}

// ruleRouterRemovesDelivered (C16.R9): every delivery in the response router removes the request
// from the pending list before returning; ruleRegisterBeforeSend (C16.R10): requests are registered
// before the message is sent; ruleRouterDrainsRegistrations (C16.R8).
func (c *Check) ruleRouterPairing(fRequests, fResp *types.Var) {
	if fn := c.Fn("R9", "client.(*RemoteClient).handleRequestResponse"); fn != nil {
		var rm []ssa.Instruction
		for _, st := range storesToField(fn, fRequests) {
			rm = append(rm, st)
		}
		n := 0
		for _, b := range fn.Blocks {
			for _, in := range b.Instrs {
				snd, ok := in.(*ssa.Send)
				if !ok || !mentionsField(snd.Chan, fResp) {
					continue
				}
				n++
				okF := false
				for _, r := range rm {
					if r.Block() == snd.Block() && instrIndex(r) > instrIndex(snd) {
						okF = true
					}
				}
				var w []string
				if !okF {
					okF, w = alwaysFollowedBy(snd, rm, false, nil)
				}
				c.Decide(okF, "R9", fmt.Sprintf("client.(*RemoteClient).handleRequestResponse#delivered-request-removed@%d", n), snd.Pos(), "must-pass-through", w,
					"a request that received its response is removed from the pending list", "a response is delivered to a pending request that then stays in the list: it captures the answer of the next call with the same key, which times out")
			}
		}
		c.Min("R9", "deliveries in the router", n, 18)
	}
	if fn := c.Fn("R8", "client.(*RemoteClient).runRequests"); fn != nil {
		addCh := c.P.Field("client", "RemoteClient", "addRequestsChannel")
		var drains []ssa.Instruction
		for _, b := range fn.Blocks {
			for _, in := range b.Instrs {
				if sel, ok := in.(*ssa.Select); ok && !sel.Blocking {
					for _, st := range sel.States {
						if st.Dir == types.RecvOnly && addCh != nil && loadOfField(st.Chan, addCh) != nil {
							drains = append(drains, sel)
						}
					}
				}
			}
		}
		for _, s := range callsTo(fn, "(*client.RemoteClient).handleRequestResponse") {
			ok, w := alwaysPrecededBy(s.Instr, withLoopHeaders(drains, nil))
			// the drain must be in the same select arm (after the response was received): dominated by the receive
			c.Decide(ok && len(drains) > 0, "R8", "client.(*RemoteClient).runRequests#registrations-drained-before-routing", s.Pos(), "must-pass-through", w,
				"queued registrations are consumed (non-blocking) before a response is routed", "a response can be routed while its request is still waiting in the registration channel (select picks ready cases at random): the response is dropped and the call times out although it was answered")
		}
		// the drain is attempted at least once: entering the drain loop from outside, the routing call is
		// not reachable without executing the non-blocking receive (path facts: the loop condition's
		// initial value is followed along the entry edge)
		for _, s := range callsTo(fn, "(*client.RemoteClient).handleRequestResponse") {
			for _, d := range drains {
				hd := loopHeaderOf(d.Block())
				if hd == nil {
					continue
				}
				body := loopBody(hd)
				skip := false
				var wit []string
				for _, p := range hd.Preds {
					if body[p] {
						continue
					}
					if hd == d.Block() {
						continue // the receive is the first thing the loop does
					}
					if r, path := reachFromNode(mkNode(p, hd), s.Instr.Block(), nil, map[*ssa.BasicBlock]bool{d.Block(): true}); r {
						skip = true
						wit = pathWitness(fn, path)
					}
				}
				c.Decide(!skip, "R8", "client.(*RemoteClient).runRequests#drain-attempted-before-routing", s.Pos(), "path-feasibility", wit,
					"the drain loop is entered at least once before a response is routed", "the loop that consumes queued registrations is skipped on entry (its condition starts false): a response can be routed while its request is still waiting in the registration channel, so it is dropped and the call times out")
			}
		}
	}
}

func (c *Check) ruleRegisterBeforeSend(sc syncCall) {
	fk := c.P.Key(sc.Fn)
	for _, s := range callsTo(sc.Fn, "(*client.RemoteClient).sendMessage") {
		ok, w := alwaysPrecededBy(s.Instr, []ssa.Instruction{sc.AddReq})
		c.Decide(ok, "R10", fk+"#registered-before-sent", s.Pos(), "must-pass-through", w,
			"the request is registered before its message is sent", "the message is sent before the request is registered: a fast response finds no pending request, is dropped, and the call times out")
	}
}

// ruleFreshHandshakeChannel (C18.R7): every connection gets its own handshake-complete channel.
func (c *Check) ruleFreshHandshakeChannel(rule string) {
	fn := c.Fn(rule, "client.(*RemoteClient).runConnection")
	if fn == nil {
		return
	}
	fHS := c.P.Field("client", "RemoteClient", "handshakeCompleteChannel")
	n := 0
	for _, an := range fn.AnonFuncs {
		for _, s := range callsTo(an, "client.sendMessages") {
			n++
			arg := s.CC.Args[2]
			fresh := false
			for _, x := range rootsAll(arg) {
				if fv, ok := x.(*ssa.FreeVar); ok {
					// binding in the parent
					for _, b := range fn.Blocks {
						for _, in := range b.Instrs {
							if mc, ok := in.(*ssa.MakeClosure); ok && mc.Fn == ssa.Value(an) {
								for i, fvv := range an.FreeVars {
									if fvv == fv && i < len(mc.Bindings) {
										hasMk, reused := false, false
										for _, y := range rootsAll(mc.Bindings[i]) {
											if _, isMk := y.(*ssa.MakeChan); isMk {
												hasMk = true
											}
											if call, isCall := y.(*ssa.Call); isCall && calleeName(&call.Call) == "(*sync/atomic.Value).Load" {
												reused = true
											}
										}
										fresh = hasMk && !reused
									}
								}
							}
						}
					}
				}
				if _, isMk := x.(*ssa.MakeChan); isMk {
					fresh = true
				}
			}
			c.Decide(fresh, rule, "client.(*RemoteClient).runConnection#own-handshake-channel", s.Pos(), "provenance", nil,
				"the send loop waits on a channel created for this connection", "the send loop waits on a handshake-complete channel that is not created per connection: a wake-up left over from the previous connection lets queued requests be written before the new handshake completed")
		}
	}
	c.Min(rule, "sendMessages calls in runConnection", n, 1)
	// what is published for Ready()/accept to signal is that same fresh channel
	if fHS != nil {
		okPub := false
		for _, s := range sitesIn(fn) {
			if atomicCallOn(s, "Store", fHS) && len(s.CC.Args) == 2 {
				for _, y := range rootsAll(s.CC.Args[1]) {
					if _, isMk := y.(*ssa.MakeChan); isMk {
						okPub = true
					}
				}
			}
		}
		c.Decide(okPub, rule, "client.(*RemoteClient).runConnection#publishes-own-channel", fn.Pos(), "provenance", nil,
			"the published handshake-complete channel is the one created for this connection", "the channel that Ready()/accept signal is not the connection's own fresh channel")
	}
}

// ruleConflictingIteratesCopy (C06.R7): Conflicting does not range over the live map-held spender
// list while the loop body rewrites that list.
func (c *Check) ruleConflictingIteratesCopy(rule string) {
	fn := c.Fn(rule, "state.(*MemPool).Conflicting")
	fIn := c.P.Field("state", "MemPool", "inputs")
	if fn == nil || fIn == nil {
		return
	}
	n := 0
	for _, h := range fn.Blocks {
		body := loopBody(h)
		if body == nil {
			continue
		}
		rs := rangedSlice(h)
		if rs == nil {
			continue
		}
		live := false
		switch x := rs.(type) {
		case *ssa.Extract:
			if lk, ok := x.Tuple.(*ssa.Lookup); ok && loadOfField(lk.X, fIn) != nil {
				live = true
			}
		case *ssa.Lookup:
			if loadOfField(x.X, fIn) != nil {
				live = true
			}
		}
		if !live {
			// a copy: fine as long as it derives from the map at all
			continue
		}
		rewrites := false
		for b := range body {
			for _, in := range b.Instrs {
				if call, ok := in.(*ssa.Call); ok {
					if f := call.Call.StaticCallee(); f != nil && f.Blocks != nil {
						for _, ac := range fieldAccesses(f, map[*types.Var]bool{fIn: true}) {
							if ac.Write {
								rewrites = true
							}
						}
					}
				}
			}
		}
		n++
		c.Decide(!rewrites, rule, "state.(*MemPool).Conflicting#iterates-copy-while-removing", lastPos(h), "alias shape", nil,
			"no live map-held list is iterated while being rewritten", "Conflicting ranges over the spender list stored in the map while the loop body rewrites that list in place: with three or more spenders one is skipped (never cancelled) and another returned twice")
	}
	if n == 0 {
		c.Ok(rule, "state.(*MemPool).Conflicting#iterates-copy-while-removing", fn.Pos(), "alias shape", "the spender list is copied before the removing loop")
	}
}

// headerCursor finds the loop-local last-hash cursor of HeadersHandler.Handle: the local that is
// initialised from state.LastHash() and rewritten in the header loop (an expanded helper may hold a
// copy of it in a parameter; the copy is written once).
func headerCursor(fn *ssa.Function) *ssa.Alloc {
	var best *ssa.Alloc
	bestN := 0
	for _, b := range fn.Blocks {
		for _, in := range b.Instrs {
			st, ok := in.(*ssa.Store)
			if !ok {
				continue
			}
			al, ok := st.Addr.(*ssa.Alloc)
			if !ok || derivesFromCall(st.Val, "(*state.State).LastHash") == nil {
				continue
			}
			n := 0
			for _, r := range *al.Referrers() {
				if s2, ok := r.(*ssa.Store); ok && s2.Addr == ssa.Value(al) {
					n++
				}
			}
			if n > bestN {
				best, bestN = al, n
			}
		}
	}
	return best
}
