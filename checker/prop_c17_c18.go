package main

import (
	"go/constant"
	"fmt"
	"go/token"
	"go/types"
	"sort"
	"strings"

	"golang.org/x/tools/go/ssa"
)

func init() {
	register(&PropDef{
		ID:    "C17",
		Title: "Remote client delivers tx notifications in message-id order exactly once",
		Explanation: "Decides the guard/ownership skeleton of ordered delivery in RemoteClient: " +
			"(R1) in both notification cases (*Tx, *TxUpdate) the message is handed to the handler queue only behind nextMessageID == msg.ID, and on that path nextMessageID becomes msg.ID+1; the two cases agree; " +
			"(R2) the id is advanced only on the success edge of the hand-over (addHandlerMessage err == nil); " +
			"(R3) single producer / single consumer: only addHandlerMessage sends on the handler channel, only runHandler receives from it, handleMessage is called only from handleMessages, and each loop is started once in Run; " +
			"(R4) nextMessageID is written only by NewRemoteClient, Ready and the two cases of R1; " +
			"(R5) Ready stores the requested id before the ready message is written to the connection.",
		NotDecided:  "the no-miss / no-repeat consequence over reconnect placements and server streams (history-quantified); handler execution order inside one message.",
		Assumptions: []string{"atomic.Value Load/Store are the only accessors of nextMessageID"},
		Tech:        "guard edge cut-sets with operand provenance, sibling agreement, who-may-send/receive/write, event order",
		Run:         runC17,
	})
	register(&PropDef{
		ID:    "C18",
		Title: "Remote client authenticates the server and gates traffic on the handshake",
		Explanation: "Decides the guard/ownership skeleton of the handshake: " +
			"(R1) accepted.Store(true) (and handshakeComplete.Store(true) after it) is reachable only through msg.Key.Equal(serverSessionKey)==true and msg.Signature.Verify(sigHash, msg.Key)==true with sigHash from msg.SigHash(c.hash); the failing edges return errors; " +
			"(R2) AcceptRegister.SigHash and Register.SigHash cover every field their Serialize writes except Signature, in the same order, plus the session hash; " +
			"(R3) connect generates a fresh session, puts its hash into the Register message, signs SigHash() with the client key and assigns the signature before serialising; generateSession derives the server session key from the configured server key and the fresh hash; " +
			"(R4) messages are serialised to the connection only by connect, sendDirect and sendMessages; sendDirect is called only by Ready and by sendMessage behind IsHandshakeType()==true; both writes in sendMessages are behind the receive from the handshake-complete channel; " +
			"(R5) IsHandshakeType is exactly {Register, Ready, all Subscribe*/Unsubscribe*}; " +
			"(R6) a nil result is sent on a message's response channel only after that message's Serialize returned nil; " +
			"(R7) every connection creates its own handshake-complete channel, which is the one its send loop waits on and the one published for Ready()/accept.",
		NotDecided:  "cryptographic soundness (dependency); behaviour over all connection drop points, including the shutdown wake-up of sendMessages (a schedule property).",
		Assumptions: []string{"bitcoin.Signature.Verify and PublicKey.Equal are correct"},
		Tech:        "guard edge cut-sets, sig-hash/serialize grammar comparison, who-may-write-to-connection, table comparison over constants",
		Run:         runC18,
	})
}

// atomicField: v is the address &c.<field> passed to an atomic.Value method.
func atomicCallOn(s Site, method string, f *types.Var) bool {
	if calleeName(s.CC) != "(*sync/atomic.Value)."+method {
		return false
	}
	if len(s.CC.Args) == 0 {
		return false
	}
	fa, ok := s.CC.Args[0].(*ssa.FieldAddr)
	return ok && fieldOfAddr(fa) == f
}

// fromAtomicLoad: v derives from <field>.Load()
func fromAtomicLoad(v ssa.Value, f *types.Var) bool {
	return fromAtomicLoadD(v, f, 0)
}

func fromAtomicLoadD(v ssa.Value, f *types.Var, depth int) bool {
	for _, x := range rootsAll(v) {
		// an accessor method of the module that returns the loaded value (NextMessageID())
		if call, ok := x.(*ssa.Call); ok && depth < 2 {
			if callee := call.Call.StaticCallee(); callee != nil && callee.Blocks != nil && callee.Pkg != nil && inModule(callee.Pkg.Pkg) {
				all := len(returnsOf(callee)) > 0
				for _, ret := range returnsOf(callee) {
					if len(ret.Results) != 1 || !fromAtomicLoadD(ret.Results[0], f, depth+1) {
						all = false
					}
				}
				if all {
					return true
				}
			}
		}
		if call, ok := x.(*ssa.Call); ok && calleeName(&call.Call) == "(*sync/atomic.Value).Load" && len(call.Call.Args) == 1 {
			if fa, ok := call.Call.Args[0].(*ssa.FieldAddr); ok && fieldOfAddr(fa) == f {
				return true
			}
		}
	}
	return false
}

func runC17(c *Check) {
	fNext := c.P.Field("client", "RemoteClient", "nextMessageID")
	fChan := c.P.Field("client", "RemoteClient", "handlerChannel")
	if fNext == nil || fChan == nil {
		c.Undecided("R0", "anchor:client.RemoteClient fields", token.NoPos, "nextMessageID/handlerChannel not found")
		return
	}
	hm := c.Fn("R1", "client.(*RemoteClient).handleMessage")
	if hm == nil {
		return
	}
	// the notification cases
	type ncase struct {
		payload string
		add     Site
		store   *Site
	}
	var cases []ncase
	for _, s := range callsTo(hm, "(*client.RemoteClient).addHandlerMessage") {
		payload := ""
		for _, e := range dominatingEdges(s.Instr) {
			cd := normCond(e.Iff.Cond)
			truth := (e.Br == 0) != cd.Neg
			if ex, ok := cd.V.(*ssa.Extract); ok && ex.Index == 1 && truth && payload == "" {
				if ta, ok := ex.Tuple.(*ssa.TypeAssert); ok {
					if p, ok := ta.AssertedType.(*types.Pointer); ok {
						if n, ok := p.Elem().(*types.Named); ok {
							payload = n.Obj().Name()
						}
					}
				}
			}
		}
		if payload == "Tx" || payload == "TxUpdate" {
			cases = append(cases, ncase{payload: payload, add: s})
		}
	}
	c.Min("R1", "notification hand-overs (Tx, TxUpdate)", len(cases), 2)
	var stores []Site
	for _, s := range sitesIn(hm) {
		if atomicCallOn(s, "Store", fNext) {
			stores = append(stores, s)
		}
	}
	isIDEq := equalEdge(func(x, y ssa.Value) bool {
		return fromAtomicLoad(x, fNext) && mentionsFieldNamed(y, "ID")
	}, true)
	var shapes []string
	for _, nc := range cases {
		key := "client.(*RemoteClient).handleMessage#" + nc.payload
		ok, w := mustPass(nc.add.Instr, isIDEq)
		c.Decide(ok, "R1", key+"#delivered-only-if-next", nc.add.Pos(), "edge-cutset+provenance", w,
			"queued for the handler only behind nextMessageID == msg.ID", "a "+nc.payload+" whose id is not the next expected one can be delivered")
		// the matching store
		var st *Site
		for i := range stores {
			s := stores[i]
			sameCase := false
			for _, e := range dominatingEdges(s.Instr) {
				for _, e2 := range dominatingEdges(nc.add.Instr) {
					if e.Iff == e2.Iff && e.Br == e2.Br {
						cd := normCond(e.Iff.Cond)
						truth := (e.Br == 0) != cd.Neg
						if ex, ok := cd.V.(*ssa.Extract); ok && ex.Index == 1 && truth {
							if _, ok := ex.Tuple.(*ssa.TypeAssert); ok {
								sameCase = true
							}
						}
					}
				}
			}
			if sameCase {
				st = &s
			}
		}
		if st == nil {
			c.Bad("R1", key+"#id-advanced", nc.add.Pos(), "coupled-updates", nil, "the %s case never advances nextMessageID", nc.payload)
			continue
		}
		// value is msg.ID + 1
		okVal := false
		if len(st.CC.Args) == 2 {
			for _, x := range rootsAll(st.CC.Args[1]) {
				if bo, ok := x.(*ssa.BinOp); ok && bo.Op == token.ADD {
					if k, isC := constInt(bo.Y); isC && k == 1 && mentionsFieldNamed(bo.X, "ID") {
						okVal = true
					}
				}
			}
		}
		ok2, w2 := mustPass(st.Instr, isIDEq)
		c.Decide(okVal && ok2, "R1", key+"#id-advanced-by-one", st.Pos(), "provenance", w2,
			"nextMessageID := msg.ID + 1 on the accepted path", "nextMessageID is not set to msg.ID+1 exactly on the path where the message was accepted")
		// R2 advanced only if handed over
		ok3, w3 := mustPass(st.Instr, errNilEdge(sameCall(nc.add.Value()), true))
		c.Decide(ok3, "R2", key+"#advanced-only-after-hand-over", st.Pos(), "edge-cutset", w3,
			"the id is advanced only when addHandlerMessage succeeded", "nextMessageID is advanced although the message may not have been queued for the handler (a dropped message would be skipped after reconnect)")
		shapes = append(shapes, fmt.Sprintf("guard=%v value=%v handover=%v", ok, okVal && ok2, ok3))
	}
	if len(shapes) == 2 {
		c.Decide(shapes[0] == shapes[1], "R1", "client.(*RemoteClient).handleMessage#Tx-and-TxUpdate-agree", hm.Pos(), "sibling agreement", shapes,
			"both notification cases follow the same protocol", "the Tx and TxUpdate cases treat message ids differently")
	}

	// ---- R3 single producer / consumer
	nSend, nRecv := 0, 0
	for _, fn := range c.P.FuncsIn("client") {
		for _, b := range fn.Blocks {
			for _, in := range b.Instrs {
				switch x := in.(type) {
				case *ssa.Send:
					if loadOfField(x.Chan, fChan) != nil {
						nSend++
						c.Decide(c.P.Key(fn) == "client.(*RemoteClient).addHandlerMessage", "R3", c.P.Key(fn)+"#sends-on-handler-channel", x.Pos(), "who-may-send", nil, "only producer", "a second producer sends on the handler channel")
					}
				case *ssa.Select:
					for _, st := range x.States {
						if loadOfField(st.Chan, fChan) != nil {
							if st.Dir == types.SendOnly {
								nSend++
								c.Decide(c.P.Key(fn) == "client.(*RemoteClient).addHandlerMessage", "R3", c.P.Key(fn)+"#sends-on-handler-channel", x.Pos(), "who-may-send", nil, "only producer", "a second producer sends on the handler channel")
							} else {
								nRecv++
								c.Bad("R3", c.P.Key(fn)+"#receives-from-handler-channel", x.Pos(), "who-may-receive", nil, "the handler channel field is received from outside runHandler")
							}
						}
					}
				}
			}
		}
	}
	c.Min("R3", "sends on the handler channel", nSend, 1)
	// consumer: runHandler receives from its parameter, which Run binds to c.handlerChannel
	c.ruleStartedOnce("R3", "client.(*RemoteClient).Run", "client.(*RemoteClient).runHandler")
	c.ruleStartedOnce("R3", "client.(*RemoteClient).Run", "client.(*RemoteClient).handleMessages")
	c.whoMayCall("R3", "(*client.RemoteClient).handleMessage", map[string]string{"client.(*RemoteClient).handleMessages": "the receive loop"}, 1)
	c.whoMayCall("R3", "(*client.RemoteClient).processHandler", map[string]string{"client.(*RemoteClient).runHandler": "the handler loop"}, 1)

	// ---- R4 who may write nextMessageID
	allowed := map[string]bool{"client.NewRemoteClient": true, "client.(*RemoteClient).Ready": true, "client.(*RemoteClient).handleMessage": true}
	n4 := 0
	for _, fn := range c.P.FuncsIn("client") {
		for _, s := range sitesIn(fn) {
			if atomicCallOn(s, "Store", fNext) {
				n4++
				k := c.P.Key(topFn(fn))
				c.Decide(allowed[k], "R4", k+"#writes-nextMessageID", s.Pos(), "who-may-write", nil, "allowed writer", "nextMessageID is written outside NewRemoteClient / Ready / the notification cases")
			}
		}
	}
	c.Min("R4", "stores to nextMessageID", n4, 4)

	// ---- R5 Ready
	if fn := c.Fn("R5", "client.(*RemoteClient).Ready"); fn != nil {
		var st []ssa.Instruction
		for _, s := range sitesIn(fn) {
			if atomicCallOn(s, "Store", fNext) {
				st = append(st, s.Instr)
			}
		}
		sends := callsTo(fn, "(*client.RemoteClient).sendDirect")
		for _, s := range sends {
			ok, w := alwaysPrecededBy(s.Instr, st)
			c.Decide(ok, "R5", "client.(*RemoteClient).Ready#id-set-before-ready-is-sent", s.Pos(), "event-order", w,
				"nextMessageID is set before the ready message is written", "the ready message is written before nextMessageID is set: the server's first message can be compared with the old id and discarded")
		}
		c.Min("R5", "sendDirect calls in Ready", len(sends), 1)
		// no write of the id after the ready message was (attempted to be) sent: it would race with the receive side
		for _, s := range sends {
			bad := false
			for _, x := range st {
				if canFollow(s.Instr, x) {
					bad = true
				}
			}
			c.Decide(!bad, "R5", "client.(*RemoteClient).Ready#id-not-written-after-send", s.Pos(), "event-order", nil,
				"Ready does not touch nextMessageID after the ready message was handed to the connection", "Ready writes nextMessageID after the send: it overwrites the increments made for notifications that were delivered meanwhile, so the reported id is no longer last delivered + 1")
		}
	}
	c.ruleFreshEnvelopePerMessage("R6")
	c.ruleNoGoroutineOnNotificationPath("R7")
	c.ruleReadyIDStoredIsIDSent("R8")
	c.ruleEveryQueuedMessageProcessed("R9")
	c.ruleNextMessageIDIsStoredValue("R10")
	c.ruleQueuedOnlyOnSend("R2", fChan)
}

// ---------------------------------------------------------------------------------------------

func runC18(c *Check) {
	fAccepted := c.P.Field("client", "RemoteClient", "accepted")
	fHSC := c.P.Field("client", "RemoteClient", "handshakeComplete")
	fSSK := c.P.Field("client", "RemoteClient", "serverSessionKey")
	fHash := c.P.Field("client", "RemoteClient", "hash")
	if fAccepted == nil || fHSC == nil || fSSK == nil || fHash == nil {
		c.Undecided("R0", "anchor:client.RemoteClient fields", token.NoPos, "accepted/handshakeComplete/serverSessionKey/hash not found")
		return
	}
	// ---- R1
	if hm := c.Fn("R1", "client.(*RemoteClient).handleMessage"); hm != nil {
		keyEq := equalEdge(func(x, y ssa.Value) bool {
			return mentionsFieldNamed(x, "Key") && (loadOfField(y, fSSK) != nil || mentionsField(y, fSSK))
		}, true)
		verify := condEdge(func(cd Cond) (bool, bool) {
			if cd.Call == nil {
				return false, false
			}
			o := calleeObj(&cd.Call.Call)
			if o == nil || o.Name() != "Verify" {
				return false, false
			}
			a := cd.Call.Call.Args
			if len(a) != 3 {
				return false, false
			}
			// a[0] = msg.Signature, a[1] = *sigHash, a[2] = msg.Key
			fromSigHash := false
			for _, x := range rootsAll(a[1]) {
				if call, ok := x.(*ssa.Call); ok {
					if oo := calleeObj(&call.Call); oo != nil && oo.Name() == "SigHash" {
						// called with c.hash
						for _, arg := range call.Call.Args {
							if loadOfField(arg, fHash) != nil {
								fromSigHash = true
							}
						}
					}
				}
			}
			if mentionsFieldNamed(a[0], "Signature") && fromSigHash && mentionsFieldNamed(a[2], "Key") {
				return true, true
			}
			return false, false
		})
		n := 0
		for _, s := range sitesIn(hm) {
			var which string
			if atomicCallOn(s, "Store", fAccepted) {
				which = "accepted"
			} else if atomicCallOn(s, "Store", fHSC) {
				which = "handshakeComplete"
			} else {
				continue
			}
			if b, isC := isConstBoolIface(s.CC.Args[1]); !isC || !b {
				continue
			}
			n++
			key := "client.(*RemoteClient).handleMessage#" + which + "=true"
			ok, w := mustPass(s.Instr, keyEq)
			c.Decide(ok, "R1", key+"#session-key-matches", s.Pos(), "edge-cutset+provenance", w,
				"behind msg.Key == derived server session key", "the connection can be marked "+which+" without the accept message carrying the derived server session key")
			ok, w = mustPass(s.Instr, verify)
			c.Decide(ok, "R1", key+"#signature-verified", s.Pos(), "edge-cutset+provenance", w,
				"behind Signature.Verify(SigHash(session hash), msg.Key)==true", "the connection can be marked "+which+" without a valid signature over the accept contents and the session hash")
		}
		c.Min("R1", "accepted/handshakeComplete=true stores in handleMessage", n, 2)
		// R11: an accept is handed on to the application only behind the same two checks (a second accept on
		// an already accepted connection is not exempt)
		n11 := 0
		for _, b := range hm.Blocks {
			for _, in := range b.Instrs {
				ta, isTA := in.(*ssa.TypeAssert)
				if !isTA || !ta.CommaOk || shortTypeName(ta.AssertedType) != "AcceptRegister" {
					continue
				}
				var okv ssa.Value
				for _, r := range *ta.Referrers() {
					if ex, isEx := r.(*ssa.Extract); isEx && ex.Index == 1 {
						okv = ex
					}
				}
				for _, bb := range hm.Blocks {
					iff, isIf := lastIf(bb)
					if !isIf || okv == nil || iff.Cond != okv {
						continue
					}
					caseB := bb.Succs[0]
					for _, s := range callsTo(hm, "(*client.RemoteClient).addHandlerMessage") {
						if !caseB.Dominates(s.Instr.Block()) {
							continue
						}
						n11++
						ok1, w := mustPass(s.Instr, keyEq)
						ok2, w2 := mustPass(s.Instr, verify)
						c.Decide(ok1 && ok2, "R11", fmt.Sprintf("client.(*RemoteClient).handleMessage#accept-forwarded-only-if-verified@%d", n11), s.Pos(), "edge-cutset+provenance", append(w, w2...),
							"an accept message reaches the application handlers only behind the session-key and signature checks",
							"an accept message can be handed to the application handlers without the session-key comparison and the signature check (e.g. a second accept on a connection that is already accepted): a forged accept is delivered and the client keeps running")
					}
				}
			}
		}
		c.Min("R11", "accept messages handed to the handlers", n11, 1)
		// failing edges return errors
		for _, b := range hm.Blocks {
			iff, ok := lastIf(b)
			if !ok {
				continue
			}
			for br := 0; br < 2; br++ {
				if keyEq(iff, 1-br) || verify(iff, 1-br) {
					// br is the failing edge
					okErr := isErrorReturnBlock(b.Succs[br]) || onlyErrorExits(b.Succs[br])
					c.Decide(okErr, "R1", "client.(*RemoteClient).handleMessage#auth-failure-is-an-error", ifPos(iff), "cfg-structure", nil,
						"a failed check returns an error (the connection fails)", "a failed authentication check does not end in an error return")
				}
			}
		}
	}

	// ---- R2 sig hash coverage
	p := c.P.CodecPkg("client")
	for _, tn := range []string{"AcceptRegister", "Register"} {
		sd := findFuncDecl(p, tn, "Serialize")
		hd := findFuncDecl(p, tn, "SigHash")
		if sd == nil || hd == nil {
			c.Undecided("R2", "anchor:client."+tn+".SigHash", token.NoPos, "Serialize/SigHash not found")
			continue
		}
		ser := extractCodec(p, sd, true)
		sig := extractCodec(p, hd, true)
		var serOps []string
		for _, o := range ser.Ops {
			serOps = append(serOps, o.String())
		}
		var sigOps []string
		for _, o := range sig.Ops {
			sigOps = append(sigOps, o.String())
		}
		// Serialize minus trailing signature
		want := serOps
		wantFields := ser.Fields
		if n := len(want); n > 0 && want[n-1] == "N:Signature" {
			want = want[:n-1]
		}
		if n := len(wantFields); n > 0 && wantFields[n-1] == "Signature" {
			wantFields = wantFields[:n-1]
		}
		got := sigOps
		extra := ""
		if tn == "AcceptRegister" {
			// plus the session hash at the end
			if n := len(got); n > 0 && got[n-1] == "N:Hash32" {
				got = got[:n-1]
				extra = "session hash"
			}
		}
		okOps := strings.Join(want, " ") == strings.Join(got, " ")
		okFields := strings.Join(wantFields, ",") == strings.Join(sig.Fields, ",")
		okExtra := tn != "AcceptRegister" || extra != ""
		c.Decide(okOps && okFields && okExtra, "R2", "client."+tn+"#SigHash-covers-serialized-fields", hd.Pos(), "codec grammar",
			[]string{"Serialize: " + strings.Join(serOps, " ") + " [" + strings.Join(ser.Fields, ",") + "]", "SigHash:   " + strings.Join(sigOps, " ") + " [" + strings.Join(sig.Fields, ",") + "]"},
			"the signature hash covers every serialised field except the signature, in order"+map[bool]string{true: ", plus the session hash", false: ""}[tn == "AcceptRegister"],
			"the signature hash of "+tn+" does not cover exactly the serialised fields (a field could be altered without invalidating the signature)")
	}

	// ---- R3 connect / generateSession
	if fn := c.Fn("R3", "client.(*RemoteClient).connect"); fn != nil {
		gens := callsTo(fn, "(*client.RemoteClient).generateSession")
		sers := callsTo(fn, "(client.Message).Serialize")
		var genI []ssa.Instruction
		for _, g := range gens {
			genI = append(genI, g.Instr)
		}
		for _, s := range sers {
			ok, w := alwaysPrecededBy(s.Instr, genI)
			c.Decide(ok, "R3", "client.(*RemoteClient).connect#fresh-session-per-connection", s.Pos(), "must-pass-through", w,
				"a session is generated before the register message is written", "a register message can be written without generating a fresh session")
		}
		c.Min("R3", "Serialize calls in connect", len(sers), 1)
		// register fields
		regHash := c.P.Field("client", "Register", "Hash")
		regSig := c.P.Field("client", "Register", "Signature")
		okHash, okSig, okOrder := false, false, true
		for _, st := range storesToField(fn, regHash) {
			if derivesFromCall(st.Val, "(*client.RemoteClient).generateSession") != nil {
				okHash = true
			}
		}
		for _, st := range storesToField(fn, regSig) {
			var sigOK bool
			for _, x := range rootsAll(st.Val) {
				if call, ok := x.(*ssa.Call); ok {
					if o := calleeObj(&call.Call); o != nil && o.Name() == "Sign" && len(call.Call.Args) == 2 {
						if mentionsFieldNamed(call.Call.Args[0], "ClientKey") {
							for _, y := range rootsAll(call.Call.Args[1]) {
								if c2, ok := y.(*ssa.Call); ok {
									if o2 := calleeObj(&c2.Call); o2 != nil && o2.Name() == "SigHash" {
										sigOK = true
									}
								}
							}
						}
					}
				}
			}
			if sigOK {
				okSig = true
			}
			for _, s := range sers {
				if canFollow(s.Instr, st) {
					okOrder = false
				}
				if ok, _ := alwaysPrecededBy(s.Instr, []ssa.Instruction{st}); !ok {
					okOrder = false
				}
			}
		}
		c.Decide(okHash, "R3", "client.(*RemoteClient).connect#register-carries-session-hash", fn.Pos(), "provenance", nil, "Register.Hash is the fresh session hash", "Register.Hash is not the hash generated for this connection")
		c.Decide(okSig && okOrder, "R3", "client.(*RemoteClient).connect#register-signed-before-sent", fn.Pos(), "provenance+event-order", nil,
			"Register.Signature = ClientKey.Sign(SigHash()) and is assigned before serialising", "the register message is not signed by the client key over its SigHash before it is written")
	}
	if fn := c.Fn("R3", "client.(*RemoteClient).generateSession"); fn != nil {
		okKey, okFresh := false, false
		for _, st := range storesToField(fn, fSSK) {
			for _, x := range rootsAll(st.Val) {
				if call, ok := x.(*ssa.Call); ok && strings.HasSuffix(calleeName(&call.Call), "bitcoin.NextPublicKey") && len(call.Call.Args) == 2 {
					if mentionsFieldNamed(call.Call.Args[0], "ServerKey") && mentionsField(call.Call.Args[1], fHash) {
						okKey = true
					}
				}
			}
		}
		for _, st := range storesToField(fn, fHash) {
			for _, x := range rootsAll(st.Val) {
				if call, ok := x.(*ssa.Call); ok && strings.HasSuffix(calleeName(&call.Call), "bitcoin.GenerateSeedValue") {
					okFresh = true
				}
			}
		}
		c.Decide(okKey, "R3", "client.(*RemoteClient).generateSession#server-session-key-derivation", fn.Pos(), "provenance", nil,
			"serverSessionKey = NextPublicKey(config.ServerKey, session hash)", "the expected server session key is not derived from the configured server key and the session hash")
		c.Decide(okFresh, "R3", "client.(*RemoteClient).generateSession#fresh-hash", fn.Pos(), "provenance", nil, "the session hash is freshly generated", "the session hash is not generated per session")
	}

	// ---- R4 who writes to the connection
	allowedW := map[string]bool{"client.(*RemoteClient).connect": true, "client.(*RemoteClient).sendDirect": true, "client.sendMessages": true}
	nW := 0
	for _, fn := range c.P.FuncsIn("client") {
		for _, s := range sitesIn(fn) {
			if o := calleeObj(s.CC); o == nil || (o.Name() != "Serialize" && o.Name() != "SerializeWithKey") {
				continue
			}
			toConn := false
			for _, a := range s.CC.Args {
				t := a.Type().String()
				if t == "net.Conn" {
					toConn = true
				}
				if mi, ok := a.(*ssa.MakeInterface); ok && mi.X.Type().String() == "net.Conn" {
					toConn = true
				}
				if ci, ok := a.(*ssa.ChangeInterface); ok && ci.X.Type().String() == "net.Conn" {
					toConn = true
				}
			}
			if !toConn {
				continue
			}
			nW++
			k := c.P.Key(topFn(fn))
			c.Decide(allowedW[k], "R4", k+"#writes-to-connection", s.Pos(), "who-may-write", nil, "allowed writer of the connection", "a message is serialised to the connection from "+k+", outside connect / sendDirect / sendMessages")
		}
	}
	c.Min("R4", "serialisations to the connection", nW, 4)
	c.whoMayCall("R4", "(*client.RemoteClient).sendDirect", map[string]string{
		"client.(*RemoteClient).Ready":       "the ready message ends the handshake",
		"client.(*RemoteClient).sendMessage": "handshake-type messages before the handshake completes",
	}, 2)
	if fn := c.Fn("R4", "client.(*RemoteClient).sendMessage"); fn != nil {
		for _, s := range callsTo(fn, "(*client.RemoteClient).sendDirect") {
			names := []string{"client.IsHandshakeType"}
			// the Message.IsHandshakeType wrapper counts if it simply forwards to the table function
			if wf := c.P.Fn("client.(Message).IsHandshakeType"); wf != nil {
				fwd := len(returnsOf(wf)) > 0
				for _, ret := range returnsOf(wf) {
					if len(ret.Results) != 1 || derivesFromCall(ret.Results[0], "client.IsHandshakeType") == nil {
						fwd = false
					}
				}
				if fwd {
					names = append(names, "(client.Message).IsHandshakeType")
				}
			}
			ok, w := mustPass(s.Instr, callEdge(true, -1, nil, names...))
			c.Decide(ok, "R4", "client.(*RemoteClient).sendMessage#direct-only-handshake-types", s.Pos(), "edge-cutset", w,
				"a message bypasses the send queue only behind IsHandshakeType()==true", "a non-handshake message can be written directly to a connection whose handshake has not completed")
		}
	}
	if fn := c.Fn("R4", "client.sendMessages"); fn != nil {
		hs := paramAt(fn, "handshakeComplete", 2)
		n := 0
		for _, s := range sitesIn(fn) {
			if o := calleeObj(s.CC); o == nil || o.Name() != "Serialize" {
				continue
			}
			n++
			// behind the select case receiving from handshakeComplete
			g := func(iff *ssa.If, br int) bool {
				r, ok := edgeRel(iff, br)
				if !ok || r.Op != token.EQL {
					return false
				}
				ex, ok := r.X.(*ssa.Extract)
				if !ok || ex.Index != 0 {
					return false
				}
				sel, ok := ex.Tuple.(*ssa.Select)
				if !ok {
					return false
				}
				k, isC := constInt(r.Y)
				if !isC || int(k) >= len(sel.States) {
					return false
				}
				return hs != nil && sel.States[k].Chan == ssa.Value(hs) && sel.States[k].Dir == types.RecvOnly
			}
			ok, w := mustPass(s.Instr, g)
			c.Decide(ok, "R4", "client.sendMessages#write-after-handshake", s.Pos(), "edge-cutset", w,
				"queued messages are written only after the handshake-complete signal", "a queued message can be written before the connection's handshake completed")
			// R6: nil on the response channel only after Serialize succeeded
		}
		c.Min("R4", "Serialize calls in sendMessages", n, 2)
		nS := 0
		for _, b := range fn.Blocks {
			for _, in := range b.Instrs {
				snd, ok := in.(*ssa.Send)
				if !ok {
					continue
				}
				if cst, ok := snd.X.(*ssa.Const); !ok || !cst.IsNil() {
					continue
				}
				nS++
				// the message whose response channel is used
				g := errNilEdge(func(call *ssa.Call) bool {
					o := calleeObj(&call.Call)
					if o == nil || o.Name() != "Serialize" {
						return false
					}
					return sharesRoot(call.Call.Args[0], snd.Chan)
				}, true)
				ok2, w := mustPass(snd, g)
				// a message serialised into a buffered writer is written only when the flush succeeded
				buffered := false
				for _, s2 := range sitesIn(fn) {
					if o := calleeObj(s2.CC); o != nil && o.Name() == "Serialize" && len(s2.CC.Args) >= 2 {
						if derivesFromCall(s2.CC.Args[len(s2.CC.Args)-1], "bufio.NewWriter", "bufio.NewWriterSize") != nil {
							buffered = true
						}
					}
				}
				if ok2 && buffered {
					ok2, w = mustPass(snd, errNilEdge(callNamed("(*bufio.Writer).Flush"), true))
				}
				c.Decide(ok2, "R6", "client.sendMessages#reported-sent-only-after-written", snd.Pos(), "edge-cutset+provenance", w,
					"nil is reported to the caller only after this message's Serialize (and the flush of a buffered writer) returned nil", "a message can be reported as sent (nil on its response channel) without having been written successfully (Serialize failed, or it went into a buffered writer whose Flush result is not checked)")
			}
		}
		c.Min("R6", "success reports in sendMessages", nS, 2)
	}

	c.ruleFreshHandshakeChannel("R7")
	c.ruleFreshSessionPerConnect("R3", fHash)
	c.ruleHandshakeCompleteAfterReadyWritten("R8", fHSC, c.P.Field("client", "RemoteClient", "handshakeCompleteChannel"))
	c.ruleFailedMessageLeavesLoop("R10")
	c.ruleResponseChannelFresh("R12")
	c.ruleReconnectFlagClearedOnExit("R13")
	c.ruleRegisterSignedLast("R14")
	c.ruleConnectionFlagsReset("R9", map[string]*types.Var{"accepted": fAccepted, "handshakeComplete": fHSC})
	// the functions that write to the connection are this property's mechanism ("never reported as sent
	// without having been written"): the shared discipline rules run over them too
	for _, k := range []string{"client.(*RemoteClient).sendDirect", "client.(*RemoteClient).sendMessage", "client.sendMessages", "client.(*RemoteClient).Ready"} {
		if fn := c.P.Fn(k); fn != nil {
			c.Touch(fn)
		}
	}

	// ---- R5 IsHandshakeType table
	if fd := findFuncDecl(p, "", "IsHandshakeType"); fd != nil {
		got := map[string]bool{}
		// the set is read off the compiled function by constant propagation of each type code through
		// its branches (the spelling - switch with returns, one result variable, if chain - does not matter)
		if hfn := c.P.Fn("client.IsHandshakeType"); hfn != nil && len(hfn.Params) == 1 {
			sc0 := p.Types.Scope()
			for _, n := range sc0.Names() {
				k, isK := sc0.Lookup(n).(*types.Const)
				if !isK || !strings.HasPrefix(n, "MessageType") {
					continue
				}
				kv, exact := constant.Int64Val(constant.ToInt(k.Val()))
				if !exact {
					continue
				}
				res, known := evalBoolFuncOnConst(hfn, kv)
				if !known {
					c.Undecided("R5", "client.IsHandshakeType#exact-set", fd.Pos(), "the answer for %s could not be computed by constant propagation", n)
					return
				}
				if res {
					got[n] = true
				}
			}
		} else {
			c.Undecided("R5", "anchor:client.IsHandshakeType", token.NoPos, "function not found or not unary")
			return
		}
		want := map[string]bool{"MessageTypeRegister": true, "MessageTypeReady": true}
		sc := p.Types.Scope()
		for _, n := range sc.Names() {
			if strings.HasPrefix(n, "MessageTypeSubscribe") || strings.HasPrefix(n, "MessageTypeUnsubscribe") {
				want[n] = true
			}
		}
		var diff []string
		for k := range want {
			if !got[k] {
				diff = append(diff, "missing "+k)
			}
		}
		for k := range got {
			if !want[k] {
				diff = append(diff, "extra "+k)
			}
		}
		sort.Strings(diff)
		c.Decide(len(diff) == 0 && len(want) == 12, "R5", "client.IsHandshakeType#exact-set", fd.Pos(), "table comparison", diff,
			"handshake types are exactly register, ready and the 10 subscribe/unsubscribe messages", "IsHandshakeType does not return true for exactly {Register, Ready, Subscribe*, Unsubscribe*}")
	} else {
		c.Undecided("R5", "anchor:client.IsHandshakeType", token.NoPos, "function not found")
	}
}

// isConstBoolIface: v is MakeInterface(const bool).
func isConstBoolIface(v ssa.Value) (bool, bool) {
	if mi, ok := v.(*ssa.MakeInterface); ok {
		return isConstBool(mi.X)
	}
	return isConstBool(v)
}

// onlyErrorExits: every exit reachable from b (within a few blocks, no loops) is an error return.
func onlyErrorExits(b *ssa.BasicBlock) bool {
	ok := true
	n := 0
	explore(entryNodesVia(b), func(nd walkNode) bool {
		n++
		if n > 60 {
			ok = false
			return false
		}
		x := nd.b
		if isExitBlock(x) {
			if !isErrorReturnBlock(x) && !returnsKnownNonNilError(nd) {
				ok = false
			}
			return false
		}
		return true
	})
	return ok
}

// returnsKnownNonNilError: the node is a return whose error result is known to be non-nil on this path
// (a result variable that a failing branch filled in before).
func returnsKnownNonNilError(nd walkNode) bool {
	ret, ok := nd.b.Instrs[len(nd.b.Instrs)-1].(*ssa.Return)
	if !ok || len(ret.Results) == 0 {
		return false
	}
	v := ret.Results[len(ret.Results)-1]
	if phi, isPhi := v.(*ssa.Phi); isPhi && phi.Block() == nd.b && nd.pred != nil {
		if pi := predIndex(nd.pred, nd.b); pi >= 0 && pi < len(phi.Edges) {
			v = phi.Edges[pi]
		}
	}
	nn, known := truthOf(v, nd.b, nd.env, 0)
	return known && nn
}

// evalBoolFuncOnConst propagates the integer constant k for the single parameter of a side-effect-free
// bool function through its control flow (comparisons against constants, boolean operators, phis)
// and returns the result if every branch on the way is decided.
func evalBoolFuncOnConst(fn *ssa.Function, k int64) (bool, bool) {
	if len(fn.Blocks) == 0 || len(fn.Params) != 1 {
		return false, false
	}
	param := fn.Params[0]
	var pred *ssa.BasicBlock
	b := fn.Blocks[0]
	var evalInt func(v ssa.Value, depth int) (int64, bool)
	var evalBool func(v ssa.Value, depth int) (bool, bool)
	phiEdge := func(phi *ssa.Phi) ssa.Value {
		if phi.Block() != b || pred == nil {
			return nil
		}
		for i, p := range b.Preds {
			if p == pred {
				return phi.Edges[i]
			}
		}
		return nil
	}
	// values of phis are those chosen when their block was entered: remember them
	phiVal := map[*ssa.Phi]ssa.Value{}
	evalInt = func(v ssa.Value, depth int) (int64, bool) {
		if depth > 20 {
			return 0, false
		}
		switch x := v.(type) {
		case *ssa.Parameter:
			if x == param {
				return k, true
			}
		case *ssa.Const:
			return constInt(x)
		case *ssa.Convert:
			return evalInt(x.X, depth+1)
		case *ssa.ChangeType:
			return evalInt(x.X, depth+1)
		case *ssa.Phi:
			if e, ok := phiVal[x]; ok {
				return evalInt(e, depth+1)
			}
		}
		return 0, false
	}
	evalBool = func(v ssa.Value, depth int) (bool, bool) {
		if depth > 20 {
			return false, false
		}
		switch x := v.(type) {
		case *ssa.Const:
			return isConstBool(x)
		case *ssa.UnOp:
			if x.Op == token.NOT {
				r, ok := evalBool(x.X, depth+1)
				return !r, ok
			}
		case *ssa.Phi:
			if e, ok := phiVal[x]; ok {
				return evalBool(e, depth+1)
			}
		case *ssa.BinOp:
			l, ok1 := evalInt(x.X, depth+1)
			r, ok2 := evalInt(x.Y, depth+1)
			if ok1 && ok2 {
				switch x.Op {
				case token.EQL:
					return l == r, true
				case token.NEQ:
					return l != r, true
				case token.LSS:
					return l < r, true
				case token.LEQ:
					return l <= r, true
				case token.GTR:
					return l > r, true
				case token.GEQ:
					return l >= r, true
				}
			}
		}
		return false, false
	}
	for steps := 0; steps < 500; steps++ {
		for _, in := range b.Instrs {
			if phi, ok := in.(*ssa.Phi); ok {
				if e := phiEdge(phi); e != nil {
					// resolve through earlier phis now (their values may change later)
					if p2, isPhi := e.(*ssa.Phi); isPhi {
						if e2, has := phiVal[p2]; has {
							e = e2
						}
					}
					phiVal[phi] = e
				}
			}
		}
		switch t := b.Instrs[len(b.Instrs)-1].(type) {
		case *ssa.Return:
			if len(t.Results) != 1 {
				return false, false
			}
			return evalBool(t.Results[0], 0)
		case *ssa.Jump:
			pred, b = b, b.Succs[0]
		case *ssa.If:
			r, ok := evalBool(t.Cond, 0)
			if !ok {
				return false, false
			}
			if r {
				pred, b = b, b.Succs[0]
			} else {
				pred, b = b, b.Succs[1]
			}
		default:
			return false, false
		}
	}
	return false, false
}
