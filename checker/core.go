package main

import (
	"encoding/json"
	"fmt"
	"go/token"
	"os"
	"path/filepath"
	"sort"
	"strings"

	"golang.org/x/tools/go/ssa"
)

const (
	stOK        = "discharged"
	stViolated  = "violated"
	stUndecided = "undecided"
)

// Ob is one rule instance: (rule id, construct key) and its outcome.
type Ob struct {
	Rule    string   `json:"rule"`
	Key     string   `json:"key"`
	Status  string   `json:"status"`
	Pos     string   `json:"pos,omitempty"`
	Detail  string   `json:"detail,omitempty"`
	Witness []string `json:"witness,omitempty"`
	Query   string   `json:"query,omitempty"` // kind of static query that decided it
	Known   bool     `json:"known_finding,omitempty"`
}

// Check accumulates the obligations of one property run.
type Check struct {
	P     *Program
	Prop  string
	Tier  string
	Obs   []Ob
	Notes []string
	funcs map[string]bool
	seen  map[string]int
}

func newCheck(P *Program, prop, tier string) *Check {
	return &Check{P: P, Prop: prop, Tier: tier, funcs: map[string]bool{}, seen: map[string]int{}}
}

func (c *Check) add(status, rule, key string, pos token.Pos, query, detail string, witness []string) {
	full := c.Prop + "." + rule
	id := full + " " + key
	if n := c.seen[id]; n > 0 {
		key = fmt.Sprintf("%s#%d", key, n+1)
	}
	c.seen[id]++
	c.Obs = append(c.Obs, Ob{Rule: full, Key: key, Status: status, Pos: c.P.Pos(pos), Detail: detail, Witness: witness, Query: query})
}

// Ok records a discharged obligation.
func (c *Check) Ok(rule, key string, pos token.Pos, query, format string, a ...interface{}) {
	c.add(stOK, rule, key, pos, query, fmt.Sprintf(format, a...), nil)
}

// Bad records a violated obligation.
func (c *Check) Bad(rule, key string, pos token.Pos, query string, witness []string, format string, a ...interface{}) {
	c.add(stViolated, rule, key, pos, query, fmt.Sprintf(format, a...), witness)
}

// Undecided records an obligation the rule could not decide (unknown shape / anchor missing).
func (c *Check) Undecided(rule, key string, pos token.Pos, format string, a ...interface{}) {
	c.add(stUndecided, rule, key, pos, "", fmt.Sprintf(format, a...), nil)
}

// Decide is Ok or Bad depending on cond.
func (c *Check) Decide(cond bool, rule, key string, pos token.Pos, query string, witness []string, okMsg, badMsg string) {
	if cond {
		c.Ok(rule, key, pos, query, "%s", okMsg)
	} else {
		c.Bad(rule, key, pos, query, witness, "%s", badMsg)
	}
}

// Fn resolves a function anchor; an unresolved anchor is an undecided obligation.
func (c *Check) Fn(rule, key string) *ssa.Function {
	fn := c.P.Fn(key)
	if fn == nil {
		c.Undecided(rule, "anchor:"+key, token.NoPos, "function %s not found in the current tree", key)
		return nil
	}
	c.funcs[key] = true
	return fn
}

// Touch notes that a function was analysed (for evidence).
func (c *Check) Touch(fn *ssa.Function) {
	if k := c.P.Key(fn); k != "" {
		c.funcs[k] = true
	}
}

// Min asserts a role-discovered instance count; a shortfall is undecided (a human must re-confirm the table).
func (c *Check) Min(rule, what string, got, want int) {
	if got < want {
		c.Undecided(rule, "instances:"+what, token.NoPos, "found %d instances of %s, hand-confirmed minimum is %d", got, what, want)
	} else {
		c.Notes = append(c.Notes, fmt.Sprintf("%s.%s: %d instances of %s (minimum %d)", c.Prop, rule, got, what, want))
	}
}

// ---------------------------------------------------------------------------------------------
// known findings

type KnownFinding struct {
	Property string `json:"property"`
	Rule     string `json:"rule"`
	Key      string `json:"key"`
	Status   string `json:"status"` // "open" or "fixed"
	What     string `json:"what"`
	History  string `json:"failing_history,omitempty"`
	Commit   string `json:"commit,omitempty"`
	Line     string `json:"line,omitempty"` // "fixed: property=<id> <commit> <what failed>"
}

type KnownFile struct {
	Comment  string         `json:"comment"`
	Findings []KnownFinding `json:"findings"`
}

func loadKnown(path string) (*KnownFile, error) {
	b, err := os.ReadFile(path)
	if err != nil {
		if os.IsNotExist(err) {
			return &KnownFile{}, nil
		}
		return nil, err
	}
	var k KnownFile
	if err := json.Unmarshal(b, &k); err != nil {
		return nil, fmt.Errorf("known findings: %w", err)
	}
	return &k, nil
}

func (k *KnownFile) match(o Ob) *KnownFinding {
	for i := range k.Findings {
		f := &k.Findings[i]
		if f.Status == "open" && f.Rule == o.Rule && f.Key == o.Key {
			return f
		}
	}
	return nil
}

// ---------------------------------------------------------------------------------------------
// evidence

type Evidence struct {
	PropertyID  string                 `json:"property_id"`
	Tier        string                 `json:"tier"`
	Seed        int                    `json:"seed"`
	Level       string                 `json:"level"`
	Coverage    map[string]interface{} `json:"coverage"`
	Assumptions []string               `json:"assumptions"`
	WallS       float64                `json:"wall_s"`
	Violations  int                    `json:"violations"`
}

func (c *Check) finish(def *PropDef, known *KnownFile, outDir string, wall float64, seed int, extra map[string]interface{}) int {
	sort.SliceStable(c.Obs, func(i, j int) bool {
		if c.Obs[i].Rule != c.Obs[j].Rule {
			return c.Obs[i].Rule < c.Obs[j].Rule
		}
		return c.Obs[i].Key < c.Obs[j].Key
	})
	var viol, und, disc, kf int
	queries := map[string]bool{}
	var newViol []Ob
	var knownLines []string
	for i := range c.Obs {
		o := &c.Obs[i]
		switch o.Status {
		case stOK:
			disc++
		case stUndecided:
			und++
		case stViolated:
			if f := known.match(*o); f != nil {
				o.Known = true
				kf++
				knownLines = append(knownLines, fmt.Sprintf("KNOWN-FINDING: property=%s %s %s (%s) %s", c.Prop, o.Rule, o.Key, o.Pos, f.What))
			} else {
				viol++
				newViol = append(newViol, *o)
			}
		}
		if o.Query != "" {
			queries[o.Rule+" "+o.Key] = true
		}
	}
	// samples: up to 8 obligations, violated first
	var samples []Ob
	for _, o := range c.Obs {
		if o.Status == stViolated && len(samples) < 4 {
			samples = append(samples, o)
		}
	}
	for _, o := range c.Obs {
		if o.Status == stOK && o.Query != "" && len(samples) < 8 {
			samples = append(samples, o)
		}
	}
	if len(samples) == 0 && len(c.Obs) > 0 {
		samples = append(samples, c.Obs[0])
	}
	var fl []string
	for k := range c.funcs {
		fl = append(fl, k)
	}
	sort.Strings(fl)
	var pk []string
	for r := range c.P.ByRel {
		pk = append(pk, r)
	}
	sort.Strings(pk)
	cov := map[string]interface{}{
		"explanation":          def.Explanation,
		"not_decided":          def.NotDecided,
		"obligations":          len(c.Obs),
		"discharged":           disc,
		"undecided":            und,
		"violated_new":         viol,
		"violated_known":       kf,
		"evaluations":          len(c.Obs),
		"distinct_nontrivial":  len(queries),
		"rule":                 "one obligation per (rule, construct key) discovered in the current /repo tree by role; non-trivial = decided by a CFG/dominance/call-graph/provenance/grammar query (field 'query'), distinct by rule+key",
		"samples":              samples,
		"all_obligations":      c.Obs,
		"checker_cmd":          fmt.Sprintf("bin/spycheck -prop %s -tier %s", c.Prop, c.Tier),
		"trusted_base":         []string{"go/types + go/ssa of golang.org/x/tools v0.29.0", "the rule tables in /verif/checker (read against the pinned tree)", "dependencies of the module (wire, bitcoin, logger, storage) are not analysed"},
		"functions_analysed":   fl,
		"functions_in_module":  len(c.P.AllSrc),
		"packages":             pk,
		"instance_counts":      c.Notes,
		"build_tags":           c.P.Tags,
		"exhaustive":           false,
		"known_findings_shown": knownLines,
		"helper_normalisation": c.P.Norm,
	}
	for k, v := range extra {
		cov[k] = v
	}
	ev := Evidence{PropertyID: c.Prop, Tier: c.Tier, Seed: seed, Level: "other", Coverage: cov,
		Assumptions: def.Assumptions, WallS: wall, Violations: viol}
	os.MkdirAll(outDir, 0o755)
	b, _ := json.MarshalIndent(ev, "", " ")
	if err := os.WriteFile(filepath.Join(outDir, c.Prop+".json"), b, 0o644); err != nil {
		fmt.Fprintf(os.Stderr, "cannot write evidence: %v\n", err)
		return 2
	}

	fmt.Printf("property %s tier=%s: %d obligations, %d discharged, %d known findings, %d new violations, %d undecided (%.1fs, %d functions analysed)\n",
		c.Prop, c.Tier, len(c.Obs), disc, kf, viol, und, wall, len(fl))
	for _, l := range knownLines {
		fmt.Println(l)
	}
	for _, o := range c.Obs {
		if o.Status == stUndecided {
			fmt.Printf("UNDECIDED property=%s %s %s: %s\n", c.Prop, o.Rule, o.Key, o.Detail)
		}
	}
	if viol > 0 {
		rdir := filepath.Join(outDir, "replay")
		os.MkdirAll(rdir, 0o755)
		for i, o := range newViol {
			rp := filepath.Join(rdir, fmt.Sprintf("%s-%d.json", c.Prop, i+1))
			rb, _ := json.MarshalIndent(map[string]interface{}{"property": c.Prop, "tier": c.Tier, "obligation": o}, "", " ")
			os.WriteFile(rp, rb, 0o644)
			fmt.Printf("  %s %s at %s: %s\n", o.Rule, o.Key, o.Pos, o.Detail)
			for _, w := range o.Witness {
				fmt.Printf("      %s\n", w)
			}
			abs, _ := filepath.Abs(rp)
			fmt.Printf("VIOLATION property=%s replay=%s\n", c.Prop, abs)
		}
		return 1
	}
	if und > 0 {
		return 2
	}
	return 0
}

// PropDef describes one property's static check.
type PropDef struct {
	ID          string
	Title       string
	Explanation string
	NotDecided  string
	Assumptions []string
	Tech        string
	Run         func(c *Check)
}

var registry = map[string]*PropDef{}

func register(d *PropDef) { registry[d.ID] = d }

func propIDs() []string {
	var ids []string
	for id := range registry {
		ids = append(ids, id)
	}
	sort.Strings(ids)
	return ids
}

func short(s string, n int) string {
	s = strings.ReplaceAll(s, "\n", " ")
	if len(s) > n {
		return s[:n] + "…"
	}
	return s
}
