package main

// thorough tier: configuration sweep + positive controls (recorded property-breaking changes applied
// to scratch copies of the current tree must be reported).
func thorough(def *PropDef, c *Check, repo, verif, tags string, extra map[string]interface{}) {
	sweepConfigs(def, c, repo, extra)
	runControls(def, c, repo, verif, tags, extra)
}
