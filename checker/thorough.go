package main

// thorough tier: configuration sweep + checker self-validation (fixtures, mutant catalogue).
func thorough(def *PropDef, c *Check, repo, verif, tags string, extra map[string]interface{}) {
	sweepConfigs(def, c, repo, extra)
}
