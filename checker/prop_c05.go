package main

import (
	"fmt"
	"go/token"
	"go/types"
	"strings"

	"golang.org/x/tools/go/ssa"
)

func init() {
	register(&PropDef{
		ID:    "C05",
		Title: "Conflicting unconfirmed transactions are flagged as double spends",
		Explanation: "Decides structural necessary conditions of conflict tracking in state.MemPool and its consumer: " +
			"(R1) the result of every append in the node's packages reaches an observable use (store, map update, return, call argument, read) – a spender list that is extended but never written back is a lost update; " +
			"(R2) no called function is void and effect-free; " +
			"(R3) hash kinds (TxID vs OutpointHash) are used consistently in the mempool: map keys, comparisons and list elements never mix kinds; " +
			"(R4) AddTransaction registers the tx under inputs[outpoint] exactly once per outpoint on every path, and removeTransaction updates or deletes the same keys; " +
			"(R5) no bool result that callers branch on is the same constant on every return path; " +
			"(R6) in processUnconfirmedTx the new tx is stored UnSafe (and not Safe) whenever AddTransaction reported conflicts, and for every conflict MarkUnsafe, FetchTxState, SaveTxState, HandleTxUpdate happen in that order for that conflict's txid; " +
			"(R7) all MemPool maps are accessed under the mempool mutex; " +
			"(R8) an outpoint's spender list is deleted only behind `registered list has at most one spender` (or `shrunk list is empty`); R6 also requires that no successful return of processUnconfirmedTx skips the conflicts loop once the mempool accepted the tx.",
		NotDecided:  "exactness of the outpoint index after every add/remove history as a value statement; that neither tx is later reported safe over time (see C07).",
		Assumptions: []string{"every bitcoin.Hash32 parameter of a MemPool method is a txid (frozen from the API)", "reading an appended slice counts as a use"},
		Tech:        "lost-update (dead append) dataflow, effect inference, unit-like kind inference for hashes, per-iteration event counting, constant-result/branch contradiction, guard edge cut-sets, lockset",
		Run:         runC05,
	})
}

// reachesUse: the value has an observable use (transitively through phis, slices, conversions and
// appends that use it as base).
func reachesUse(v ssa.Value, seen map[ssa.Value]bool) bool {
	if seen[v] {
		return false
	}
	seen[v] = true
	refs := v.Referrers()
	if refs == nil {
		return true
	}
	for _, r := range *refs {
		switch x := r.(type) {
		case *ssa.DebugRef:
			continue
		case *ssa.Phi, *ssa.Slice, *ssa.Convert, *ssa.ChangeType, *ssa.ChangeInterface, *ssa.MakeInterface:
			if reachesUse(x.(ssa.Value), seen) {
				return true
			}
		case *ssa.Call:
			if b, ok := x.Call.Value.(*ssa.Builtin); ok {
				switch b.Name() {
				case "append":
					if len(x.Call.Args) > 0 && x.Call.Args[0] == v {
						if reachesUse(x, seen) {
							return true
						}
						continue
					}
					return true
				case "len", "cap":
					continue
				}
			}
			return true
		default:
			return true
		}
	}
	return false
}

func hasEffect(fn *ssa.Function) bool {
	for _, b := range fn.Blocks {
		for _, in := range b.Instrs {
			switch x := in.(type) {
			case *ssa.Store:
				if !rootedInLocal(x.Addr) {
					return true
				}
			case *ssa.MapUpdate, *ssa.Send, *ssa.Go, *ssa.Defer, *ssa.Panic:
				return true
			case *ssa.Call:
				if _, ok := x.Call.Value.(*ssa.Builtin); ok {
					continue
				}
				return true
			}
		}
	}
	return false
}

func rootedInLocal(addr ssa.Value) bool {
	for {
		switch x := addr.(type) {
		case *ssa.Alloc:
			return !x.Heap || true
		case *ssa.FieldAddr:
			addr = x.X
		case *ssa.IndexAddr:
			// element of a local array or of a slice (slice elements may alias caller memory)
			if _, isArr := x.X.Type().Underlying().(*types.Pointer); isArr {
				addr = x.X
				continue
			}
			return false
		default:
			return false
		}
	}
}

// ---- kinds

type hashKind int

const (
	kUnknown hashKind = iota
	kTxID
	kOutpoint
	kMixed
)

func (k hashKind) String() string {
	return [...]string{"unknown", "TxID", "OutpointHash", "mixed"}[k]
}

type kindInfer struct {
	c                     *Check
	txs, inputs, requests *types.Var
	memo                  map[ssa.Value]hashKind
	active                map[ssa.Value]bool
}

func joinKind(a, b hashKind) hashKind {
	if a == kUnknown {
		return b
	}
	if b == kUnknown || a == b {
		return a
	}
	return kMixed
}

func isHash32(t types.Type) bool {
	if p, ok := t.(*types.Pointer); ok {
		t = p.Elem()
	}
	n, ok := t.(*types.Named)
	return ok && n.Obj().Name() == "Hash32" && n.Obj().Pkg() != nil && strings.HasSuffix(n.Obj().Pkg().Path(), "pkg/bitcoin")
}

func (ki *kindInfer) mapField(v ssa.Value) *types.Var {
	for _, f := range []*types.Var{ki.txs, ki.inputs, ki.requests} {
		if loadOfField(v, f) != nil {
			return f
		}
	}
	return nil
}

func (ki *kindInfer) keyKind(f *types.Var) hashKind {
	if f == ki.inputs {
		return kOutpoint
	}
	return kTxID
}

func (ki *kindInfer) kind(v ssa.Value) hashKind {
	if k, ok := ki.memo[v]; ok {
		return k
	}
	if ki.active[v] {
		return kUnknown
	}
	ki.active[v] = true
	defer delete(ki.active, v)
	k := ki.kind1(v)
	ki.memo[v] = k
	return k
}

func (ki *kindInfer) kind1(v ssa.Value) hashKind {
	switch x := v.(type) {
	case *ssa.Call:
		if o := calleeObj(&x.Call); o != nil && strings.HasSuffix(o.FullName(), "wire.MsgTx).TxHash") {
			return kTxID
		} else if o != nil && strings.HasSuffix(o.FullName(), "wire.OutPoint).OutpointHash") {
			return kOutpoint
		}
		if b, ok := x.Call.Value.(*ssa.Builtin); ok && b.Name() == "append" {
			k := kUnknown
			for _, a := range x.Call.Args {
				k = joinKind(k, ki.kind(a))
			}
			return k
		}
		return kUnknown
	case *ssa.Parameter:
		if isHash32(x.Type()) {
			if r := x.Parent().Signature.Recv(); r != nil && strings.HasSuffix(r.Type().String(), "state.MemPool") {
				return kTxID
			}
		}
		return kUnknown
	case *ssa.UnOp:
		if x.Op == token.MUL {
			if a, ok := x.X.(*ssa.Alloc); ok {
				k := kUnknown
				for _, ref := range *a.Referrers() {
					if st, ok := ref.(*ssa.Store); ok && st.Addr == ssa.Value(a) {
						k = joinKind(k, ki.kind(st.Val))
					}
				}
				return k
			}
			return ki.kind(x.X)
		}
		return ki.kind(x.X)
	case *ssa.Alloc:
		k := kUnknown
		for _, ref := range *x.Referrers() {
			switch r := ref.(type) {
			case *ssa.Store:
				if r.Addr == ssa.Value(x) {
					k = joinKind(k, ki.kind(r.Val))
				}
			case *ssa.IndexAddr:
				if r.X == ssa.Value(x) {
					for _, r2 := range *r.Referrers() {
						if st, ok := r2.(*ssa.Store); ok && st.Addr == ssa.Value(r) {
							k = joinKind(k, ki.kind(st.Val))
						}
					}
				}
			}
		}
		return k
	case *ssa.Phi:
		k := kUnknown
		for _, e := range x.Edges {
			k = joinKind(k, ki.kind(e))
		}
		return k
	case *ssa.Slice:
		return ki.kind(x.X)
	case *ssa.Convert:
		return ki.kind(x.X)
	case *ssa.ChangeType:
		return ki.kind(x.X)
	case *ssa.IndexAddr:
		return ki.kind(x.X)
	case *ssa.Index:
		return ki.kind(x.X)
	case *ssa.Lookup:
		// element lists of the outpoint index hold txids
		if ki.mapField(x.X) == ki.inputs {
			return kTxID
		}
		return kUnknown
	case *ssa.Extract:
		if lk, ok := x.Tuple.(*ssa.Lookup); ok && x.Index == 0 {
			return ki.kind(lk)
		}
		if nx, ok := x.Tuple.(*ssa.Next); ok {
			if rg, ok := nx.Iter.(*ssa.Range); ok {
				if f := ki.mapField(rg.X); f != nil {
					if x.Index == 1 {
						return ki.keyKind(f)
					}
					if x.Index == 2 && f == ki.inputs {
						return kTxID
					}
				}
			}
		}
		return kUnknown
	}
	return kUnknown
}

func runC05(c *Check) {
	scope := []string{"state", "storage", "spynode", "handlers"}

	// ---- R1 lost updates
	nApp := 0
	for _, fn := range c.P.FuncsIn(scope...) {
		for _, b := range fn.Blocks {
			for _, in := range b.Instrs {
				call, ok := in.(*ssa.Call)
				if !ok || builtinCall(call, "append") == nil {
					continue
				}
				nApp++
				if reachesUse(call, map[ssa.Value]bool{}) {
					continue
				}
				c.Touch(fn)
				c.Bad("R1", fmt.Sprintf("%s#dead-append", c.P.Key(fn)), call.Pos(), "lost-update dataflow", nil,
					"the result of this append is never stored, returned, passed on or read: the extended slice is lost (in the mempool this is how a second spender of an outpoint goes unrecorded)")
			}
		}
	}
	c.Min("R1", "append sites in state/storage/spynode/handlers", nApp, 40)
	if !c.hasBad("R1") {
		c.Ok("R1", "all-appends-used", token.NoPos, "lost-update dataflow", "%d append results all reach a use", nApp)
	}

	// ---- R2 void effect-free callee
	nVoid := 0
	for _, fn := range c.P.FuncsIn(scope...) {
		if fn.Parent() != nil || fn.Signature.Results().Len() != 0 || len(fn.Blocks) == 0 {
			continue
		}
		nVoid++
		if hasEffect(fn) {
			continue
		}
		obj, _ := fn.Object().(*types.Func)
		if obj == nil {
			continue
		}
		callers := c.P.CallersOf(shortName(baselineName(obj)))
		if len(callers) == 0 {
			continue
		}
		c.Touch(fn)
		c.Bad("R2", c.P.Key(fn)+"#void-no-effect", fn.Pos(), "effect inference", []string{"called at " + c.P.Pos(callers[0].Pos())},
			"%s returns nothing and has no observable effect (no store through a pointer, map update, send or call), yet it is called: whatever it computes is discarded", c.P.Key(fn))
	}
	c.Min("R2", "void functions examined", nVoid, 40)
	if !c.hasBad("R2") {
		c.Ok("R2", "all-void-functions-have-effects", token.NoPos, "effect inference", "%d void functions examined", nVoid)
	}

	// ---- R3 kinds in the mempool
	ki := &kindInfer{c: c, memo: map[ssa.Value]hashKind{}, active: map[ssa.Value]bool{},
		txs: c.P.Field("state", "MemPool", "txs"), inputs: c.P.Field("state", "MemPool", "inputs"), requests: c.P.Field("state", "MemPool", "requests")}
	if ki.txs == nil || ki.inputs == nil || ki.requests == nil {
		c.Undecided("R3", "anchor:state.MemPool maps", token.NoPos, "txs/inputs/requests not found")
		return
	}
	var mpFns []*ssa.Function
	for _, fn := range c.P.FuncsIn("state") {
		if r := fn.Signature.Recv(); r != nil && strings.HasSuffix(r.Type().String(), "state.MemPool") {
			mpFns = append(mpFns, fn)
		}
	}
	nKey, nCmp, nEl := 0, 0, 0
	for _, fn := range mpFns {
		c.Touch(fn)
		for _, b := range fn.Blocks {
			for _, in := range b.Instrs {
				switch x := in.(type) {
				case *ssa.Lookup:
					if f := ki.mapField(x.X); f != nil {
						nKey++
						k := ki.kind(x.Index)
						c.kindDecide(k, ki.keyKind(f), "R3", fmt.Sprintf("%s#key-of-%s", c.P.Key(fn), f.Name()), x.Pos(), "lookup key")
					}
				case *ssa.MapUpdate:
					if f := ki.mapField(x.Map); f != nil {
						nKey++
						k := ki.kind(x.Key)
						c.kindDecide(k, ki.keyKind(f), "R3", fmt.Sprintf("%s#key-of-%s", c.P.Key(fn), f.Name()), x.Pos(), "map update key")
						if f == ki.inputs {
							nEl++
							ek := ki.kind(x.Value)
							c.kindDecide(ek, kTxID, "R3", fmt.Sprintf("%s#elements-of-inputs", c.P.Key(fn)), x.Pos(), "spender list element")
						}
					}
				case *ssa.Call:
					if bi, ok := x.Call.Value.(*ssa.Builtin); ok && bi.Name() == "delete" && len(x.Call.Args) == 2 {
						if f := ki.mapField(x.Call.Args[0]); f != nil {
							nKey++
							k := ki.kind(x.Call.Args[1])
							c.kindDecide(k, ki.keyKind(f), "R3", fmt.Sprintf("%s#key-of-%s", c.P.Key(fn), f.Name()), x.Pos(), "delete key")
						}
						continue
					}
					if o := calleeObj(&x.Call); o != nil && o.Name() == "Equal" && len(x.Call.Args) == 2 && isHash32(x.Call.Args[0].Type()) {
						a, b2 := ki.kind(x.Call.Args[0]), ki.kind(x.Call.Args[1])
						if a != kUnknown && b2 != kUnknown {
							nCmp++
							c.Decide(a == b2, "R3", fmt.Sprintf("%s#compare", c.P.Key(fn)), x.Pos(), "kind inference", nil,
								"comparison of two "+a.String()+" values", "a "+a.String()+" is compared with a "+b2.String()+": the comparison can never match the intended entry")
						}
					}
				case *ssa.BinOp:
					if (x.Op == token.EQL || x.Op == token.NEQ) && isHash32(x.X.Type()) {
						a, b2 := ki.kind(x.X), ki.kind(x.Y)
						if a != kUnknown && b2 != kUnknown {
							nCmp++
							c.Decide(a == b2, "R3", fmt.Sprintf("%s#compare", c.P.Key(fn)), x.Pos(), "kind inference", nil,
								"comparison of two "+a.String()+" values", "a "+a.String()+" is compared with a "+b2.String())
						}
					}
				}
			}
		}
	}
	c.Min("R3", "mempool map key uses", nKey, 12)
	c.Min("R3", "spender-list element stores", nEl, 2)

	// ---- R4 symmetric registration
	outPoints := c.P.Field("state", "memPoolTx", "outPoints")
	for _, spec := range []struct {
		key string
		add bool
	}{{"state.(*MemPool).AddTransaction", true}, {"state.(*MemPool).removeTransaction", false}} {
		fn := c.Fn("R4", spec.key)
		if fn == nil || outPoints == nil {
			continue
		}
		loops := loopsRangingOver(fn, func(s ssa.Value) bool { return mentionsField(s, outPoints) })
		if len(loops) == 0 {
			c.Bad("R4", spec.key+"#walks-outpoints", fn.Pos(), "cfg-structure", nil, "no loop over the tx's outpoints found: the outpoint index cannot be maintained per input")
			continue
		}
		h := loops[0]
		isUpd := func(in ssa.Instruction) int {
			switch x := in.(type) {
			case *ssa.MapUpdate:
				if ki.mapField(x.Map) == ki.inputs {
					return 1
				}
			case *ssa.Call:
				if bi, ok := x.Call.Value.(*ssa.Builtin); ok && bi.Name() == "delete" && len(x.Call.Args) == 2 && ki.mapField(x.Call.Args[0]) == ki.inputs {
					return 1
				}
			}
			return 0
		}
		counts := iterationCounts(h, isUpd)
		if spec.add {
			ok := len(counts) == 1 && counts[1] != nil
			var wit []string
			for n, p := range counts {
				if n != 1 {
					wit = append([]string{fmt.Sprintf("an iteration path with %d updates of inputs[outpoint]:", n)}, pathWitness(fn, p)...)
				}
			}
			c.Decide(ok, "R4", spec.key+"#registers-each-outpoint-once", lastPos(h), "per-iteration event count", wit,
				"every outpoint of the tx is registered in inputs exactly once on every path", "some path through the loop over the tx's outpoints does not register the tx under inputs[outpoint] (or does so twice)")
		} else {
			hasUpd, hasDel := false, false
			for b := range loopBody(h) {
				for _, in := range b.Instrs {
					switch x := in.(type) {
					case *ssa.MapUpdate:
						if ki.mapField(x.Map) == ki.inputs {
							hasUpd = true
						}
					case *ssa.Call:
						if bi, ok := x.Call.Value.(*ssa.Builtin); ok && bi.Name() == "delete" && len(x.Call.Args) == 2 && ki.mapField(x.Call.Args[0]) == ki.inputs {
							hasDel = true
						}
					}
				}
			}
			max := 0
			for n := range counts {
				if n > max {
					max = n
				}
			}
			c.Decide(hasUpd && hasDel && max == 1, "R4", spec.key+"#unregisters-each-outpoint", lastPos(h), "per-iteration event count", nil,
				"for every outpoint the spender list is either rewritten without the tx or deleted", "removal does not both shrink shared spender lists (map update) and delete exhausted ones for each outpoint of the tx")
		}
	}

	// ---- R5 constant result contradiction
	n5 := 0
	for _, fn := range c.P.FuncsIn("state", "storage") {
		if fn.Parent() != nil {
			continue
		}
		res := fn.Signature.Results()
		for i := 0; i < res.Len(); i++ {
			bt, ok := res.At(i).Type().Underlying().(*types.Basic)
			if !ok || bt.Kind() != types.Bool {
				continue
			}
			n5++
			var cst *bool
			constant := true
			rets := returnsOf(fn)
			if len(rets) < 2 {
				continue
			}
			for _, r := range rets {
				if len(resultValues(r, i)) != 1 {
					// a named result read back from its slot with stores on several paths (or none: the zero
					// value): not a constant of this return
					constant = false
					continue
				}
				if u, ok := r.Results[i].(*ssa.UnOp); ok {
					if a, isAlloc := u.X.(*ssa.Alloc); isAlloc {
						inBlock := false
						for _, in := range r.Block().Instrs {
							if st, ok := in.(*ssa.Store); ok && st.Addr == ssa.Value(a) {
								inBlock = true
							}
						}
						if !inBlock {
							constant = false
							continue
						}
					}
				}
				for _, v := range resultValues(r, i) {
					b, isC := isConstBool(v)
					if !isC {
						constant = false
					} else if cst == nil {
						bb := b
						cst = &bb
					} else if *cst != b {
						constant = false
					}
				}
			}
			if !constant || cst == nil {
				continue
			}
			obj, _ := fn.Object().(*types.Func)
			if obj == nil {
				continue
			}
			for _, s := range c.P.CallersOf(shortName(baselineName(obj))) {
				call := s.Value()
				if call == nil || c.P.isTestFile(s.Pos()) {
					continue
				}
				branched := false
				for _, b := range s.Fn.Blocks {
					if iff, ok := lastIf(b); ok {
						cd := normCond(iff.Cond)
						if cd.Call == call && (cd.Idx == i || (cd.Idx < 0 && res.Len() == 1)) {
							branched = true
						}
					}
				}
				if branched {
					c.Touch(fn)
					c.Bad("R5", fmt.Sprintf("%s#result%d-constant", c.P.Key(fn), i), fn.Pos(), "constant-result contradiction",
						[]string{"branched on at " + c.P.Pos(s.Pos())},
						"result #%d of %s is %t on every return path, but %s branches on it: the other branch is dead and the function cannot report what its comment says", i, c.P.Key(fn), *cst, c.P.Key(s.Fn))
				}
			}
		}
	}
	c.Min("R5", "bool results examined", n5, 15)
	if !c.hasBad("R5") {
		c.Ok("R5", "no-constant-bool-result-branched-on", token.NoPos, "constant-result contradiction", "%d bool results examined", n5)
	}

	// ---- R6 consumer of conflicts
	ta := c.txAnchors("R6")
	if fn := c.Fn("R6", "spynode.(*Node).processUnconfirmedTx"); fn != nil && ta != nil {
		adds := callsTo(fn, "(*state.MemPool).AddTransaction")
		if len(adds) != 1 {
			c.Undecided("R6", "anchor:AddTransaction call", fn.Pos(), "expected exactly one AddTransaction call, found %d", len(adds))
		} else {
			addCall := adds[0].Value()
			isConflicts := func(v ssa.Value) bool {
				e, ok := v.(*ssa.Extract)
				return ok && e.Tuple == ssa.Value(addCall) && e.Index == 0
			}
			hasConf := lowerBoundEdge(func(v ssa.Value) bool { x := lenOf(v); return x != nil && isConflicts(x) }, 1)
			// (a) the delivered state is unsafe when there are conflicts
			var handleTx []Site = c.handlerInvokes(fn, "HandleTx")
			for _, h := range handleTx {
				obj := h.CC.Args[len(h.CC.Args)-1]
				var unsafeStores, safeFalse []ssa.Instruction
				selfOr := map[ssa.Instruction]ssa.Value{}
				noConf := upperBoundEdge(func(v ssa.Value) bool { x := lenOf(v); return x != nil && isConflicts(x) }, 0)
				for _, s := range ta.stateStores(fn) {
					if !sameObject(s.Obj, obj) {
						continue
					}
					if cnd := selfOrCond(s.St); cnd != nil && s.Field == ta.unsafe {
						// `UnSafe = UnSafe || c` is `if c { UnSafe = true }`
						unsafeStores = append(unsafeStores, s.St)
						selfOr[s.St] = cnd
						continue
					}
					if b, isC := isConstBool(s.St.Val); isC {
						if s.Field == ta.unsafe && b {
							unsafeStores = append(unsafeStores, s.St)
						}
						if s.Field == ta.safe && !b {
							safeFalse = append(safeFalse, s.St)
						}
					}
				}
				// every path from the "conflicts non-empty" edge nearest to the save must set UnSafe
				okU := len(unsafeStores) > 0
				for _, st := range unsafeStores {
					if cnd, has := selfOr[st]; has {
						if !hasConf(&ssa.If{Cond: cnd}, 0) {
							okU = false
						}
						continue
					}
					if ok, _ := mustPass(st, hasConf); !ok {
						okU = false
					}
				}
				// must-pass-through: HandleTx unreachable when conflicts non-empty unless an UnSafe=true store executed
				okThrough := false
				for st, cnd := range selfOr {
					// the unconditional `UnSafe = UnSafe || c` with c exactly "there are conflicts", on every path to the delivery
					if hasConf(&ssa.If{Cond: cnd}, 0) && noConf(&ssa.If{Cond: cnd}, 1) {
						if pre, _ := alwaysPrecededBy(h.Instr, []ssa.Instruction{st}); pre {
							okThrough = true
						}
					}
				}
				if !okThrough {
					okThrough = c.conflictImpliesStore(fn, h.Instr, hasConf, unsafeStores)
				}
				c.Decide(okU && okThrough, "R6", "spynode.(*Node).processUnconfirmedTx#new-tx-unsafe-iff-conflicts", h.Pos(), "edge-cutset", nil,
					"the delivered state gets UnSafe=true exactly on the paths where AddTransaction reported conflicts",
					"a new tx with conflicts can be delivered without UnSafe=true (or UnSafe is set without conflicts)")
				okS := c.conflictImpliesStore(fn, h.Instr, hasConf, safeFalse)
				c.Decide(okS, "R6", "spynode.(*Node).processUnconfirmedTx#new-tx-not-safe-when-conflicts", h.Pos(), "edge-cutset", nil,
					"Safe is cleared on the conflict paths", "a new tx with conflicts can be delivered with Safe still set")
			}
			c.Min("R6", "HandleTx calls in processUnconfirmedTx", len(handleTx), 1)

			// (b) per-conflict sequence
			loops := loopsRangingOver(fn, isConflicts)
			if len(loops) == 0 {
				c.Bad("R6", "spynode.(*Node).processUnconfirmedTx#walks-conflicts", fn.Pos(), "cfg-structure", nil, "the conflicts reported by AddTransaction are never iterated: earlier spenders are not flagged")
			} else {
				h := loops[0]
				elem := func(v ssa.Value) bool {
					for _, x := range rootsAll(v) {
						if ia, ok := x.(*ssa.IndexAddr); ok && isConflicts(ia.X) {
							return true
						}
					}
					return false
				}
				var mark, fetch, save, upd []Site
				for _, s := range sitesIn(fn) {
					if !inLoop(s.Instr, h) {
						continue
					}
					switch calleeShort(s.CC) {
					case "(*storage.TxRepository).MarkUnsafe":
						mark = append(mark, s)
					case "storage.FetchTxState":
						fetch = append(fetch, s)
					case "storage.SaveTxState":
						save = append(save, s)
					}
				}
				for _, s := range c.handlerInvokes(fn, "HandleTxUpdate") {
					if inLoop(s.Instr, h) {
						upd = append(upd, s)
					}
				}
				c.Decide(len(mark) == 1 && elem(mark[0].Args()[len(mark[0].Args())-1]), "R6", "spynode.(*Node).processUnconfirmedTx#conflict-marked-unsafe", lastPos(h), "provenance", nil,
					"MarkUnsafe is called with the conflict's txid", "the loop over conflicts does not call MarkUnsafe with the loop element")
				c.Decide(len(fetch) == 1 && elem(fetch[0].Args()[2]), "R6", "spynode.(*Node).processUnconfirmedTx#conflict-state-fetched", lastPos(h), "provenance", nil,
					"the conflict's stored state is fetched by the conflict's txid", "the state fetched in the conflicts loop is not keyed by the loop element")
				okOrder := len(mark) == 1 && len(fetch) == 1 && len(save) == 1 && len(upd) >= 1
				if okOrder {
					for _, u := range upd {
						ok1, _ := mustPass(u.Instr, errNilEdge(sameCall(save[0].Value()), true))
						ok2, _ := mustPass(u.Instr, errNilEdge(sameCall(fetch[0].Value()), true))
						ok3, _ := mustPass(u.Instr, condEdge(func(cd Cond) (bool, bool) {
							if cd.Call == mark[0].Value() && cd.Idx == 0 {
								return true, true
							}
							return false, false
						}))
						// the update's TxID derives from the fetched state or the element
						okID := false
						if al, isAl := u.CC.Args[len(u.CC.Args)-1].(*ssa.Alloc); isAl {
							for _, ref := range *al.Referrers() {
								if fa, isFA := ref.(*ssa.FieldAddr); isFA && fieldOfAddr(fa) == ta.updTxID {
									for _, r2 := range *fa.Referrers() {
										if st, isSt := r2.(*ssa.Store); isSt {
											if elem(st.Val) || derivesFromValue(st.Val, fetch[0].Value()) {
												okID = true
											}
										}
									}
								}
							}
						}
						okOrder = okOrder && ok1 && ok2 && ok3 && okID
					}
				}
				c.Decide(okOrder, "R6", "spynode.(*Node).processUnconfirmedTx#conflict-update-sequence", lastPos(h), "edge-cutset+provenance", nil,
					"per conflict: MarkUnsafe==true, FetchTxState ok, SaveTxState ok, then HandleTxUpdate carrying that tx's id",
					"the per-conflict sequence MarkUnsafe → FetchTxState → SaveTxState → HandleTxUpdate(id of the conflicting tx) is broken")
				// flags on the conflicting tx
				var uT, sF []ssa.Instruction
				for _, s := range ta.stateStores(fn) {
					if !inLoop(s.St, h) {
						continue
					}
					if b, isC := isConstBool(s.St.Val); isC {
						if s.Field == ta.unsafe && b {
							uT = append(uT, s.St)
						}
						if s.Field == ta.safe && !b {
							sF = append(sF, s.St)
						}
					}
				}
				okF := len(save) == 1
				if okF {
					o1, _ := alwaysPrecededBy(save[0].Instr, uT)
					o2, _ := alwaysPrecededBy(save[0].Instr, sF)
					okF = o1 && o2
				}
				c.Decide(okF, "R6", "spynode.(*Node).processUnconfirmedTx#conflict-flags", lastPos(h), "path-typestate", nil,
					"the earlier spender is saved with UnSafe=true and Safe=false", "the earlier spender's state is saved without UnSafe=true and Safe=false")
			}
		}
	}

	// ---- R8 / R6c (added after seeded round 2)
	c.ruleInputsDeleteGuard("R8")
	c.ruleConflictsAlwaysHandled("R6")
	c.ruleLoopVisitsAll("R9", "spynode.(*Node).processUnconfirmedTx", func(v ssa.Value) bool {
		return derivesFromCall(v, "(*state.MemPool).AddTransaction") != nil
	}, "conflict", "the loop over the txs conflicting with a new unconfirmed tx can be left early without an error: the conflicts after that point are never marked / reported unsafe")
	c.ruleAccumulatorSelfAppend("R10", "state.(*MemPool).AddTransaction", "state.appendIfNotContained")
	c.ruleSpliceRemovesOne("R11", 1, "state")
	c.ruleNewEntriesRegistered("R12")
	c.ruleAccumulatorNeverAliasesIndex("R13")
	c.ruleEveryInputRegistered("R14")
	c.ruleAddingNeverEvicts("R15")
	c.ruleSpenderListExtendsItsOwn("R16")
	c.ruleConflictsAccumulatedForEveryInput("R17")
	c.rulePopulatedBeforeRegistering("R18")
	c.ruleConflictingConsultsEveryInput("R19")
	c.ruleMergeReturnsOwnList("R20")
	c.ruleProcessedTxRegistered("R21")

	// ---- R7 lockset
	c.lockset("R7", "state", "MemPool", "mutex", c.structFields("state", "MemPool", "mutex"), []string{"state"}, nil, 20)
}

// conflictImpliesStore: the sink is unreachable from the true edge of the last conflict test
// without executing one of stores. Concretely: for every If edge matching hasConf, the successor
// cannot reach the sink while avoiding the store blocks.
func (c *Check) conflictImpliesStore(fn *ssa.Function, sink ssa.Instruction, hasConf EdgePred, stores []ssa.Instruction) bool {
	if len(stores) == 0 {
		return false
	}
	cut := map[*ssa.BasicBlock]bool{}
	for _, s := range stores {
		cut[s.Block()] = true
	}
	// the last conflict test before the sink: an If with a hasConf edge from which the sink is reachable
	found := false
	okAll := true
	for _, b := range fn.Blocks {
		iff, ok := lastIf(b)
		if !ok {
			continue
		}
		for br := 0; br < 2; br++ {
			if !hasConf(iff, br) {
				continue
			}
			succ := b.Succs[br]
			if !reachable(succ, sink.Block()) {
				continue
			}
			// only consider tests that dominate one of the stores (the test that decides the flag)
			dominatesStore := false
			for _, s := range stores {
				if succ.Dominates(s.Block()) {
					dominatesStore = true
				}
			}
			if !dominatesStore {
				continue
			}
			found = true
			if cut[succ] {
				continue
			}
			if r, _ := reachAvoid2(succ, sink.Block(), nil, cut); r {
				okAll = false
			}
		}
	}
	return found && okAll
}

func (c *Check) kindDecide(got, want hashKind, rule, key string, pos token.Pos, what string) {
	if got == kUnknown {
		c.Ok(rule, key, pos, "kind inference", "%s of undetermined kind (not a txid/outpoint-hash source) – accepted", what)
		return
	}
	c.Decide(got == want, rule, key, pos, "kind inference", nil,
		what+" has kind "+want.String(), what+" has kind "+got.String()+" but the map is keyed / filled by "+want.String())
}

func (c *Check) hasBad(rule string) bool {
	for _, o := range c.Obs {
		if o.Rule == c.Prop+"."+rule && o.Status == stViolated {
			return true
		}
	}
	return false
}
