package main

import (
	"fmt"
	"go/types"
	"sort"
	"strings"

	"golang.org/x/tools/go/ssa"
)

func init() {
	register(&PropDef{
		ID:    "C12",
		Title: "Untrusted peers cannot alter the chain, vouch for transactions or stall syncing",
		Explanation: "Decides the ownership/guard skeleton of non-interference: " +
			"(R1) no function reachable (static calls, closures, module interface dispatch) from the handler set registered by NewUntrustedMessageHandlers or from any method of UntrustedNode may call a State-mutating method of the trusted *state.State, a chain-mutating BlockRepository method, any TxRepository/ReorgRepository method, SaveTxState, or a client.Handler callback; " +
			"(R2) every handlers.TxData built in that closure has Trusted and Safe constant false; (R3) every MemPool.AddRequest there passes trusted=false; " +
			"(R4) the untrusted inv/tx handlers touch the mempool, tracker and tx channel only behind IsReady()==true of the untrusted state; " +
			"(R5) SetVerified/MarkVerified is called only by the untrusted headers handler, behind: non-empty header list, first header known (Height exists), the height-window test, and a per-header linkage test whose failing edge cannot reach it and whose running hash starts at the known first header.",
		NotDecided:  "non-interference as a two-run relation over generated histories; that a verified peer's transactions are eventually vouched; denial of service by volume.",
		Assumptions: []string{"the handler table is only consumed by UntrustedNode.handleMessage", "function values not created in the closure are not followed"},
		Tech:        "forbidden-sink reachability over the module call graph rooted at the untrusted handler table, constant provenance of trust flags, guard edge cut-sets",
		Run:         runC12,
	})
}

// untrustedRoots returns the Handle methods of the concrete types stored by
// NewUntrustedMessageHandlers plus every method of *UntrustedNode.
func (c *Check) untrustedRoots(rule string) ([]*ssa.Function, map[*ssa.Function]bool) {
	ctor := c.Fn(rule, "handlers.NewUntrustedMessageHandlers")
	if ctor == nil {
		return nil, nil
	}
	mh := c.P.NamedType("handlers", "MessageHandler")
	if mh == nil {
		c.Undecided(rule, "anchor:handlers.MessageHandler", 0, "interface not found")
		return nil, nil
	}
	handleSet := map[*ssa.Function]bool{}
	var rootsF []*ssa.Function
	for _, b := range ctor.Blocks {
		for _, in := range b.Instrs {
			mi, ok := in.(*ssa.MakeInterface)
			if !ok || !types.Identical(mi.Type(), mh) {
				continue
			}
			ms := c.P.SSA.MethodSets.MethodSet(mi.X.Type())
			sel := ms.Lookup(nil, "Handle")
			if sel == nil {
				continue
			}
			if f := c.P.SSA.MethodValue(sel); f != nil && !handleSet[f] {
				handleSet[f] = true
				rootsF = append(rootsF, f)
			}
		}
	}
	for _, fn := range c.P.FuncsIn("spynode") {
		if fn.Parent() != nil {
			continue
		}
		if r := fn.Signature.Recv(); r != nil && strings.HasSuffix(r.Type().String(), "spynode.UntrustedNode") {
			rootsF = append(rootsF, fn)
		}
	}
	// the constructor itself and the handler constructors run on the untrusted connection's behalf too
	rootsF = append(rootsF, ctor)
	sort.Slice(rootsF, func(i, j int) bool { return c.P.Key(rootsF[i]) < c.P.Key(rootsF[j]) })
	return rootsF, handleSet
}

// mutatingMethods returns the methods of rel.typ that (transitively within the type) store to its fields.
func (c *Check) mutatingMethods(rel, typ string) map[*ssa.Function]bool {
	fields := c.structFields(rel, typ)
	// include element types reachable from fields for State (requestedBlock)
	if rel == "state" && typ == "State" {
		for f := range c.structFields("state", "requestedBlock") {
			fields[f] = true
		}
	}
	direct := map[*ssa.Function]bool{}
	var methods []*ssa.Function
	for _, fn := range c.P.FuncsIn(rel) {
		r := fn.Signature.Recv()
		if r == nil || fn.Parent() != nil {
			continue
		}
		if !strings.HasSuffix(strings.TrimPrefix(r.Type().String(), "*"), "/"+relSuffix(rel)+"."+typ) {
			continue
		}
		methods = append(methods, fn)
		for _, a := range fieldAccesses(fn, fields) {
			if a.Write {
				if fa := accessAddr(a); fa != nil && isFreshObject(fa) {
					continue
				}
				direct[fn] = true
			}
		}
	}
	// propagate through same-type helper calls
	changed := true
	for changed {
		changed = false
		for _, m := range methods {
			if direct[m] {
				continue
			}
			for _, s := range sitesIn(m) {
				if f := s.CC.StaticCallee(); f != nil && direct[f] {
					direct[m] = true
					changed = true
				}
			}
		}
	}
	return direct
}

func relSuffix(rel string) string {
	if i := strings.LastIndex(rel, "/"); i >= 0 {
		return rel[i+1:]
	}
	return rel
}

var extraC12 func(c *Check)

func runC12(c *Check) {
	rootsF, handleSet := c.untrustedRoots("R1")
	if rootsF == nil {
		return
	}
	c.Min("R1", "handler types registered in the untrusted table", len(handleSet), 7)

	g := newCallGraph(c.P)
	mhHandle := c.P.Method("handlers", "MessageHandler", "Handle")
	g.Resolve = func(from *ssa.Function, cc *ssa.CallCommon) ([]*ssa.Function, bool) {
		if cc.Method == mhHandle {
			var fs []*ssa.Function
			for f := range handleSet {
				fs = append(fs, f)
			}
			sort.Slice(fs, func(i, j int) bool { return c.P.Key(fs[i]) < c.P.Key(fs[j]) })
			return fs, true
		}
		return nil, false
	}

	// forbidden sinks
	sinks := map[*ssa.Function]string{}
	for f := range c.mutatingMethods("state", "State") {
		sinks[f] = "mutates the trusted sync state"
	}
	for _, n := range []string{"Add", "Revert", "Save", "Load", "Initialize"} {
		if f := c.P.Fn("storage.(*BlockRepository)." + n); f != nil {
			sinks[f] = "mutates the chain store"
		}
	}
	for _, fn := range c.P.FuncsIn("storage") {
		if r := fn.Signature.Recv(); r != nil && fn.Parent() == nil {
			rt := r.Type().String()
			if strings.HasSuffix(rt, "storage.TxRepository") || strings.HasSuffix(rt, "storage.ReorgRepository") {
				sinks[fn] = "touches the transaction/reorg repository"
			}
		}
	}
	if f := c.P.Fn("storage.SaveTxState"); f != nil {
		sinks[f] = "persists a transaction state"
	}
	c.Min("R1", "forbidden sink functions", len(sinks), 30)

	// stop at sinks (report them) – the closure is computed without descending into sinks
	pred := g.Reach(rootsF, func(f *ssa.Function) bool { _, bad := sinks[f]; return bad || !inModule(pkgOf(f)) })
	var reached []*ssa.Function
	for f := range pred {
		reached = append(reached, f)
	}
	sort.Slice(reached, func(i, j int) bool { return c.P.Key(reached[i]) < c.P.Key(reached[j]) })
	nBad := 0
	for _, f := range reached {
		c.Touch(f)
		if why, bad := sinks[f]; bad {
			nBad++
			path := g.PathTo(pred, f)
			c.Bad("R1", "reaches:"+c.P.Key(f), f.Pos(), "call-graph reachability", path,
				"code driven by an untrusted connection reaches %s, which %s (root %s)", c.P.Key(f), why, path[0])
		}
	}
	// client.Handler callbacks invoked inside the closure
	hIface := c.P.NamedType("client", "Handler")
	nInv := 0
	for _, f := range reached {
		if f.Blocks == nil {
			continue
		}
		for _, s := range sitesIn(f) {
			if s.CC.IsInvoke() && hIface != nil && types.Identical(s.CC.Value.Type(), hIface) {
				nInv++
				c.Bad("R1", fmt.Sprintf("invokes-handler:%s.%s", c.P.Key(f), s.CC.Method.Name()), s.Pos(), "call-graph reachability", g.PathTo(pred, f),
					"client.Handler.%s is invoked from code driven by an untrusted connection", s.CC.Method.Name())
			}
		}
	}
	if nBad == 0 && nInv == 0 {
		c.Ok("R1", "closure(untrusted handler table + UntrustedNode)", rootsF[0].Pos(), "call-graph reachability",
			"%d functions reachable from %d roots, none of the %d forbidden sinks and no client.Handler callback among them", len(reached), len(rootsF), len(sinks))
	}
	c.Min("R1", "functions in the untrusted closure", len(reached), 30)

	// R2 / R3: trust flags are constant false inside the closure
	trusted := c.P.Field("handlers", "TxData", "Trusted")
	safe := c.P.Field("handlers", "TxData", "Safe")
	if trusted == nil || safe == nil {
		c.Undecided("R2", "anchor:handlers.TxData", 0, "fields Trusted/Safe not found")
	}
	nLit, nReq := 0, 0
	for _, f := range reached {
		if f.Blocks == nil || c.P.Key(f) == "" {
			continue
		}
		for _, fld := range []*types.Var{trusted, safe} {
			if fld == nil {
				continue
			}
			for _, st := range storesToField(f, fld) {
				nLit++
				b, isC := isConstBool(st.Val)
				c.Decide(isC && !b, "R2", fmt.Sprintf("%s#TxData.%s", c.P.Key(f), fld.Name()), st.Pos(), "constant provenance", nil,
					"TxData."+fld.Name()+" is constant false", "a transaction handed on by an untrusted connection has TxData."+fld.Name()+" not constant false: untrusted peers must not vouch for transactions")
			}
		}
		for _, s := range callsTo(f, "(*state.MemPool).AddRequest") {
			nReq++
			a := s.Args()
			ok := false
			if len(a) == 3 {
				b, isC := isConstBool(a[2])
				ok = isC && !b
			}
			c.Decide(ok, "R3", c.P.Key(f)+"#AddRequest-trusted", s.Pos(), "constant provenance", nil,
				"AddRequest(…, trusted=false)", "an untrusted connection marks a txid as announced by the trusted peer (AddRequest trusted argument is not constant false)")
		}
	}
	c.Min("R2", "TxData trust-flag stores in the untrusted closure", nLit, 1)
	c.Min("R3", "AddRequest calls in the untrusted closure", nReq, 2)

	// R4: readiness gate in untrusted inv / tx handlers
	isReadyGuard := func(fn *ssa.Function) EdgePred {
		return condEdge(func(cd Cond) (bool, bool) {
			if cd.Call == nil {
				return false, false
			}
			o := calleeObj(&cd.Call.Call)
			if o == nil || o.Name() != "IsReady" {
				return false, false
			}
			// receiver must be the untrusted state: direct *UntrustedState or the StateReady interface field
			if cd.Call.Call.IsInvoke() {
				return true, true
			}
			return strings.Contains(o.FullName(), "UntrustedState"), true
		})
	}
	n4 := 0
	for _, hk := range []string{"handlers.(*UntrustedInvHandler).Handle", "handlers.(*UntrustedTXHandler).Handle"} {
		fn := c.Fn("R4", hk)
		if fn == nil {
			continue
		}
		for _, s := range callsTo(fn, "(*state.MemPool).AddRequest", "(*state.TxTracker).Add", "(*handlers.TxChannel).Add") {
			n4++
			ok, w := mustPass(s.Instr, isReadyGuard(fn))
			c.Decide(ok, "R4", hk+"#"+calleeObj(s.CC).Name()+"-behind-IsReady", s.Pos(), "edge-cutset", w,
				"reachable only after IsReady()==true of the untrusted state", "an unverified untrusted peer can reach "+calleeShort(s.CC)+" (no IsReady()==true guard)")
		}
	}
	c.Min("R4", "gated calls in untrusted inv/tx handlers", n4, 3)
	// the StateReady handed to the untrusted tx handler is the untrusted state
	if ctor := c.P.Fn("handlers.NewUntrustedMessageHandlers"); ctor != nil {
		for _, s := range callsTo(ctor, "handlers.NewUntrustedTXHandler") {
			a := s.Args()
			ok := false
			if len(a) >= 1 {
				if mi, isMI := a[0].(*ssa.MakeInterface); isMI {
					ok = strings.HasSuffix(mi.X.Type().String(), "state.UntrustedState")
				}
			}
			c.Decide(ok, "R4", "handlers.NewUntrustedMessageHandlers#tx-handler-ready-source", s.Pos(), "provenance", nil,
				"readiness of the untrusted tx handler is the untrusted state", "the untrusted tx handler's readiness gate is not the untrusted connection's own state")
		}
	}

	if extraC12 != nil {
		extraC12(c)
	}

	// R5: verification gate
	allowed := map[string]string{"handlers.(*UntrustedHeadersHandler).Handle": "the only place an untrusted peer is verified"}
	c.whoMayCall("R5", "(*state.UntrustedState).SetVerified", allowed, 1)
	c.whoMayCall("R5", "(*state.UntrustedState).MarkVerified", allowed, 0)
	if fn := c.Fn("R5", "handlers.(*UntrustedHeadersHandler).Handle"); fn != nil {
		for _, s := range callsTo(fn, "(*state.UntrustedState).SetVerified", "(*state.UntrustedState).MarkVerified") {
			key := "handlers.(*UntrustedHeadersHandler).Handle#verify"
			// (a) non-empty header list
			nonEmpty := func(iff *ssa.If, br int) bool {
				r, ok := edgeRel(iff, br)
				if !ok {
					return false
				}
				x, y, op := r.X, r.Y, r.Op
				if lenOf(x) == nil {
					x, y, op = y, x, swapOp(op)
				}
				if lenOf(x) == nil {
					return false
				}
				k, isC := constInt(y)
				if !isC {
					return false
				}
				return (op.String() == "!=" && k == 0) || (op.String() == ">" && k >= 0) || (op.String() == ">=" && k >= 1)
			}
			ok, w := mustPass(s.Instr, nonEmpty)
			c.Decide(ok, "R5", key+"#nonempty", s.Pos(), "edge-cutset", w, "behind len(headers) != 0", "peer verified without any header")
			// (b) first header known
			ok, w = mustPass(s.Instr, callEdge(true, 1, nil, "(*storage.BlockRepository).Height"))
			c.Decide(ok, "R5", key+"#first-known", s.Pos(), "edge-cutset", w, "behind blocks.Height(first) exists==true", "peer verified although its first header is not in the node's chain")
			// (c) height window: on the guard edge height >= f(LastHeight)
			win := func(iff *ssa.If, br int) bool {
				r, ok := edgeRel(iff, br)
				if !ok {
					return false
				}
				x, y, op := r.X, r.Y, r.Op
				if derivesFromCall(y, "(*storage.BlockRepository).Height") != nil && derivesFromCall(x, "(*storage.BlockRepository).LastHeight") != nil {
					x, y, op = y, x, swapOp(op)
				}
				if derivesFromCall(x, "(*storage.BlockRepository).Height") == nil || derivesFromCall(y, "(*storage.BlockRepository).LastHeight") == nil {
					return false
				}
				return op.String() == ">=" || op.String() == ">"
			}
			ok, w = mustPass(s.Instr, win)
			c.Decide(ok, "R5", key+"#height-window", s.Pos(), "edge-cutset", w, "behind height >= LastHeight()-delta test", "peer verified without the height-window test against the node's tip")
			// (d) linkage: unequal edge of PrevBlock.Equal(previous) must not reach the call
			nLink := 0
			for _, b := range fn.Blocks {
				iff, isIf := lastIf(b)
				if !isIf {
					continue
				}
				for br := 0; br < 2; br++ {
					if equalEdge(func(x, y ssa.Value) bool {
						return mentionsFieldNamed(x, "PrevBlock") || mentionsFieldNamed(y, "PrevBlock")
					}, false)(iff, br) {
						nLink++
						leaks := reachable(b.Succs[br], s.Instr.Block())
						c.Decide(!leaks, "R5", key+"#linkage-failure-exits", ifPos(iff), "edge-cutset", nil,
							"an unlinked header cannot reach verification", "after a header whose PrevBlock does not equal the previous header's hash, control can still reach SetVerified")
						// the test must sit in a loop (per header)
						c.Decide(loopHeaderOf(b) != nil, "R5", key+"#linkage-per-header", ifPos(iff), "cfg-structure", nil,
							"linkage is tested inside the loop over the headers", "the PrevBlock linkage test is not inside a loop over the received headers")
					}
				}
			}
			if nLink == 0 {
				c.Bad("R5", key+"#linkage-test-present", s.Pos(), "edge-cutset", nil, "no PrevBlock linkage test guards the verification of an untrusted peer")
			}
		}
	}
}

func init() {
	extraC12 = func(c *Check) {
		c.ruleFirstLinkChecked("R5")
		c.ruleTrustedOnlyFromTrustedSource("R6")
		c.ruleRevertRemovesRevertedHeights("R7")
		c.ruleIndexBoundOnSameIndex("R8", "spynode.fetchSpentOutputs")
		c.ruleNoContentFailureInSharedTxPath("R9", 2)
		c.ruleWiring("R10", c.constructorsIn("handlers", "spynode"))
		c.ruleTrustedAnswerNeedsEntry("R11")
		c.ruleSafeDecidedBeforeDelivery("R12")
		c.ruleUntrustedErrorsStayLocal("R13")
		if fl, fk := c.P.Field("storage", "PeerRepository", "lookup"), c.P.Field("storage", "PeerRepository", "list"); fl != nil && fk != nil {
			c.lockset("R14", "storage", "PeerRepository", "mutex", map[*types.Var]bool{fl: true, fk: true}, []string{"storage"}, map[string]string{"storage.(*PeerRepository).Clear": "not called anywhere in the module (confirmed by who-calls on the confirmed tree)"}, 6)
		}
	}
}

func lastIf(b *ssa.BasicBlock) (*ssa.If, bool) {
	if n := len(b.Instrs); n > 0 {
		iff, ok := b.Instrs[n-1].(*ssa.If)
		return iff, ok
	}
	return nil, false
}

// mentionsFieldNamed: slice of v passes through a field with this name (for dependency structs).
func mentionsFieldNamed(v ssa.Value, name string) bool {
	for _, x := range rootsAll(v) {
		if f := fieldOfAddr(x); f != nil && f.Name() == name {
			return true
		}
	}
	return false
}
