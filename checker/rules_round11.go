package main

// Rules added after seeding round 9 (❂ in DESIGN.md). The round asked for over-broad bug fixes (the
// reported symptom goes away, a neighbouring case changes) and a free choice of optimisation /
// robustness change / small feature. Again most changes add a few lines at a place no rule is
// anchored in; the two shared rules below record, per function, two things such a change moves:
// which errors a function makes up itself, and which fields of its own object it looks at.

import (
	"fmt"
	"go/constant"
	"go/token"
	"go/types"
	"os"
	"path/filepath"
	"sort"
	"strings"

	"golang.org/x/tools/go/ssa"
)

// ---------------------------------------------------------------------------------------------
// E13: a function makes up no more errors of its own than on the confirmed tree

func freshErrorCount(fn *ssa.Function) (int, token.Pos) {
	n := 0
	var pos token.Pos
	msgs := map[string]bool{}
	var visit func(f *ssa.Function)
	visit = func(f *ssa.Function) {
		for _, b := range f.Blocks {
			for _, in := range b.Instrs {
				if v, ok := in.(ssa.Value); ok && isFreshError(v) {
					// the same message made at two places (a guard split in two) is one failure
					msg := fmt.Sprintf("@%d", len(msgs))
					if call, isCall := stripIfaceConv(v).(*ssa.Call); isCall {
						var first func(c *ssa.Call, d int) string
						first = func(c *ssa.Call, d int) string {
							for _, a := range c.Call.Args {
								if k, isK := a.(*ssa.Const); isK && k.Value != nil && k.Value.Kind() == constant.String {
									return constant.StringVal(k.Value)
								}
								if c2, isC2 := a.(*ssa.Call); isC2 && d < 2 {
									if s := first(c2, d+1); s != "" {
										return s
									}
								}
							}
							return ""
						}
						if s := first(call, 0); s != "" {
							msg = s
						}
					}
					if !msgs[msg] {
						msgs[msg] = true
						n++
						pos = in.Pos()
					}
				}
			}
		}
		for _, a := range f.AnonFuncs {
			visit(a)
		}
	}
	visit(fn)
	return n, pos
}

var countBaselines = map[string]map[string]int{}

func countBaseline(file string) map[string]int {
	if m, ok := countBaselines[file]; ok {
		return m
	}
	m := map[string]int{}
	countBaselines[file] = m
	data, err := os.ReadFile(filepath.Join(verifDirGlobal, "checker", file))
	if err != nil {
		return m
	}
	for _, l := range strings.Split(string(data), "\n") {
		if strings.HasPrefix(l, "#") || strings.TrimSpace(l) == "" {
			continue
		}
		f := strings.Split(l, "\t")
		if len(f) == 2 {
			n := 0
			fmt.Sscanf(f[1], "%d", &n)
			m[f[0]] = n
		}
	}
	return m
}

func writeFreshErrBaseline(P *Program, out string) error {
	var lines []string
	for k, fn := range P.Funcs {
		if fn == nil || fn.Blocks == nil || fn.Parent() != nil {
			continue
		}
		if n, _ := freshErrorCount(fn); n > 0 {
			lines = append(lines, fmt.Sprintf("%s\t%d", k, n))
		}
	}
	sort.Strings(lines)
	hdr := "# per function of the confirmed tree: `<function>\\t<n>`: n errors made on the spot (errors.New / Errorf that wrap no other error); rule E13 reports more\n"
	return os.WriteFile(out, []byte(hdr+strings.Join(lines, "\n")+"\n"), 0o644)
}

// ruleNoNewFailures (E13): a function of the confirmed tree makes no more errors of its own than it
// did there (a new failure - a limit, a retry budget, a "cannot happen" - ends processing where it
// used to go on); code moved between functions of a package does not count.
func (c *Check) ruleNoNewFailures(rule string, fns []*ssa.Function) {
	base := countBaseline("baseline_fresherr.txt")
	n := 0
	for _, fn := range fns {
		if fn == nil || fn.Blocks == nil || fn.Parent() != nil {
			continue
		}
		key := c.P.Key(fn)
		if key == "" || !baselineHasFunc(key) {
			continue
		}
		cur, pos := freshErrorCount(fn)
		n++
		if cur <= base[key] {
			continue
		}
		pkg := pkgOfKey(key)
		tc, tb := 0, 0
		for k, g := range c.P.Funcs {
			if g == nil || g.Blocks == nil || g.Parent() != nil || pkgOfKey(k) != pkg {
				continue
			}
			x, _ := freshErrorCount(g)
			tc += x
		}
		for k, v := range base {
			if pkgOfKey(k) == pkg {
				tb += v
			}
		}
		if tc <= tb {
			continue
		}
		c.Bad(rule, key+"#no-new-failure", pos, "error construction", nil,
			"%s makes %d error(s) of its own where the confirmed tree has %d: a new failure (a limit reached, a retry budget used up, a case declared impossible) ends the work of this function - and of whatever loop or connection runs it - for inputs that used to be handled", key, cur, base[key])
		c.Touch(fn)
	}
	c.Ok(rule, "scope#no-new-failures", token.NoPos, "error construction", "%d functions examined, none makes more errors of its own than on the confirmed tree", n)
}

// ---------------------------------------------------------------------------------------------
// E14: a method looks at no other field of its object than on the confirmed tree

// receiverFieldAccess: the fields of fn's receiver type that fn, its closures and the functions of
// the same package it (transitively, statically) calls access.
func receiverFieldAccess(P *Program, fn *ssa.Function) (map[string]bool, *types.Named) {
	if fn.Signature.Recv() == nil {
		return nil, nil
	}
	rt := fn.Signature.Recv().Type()
	if p, ok := rt.(*types.Pointer); ok {
		rt = p.Elem()
	}
	named, ok := rt.(*types.Named)
	if !ok {
		return nil, nil
	}
	st, ok := named.Underlying().(*types.Struct)
	if !ok {
		return nil, nil
	}
	fields := map[*types.Var]bool{}
	for i := 0; i < st.NumFields(); i++ {
		fields[st.Field(i)] = true
	}
	out := map[string]bool{}
	seen := map[*ssa.Function]bool{}
	var visit func(f *ssa.Function, d int)
	visit = func(f *ssa.Function, d int) {
		if f == nil || seen[f] || f.Blocks == nil || d > 6 {
			return
		}
		seen[f] = true
		for _, ac := range fieldAccesses(f, fields) {
			out[ac.Field.Name()] = true
		}
		for _, a := range f.AnonFuncs {
			visit(a, d)
		}
		for _, s := range sitesIn(f) {
			if sc := s.CC.StaticCallee(); sc != nil && sc.Pkg != nil && fn.Pkg != nil && sc.Pkg == fn.Pkg {
				visit(sc, d+1)
			}
		}
	}
	visit(fn, 0)
	return out, named
}

var accessBaselineCache map[string]map[string]bool

func accessBaseline() map[string]map[string]bool {
	if accessBaselineCache != nil {
		return accessBaselineCache
	}
	accessBaselineCache = map[string]map[string]bool{}
	data, err := os.ReadFile(filepath.Join(verifDirGlobal, "checker", "baseline_access.txt"))
	if err != nil {
		return accessBaselineCache
	}
	for _, l := range strings.Split(string(data), "\n") {
		if strings.HasPrefix(l, "#") || strings.TrimSpace(l) == "" {
			continue
		}
		f := strings.Split(l, "\t")
		if len(f) == 2 {
			m := map[string]bool{}
			for _, x := range strings.Split(f[1], ",") {
				if x != "" {
					m[x] = true
				}
			}
			accessBaselineCache[f[0]] = m
		}
	}
	return accessBaselineCache
}

func accessScope(key string) bool {
	return strings.HasPrefix(key, "state.(") || strings.HasPrefix(key, "storage.(")
}

func writeAccessBaseline(P *Program, out string) error {
	var lines []string
	for k, fn := range P.Funcs {
		if fn == nil || fn.Blocks == nil || fn.Parent() != nil || !accessScope(k) {
			continue
		}
		acc, named := receiverFieldAccess(P, fn)
		if named == nil {
			continue
		}
		var fs []string
		for f := range acc {
			fs = append(fs, f)
		}
		sort.Strings(fs)
		lines = append(lines, k+"\t"+strings.Join(fs, ","))
		// the type's fields as known on the confirmed tree
		if st, ok := named.Underlying().(*types.Struct); ok {
			var all []string
			for i := 0; i < st.NumFields(); i++ {
				all = append(all, st.Field(i).Name())
			}
			sort.Strings(all)
			lines = append(lines, "type:"+pkgOfKey(k)+"."+named.Obj().Name()+"\t"+strings.Join(all, ","))
		}
	}
	sort.Strings(lines)
	var uniq []string
	for i, l := range lines {
		if i == 0 || l != lines[i-1] {
			uniq = append(uniq, l)
		}
	}
	hdr := "# per method of the state / storage objects on the confirmed tree: the fields of its own object that it (and the package functions it calls)\n# accesses; `type:<T>` lines list the fields the type had. Rule E14 reports a method that accesses a further one of those fields.\n"
	return os.WriteFile(out, []byte(hdr+strings.Join(uniq, "\n")+"\n"), 0o644)
}

// ruleNoNewFieldDependence (E14): a method of the request state, the mempool, the tx tracker or a
// repository depends on no field of its object that it did not depend on on the confirmed tree (fields
// new to the type are other rules' business): a getter or a step that starts to consult another
// piece of state (e.g. "no block is requested while a headers request is outstanding") couples two
// mechanisms that were independent, and the time-outs and invariants of the one no longer cover
// the other.
func (c *Check) ruleNoNewFieldDependence(rule string, fns []*ssa.Function) {
	base := accessBaseline()
	n := 0
	for _, fn := range fns {
		if fn == nil || fn.Blocks == nil || fn.Parent() != nil {
			continue
		}
		key := c.P.Key(fn)
		b, ok := base[key]
		if !ok || !accessScope(key) {
			// receiver kind changed: the same method
			if alt, ok2 := base[strings.Replace(key, "(*", "(", 1)]; ok2 {
				b, ok = alt, true
			} else if alt, ok2 := base[strings.Replace(key, ".(", ".(*", 1)]; ok2 && !strings.Contains(key, "(*") {
				b, ok = alt, true
			}
			if !ok {
				continue
			}
		}
		acc, named := receiverFieldAccess(c.P, fn)
		if named == nil {
			continue
		}
		known := base["type:"+pkgOfKey(key)+"."+named.Obj().Name()]
		n++
		var added []string
		for f := range acc {
			if !b[f] && known[f] {
				added = append(added, f)
			}
		}
		if len(added) == 0 {
			continue
		}
		sort.Strings(added)
		c.Bad(rule, key+"#no-new-field-dependence", fn.Pos(), "field accesses", nil,
			"%s now also depends on %s of its object, which it did not touch on the confirmed tree: two pieces of state that were independent are coupled (what the method answers or does now changes with a request / flag / counter that has its own life cycle and time-outs)", key, strings.Join(added, ", "))
		c.Touch(fn)
	}
	c.Ok(rule, "scope#no-new-field-dependence", token.NoPos, "field accesses", "%d methods of state / storage objects examined, none depends on a further field of its object", n)
}

// ---------------------------------------------------------------------------------------------
// C03.R27: every queued tx is processed

// ruleEveryQueuedTxProcessed: in processUnconfirmedTxs a tx taken off the channel goes round the
// loop without processUnconfirmedTx only over the edge of the local "failed" flag (nothing that is
// decided by a call, such as "the node is stopping").
func (c *Check) ruleEveryQueuedTxProcessed(rule string) {
	fn := c.Fn(rule, "spynode.(*Node).processUnconfirmedTxs")
	if fn == nil {
		return
	}
	calls := callsTo(fn, "(*spynode.Node).processUnconfirmedTx")
	cut := map[*ssa.BasicBlock]bool{}
	for _, s := range calls {
		cut[s.Instr.Block()] = true
	}
	n := 0
	seen := map[*ssa.BasicBlock]bool{}
	for _, s := range calls {
		h := loopHeaderOf(s.Instr.Block())
		if h == nil || seen[h] {
			continue
		}
		seen[h] = true
		n++
		// edges decided by a local flag (a phi of constants / of flags), not by a call
		flagEdge := func(iff *ssa.If, br int) bool {
			cd := normCond(iff.Cond)
			v := cd.V
			if v == nil || (br == 0) == cd.Neg {
				return false // only the edge on which the flag is set
			}
			for _, r := range rootsAll(v) {
				if _, isCall := r.(*ssa.Call); isCall {
					return false
				}
			}
			_, isPhi := stripConv(v).(*ssa.Phi)
			return isPhi
		}
		bad := false
		var w []string
		for _, s2 := range h.Succs {
			if !loopBody(h)[s2] || cut[s2] {
				continue
			}
			if reach, path := reachAvoid2(s2, h, flagEdge, cut); reach {
				bad, w = true, pathWitness(fn, path)
			}
		}
		c.Decide(!bad, rule, "spynode.(*Node).processUnconfirmedTxs#every-queued-tx-processed", loopPos(h), "must-pass-through", w,
			"a queued tx skips processUnconfirmedTx only behind the local failed flag",
			"a tx that was accepted into the queue (a peer's, or one submitted locally, which nobody announces again) can be taken off it and dropped because of something other than an earlier failure (e.g. the node is stopping, which a reconnect also sets): a matching tx is never delivered")
	}
	c.Min(rule, "loops calling processUnconfirmedTx", n, 1)
}

// ---------------------------------------------------------------------------------------------
// C04.R14 / C03.R28: notifications are objects of their own

// ruleNotificationFreshPerDelivery: the object handed to HandleTx / HandleTxUpdate is allocated inside
// every loop that encloses the delivery, except the loop over the handlers: a handler may keep or
// queue the pointer, and an object reused for the next tx makes every queued notification carry
// the last tx's id, state and proof.
func (c *Check) ruleNotificationFreshPerDelivery(rule string) {
	fH := c.P.Field("spynode", "Node", "handlers")
	n := 0
	for _, fn := range c.P.FuncsIn("spynode") {
		if fn.Blocks == nil {
			continue
		}
		for _, s := range c.handlerInvokes(fn, "HandleTx", "HandleTxUpdate") {
			if len(s.CC.Args) < 2 {
				continue
			}
			var obj *ssa.Alloc
			if a, ok := stripConv(s.CC.Args[1]).(*ssa.Alloc); ok {
				obj = a
			}
			if obj == nil {
				continue // a record that came from the store: not built here
			}
			n++
			okv := true
			for _, h := range enclosingLoops(s.Instr.Block()) {
				if rs := rangedSlice(h); rs != nil && fH != nil && mentionsField(rs, fH) {
					continue
				}
				if !loopBody(h)[obj.Block()] {
					okv = false
				}
			}
			c.Decide(okv, rule, fmt.Sprintf("%s#notification-fresh-per-delivery@%d", c.P.Key(fn), n), s.Pos(), "allocation site", nil,
				"the notification object is allocated in the iteration that delivers it",
				"the object handed to the handlers is allocated outside the loop over the txs and reused: a handler that keeps or queues the pointer sees every notification of the block with the last tx's id, state and merkle proof - the other txs get no notification whose proof verifies for them")
			c.Touch(fn)
		}
	}
	c.Min(rule, "notifications built and delivered in internal/spynode", n, 3)
}

// ---------------------------------------------------------------------------------------------
// small who-may rules of the round

// ruleNoCallTo: no function of the given packages calls (statically or through an interface) a method of that name.
func (c *Check) ruleNoCallTo(rule, method string, pkgs []string, consequence string) {
	n := 0
	for _, fn := range c.P.FuncsIn(pkgs...) {
		for _, s := range sitesIn(fn) {
			nm := ""
			if s.CC.IsInvoke() {
				nm = s.CC.Method.Name()
			} else if o := calleeObj(s.CC); o != nil {
				nm = o.Name()
			}
			if nm != method {
				continue
			}
			n++
			c.Bad(rule, fmt.Sprintf("%s#calls-%s", c.P.Key(fn), method), s.Pos(), "who-may-call", nil,
				"%s calls %s, which nothing in %s does on the confirmed tree: %s", c.P.Key(fn), method, strings.Join(pkgs, ", "), consequence)
			c.Touch(fn)
		}
	}
	c.Ok(rule, "scope#no-call-to-"+method, token.NoPos, "who-may-call", "no call of %s in %s", method, strings.Join(pkgs, ", "))
	_ = n
}

// ---------------------------------------------------------------------------------------------
// C05.R20: the conflict list is a list of its own

// ruleMergeReturnsOwnList: appendIfNotContained returns its first list, extended - never the second
// one itself (which is the spender list held in the map: appended to later, it would be written into).
func (c *Check) ruleMergeReturnsOwnList(rule string) {
	fn := c.P.Fn("state.appendIfNotContained")
	if fn == nil || fn.Blocks == nil {
		c.Ok(rule, "state.appendIfNotContained#returns-own-list", token.NoPos, "alias escape", "the merge helper is not present: the merge is written in place and judged by the conflict accumulator rules (R10 / R13)")
		return
	}
	c.Touch(fn)
	if len(fn.Params) < 2 {
		c.Undecided(rule, "shape:appendIfNotContained", fn.Pos(), "two list parameters expected")
		return
	}
	second := fn.Params[1]
	n := 0
	for _, ret := range returnsOf(fn) {
		n++
		bad := false
		seen := map[ssa.Value]bool{}
		var look func(v ssa.Value)
		look = func(v ssa.Value) {
			v = stripConv(v)
			if v == nil || seen[v] {
				return
			}
			seen[v] = true
			if v == ssa.Value(second) {
				bad = true
			}
			switch x := v.(type) {
			case *ssa.Phi:
				for _, e := range x.Edges {
					look(e)
				}
			case *ssa.Slice:
				look(x.X)
			}
		}
		for _, v := range resultValues(ret, 0) {
			look(v)
		}
		c.Decide(!bad, rule, fmt.Sprintf("state.appendIfNotContained#returns-own-list@%d", n), ret.Pos(), "alias escape", nil,
			"the merged list is the first list (extended), never the second list itself",
			"appendIfNotContained can return the list it was asked to merge in - the spender list held in the map - as the conflict list: the caller's later append writes into the map's list, and a spender registration is overwritten by an unrelated txid")
	}
	c.Min(rule, "returns of appendIfNotContained", n, 1)
}

// ---------------------------------------------------------------------------------------------
// C06.R16 / C05.R21: every tx that is processed is registered in the mempool

func (c *Check) ruleProcessedTxRegistered(rule string) {
	fn := c.Fn(rule, "spynode.(*Node).processUnconfirmedTx")
	if fn == nil {
		return
	}
	var adds []ssa.Instruction
	for _, s := range callsTo(fn, "(*state.MemPool).AddTransaction") {
		adds = append(adds, s.Instr)
	}
	n := 0
	for _, ret := range returnsOf(fn) {
		if isNil, known := errIsNilReturn(ret); !known || !isNil {
			continue
		}
		n++
		okv, w := len(adds) > 0, []string(nil)
		if okv {
			okv, w = alwaysPrecededBy(ret, adds)
		}
		c.Decide(okv, rule, fmt.Sprintf("spynode.(*Node).processUnconfirmedTx#registered-in-mempool@%d", n), ret.Pos(), "must-pass-through", w,
			"every successful return has handed the tx to MemPool.AddTransaction",
			"processUnconfirmedTx can return successfully without registering the tx in the mempool (an 'already delivered' shortcut in front of it): the spender index is not persistent, so after a restart the re-announced tx is never indexed again and a confirmed double spend of it cancels nothing")
	}
	c.Min(rule, "successful returns of processUnconfirmedTx", n, 1)
}

// ---------------------------------------------------------------------------------------------
// C08.R16: the contract subscription is a flag

func (c *Check) ruleContractSubscriptionIsFlag(rule string) {
	get := c.Fn(rule, "spynode.(*Node).IsSubscribedToContracts")
	sub := c.Fn(rule, "spynode.(*Node).SubscribeContracts")
	unsub := c.Fn(rule, "spynode.(*Node).UnsubscribeContracts")
	if get == nil || sub == nil || unsub == nil {
		return
	}
	// the field the getter answers from
	var f *types.Var
	fLock := c.P.Field("spynode", "Node", "lock")
	for _, ac := range fieldAccesses(get, c.structFields("spynode", "Node", "lock")) {
		if ac.Field != fLock && !ac.Write {
			f = ac.Field
		}
	}
	if f == nil {
		c.Undecided(rule, "shape:IsSubscribedToContracts", get.Pos(), "no field read found")
		return
	}
	isBool := false
	if bt, ok := f.Type().Underlying().(*types.Basic); ok && bt.Kind() == types.Bool {
		isBool = true
	}
	want := map[*ssa.Function]bool{sub: true, unsub: false}
	okv := isBool
	why := "the subscription is kept in " + f.Name() + ", which is not a flag"
	if isBool {
		for g, val := range want {
			sts := storesToField(g, f)
			if len(sts) == 0 {
				okv, why = false, c.P.Key(g)+" does not set the flag"
			}
			for _, st := range sts {
				if bv, isB := isConstBool(st.Val); !isB || bv != val {
					okv, why = false, c.P.Key(g)+" does not store the constant "+fmt.Sprint(val)
				}
			}
		}
	}
	c.Decide(okv, rule, "spynode.(*Node)#contract-subscription-is-a-flag", get.Pos(), "value shape", []string{why},
		"the contract subscription is a flag set to true by subscribe and to false by unsubscribe",
		"the contract subscription is not a plain flag ("+why+"): subscribe / unsubscribe sequences no longer end in the state of the last call (unsubscribe, then subscribe leaves it off; subscribe twice, unsubscribe once leaves it on), and contract-wide actions are filtered wrongly")
}

// ---------------------------------------------------------------------------------------------
// C11.R15 / C15.R12: the tx state is stored as given, and always

func (c *Check) ruleTxStateStoredAsGiven(rule string) {
	fn := c.Fn(rule, "storage.SaveTxState")
	if fn == nil {
		return
	}
	var writes []ssa.Instruction
	for _, s := range sitesIn(fn) {
		if s.CC.IsInvoke() && s.CC.Method.Name() == "Write" {
			writes = append(writes, s.Instr)
		}
	}
	n := 0
	for _, ret := range returnsOf(fn) {
		if isNil, known := errIsNilReturn(ret); !known || !isNil {
			continue
		}
		n++
		okv, w := len(writes) > 0, []string(nil)
		if okv {
			okv, w = alwaysPrecededBy(ret, writes)
		}
		c.Decide(okv, rule, fmt.Sprintf("storage.SaveTxState#written-before-success@%d", n), ret.Pos(), "must-pass-through", w,
			"every successful return has written the record",
			"SaveTxState can report success without writing the record (e.g. a size limit): the tx is tracked and delivered but no stored copy exists - its updates, its confirmation and GetTx fail or are skipped")
	}
	if n == 0 {
		c.Ok(rule, "storage.SaveTxState#written-before-success", fn.Pos(), "must-pass-through", "no return of a constant nil error (the result is a variable): judged at the error tests by the shared rules")
	}
	// the record serialised is the parameter itself
	var tx *ssa.Parameter
	for _, p := range fn.Params {
		if strings.HasSuffix(p.Type().String(), "client.Tx") {
			tx = p
		}
	}
	m := 0
	for _, s := range sitesIn(fn) {
		if !strings.HasSuffix(calleeName(s.CC), "client.Tx).Serialize") || len(s.CC.Args) == 0 {
			continue
		}
		m++
		recv := stripConv(s.CC.Args[0])
		if u, isU := recv.(*ssa.UnOp); isU && u.Op == token.MUL {
			recv = stripConv(u.X) // value receiver: the parameter's object itself
		}
		okv := tx != nil && recv == ssa.Value(tx)
		c.Decide(okv, rule, fmt.Sprintf("storage.SaveTxState#serialises-its-argument@%d", m), s.Pos(), "provenance", nil,
			"the record serialised is the tx state handed in",
			"SaveTxState serialises something other than the tx state it was given (a copy it adjusted first): the stored record differs from what was delivered to the handlers")
	}
	c.Min(rule, "Serialize calls in SaveTxState", m, 1)
}

// ---------------------------------------------------------------------------------------------
// C13.R23: the block processed is the block taken off the queue

func (c *Check) ruleProcessedBlockIsPoppedBlock(rule string) {
	fn := c.Fn(rule, "spynode.(*Node).processBlocks")
	if fn == nil {
		return
	}
	n := 0
	for _, s := range callsTo(fn, "(*spynode.Node).ProcessBlock") {
		if len(s.CC.Args) < 3 {
			continue
		}
		n++
		okv := derivesFromCall(s.CC.Args[len(s.CC.Args)-1], "(*state.State).NextBlock") != nil
		c.Decide(okv, rule, fmt.Sprintf("spynode.(*Node).processBlocks#processes-the-popped-block@%d", n), s.Pos(), "provenance", nil,
			"the block handed to ProcessBlock is the result of State.NextBlock",
			"the block processed is not the one NextBlock took off the queue (it was peeked, and popped afterwards): a reorg that refills the queue while the block is processed makes the later pop remove the new branch's first block unprocessed, and every later block is refused as not next")
	}
	c.Min(rule, "ProcessBlock calls in processBlocks", n, 1)
}

// ---------------------------------------------------------------------------------------------
// C16.R17 / R18, C17.R10

// ruleRejectEndsOnlyUnaccepted: handleMessage answers a Reject with an error of its own only behind accepted == false.
func (c *Check) ruleRejectEndsOnlyUnaccepted(rule string) {
	fn := c.Fn(rule, "client.(*RemoteClient).handleMessage")
	fAcc := c.P.Field("client", "RemoteClient", "accepted")
	if fn == nil {
		return
	}
	if fAcc == nil {
		c.Undecided(rule, "anchor:client.RemoteClient.accepted", fn.Pos(), "field not found")
		return
	}
	notAccepted := boolEdge(func(v ssa.Value) bool { return fromAtomicLoad(v, fAcc) }, false)
	n := 0
	isRejectVal := func(v ssa.Value) bool {
		for _, r := range rootsAll(v) {
			if strings.Contains(r.Type().String(), "client.RejectError") {
				return true
			}
			if call, ok := r.(*ssa.Call); ok && strings.Contains(calleeName(&call.Call), "RejectError") {
				return true
			}
		}
		return false
	}
	for _, ret := range returnsOf(fn) {
		if len(ret.Results) == 0 {
			continue
		}
		// the error returned may be chosen on different paths (one return for the whole switch)
		type leaf struct {
			v  ssa.Value
			at ssa.Instruction
		}
		var leaves []leaf
		seen := map[ssa.Value]bool{}
		var walk func(v ssa.Value, at ssa.Instruction)
		walk = func(v ssa.Value, at ssa.Instruction) {
			if seen[v] {
				return
			}
			seen[v] = true
			if phi, ok := v.(*ssa.Phi); ok {
				for i, e := range phi.Edges {
					p := phi.Block().Preds[i]
					walk(e, p.Instrs[len(p.Instrs)-1])
				}
				return
			}
			leaves = append(leaves, leaf{v, at})
		}
		for _, v := range resultValues(ret, len(ret.Results)-1) {
			walk(v, ret)
		}
		for _, lf := range leaves {
			if _, isC := lf.v.(*ssa.Const); isC || !isRejectVal(lf.v) {
				continue
			}
			n++
			okv, w := mustPass(lf.at, notAccepted)
			c.Decide(okv, rule, fmt.Sprintf("client.(*RemoteClient).handleMessage#reject-ends-only-unaccepted@%d", n), ret.Pos(), "edge-cutset", w,
				"a Reject ends the message thread only while the connection is not accepted",
				"handleMessage can end the message thread with a reject error although the connection was accepted (e.g. for one reject code): the caller that was waiting for this reject gets a time-out instead, and every other pending call times out too")
		}
	}
	c.Min(rule, "reject-error returns of handleMessage", n, 1)
}

// ruleResponseAlwaysHandedOver: addRequestResponse reports success only after the send to the requests thread.
func (c *Check) ruleResponseAlwaysHandedOver(rule string) {
	fn := c.Fn(rule, "client.(*RemoteClient).addRequestResponse")
	fCh := c.P.Field("client", "RemoteClient", "requestResponseChannel")
	if fn == nil {
		return
	}
	n := 0
	for _, ret := range returnsOf(fn) {
		if isNil, known := errIsNilReturn(ret); !known || !isNil {
			continue
		}
		n++
		// the successful return is chosen by the select's send case: no path from the entry reaches it
		// without passing the select
		var sels []ssa.Instruction
		for _, b := range fn.Blocks {
			for _, in := range b.Instrs {
				if sel, ok := in.(*ssa.Select); ok {
					for _, st := range sel.States {
						if st.Dir == types.SendOnly && (fCh == nil || mentionsField(st.Chan, fCh)) {
							sels = append(sels, sel)
						}
					}
				}
				if snd, ok := in.(*ssa.Send); ok && (fCh == nil || mentionsField(snd.Chan, fCh)) {
					sels = append(sels, snd)
				}
			}
		}
		okv, w := len(sels) > 0, []string(nil)
		if okv {
			okv, w = alwaysPrecededBy(ret, sels)
		}
		c.Decide(okv, rule, fmt.Sprintf("client.(*RemoteClient).addRequestResponse#handed-over-before-success@%d", n), ret.Pos(), "must-pass-through", w,
			"success is reported only after the response was sent to the requests thread",
			"addRequestResponse can report success without handing the response to the requests thread (a shortcut when 'nothing is pending'): registration is asynchronous, so the response to a call that is still being registered is dropped and the call times out although the server answered")
	}
	c.Min(rule, "successful returns of addRequestResponse", n, 1)
}

// ruleNextMessageIDIsStoredValue: NextMessageID returns the stored value itself.
func (c *Check) ruleNextMessageIDIsStoredValue(rule string) {
	fn := c.Fn(rule, "client.(*RemoteClient).NextMessageID")
	if fn == nil {
		return
	}
	n := 0
	for _, ret := range returnsOf(fn) {
		n++
		okv := true
		for _, v := range resultValues(ret, 0) {
			ta, ok := stripConv(v).(*ssa.TypeAssert)
			if !ok {
				okv = false
				continue
			}
			call, ok := ta.X.(*ssa.Call)
			if !ok || !strings.HasSuffix(calleeName(&call.Call), "atomic.Value).Load") {
				okv = false
			}
		}
		c.Decide(okv, rule, fmt.Sprintf("client.(*RemoteClient).NextMessageID#is-the-stored-value@%d", n), ret.Pos(), "value shape", nil,
			"the getter returns the stored next message id, nothing computed from it",
			"NextMessageID returns something computed from the stored value (e.g. minus the queue length): the reported id is no longer the last delivered id plus one, and a client that declares Ready with it gets notifications a second time")
	}
	c.Min(rule, "returns of NextMessageID", n, 1)
}

// ---------------------------------------------------------------------------------------------
// E15 / C08.R17: no slice of a range variable outlives its iteration

// loopVarSliceEscapes: sites where a slice of an array-typed loop variable is stored away inside the
// loop while the variable is one object for the whole loop (language version of the module below
// go1.22: the builder allocates it outside the loop): every stored slice aliases the same array and
// ends up showing the last element.
func loopVarSliceEscapes(fn *ssa.Function) []ssa.Instruction {
	var out []ssa.Instruction
	for _, b := range fn.Blocks {
		for _, in := range b.Instrs {
			sl, ok := in.(*ssa.Slice)
			if !ok {
				continue
			}
			al, ok := sl.X.(*ssa.Alloc)
			if !ok {
				continue
			}
			if _, isArr := al.Type().Underlying().(*types.Pointer).Elem().Underlying().(*types.Array); !isArr {
				continue
			}
			hs := enclosingLoops(b)
			if len(hs) == 0 {
				continue
			}
			body := loopBody(hs[0])
			if body[al.Block()] {
				continue // a variable of the iteration
			}
			written := false
			for _, r := range *al.Referrers() {
				if st, isSt := r.(*ssa.Store); isSt && st.Addr == ssa.Value(al) && body[st.Block()] {
					written = true
				}
			}
			if !written {
				continue
			}
			for _, r := range *sl.Referrers() {
				if st, isSt := r.(*ssa.Store); isSt && st.Val == ssa.Value(sl) {
					out = append(out, st)
				}
			}
		}
	}
	return out
}

func (c *Check) ruleLoopVarSliceStaysInIteration(rule string, fns []*ssa.Function) {
	n := 0
	for _, fn := range fns {
		if fn == nil || fn.Blocks == nil {
			continue
		}
		n++
		for i, st := range loopVarSliceEscapes(fn) {
			c.Bad(rule, fmt.Sprintf("%s#loop-variable-slice-stays-in-iteration@%d", c.P.Key(fn), i+1), st.Pos(), "alias escape", nil,
				"%s stores a slice of an array-typed loop variable away inside the loop; with the module's language version (below go1.22) the variable is one object for the whole loop, so every stored slice aliases it and all of them end up showing the last element (an address with several key hashes is subscribed as its last hash several times, the others never)", c.P.Key(fn))
			c.Touch(fn)
		}
	}
	c.Ok(rule, "scope#loop-variable-slices", token.NoPos, "alias escape", "%d functions examined, no slice of a per-loop variable is stored away", n)
}
