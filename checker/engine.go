package main

import (
	"fmt"
	"go/constant"
	"go/token"
	"go/types"
	"sort"
	"strings"

	"golang.org/x/tools/go/ssa"
)

// ---------------------------------------------------------------------------------------------
// calls

// Site is a call instruction (call, go or defer) inside a function.
type Site struct {
	Fn    *ssa.Function
	Instr ssa.Instruction
	CC    *ssa.CallCommon
}

func (s Site) Pos() token.Pos {
	if p := s.Instr.Pos(); p.IsValid() {
		return p
	}
	return s.CC.Pos()
}

// Value returns the call's result value (nil for go/defer).
func (s Site) Value() *ssa.Call {
	c, _ := s.Instr.(*ssa.Call)
	return c
}

func callCommon(in ssa.Instruction) *ssa.CallCommon {
	switch x := in.(type) {
	case *ssa.Call:
		return &x.Call
	case *ssa.Go:
		return &x.Call
	case *ssa.Defer:
		return &x.Call
	}
	return nil
}

// calleeObj resolves the called *types.Func for static calls and interface invokes.
func calleeObj(cc *ssa.CallCommon) *types.Func {
	if cc.IsInvoke() {
		return cc.Method
	}
	if f := cc.StaticCallee(); f != nil {
		if o, ok := f.Object().(*types.Func); ok {
			return o
		}
		// bound method closure / thunk
		if f.Synthetic != "" {
			if o := thunkTarget(f); o != nil {
				return o
			}
		}
	}
	return nil
}

func thunkTarget(f *ssa.Function) *types.Func {
	// bound method wrappers ("$bound") and thunks call exactly one method
	for _, b := range f.Blocks {
		for _, in := range b.Instrs {
			if cc := callCommon(in); cc != nil {
				if cc.IsInvoke() {
					return cc.Method
				}
				if g := cc.StaticCallee(); g != nil {
					if o, ok := g.Object().(*types.Func); ok {
						return o
					}
				}
			}
		}
	}
	return nil
}

// calleeName is the resolved full name, e.g. "(*sync.Mutex).Lock" or "github.com/tokenized/pkg/wire.ReadVarInt".
func calleeName(cc *ssa.CallCommon) string {
	if o := calleeObj(cc); o != nil {
		return baselineName(o)
	}
	if b, ok := cc.Value.(*ssa.Builtin); ok {
		return "builtin." + b.Name()
	}
	return ""
}

// baselineName: the full name of o, with a function that was only renamed since the baseline
// reported under its recorded name (the rules know it by that name).
func baselineName(o *types.Func) string {
	full := o.FullName()
	if len(renamedFuncs) == 0 || o.Pkg() == nil || !inModule(o.Pkg()) {
		return full
	}
	if old, ok := renamedFuncs[typesFuncIdent(o)]; ok && strings.HasSuffix(full, "."+o.Name()) {
		return strings.TrimSuffix(full, o.Name()) + old
	}
	return full
}

// typesFuncIdent: "pkgpath recv name" of a declared function (as in baseline_funcs.txt).
func typesFuncIdent(o *types.Func) string {
	recv := ""
	if sig, ok := o.Type().(*types.Signature); ok && sig.Recv() != nil {
		t := sig.Recv().Type()
		if p, ok := t.(*types.Pointer); ok {
			t = p.Elem()
		}
		if n, ok := t.(*types.Named); ok {
			recv = n.Obj().Name()
		}
	}
	return o.Pkg().Path() + " " + recv + " " + o.Name()
}

// shortName strips the module path: "(*state.State).SetInSync", "storage.FetchTxState".
func shortName(full string) string {
	s := strings.ReplaceAll(full, modulePath+"/internal/", "")
	s = strings.ReplaceAll(s, modulePath+"/pkg/", "")
	s = strings.ReplaceAll(s, modulePath+"/", "")
	s = strings.ReplaceAll(s, "github.com/tokenized/pkg/", "")
	s = strings.ReplaceAll(s, "github.com/pkg/", "")
	return s
}

func calleeShort(cc *ssa.CallCommon) string { return shortName(calleeName(cc)) }

// sitesIn lists all call sites of fn (not descending into closures).
func sitesIn(fn *ssa.Function) []Site {
	var out []Site
	for _, b := range fn.Blocks {
		for _, in := range b.Instrs {
			if cc := callCommon(in); cc != nil {
				out = append(out, Site{fn, in, cc})
			}
		}
	}
	return out
}

// sitesDeep lists call sites of fn and of all closures defined in it.
func sitesDeep(fn *ssa.Function) []Site {
	out := sitesIn(fn)
	for _, a := range fn.AnonFuncs {
		out = append(out, sitesDeep(a)...)
	}
	return out
}

// callsTo lists the sites in fn whose resolved short callee name equals one of names.
func callsTo(fn *ssa.Function, names ...string) []Site {
	var out []Site
	for _, s := range sitesIn(fn) {
		n := calleeShort(s.CC)
		for _, w := range names {
			if n == w || sameButReceiverKind(n, w) {
				out = append(out, s)
			}
		}
	}
	return out
}

// sameButReceiverKind: two method names that differ only in value / pointer receiver: `(T).m` and `(*T).m`
// (an unexported method's receiver may be changed by a clean-up without any change of behaviour
// when the method does not modify it).
func sameButReceiverKind(a, b string) bool {
	if a == b || !strings.Contains(a, ").") || !strings.Contains(b, ").") {
		return false
	}
	return strings.Replace(a, "(*", "(", 1) == strings.Replace(b, "(*", "(", 1)
}

// args returns the call's arguments without the receiver.
func (s Site) Args() []ssa.Value {
	if s.CC.IsInvoke() {
		return s.CC.Args
	}
	if f := s.CC.StaticCallee(); f != nil && f.Signature.Recv() != nil && len(s.CC.Args) > 0 {
		return s.CC.Args[1:]
	}
	return s.CC.Args
}

// Recv returns the receiver value of a method call (nil for functions).
func (s Site) Recv() ssa.Value {
	if s.CC.IsInvoke() {
		return s.CC.Value
	}
	if f := s.CC.StaticCallee(); f != nil && f.Signature.Recv() != nil && len(s.CC.Args) > 0 {
		return s.CC.Args[0]
	}
	return nil
}

// ---------------------------------------------------------------------------------------------
// conditions

// Cond is a normalised branch condition: the branch is taken "positively" when Neg is false.
type Cond struct {
	Neg  bool
	V    ssa.Value   // the underlying value once negations / ==true / ==false are stripped
	Call *ssa.Call   // set when V is a call result or an Extract of one
	Idx  int         // tuple index when extracted (-1 for scalar results)
	Bin  *ssa.BinOp  // set when V is a comparison
	Nil  ssa.Value   // for `x != nil` / `x == nil`: x (Neg tells ==nil)
	Len  ssa.Value   // for comparisons against len(x): x
	Op   token.Token // comparison operator after normalisation
}

func isConstBool(v ssa.Value) (bool, bool) {
	c, ok := v.(*ssa.Const)
	if !ok || c.Value == nil || c.Value.Kind() != constant.Bool {
		return false, false
	}
	return constant.BoolVal(c.Value), true
}

func isNilConst(v ssa.Value) bool {
	c, ok := v.(*ssa.Const)
	return ok && c.IsNil()
}

func constInt(v ssa.Value) (int64, bool) {
	c, ok := v.(*ssa.Const)
	if !ok || c.Value == nil {
		return 0, false
	}
	if c.Value.Kind() != constant.Int {
		return 0, false
	}
	i, ok := constant.Int64Val(c.Value)
	return i, ok
}

func normCond(v ssa.Value) Cond {
	neg := false
	for {
		switch x := v.(type) {
		case *ssa.UnOp:
			if x.Op == token.NOT {
				neg = !neg
				v = x.X
				continue
			}
		case *ssa.BinOp:
			if x.Op == token.EQL || x.Op == token.NEQ {
				if b, ok := isConstBool(x.Y); ok {
					if (x.Op == token.EQL) != b {
						neg = !neg
					}
					v = x.X
					continue
				}
				if b, ok := isConstBool(x.X); ok {
					if (x.Op == token.EQL) != b {
						neg = !neg
					}
					v = x.Y
					continue
				}
			}
		}
		break
	}
	c := Cond{Neg: neg, V: v, Idx: -1}
	switch x := v.(type) {
	case *ssa.Call:
		c.Call = x
	case *ssa.Extract:
		if call, ok := x.Tuple.(*ssa.Call); ok {
			c.Call = call
			c.Idx = x.Index
		}
	case *ssa.BinOp:
		c.Bin = x
		c.Op = x.Op
		if x.Op == token.EQL || x.Op == token.NEQ {
			if isNilConst(x.Y) {
				c.Nil = x.X
			} else if isNilConst(x.X) {
				c.Nil = x.Y
			}
			if c.Nil != nil && x.Op == token.EQL {
				// "x == nil" : positive sense is "x is nil"; keep Op so callers can test
			}
		}
	}
	return c
}

// EdgePred says whether the edge (If in block b) -> b.Succs[branch] establishes a guard.
// branch 0 is the true edge, 1 the false edge.
type EdgePred func(iff *ssa.If, branch int) bool

// anyEdge combines predicates disjunctively.
func anyEdge(ps ...EdgePred) EdgePred {
	return func(iff *ssa.If, br int) bool {
		for _, p := range ps {
			if p(iff, br) {
				return true
			}
		}
		return false
	}
}

// condEdge builds an EdgePred from a predicate over the normalised condition that returns
// (matches, wantPositive): the guard edge is the one on which the condition has that truth value.
func condEdge(f func(c Cond) (bool, bool)) EdgePred {
	return func(iff *ssa.If, br int) bool {
		c := normCond(iff.Cond)
		ok, wantPos := f(c)
		if !ok {
			return false
		}
		// truth of c.V on branch br: br==0 means iff.Cond true => V true iff !Neg
		vTrue := (br == 0) != c.Neg
		return vTrue == wantPos
	}
}

// callEdge: guard "call to one of names returns want" (bool result or tuple element idx; idx<0 = scalar).
func callEdge(want bool, idx int, argOK func(call *ssa.Call) bool, names ...string) EdgePred {
	return condEdge(func(c Cond) (bool, bool) {
		if c.Call == nil {
			return false, false
		}
		if idx >= 0 && c.Idx != idx || idx < 0 && c.Idx >= 0 {
			return false, false
		}
		n := calleeShort(&c.Call.Call)
		for _, w := range names {
			if n == w {
				if argOK != nil && !argOK(c.Call) {
					return false, false
				}
				return true, want
			}
		}
		return false, false
	})
}

// reachAvoid reports whether target is reachable from `from` without traversing a guard edge.
// If reachable, it also returns one such path (block indices) as a witness.
func reachAvoid(from, target *ssa.BasicBlock, guard EdgePred) (bool, []*ssa.BasicBlock) {
	return reachAvoid2(from, target, guard, nil)
}

// mustPass: every path from function entry to instr's block traverses a guard edge.
func mustPass(in ssa.Instruction, guard EdgePred) (bool, []string) {
	b := in.Block()
	fn := b.Parent()
	ok, path := reachAvoid(fn.Blocks[0], b, guard)
	if !ok {
		return true, nil
	}
	return false, pathWitness(fn, path)
}

func pathWitness(fn *ssa.Function, path []*ssa.BasicBlock) []string {
	var w []string
	prog := fn.Prog
	for _, b := range path {
		line := ""
		for _, in := range b.Instrs {
			if p := in.Pos(); p.IsValid() {
				line = prog.Fset.Position(p).String()
				if i := strings.LastIndex(line, "/"); i >= 0 {
					line = line[i+1:]
				}
				break
			}
		}
		w = append(w, fmt.Sprintf("block %d (%s) %s", b.Index, b.Comment, line))
	}
	if len(w) > 14 {
		w = append(w[:6], append([]string{"…"}, w[len(w)-7:]...)...)
	}
	return w
}

// reachable: plain CFG reachability between blocks (from may equal to).
func reachable(from, to *ssa.BasicBlock) bool {
	ok, _ := reachAvoid(from, to, nil)
	return ok
}

// instrBefore: a precedes b on some path: same block and earlier, or b's block reachable from a's successors.
func instrIndex(in ssa.Instruction) int {
	for i, x := range in.Block().Instrs {
		if x == in {
			return i
		}
	}
	return -1
}

// canFollow reports whether instruction b can execute after instruction a (on some CFG path).
func canFollow(a, b ssa.Instruction) bool {
	if a.Block() == b.Block() && instrIndex(a) < instrIndex(b) {
		return true
	}
	for _, s := range a.Block().Succs {
		if reachable(s, b.Block()) {
			return true
		}
	}
	return false
}

// alwaysPrecededBy: every entry->b path executes some instruction of set `as` before b.
// Implemented as: b unreachable from entry when the blocks containing `as` are cut after those instrs.
func alwaysPrecededBy(b ssa.Instruction, as []ssa.Instruction) (bool, []string) {
	fn := b.Block().Parent()
	// same-block predecessor counts immediately
	for _, a := range as {
		if a.Block() == b.Block() && instrIndex(a) < instrIndex(b) {
			return true, nil
		}
	}
	cut := map[*ssa.BasicBlock]bool{}
	for _, a := range as {
		cut[a.Block()] = true
	}
	if cut[fn.Blocks[0]] {
		return true, nil
	}
	// walk avoiding cut blocks (edge-threaded, see thread.go)
	target := b.Block()
	if target == fn.Blocks[0] {
		return false, pathWitness(fn, []*ssa.BasicBlock{target})
	}
	reach, path := reachAvoid2(fn.Blocks[0], target, nil, cut)
	if reach {
		return false, pathWitness(fn, path)
	}
	return true, nil
}

// ---------------------------------------------------------------------------------------------
// provenance

// Roots computes the backward slice of v down to "origin" values: parameters, calls, constants,
// allocations, globals, field loads from heap objects (reported as the FieldAddr).
type rootSet struct {
	vals []ssa.Value
	seen map[ssa.Value]bool
}

func roots(v ssa.Value) []ssa.Value {
	rs := &rootSet{seen: map[ssa.Value]bool{}}
	rs.walk(v, 0)
	return rs.vals
}

func (rs *rootSet) add(v ssa.Value) {
	rs.vals = append(rs.vals, v)
}

func (rs *rootSet) walk(v ssa.Value, depth int) {
	if v == nil || rs.seen[v] {
		return
	}
	rs.seen[v] = true
	if depth > 60 {
		rs.add(v)
		return
	}
	switch x := v.(type) {
	case *ssa.Phi:
		for _, e := range x.Edges {
			rs.walk(e, depth+1)
		}
	case *ssa.UnOp:
		if x.Op == token.MUL { // load
			switch a := x.X.(type) {
			case *ssa.Alloc:
				// local spilled to memory: all stores into it (the variable itself counts as passed through:
				// a by-value copy `h2 := h` derives from h)
				rs.seen[a] = true
				n := 0
				for _, ref := range *a.Referrers() {
					if st, ok := ref.(*ssa.Store); ok && st.Addr == a {
						rs.walk(st.Val, depth+1)
						n++
					}
					// a record literal filled in field by field (`T{a: x, b: y}` is a local whose
					// fields are stored one by one): the record derives from what its fields hold
					if fa, ok := ref.(*ssa.FieldAddr); ok && fa.X == ssa.Value(a) {
						for _, r2 := range *fa.Referrers() {
							if st, ok := r2.(*ssa.Store); ok && st.Addr == ssa.Value(fa) {
								rs.walk(st.Val, depth+1)
								n++
							}
						}
					}
				}
				if n == 0 {
					rs.add(a)
				}
			case *ssa.FieldAddr, *ssa.IndexAddr:
				rs.add(x) // heap/aggregate load: origin, but also expose the base
				rs.walk(a, depth+1)
				// an element of a slice made in this function: what was stored into its elements
				if ia, ok := a.(*ssa.IndexAddr); ok {
					if ms, ok := stripConv(ia.X).(*ssa.MakeSlice); ok {
						for _, ref := range *ms.Referrers() {
							if ia2, ok := ref.(*ssa.IndexAddr); ok {
								for _, r2 := range *ia2.Referrers() {
									if st, ok := r2.(*ssa.Store); ok && st.Addr == ssa.Value(ia2) {
										rs.walk(st.Val, depth+1)
									}
								}
							}
						}
					}
				}
			default:
				rs.add(x)
				rs.walk(x.X, depth+1)
			}
			return
		}
		rs.walk(x.X, depth+1)
	case *ssa.FieldAddr:
		rs.add(x)
		rs.walk(x.X, depth+1)
	case *ssa.Field:
		rs.add(x)
		rs.walk(x.X, depth+1)
	case *ssa.IndexAddr:
		rs.add(x)
		rs.walk(x.X, depth+1)
	case *ssa.Index:
		rs.add(x)
		rs.walk(x.X, depth+1)
	case *ssa.Lookup:
		rs.add(x)
		rs.walk(x.X, depth+1)
	case *ssa.Slice:
		rs.add(x)
		rs.walk(x.X, depth+1)
	case *ssa.Convert:
		rs.walk(x.X, depth+1)
	case *ssa.ChangeType:
		rs.walk(x.X, depth+1)
	case *ssa.ChangeInterface:
		rs.walk(x.X, depth+1)
	case *ssa.MakeInterface:
		rs.walk(x.X, depth+1)
	case *ssa.TypeAssert:
		rs.walk(x.X, depth+1)
	case *ssa.Extract:
		rs.add(x)
		if call, ok := x.Tuple.(*ssa.Call); ok {
			rs.walkModuleCall(call, x.Index, depth+1)
		}
		rs.walk(x.Tuple, depth+1)
	case *ssa.BinOp:
		rs.add(x)
		rs.walk(x.X, depth+1)
		rs.walk(x.Y, depth+1)
	case *ssa.Next:
		rs.add(x)
		rs.walk(x.Iter, depth+1)
	case *ssa.Range:
		rs.add(x)
		rs.walk(x.X, depth+1)
	case *ssa.Call:
		rs.add(x)
		if _, isBuiltin := x.Call.Value.(*ssa.Builtin); isBuiltin {
			for _, a := range x.Call.Args {
				rs.walk(a, depth+1)
			}
		} else if rs.walkModuleCall(x, 0, depth+1) {
			// result derives from arguments according to the callee's body (module helper)
		} else if n := calleeName(&x.Call); n == "bytes.NewReader" || n == "bytes.NewBuffer" || n == "bytes.NewBufferString" || n == "fmt.Sprintf" {
			// reader constructors: the stream is its argument
			for _, a := range x.Call.Args {
				rs.walk(a, depth+1)
			}
		} else if isProjection(&x.Call) {
			// pure projections of the receiver (tx.TxHash(), header.BlockHash(), block.GetHeader(), …)
			if x.Call.IsInvoke() {
				rs.walk(x.Call.Value, depth+1)
			} else if len(x.Call.Args) > 0 {
				rs.walk(x.Call.Args[0], depth+1)
			}
		}
	case *ssa.Alloc:
		rs.add(x)
		// whole-object stores into a local aggregate (e.g. header := block.GetHeader())
		if refs := x.Referrers(); refs != nil {
			for _, ref := range *refs {
				switch r := ref.(type) {
				case *ssa.Store:
					if r.Addr == ssa.Value(x) {
						rs.walk(r.Val, depth+1)
					}
				case *ssa.FieldAddr:
					// composite literal built in place: stores into its fields
					if r.X == ssa.Value(x) {
						rs.walkStoresInto(r, depth+1)
					}
				case *ssa.IndexAddr:
					if r.X == ssa.Value(x) {
						rs.walkStoresInto(r, depth+1)
					}
				}
			}
		}
	default:
		// Call, Parameter, Const, Global, FreeVar, MakeSlice, MakeMap, Function, ...
		rs.add(v)
	}
}

func (rs *rootSet) walkStoresInto(addr ssa.Value, depth int) {
	refs := addr.Referrers()
	if refs == nil {
		return
	}
	for _, ref := range *refs {
		if st, ok := ref.(*ssa.Store); ok && st.Addr == addr {
			rs.walk(st.Val, depth)
		}
	}
}

// resultParamSummary: which parameters result #i of a small module function derives from.
var resultParamMemo = map[*ssa.Function]map[int][]int{}
var resultParamBusy = map[*ssa.Function]bool{}

func resultParams(fn *ssa.Function, i int) []int {
	if m, ok := resultParamMemo[fn]; ok {
		if r, ok := m[i]; ok {
			return r
		}
	} else {
		resultParamMemo[fn] = map[int][]int{}
	}
	if resultParamBusy[fn] || len(fn.Blocks) == 0 || len(fn.Blocks) > 40 {
		return nil
	}
	resultParamBusy[fn] = true
	defer delete(resultParamBusy, fn)
	set := map[int]bool{}
	for _, ret := range returnsOf(fn) {
		for _, v := range resultValues(ret, i) {
			inner := &rootSet{seen: map[ssa.Value]bool{}}
			inner.walk(v, 0)
			for x := range inner.seen {
				if p, ok := x.(*ssa.Parameter); ok {
					if pi := paramIndex(fn, p); pi >= 0 {
						set[pi] = true
					}
				}
			}
		}
	}
	var out []int
	for k := range set {
		out = append(out, k)
	}
	resultParamMemo[fn][i] = out
	return out
}

// walkModuleCall follows result #idx of a call to a small module helper into the arguments it
// derives from (e.g. removeHash(h, list) returns a sub-slice of list, repo.buildPath(h) a string
// computed from h). Only unexported helpers are summarised this way.
func (rs *rootSet) walkModuleCall(call *ssa.Call, idx int, depth int) bool {
	callee := call.Call.StaticCallee()
	if callee == nil || callee.Blocks == nil || !inModule(pkgOf(callee)) {
		return false
	}
	if ast_IsExported(callee.Name()) {
		return false
	}
	ps := resultParams(callee, idx)
	for _, pi := range ps {
		if pi < len(call.Call.Args) {
			rs.walk(call.Call.Args[pi], depth)
		}
	}
	return len(ps) > 0
}

// projections: methods that are pure functions of their receiver (frozen list, dependency types).
var projectionNames = map[string]bool{"TxHash": true, "BlockHash": true, "OutpointHash": true, "GetHeader": true, "Copy": true}

func isProjection(cc *ssa.CallCommon) bool {
	o := calleeObj(cc)
	if o == nil || !projectionNames[o.Name()] {
		return false
	}
	sig, _ := o.Type().(*types.Signature)
	return sig != nil && sig.Recv() != nil && sig.Params().Len() == 0
}

// derivesFromCall: some root of v is a call (or extract of a call) to one of names.
func derivesFromCall(v ssa.Value, names ...string) *ssa.Call {
	for _, r := range roots(v) {
		var call *ssa.Call
		switch x := r.(type) {
		case *ssa.Call:
			call = x
		}
		if call == nil {
			continue
		}
		n := calleeShort(&call.Call)
		for _, w := range names {
			if n == w {
				return call
			}
		}
	}
	return nil
}

// derivesFromValue: w is among the roots/intermediate values of v.
func derivesFromValue(v, w ssa.Value) bool {
	rs := &rootSet{seen: map[ssa.Value]bool{}}
	rs.walk(v, 0)
	return rs.seen[w]
}

// fieldOfAddr returns the struct field selected by a FieldAddr/Field.
func fieldOfAddr(v ssa.Value) *types.Var {
	switch x := v.(type) {
	case *ssa.FieldAddr:
		t := x.X.Type().Underlying()
		if p, ok := t.(*types.Pointer); ok {
			if st, ok := p.Elem().Underlying().(*types.Struct); ok {
				return st.Field(x.Field)
			}
		}
	case *ssa.Field:
		if st, ok := x.X.Type().Underlying().(*types.Struct); ok {
			return st.Field(x.Field)
		}
	}
	return nil
}

// mentionsField: the slice of v passes through a load/addr of the given field.
func mentionsField(v ssa.Value, f *types.Var) bool {
	rs := &rootSet{seen: map[ssa.Value]bool{}}
	rs.walk(v, 0)
	for x := range rs.seen {
		if fieldOfAddr(x) == f {
			return true
		}
	}
	return false
}

// ---------------------------------------------------------------------------------------------
// field access index

// Access is a read or write of a struct field somewhere in the module.
type Access struct {
	Fn    *ssa.Function
	Instr ssa.Instruction
	Field *types.Var
	Write bool
	Kind  string // "store", "load", "mapupdate", "delete", "addr"
}

// fieldAccesses scans fn for accesses to any field of the given set.
func fieldAccesses(fn *ssa.Function, fields map[*types.Var]bool) []Access {
	var out []Access
	for _, b := range fn.Blocks {
		for _, in := range b.Instrs {
			fa, ok := in.(*ssa.FieldAddr)
			if !ok {
				continue
			}
			f := fieldOfAddr(fa)
			if f == nil || !fields[f] {
				continue
			}
			refs := fa.Referrers()
			if refs == nil {
				continue
			}
			for _, r := range *refs {
				switch x := r.(type) {
				case *ssa.Store:
					if x.Addr == fa {
						out = append(out, Access{fn, x, f, true, "store"})
					} else {
						out = append(out, Access{fn, x, f, false, "addr"})
					}
				case *ssa.UnOp:
					if x.Op == token.MUL {
						// load; look for map updates / deletes / element stores through it
						w := false
						if lr := x.Referrers(); lr != nil {
							for _, u := range *lr {
								switch y := u.(type) {
								case *ssa.MapUpdate:
									if y.Map == x {
										out = append(out, Access{fn, y, f, true, "mapupdate"})
										w = true
									}
								case *ssa.Call:
									if bi, ok := y.Call.Value.(*ssa.Builtin); ok && bi.Name() == "delete" && len(y.Call.Args) > 0 && y.Call.Args[0] == x {
										out = append(out, Access{fn, y, f, true, "delete"})
										w = true
									}
								}
							}
						}
						_ = w
						out = append(out, Access{fn, x, f, false, "load"})
					}
				default:
					out = append(out, Access{fn, r, f, false, "addr"})
				}
			}
		}
	}
	return out
}

// ---------------------------------------------------------------------------------------------
// call graph closure (static callees + closures + module interface dispatch)

type Edge struct {
	From *ssa.Function
	Site ssa.Instruction
	To   *ssa.Function
}

type CallGraph struct {
	P *Program
	// Resolve, when set, overrides the resolution of interface invokes (return ok=false to fall back).
	Resolve func(from *ssa.Function, cc *ssa.CallCommon) ([]*ssa.Function, bool)
	impls   map[*types.Func][]*ssa.Function // interface method -> module implementations
	named   []types.Type
	out     map[*ssa.Function][]Edge
}

func newCallGraph(P *Program) *CallGraph {
	g := &CallGraph{P: P, impls: map[*types.Func][]*ssa.Function{}, out: map[*ssa.Function][]Edge{}}
	for _, p := range P.ByRel {
		sc := p.Types.Scope()
		for _, n := range sc.Names() {
			if tn, ok := sc.Lookup(n).(*types.TypeName); ok && !tn.IsAlias() {
				if _, isIface := tn.Type().Underlying().(*types.Interface); !isIface {
					g.named = append(g.named, tn.Type(), types.NewPointer(tn.Type()))
				}
			}
		}
	}
	return g
}

func (g *CallGraph) implementations(m *types.Func) []*ssa.Function {
	if r, ok := g.impls[m]; ok {
		return r
	}
	var out []*ssa.Function
	sig := m.Type().(*types.Signature)
	recv := sig.Recv()
	if recv != nil {
		if iface, ok := recv.Type().Underlying().(*types.Interface); ok {
			for _, t := range g.named {
				if !types.Implements(t, iface) {
					continue
				}
				ms := g.P.SSA.MethodSets.MethodSet(t)
				sel := ms.Lookup(m.Pkg(), m.Name())
				if sel == nil {
					continue
				}
				if f := g.P.SSA.MethodValue(sel); f != nil {
					// unwrap promoted-method wrappers to the declared function when possible
					out = append(out, f)
				}
			}
		}
	}
	// dedupe by declared object
	seen := map[*ssa.Function]bool{}
	var ded []*ssa.Function
	for _, f := range out {
		if !seen[f] {
			seen[f] = true
			ded = append(ded, f)
		}
	}
	g.impls[m] = ded
	return ded
}

// Callees returns the module-resolvable callees of every call in fn (plus closures created in fn).
func (g *CallGraph) Callees(fn *ssa.Function) []Edge {
	if e, ok := g.out[fn]; ok {
		return e
	}
	var es []Edge
	for _, b := range fn.Blocks {
		for _, in := range b.Instrs {
			if mc, ok := in.(*ssa.MakeClosure); ok {
				if f, ok := mc.Fn.(*ssa.Function); ok {
					es = append(es, Edge{fn, in, f})
				}
			}
			cc := callCommon(in)
			if cc == nil {
				continue
			}
			if cc.IsInvoke() {
				if g.Resolve != nil {
					if fs, ok := g.Resolve(fn, cc); ok {
						for _, f := range fs {
							es = append(es, Edge{fn, in, f})
						}
						continue
					}
				}
				for _, f := range g.implementations(cc.Method) {
					es = append(es, Edge{fn, in, f})
				}
				continue
			}
			if f := cc.StaticCallee(); f != nil {
				es = append(es, Edge{fn, in, f})
				continue
			}
			// function value: follow closures defined locally (MakeClosure handled above) – nothing else
		}
	}
	g.out[fn] = es
	return es
}

// Reach computes the closure from roots; stop(fn) prunes traversal below fn. It returns the
// predecessor edge of every reached function for path reconstruction.
func (g *CallGraph) Reach(rootFns []*ssa.Function, stop func(*ssa.Function) bool) map[*ssa.Function]*Edge {
	pred := map[*ssa.Function]*Edge{}
	var queue []*ssa.Function
	for _, r := range rootFns {
		if _, ok := pred[r]; !ok {
			pred[r] = nil
			queue = append(queue, r)
		}
	}
	for len(queue) > 0 {
		f := queue[0]
		queue = queue[1:]
		if stop != nil && stop(f) {
			continue
		}
		if f.Blocks == nil {
			continue
		}
		for _, e := range g.Callees(f) {
			if _, ok := pred[e.To]; ok {
				continue
			}
			ee := e
			pred[e.To] = &ee
			queue = append(queue, e.To)
		}
	}
	return pred
}

func (g *CallGraph) PathTo(pred map[*ssa.Function]*Edge, f *ssa.Function) []string {
	var out []string
	for cur := f; cur != nil; {
		e := pred[cur]
		name := g.P.Key(cur)
		if name == "" {
			name = cur.String()
		}
		if e == nil {
			out = append([]string{name}, out...)
			break
		}
		out = append([]string{fmt.Sprintf("%s (called at %s)", name, g.P.Pos(e.Site.Pos()))}, out...)
		cur = e.From
	}
	return out
}

// Callers returns, for every module function, the sites that call target (by resolved object name).
func (P *Program) CallersOf(short string) []Site {
	var out []Site
	for _, fn := range P.AllSrc {
		for _, s := range sitesIn(fn) {
			if n := calleeShort(s.CC); n == short || sameButReceiverKind(n, short) {
				out = append(out, s)
			}
		}
	}
	sort.Slice(out, func(i, j int) bool { return out[i].Pos() < out[j].Pos() })
	return out
}

// topFn returns the outermost enclosing function of a (possibly anonymous) function.
func topFn(fn *ssa.Function) *ssa.Function {
	for fn.Parent() != nil {
		fn = fn.Parent()
	}
	return fn
}
