package main

import (
	"fmt"
	"go/token"
	"go/types"
	"sort"
	"strings"

	"golang.org/x/tools/go/ssa"
)

func init() {
	register(&PropDef{
		ID:    "C16",
		Title: "Remote client calls return the response to their own request",
		Explanation: "Decides the table agreement and pairing skeleton of request/response correlation in pkg/client/remote_client.go: " +
			"(R1) for every synchronous call that registers request{typ:K, key}, the router handleRequestResponse has, under every payload type the call's type switch accepts (its result type and *Reject), a delivery whose match tests request.typ == K and the same key field the caller filled (hash or height); " +
			"(R1b) deliveries for request kinds without a hash key are reachable when the response carries no hash; " +
			"(R2) after addRequest succeeded every return either follows the receive from the request's response channel or a removeRequest call (no leaked entry); " +
			"(R3) no field of the request object is written after it was published with addRequest; " +
			"(R4) every response channel has capacity >= 1; " +
			"(R5) every call has a time-out arm on RequestTimeout() returning ErrTimeout and a *Reject arm returning a RejectError built from the message's Code and Message; " +
			"(R6) the pending list is touched only by the requests goroutine; " +
			"(R7) in GetOutputs outputs[k] is filled from tx.TxOut[outpoints[k].Index] for the same k, and no error is wrapped on a path where it is provably nil; " +
			"(R8) the requests goroutine consumes queued registrations before it routes a response; (R9) every delivery removes the request from the pending list; (R10) every call registers its request before it sends the message.",
		NotDecided:  "correlation under all permutations/delays of responses and concurrent calls with equal keys (dynamic); the server's behaviour.",
		Assumptions: []string{"the response router runs on a single goroutine (R6 checks ownership of the list)"},
		Tech:        "table agreement between caller literals and router guards (dominating-edge contexts on SSA), path typestate for registered/answered/removed, constant provenance, who-may-access",
		Run:         runC16,
	})
}

type domEdge struct {
	Iff *ssa.If
	Br  int
}

// dominatingEdges lists the branch edges that dominate instruction in (innermost first).
func dominatingEdges(in ssa.Instruction) []domEdge {
	var out []domEdge
	cur := in.Block()
	for d := cur.Idom(); d != nil; d = d.Idom() {
		iff, ok := lastIf(d)
		if !ok {
			continue
		}
		for i, s := range d.Succs {
			if (s == cur || s.Dominates(cur)) && len(s.Preds) == 1 && d.Succs[1-i] != s {
				out = append(out, domEdge{iff, i})
			}
		}
	}
	return out
}

type syncCall struct {
	Fn      *ssa.Function
	Req     *ssa.Alloc
	Typ     int64
	TypName string
	Key     string // "hash", "height", ""
	Accepts []string
	AddReq  *ssa.Call
	Chan    ssa.Value
	Select  *ssa.Select
}

type delivery struct {
	Send       *ssa.Send
	Payload    string
	MsgType    int64 // -1 if none
	ReqTyp     int64 // -1 if none, -2 if compared with msg.MessageType (dynamic)
	Key        string
	HashNonNil bool // dominated by msg.Hash != nil
}

func runC16(c *Check) {
	reqT := c.P.NamedType("client", "request")
	fTyp := c.P.Field("client", "request", "typ")
	fHash := c.P.Field("client", "request", "hash")
	fHeight := c.P.Field("client", "request", "height")
	fResp := c.P.Field("client", "request", "response")
	fRequests := c.P.Field("client", "RemoteClient", "requests")
	if reqT == nil || fTyp == nil || fHash == nil || fHeight == nil || fResp == nil || fRequests == nil {
		c.Undecided("R0", "anchor:client.request", token.NoPos, "request type / fields not found")
		return
	}
	constName := map[int64]string{}
	sc := c.P.ByRel["client"].Types.Scope()
	for _, n := range sc.Names() {
		if strings.HasPrefix(n, "MessageType") {
			if k, ok := sc.Lookup(n).(*types.Const); ok {
				if v, ok := constantInt(k); ok {
					constName[v] = n
				}
			}
		}
	}

	// ---- collect synchronous calls
	var calls []syncCall
	for _, fn := range c.P.FuncsIn("client") {
		if fn.Parent() != nil {
			continue
		}
		for _, b := range fn.Blocks {
			for _, in := range b.Instrs {
				al, ok := in.(*ssa.Alloc)
				if !ok || !types.Identical(al.Type().(*types.Pointer).Elem(), reqT) {
					continue
				}
				sc := syncCall{Fn: fn, Req: al, Typ: -1}
				for _, ref := range *al.Referrers() {
					switch r := ref.(type) {
					case *ssa.FieldAddr:
						for _, r2 := range *r.Referrers() {
							st, ok := r2.(*ssa.Store)
							if !ok || st.Addr != ssa.Value(r) {
								continue
							}
							switch fieldOfAddr(r) {
							case fTyp:
								if k, ok := constInt(st.Val); ok {
									sc.Typ = k
								}
							case fHash:
								if !isEmptyValue(st.Val) {
									sc.Key = "hash"
								}
							case fHeight:
								// an explicit zero is the field's zero value: not a key
								if k, isC := constInt(st.Val); !(isC && k == 0) && sc.Key != "hash" {
									sc.Key = "height"
								}
							case fResp:
								sc.Chan = st.Val
							}
						}
					case *ssa.Call:
						if calleeShort(&r.Call) == "(*client.RemoteClient).addRequest" {
							sc.AddReq = r
						}
					}
				}
				if sc.AddReq == nil {
					continue
				}
				sc.TypName = constName[sc.Typ]
				// select + accepted payload types
				for _, b2 := range fn.Blocks {
					for _, in2 := range b2.Instrs {
						if sel, ok := in2.(*ssa.Select); ok {
							for _, stt := range sel.States {
								if stt.Dir == types.RecvOnly && sc.Chan != nil && stt.Chan == sc.Chan {
									sc.Select = sel
								}
								// the same channel read back from the request object (req.response)
								if fa := loadOfField(stt.Chan, fResp); stt.Dir == types.RecvOnly && fa != nil && fa.X == ssa.Value(al) {
									sc.Select = sel
								}
							}
						}
						if ta, ok := in2.(*ssa.TypeAssert); ok && ta.CommaOk {
							if p, ok := ta.AssertedType.(*types.Pointer); ok {
								if n, ok := p.Elem().(*types.Named); ok && n.Obj().Pkg() == fn.Pkg.Pkg {
									sc.Accepts = append(sc.Accepts, n.Obj().Name())
								}
							}
						}
					}
				}
				calls = append(calls, sc)
			}
		}
	}
	sort.Slice(calls, func(i, j int) bool { return c.P.Key(calls[i].Fn) < c.P.Key(calls[j].Fn) })
	c.Min("R1", "synchronous request registrations", len(calls), 5)

	// ---- collect deliveries in the router
	router := c.Fn("R1", "client.(*RemoteClient).handleRequestResponse")
	if router == nil {
		return
	}
	var dels []delivery
	for _, b := range router.Blocks {
		for _, in := range b.Instrs {
			snd, ok := in.(*ssa.Send)
			if !ok || !mentionsField(snd.Chan, fResp) {
				continue
			}
			d := delivery{Send: snd, MsgType: -1, ReqTyp: -1}
			edges := dominatingEdges(snd)
			// the request was picked by a search that hands out its index ("index of the match or -1"):
			// the tests that selected it are those in force where the index was chosen
			for _, r := range rootsAll(snd.Chan) {
				ia, ok := r.(*ssa.IndexAddr)
				if !ok {
					continue
				}
				fi := foundIndexOf(ia.Index)
				if fi == nil {
					continue
				}
				for _, ref := range *fi.Referrers() {
					p2, ok := ref.(*ssa.Phi)
					if !ok {
						continue
					}
					for i, e := range p2.Edges {
						if e == fi {
							pb := p2.Block().Preds[i]
							edges = append(edges, dominatingEdges(pb.Instrs[len(pb.Instrs)-1])...)
						}
					}
				}
			}
			for _, e := range edges {
				cd := normCond(e.Iff.Cond)
				truth := (e.Br == 0) != cd.Neg
				// payload type switch
				if ex, ok := cd.V.(*ssa.Extract); ok && ex.Index == 1 {
					if ta, ok := ex.Tuple.(*ssa.TypeAssert); ok && truth && d.Payload == "" {
						if p, ok := ta.AssertedType.(*types.Pointer); ok {
							if n, ok := p.Elem().(*types.Named); ok {
								d.Payload = n.Obj().Name()
							}
						}
					}
				}
				if cd.Bin != nil && (cd.Bin.Op == token.EQL || cd.Bin.Op == token.NEQ) {
					eq := truth == (cd.Bin.Op == token.EQL)
					x, y := cd.Bin.X, cd.Bin.Y
					for k := 0; k < 2; k++ {
						if anyFieldLoad(x) == fTyp && eq {
							if v, ok := constInt(y); ok && d.ReqTyp == -1 {
								d.ReqTyp = v
							} else if f := anyFieldLoad(y); f != nil && f.Name() == "MessageType" && d.ReqTyp == -1 {
								d.ReqTyp = -2
							}
						}
						if f := anyFieldLoad(x); f != nil && f.Name() == "MessageType" && eq {
							if v, ok := constInt(y); ok && d.MsgType == -1 {
								d.MsgType = v
							}
						}
						if anyFieldLoad(x) == fHeight && eq && d.Key == "" {
							d.Key = "height"
						}
						if anyFieldLoad(x) == fHash && eq && d.Key == "" && !isNilConst(y) {
							d.Key = "hash" // array comparison instead of the Equal method
						}
						if f := anyFieldLoad(x); f != nil && f.Name() == "Hash" && isNilConst(y) && !eq {
							d.HashNonNil = true
						}
						x, y = y, x
					}
				}
				if cd.Call != nil && truth {
					if o := calleeObj(&cd.Call.Call); o != nil && o.Name() == "Equal" && len(cd.Call.Call.Args) == 2 {
						if fieldAddrOf(cd.Call.Call.Args[0]) == fHash || mentionsField(cd.Call.Call.Args[0], fHash) {
							if d.Key == "" {
								d.Key = "hash"
							}
						}
					}
				}
			}
			// a `switch msg.MessageType { case A, B: ... request.typ == msg.MessageType }` delivers for A and B
			dels = append(dels, d)
		}
	}
	c.Min("R1", "deliveries in the response router", len(dels), 18)
	// switch case lists: MsgType from `case A, B` appear as disjunction (not a dominating edge) – recover
	// by scanning the block's predecessors' conditions
	for i := range dels {
		d := &dels[i]
		if d.ReqTyp == -2 && d.MsgType == -1 {
			// collect the constants compared with msg.MessageType on edges leading to the loop
			d.MsgType = -3
		}
	}
	multi := map[*ssa.Send][]int64{}
	for _, d := range dels {
		if d.MsgType != -3 {
			continue
		}
		// every If in the router comparing msg.MessageType == const whose true edge reaches the send
		for _, b := range router.Blocks {
			iff, ok := lastIf(b)
			if !ok {
				continue
			}
			cd := normCond(iff.Cond)
			if cd.Bin == nil || cd.Bin.Op != token.EQL || cd.Neg {
				continue
			}
			if f := anyFieldLoad(cd.Bin.X); f == nil || f.Name() != "MessageType" {
				continue
			}
			v, ok := constInt(cd.Bin.Y)
			if !ok {
				continue
			}
			// true edge reaches the send without passing another MessageType test
			if reachable(b.Succs[0], d.Send.Block()) && b.Succs[0].Dominates(d.Send.Block()) || len(b.Succs[0].Preds) > 1 && reachable(b.Succs[0], d.Send.Block()) && dominatesViaJoin(b.Succs[0], d.Send.Block()) {
				multi[d.Send] = append(multi[d.Send], v)
			}
		}
	}
	matches := func(d delivery, payload string, k int64, key string) bool {
		if d.Payload != payload {
			return false
		}
		if payload == "Accept" || payload == "Reject" {
			if d.MsgType == -3 {
				ok := false
				for _, v := range multi[d.Send] {
					if v == k {
						ok = true
					}
				}
				if !ok {
					return false
				}
			} else if d.MsgType != k {
				return false
			}
		}
		if d.ReqTyp != k && d.ReqTyp != -2 {
			return false
		}
		return d.Key == key
	}

	for _, sc := range calls {
		fk := c.P.Key(sc.Fn)
		c.Touch(sc.Fn)
		if sc.Typ < 0 {
			c.Undecided("R1", fk+"#request-type", sc.Req.Pos(), "request literal without a constant typ")
			continue
		}
		acc := map[string]bool{}
		for _, a := range sc.Accepts {
			acc[a] = true
		}
		for a := range acc {
			key := sc.Key
			wantKey := key
			if a == "Reject" && key == "height" {
				wantKey = "" // a reject carries no height
			}
			found := false
			var cand []string
			for _, d := range dels {
				if matches(d, a, sc.Typ, wantKey) {
					found = true
					// R1b keyless deliveries must not require a hash
					if wantKey != "hash" && (a == "Reject" || a == "Accept") {
						c.Decide(!d.HashNonNil, "R1b", fmt.Sprintf("%s#%s-reachable-without-hash", fk, a), d.Send.Pos(), "dominating-edge context", nil,
							"the keyless delivery is reachable when the response has no hash", "the "+a+" delivery for "+sc.TypName+" sits behind `msg.Hash != nil`, but this request kind is not identified by a hash: the response is dropped and the call times out")
					}
				}
				if d.Payload == a {
					cand = append(cand, fmt.Sprintf("router delivers %s for typ=%s key=%q at %s", a, constName[d.ReqTyp], d.Key, c.P.Pos(d.Send.Pos())))
				}
			}
			sort.Strings(cand)
			if len(cand) > 6 {
				cand = cand[:6]
			}
			c.Decide(found, "R1", fmt.Sprintf("%s#routed-%s", fk, a), sc.Req.Pos(), "table agreement", cand,
				fmt.Sprintf("a %s response is routed to requests of type %s by %s", a, sc.TypName, orNone(wantKey)),
				fmt.Sprintf("%s registers request{typ: %s, key: %s} and accepts a *%s response, but the router never delivers a %s to a request of that type/key: the call can only time out", fk, sc.TypName, orNone(wantKey), a, a))
		}

		// ---- R2 pairing
		if sc.Select == nil {
			c.Bad("R2", fk+"#waits-for-response", sc.Req.Pos(), "path-typestate", nil, "no select receiving from the request's response channel")
			continue
		}
		recvIdx := -1
		for i, stt := range sc.Select.States {
			if stt.Chan == sc.Chan {
				recvIdx = i
			}
			if fa := loadOfField(stt.Chan, fResp); stt.Dir == types.RecvOnly && fa != nil && fa.X == ssa.Value(sc.Req) {
				recvIdx = i // the same channel read back from the request object
			}
		}
		recvEdge := func(iff *ssa.If, br int) bool {
			r, ok := edgeRel(iff, br)
			if !ok || r.Op != token.EQL {
				return false
			}
			ex, ok := r.X.(*ssa.Extract)
			if !ok || ex.Tuple != ssa.Value(sc.Select) || ex.Index != 0 {
				return false
			}
			k, isC := constInt(r.Y)
			return isC && int(k) == recvIdx
		}
		cut := map[*ssa.BasicBlock]bool{}
		for _, s := range callsTo(sc.Fn, "(*client.RemoteClient).removeRequest") {
			if len(s.Args()) > 0 && s.Args()[0] == ssa.Value(sc.Req) {
				cut[s.Instr.Block()] = true
			}
		}
		// success edge of addRequest
		var start *ssa.BasicBlock
		for _, b := range sc.Fn.Blocks {
			if iff, ok := lastIf(b); ok {
				for br := 0; br < 2; br++ {
					if errNilEdge(sameCall(sc.AddReq), true)(iff, br) {
						start = b.Succs[br]
					}
				}
			}
		}
		if start == nil {
			c.Undecided("R2", fk+"#addRequest-tested", sc.AddReq.Pos(), "the error of addRequest is not tested")
			continue
		}
		okAll := true
		var wit []string
		for _, ret := range returnsOf(sc.Fn) {
			if cut[ret.Block()] {
				continue
			}
			if r, p := reachAvoid2(start, ret.Block(), recvEdge, cut); r {
				okAll = false
				wit = pathWitness(sc.Fn, p)
			}
		}
		c.Decide(okAll, "R2", fk+"#request-answered-or-removed", sc.AddReq.Pos(), "path-typestate", wit,
			"every return after registration follows the response or a removeRequest", "a return path leaves the registered request in the pending list (e.g. when sending fails): it captures the response of the next call with the same key")

		c.ruleRegisterBeforeSend(sc)

		// ---- R3 no write after publication
		okW := true
		for _, ref := range *sc.Req.Referrers() {
			fa, ok := ref.(*ssa.FieldAddr)
			if !ok {
				continue
			}
			for _, r2 := range *fa.Referrers() {
				if st, ok := r2.(*ssa.Store); ok && st.Addr == ssa.Value(fa) && canFollow(sc.AddReq, st) {
					okW = false
				}
			}
		}
		c.Decide(okW, "R3", fk+"#request-immutable-after-publication", sc.AddReq.Pos(), "event-order", nil,
			"the request is complete before addRequest", "a field of the request is written after it was handed to the requests goroutine: the router can see an incomplete key")

		// ---- R4 capacity
		okCap := false
		if mc, ok := sc.Chan.(*ssa.MakeChan); ok {
			if k, isC := constInt(mc.Size); isC && k >= 1 {
				okCap = true
			}
		}
		c.Decide(okCap, "R4", fk+"#response-channel-buffered", sc.Req.Pos(), "constant provenance", nil,
			"response channel has capacity >= 1", "the response channel is unbuffered: the router blocks forever on a caller that already timed out")

		// ---- R5 timeout and reject arms
		okTO := false
		for _, stt := range sc.Select.States {
			if stt.Chan != sc.Chan && derivesFromCall(stt.Chan, "time.After") != nil {
				if call := derivesFromCall(stt.Chan, "time.After"); call != nil && derivesFromCall(call.Call.Args[0], "(*client.RemoteClient).RequestTimeout") != nil {
					okTO = true
				}
			}
		}
		retTimeout := false
		for _, ret := range returnsOf(sc.Fn) {
			for _, v0 := range resultValues(ret, len(ret.Results)-1) {
				for _, v := range flattenPhi(v0, 0) { // `err = ErrTimeout; …; return err`
					if u, ok := stripIfaceConv(v).(*ssa.UnOp); ok {
						if g, ok := u.X.(*ssa.Global); ok && g.Name() == "ErrTimeout" {
							retTimeout = true
						}
					}
				}
			}
		}
		c.Decide(okTO && retTimeout, "R5", fk+"#timeout-arm", sc.Select.Pos(), "provenance", nil,
			"waits at most RequestTimeout() and returns ErrTimeout", "the call has no time-out arm on RequestTimeout() returning ErrTimeout")
		okRej := false
		for _, s := range callsTo(sc.Fn, "client.NewRejectError") {
			a := s.Args()
			if len(a) == 2 && mentionsFieldNamed(a[0], "Code") && mentionsFieldNamed(a[1], "Message") {
				// and it is returned
				for _, ret := range returnsOf(sc.Fn) {
					for _, v := range resultValues(ret, len(ret.Results)-1) {
						if derivesFromValue(v, s.Value()) {
							okRej = true
						}
					}
				}
			}
		}
		c.Decide(okRej, "R5", fk+"#reject-arm", sc.Select.Pos(), "provenance", nil,
			"a *Reject response is returned as RejectError(Code, Message)", "a rejection is not surfaced as a reject error carrying the server's code and message")
	}

	c.ruleRouterPairing(fRequests, fResp)
	c.ruleIndexBoundOnSameIndex("R7", "client.(*RemoteClient).GetOutputs")
	c.ruleSpliceRemovesOne("R11", 10, "client")
	c.ruleHeadersRoutedByRequestHeight("R12")
	c.ruleClientChannelSenders("R13", clientChannelSenders)
	c.ruleResponsesAlwaysForwarded("R14")
	c.ruleRequestTimerAfterSend("R15")
	c.rulePendingListShrinksOnlyByRemoval("R16")
	c.ruleRejectEndsOnlyUnaccepted("R17")
	c.ruleResponseAlwaysHandedOver("R18")
	c.ruleRemoveByIdentity("R6", fRequests, c.P.Field("client", "RemoteClient", "removeRequestsChannel"))

	// ---- R6 ownership of the pending list
	allowed := map[string]bool{"client.(*RemoteClient).runRequests": true, "client.(*RemoteClient).handleRequestResponse": true}
	n6 := 0
	for _, fn := range c.P.FuncsIn("client") {
		accs := fieldAccesses(fn, map[*types.Var]bool{fRequests: true})
		if len(accs) == 0 {
			continue
		}
		n6 += len(accs)
		k := c.P.Key(topFn(fn))
		c.Decide(allowed[k], "R6", k+"#touches-pending-list", accs[0].Instr.Pos(), "who-may-access", nil,
			"owner goroutine", "the pending request list is accessed outside the requests goroutine's functions (unsynchronised)")
	}
	c.Min("R6", "accesses to RemoteClient.requests", n6, 20)
	// runRequests is started exactly once
	c.ruleStartedOnce("R6", "client.(*RemoteClient).Run", "client.(*RemoteClient).runRequests")

	// ---- R7 GetOutputs
	if fn := c.Fn("R7", "client.(*RemoteClient).GetOutputs"); fn != nil {
		outpoints := paramAt(fn, "outpoints", 2)
		n := 0
		for _, b := range fn.Blocks {
			for _, in := range b.Instrs {
				st, ok := in.(*ssa.Store)
				if !ok {
					continue
				}
				ia, ok := st.Addr.(*ssa.IndexAddr)
				if !ok {
					continue
				}
				if _, isMk := ia.X.(*ssa.MakeSlice); !isMk {
					continue
				}
				// value = tx.TxOut[idx]
				var idx ssa.Value
				for _, sv := range flattenPhi(st.Val, 0) { // the value may come through an expanded helper's result
					if u, ok := sv.(*ssa.UnOp); ok {
						if src, ok := u.X.(*ssa.IndexAddr); ok && mentionsFieldNamed(src.X, "TxOut") {
							idx = src.Index
						}
					}
				}
				if idx == nil {
					continue
				}
				n++
				// idx must derive from outpoints[k].Index with k == ia.Index
				okK := false
				for _, x := range rootsAll(idx) {
					if src, ok := x.(*ssa.IndexAddr); ok && outpoints != nil && derivesFromValue(src.X, outpoints) && sameExpr(src.Index, ia.Index) {
						okK = true
					}
				}
				c.Decide(okK && mentionsFieldNamed(idx, "Index"), "R7", "client.(*RemoteClient).GetOutputs#output-of-own-outpoint", st.Pos(), "provenance", nil,
					"outputs[k] = tx.TxOut[outpoints[k].Index]", "outputs[k] is filled with the output selected by a different outpoint's index")
			}
		}
		c.Min("R7", "output assignments in GetOutputs", n, 1)
	}
	// wrapping a provably nil error
	for _, fn := range c.P.FuncsIn("client") {
		for _, s := range callsTo(fn, "errors.Wrap", "errors.Wrapf") {
			call := errOf(s.Args()[0])
			if call == nil {
				continue
			}
			if ok, _ := mustPass(s.Instr, errNilEdge(sameCall(call), true)); ok {
				c.Touch(fn)
				c.Bad("R7", c.P.Key(fn)+"#wraps-nil-error", s.Pos(), "nil-on-path dataflow", nil,
					"errors.Wrap is applied to an error that is nil on every path reaching it: the function returns a nil error for a failure")
			}
		}
	}
	if !c.hasBad("R7") {
		c.Ok("R7", "no-nil-error-wrapped", token.NoPos, "nil-on-path dataflow", "no errors.Wrap of a provably nil error in pkg/client")
	}
}

func orNone(s string) string {
	if s == "" {
		return "type only"
	}
	return s
}

// dominatesViaJoin: every path from the function entry to target passes through b.
func dominatesViaJoin(b, target *ssa.BasicBlock) bool { return b.Dominates(target) }

// ruleStartedOnce: the function `target` is referenced (called or wrapped in a closure) exactly
// once in `owner` and nowhere else.
func (c *Check) ruleStartedOnce(rule, owner, target string) {
	n := 0
	var where []string
	for _, fn := range c.P.FuncsIn("client") {
		for _, s := range sitesIn(fn) {
			if o := calleeObj(s.CC); o != nil && shortName(o.FullName()) == strings.TrimPrefix(target, "client.") || calleeShortKey(c, s.CC) == target {
				n++
				where = append(where, c.P.Key(topFn(fn)))
			}
		}
	}
	ok := n == 1 && where[0] == owner
	c.Decide(ok, rule, target+"#started-once", token.NoPos, "who-may-call", where,
		"started exactly once, from "+owner, fmt.Sprintf("%s is started %d times (%v): it must run on exactly one goroutine", target, n, where))
}

func calleeShortKey(c *Check, cc *ssa.CallCommon) string {
	if f := cc.StaticCallee(); f != nil {
		return c.P.Key(f)
	}
	return ""
}

// flattenPhi lists the non-phi inputs a value can be (constants included).
func flattenPhi(v ssa.Value, depth int) []ssa.Value {
	if p, ok := v.(*ssa.Phi); ok && depth < 5 {
		var out []ssa.Value
		for _, e := range p.Edges {
			out = append(out, flattenPhi(e, depth+1)...)
		}
		return out
	}
	return []ssa.Value{v}
}

// clientChannelSenders: the confirmed senders of the remote client's internal channels (C16.R13), read
// off the confirmed tree: one function per queue.
var clientChannelSenders = map[string][]string{
	"sendChannel":            {"client.(*RemoteClient).sendMessage"},
	"addRequestsChannel":     {"client.(*RemoteClient).addRequest"},
	"requestResponseChannel": {"client.(*RemoteClient).addRequestResponse"},
	"removeRequestsChannel":  {"client.(*RemoteClient).removeRequest"},
	"handlerChannel":         {"client.(*RemoteClient).addHandlerMessage"},
}
