package main

import (
	"fmt"
	"go/ast"
	"go/token"
	"go/types"
	"strings"

	"golang.org/x/tools/go/packages"
)

// Codec grammar extraction (E7): type-resolved walk over the AST of a writer or reader function
// that turns its stream operations into an ordered grammar.

type cop struct {
	Kind   string // V (varint), F (fixed width), N (nested codec), B (raw bytes), Loop, Alt
	Typ    string
	Endian string
	Body   []cop // Loop
	A, B   []cop // Alt
	Pos    token.Pos
	Bound  string // Loop: canonical bound ("len(Outputs)", "var:count", "rest")
	Arg    string // V/F: canonical value expression on the writer side / target on the reader side
	Cond   string // Alt: canonical branch condition
	Swapped bool  // Alt: the non-empty side A is the else-branch of the source `if`
	Var    string // reader: V = identity of the variable the count was read into; Loop = identity of the variable bounding it ("expr" if not a plain variable)
}

type codecFn struct {
	Name      string
	Ops       []cop
	Fields    []string // receiver fields in first-mention order (I/O context)
	Undecided []string
	Writer    bool
	Checks    []string // equalities validated before writing, canonical "len(Outputs)==len(Tx.TxIn)"
	Pos       token.Pos
}

func (o cop) String() string {
	switch o.Kind {
	case "V", "B":
		return o.Kind
	case "F":
		return "F:" + o.Typ + "/" + o.Endian
	case "N":
		return "N:" + o.Typ
	case "Loop":
		return "Loop[" + opsString(o.Body) + "]"
	case "Alt":
		return "Alt[" + opsString(o.A) + "|" + opsString(o.B) + "]"
	}
	return "?"
}

func opsString(ops []cop) string {
	var s []string
	for _, o := range ops {
		s = append(s, o.String())
	}
	return strings.Join(s, " ")
}

// calleeDecl finds the declaration of a package-local function or method.
func calleeDecl(p *packages.Package, callee *types.Func) *ast.FuncDecl {
	for _, f := range p.Syntax {
		for _, d := range f.Decls {
			if fd, ok := d.(*ast.FuncDecl); ok && p.TypesInfo.Defs[fd.Name] == types.Object(callee) {
				return fd
			}
		}
	}
	return nil
}

// inlineNewHelper: a call that hands the stream to a package-local function which is not in the
// recorded baseline (a helper extracted later) contributes that helper's grammar in place.
func (w *codecWalker) inlineNewHelper(ce *ast.CallExpr, callee *types.Func) ([]cop, bool) {
	if baselineGlobal == nil || callee.Pkg() != w.pkg.Types || codecHelperBusy[callee] {
		return nil, false
	}
	streamArg := false
	for _, a := range ce.Args {
		if w.isStream(a) {
			streamArg = true
		}
	}
	if !streamArg {
		return nil, false
	}
	fd := calleeDecl(w.pkg, callee)
	if fd == nil || fd.Body == nil || baselineGlobal[funcIdent(w.pkg.PkgPath, fd)] {
		return nil, false
	}
	// parameters take the identity of the caller's variables
	pv := map[types.Object]string{}
	for k, v := range w.paramVar {
		pv[k] = v
	}
	pa := map[types.Object]string{}
	i := 0
	for _, fl := range fd.Type.Params.List {
		names := fl.Names
		if len(names) == 0 {
			i++
			continue
		}
		for _, nm := range names {
			if i < len(ce.Args) {
				if k := w.varKey(ce.Args[i]); k != "" {
					if o := w.info.Defs[nm]; o != nil {
						pv[o] = k
					}
				}
				// ... and stand for the caller's expression (a field of the receiver handed to the helper)
				if o := w.info.Defs[nm]; o != nil && !w.isStream(ce.Args[i]) {
					if cn := w.canon(ce.Args[i]); cn != "?" && cn != "call" && !strings.HasPrefix(cn, "var:") {
						pa[o] = cn
					}
				}
			}
			i++
		}
	}
	codecHelperBusy[callee] = true
	sub := extractCodecWith(w.pkg, fd, w.fn.Writer, pv, pa)
	delete(codecHelperBusy, callee)
	if len(sub.Undecided) > 0 {
		w.fn.Undecided = append(w.fn.Undecided, sub.Undecided...)
	}
	// the helper works on the same receiver (method of the same type) or on the arguments
	if se, ok := ast.Unparen(ce.Fun).(*ast.SelectorExpr); ok && w.canon(se.X) == "@" {
		for _, f := range sub.Fields {
			if !w.seenFld[f] {
				w.seenFld[f] = true
				w.fn.Fields = append(w.fn.Fields, f)
			}
		}
	}
	for _, a := range ce.Args {
		if !w.isStream(a) {
			w.mention(a)
		}
	}
	w.fn.Checks = append(w.fn.Checks, sub.Checks...)
	return sub.Ops, true
}

// codecHelperBusy guards the inlining of package-local byte-moving helpers against recursion.
var codecHelperBusy = map[*types.Func]bool{}

type codecWalker struct {
	pkg      *packages.Package
	info     *types.Info
	fn       *codecFn
	streams  map[types.Object]bool
	recv     types.Object // receiver or struct parameter whose fields are (de)serialised
	seenFld  map[string]bool
	aliases  map[types.Object]string   // local var -> canonical meaning (e.g. count var)
	locals   map[types.Object]ast.Expr // writer: local var -> defining expression
	busy     map[types.Object]bool
	paramVar map[types.Object]string // helper parameter -> identity of the caller's variable passed for it
	madeLen  map[string]string       // reader: canonical field -> identity of the variable it was made with ("expr": not a plain variable, "0": made empty and appended to)
}

func findFuncDecl(p *packages.Package, recvType, name string) *ast.FuncDecl {
	if fd := findFuncDeclExact(p, recvType, name); fd != nil {
		return fd
	}
	// the function may only have been renamed since the baseline
	for id, old := range renamedFuncs {
		parts := strings.Split(id, " ")
		if len(parts) == 3 && old == name && parts[0] == p.PkgPath && parts[1] == recvType {
			return findFuncDeclExact(p, recvType, parts[2])
		}
	}
	return nil
}

func findFuncDeclExact(p *packages.Package, recvType, name string) *ast.FuncDecl {
	for _, f := range p.Syntax {
		for _, d := range f.Decls {
			fd, ok := d.(*ast.FuncDecl)
			if !ok || fd.Name.Name != name {
				continue
			}
			if recvType == "" {
				if fd.Recv == nil {
					return fd
				}
				continue
			}
			if fd.Recv == nil || len(fd.Recv.List) == 0 {
				continue
			}
			t := fd.Recv.List[0].Type
			if s, ok := t.(*ast.StarExpr); ok {
				t = s.X
			}
			if id, ok := t.(*ast.Ident); ok && id.Name == recvType {
				return fd
			}
		}
	}
	return nil
}

func isStreamType(t types.Type) bool {
	s := t.String()
	switch s {
	case "io.Reader", "io.Writer", "*bytes.Buffer", "*bytes.Reader", "hash.Hash":
		return true
	}
	return false
}

// extractCodec builds the grammar of one function.
func extractCodec(p *packages.Package, fd *ast.FuncDecl, writer bool) *codecFn {
	return extractCodecWith(p, fd, writer, nil, nil)
}

// extractCodecWith: paramVar gives helper parameters the identity of the caller's variables.
func extractCodecWith(p *packages.Package, fd *ast.FuncDecl, writer bool, paramVar map[types.Object]string, paramAlias map[types.Object]string) *codecFn {
	w := &codecWalker{pkg: p, info: p.TypesInfo, streams: map[types.Object]bool{}, seenFld: map[string]bool{}, aliases: map[types.Object]string{}, locals: map[types.Object]ast.Expr{}, busy: map[types.Object]bool{}, paramVar: paramVar}
	w.fn = &codecFn{Name: fd.Name.Name, Writer: writer, Pos: fd.Pos()}
	for o, a := range paramAlias {
		w.aliases[o] = a
	}
	if fd.Recv != nil && len(fd.Recv.List) > 0 && len(fd.Recv.List[0].Names) > 0 {
		w.recv = w.info.Defs[fd.Recv.List[0].Names[0]]
	}
	for _, fl := range fd.Type.Params.List {
		for _, n := range fl.Names {
			o := w.info.Defs[n]
			if o == nil {
				continue
			}
			if isStreamType(o.Type()) {
				w.streams[o] = true
			} else if w.recv == nil {
				// free function: first struct-ish parameter plays the receiver role
				if _, ok := derefNamedStruct(o.Type()); ok {
					w.recv = o
				}
			}
		}
	}
	if fd.Body == nil {
		return w.fn
	}
	if w.recv == nil {
		// the struct the function returns (a constructor-style codec of a type of another package)
		var resultNamed *types.Named
		if fobj, ok := w.info.Defs[fd.Name].(*types.Func); ok {
			if sig, ok := fobj.Type().(*types.Signature); ok && sig.Results().Len() >= 1 {
				if nt, ok := derefNamedStruct(sig.Results().At(0).Type()); ok {
					resultNamed = nt
				}
			}
		}
		ownOrResult := func(nt *types.Named) bool {
			return nt.Obj().Pkg() == p.Types || (resultNamed != nil && types.Identical(nt, resultNamed))
		}
		_ = ownOrResult
		// constructor-style reader: `var x T` of a struct type declared in this package
		ast.Inspect(fd.Body, func(n ast.Node) bool {
			if w.recv != nil {
				return false
			}
			if vs, ok := n.(*ast.ValueSpec); ok {
				for _, nm := range vs.Names {
					if o := w.info.Defs[nm]; o != nil {
						if nt, ok := derefNamedStruct(o.Type()); ok && ownOrResult(nt) {
							w.recv = o
							return false
						}
					}
				}
			}
			if as, ok := n.(*ast.AssignStmt); ok && as.Tok == token.DEFINE && len(as.Lhs) == 1 && len(as.Rhs) == 1 {
				rhs := ast.Unparen(as.Rhs[0])
				if ue, ok := rhs.(*ast.UnaryExpr); ok && ue.Op == token.AND {
					rhs = ast.Unparen(ue.X)
				}
				isNew := false
				if ce, ok := rhs.(*ast.CallExpr); ok {
					if fid, ok := ce.Fun.(*ast.Ident); ok && fid.Name == "new" && len(ce.Args) == 1 {
						isNew = true // x := new(T)
					}
				}
				if _, ok := rhs.(*ast.CompositeLit); ok || isNew {
					if id, ok := as.Lhs[0].(*ast.Ident); ok {
						if o := w.info.Defs[id]; o != nil {
							if nt, ok := derefNamedStruct(o.Type()); ok && ownOrResult(nt) {
								w.recv = o
								return false
							}
						}
					}
				}
			}
			return true
		})
	}
	// locals that are streams (sha256.New())
	ast.Inspect(fd.Body, func(n ast.Node) bool {
		if as, ok := n.(*ast.AssignStmt); ok && as.Tok == token.DEFINE {
			for _, l := range as.Lhs {
				if id, ok := l.(*ast.Ident); ok {
					if o := w.info.Defs[id]; o != nil && isStreamType(o.Type()) {
						w.streams[o] = true
					}
				}
			}
		}
		return true
	})
	w.fn.Ops = w.block(fd.Body.List)
	return w.fn
}

func derefNamedStruct(t types.Type) (*types.Named, bool) {
	if p, ok := t.(*types.Pointer); ok {
		t = p.Elem()
	}
	n, ok := t.(*types.Named)
	if !ok {
		return nil, false
	}
	_, isStruct := n.Underlying().(*types.Struct)
	return n, isStruct
}

func (w *codecWalker) isStream(e ast.Expr) bool {
	e = ast.Unparen(e)
	if u, ok := e.(*ast.UnaryExpr); ok && u.Op == token.AND {
		e = u.X
	}
	if id, ok := e.(*ast.Ident); ok {
		return w.streams[w.info.Uses[id]]
	}
	// a stream built in place over data the function holds: bytes.NewReader(data), bytes.NewBuffer(data)
	if ce, ok := e.(*ast.CallExpr); ok {
		if t := w.info.TypeOf(ce); t != nil && isStreamType(t) {
			if callee, _ := func() (*types.Func, bool) {
				switch f := ast.Unparen(ce.Fun).(type) {
				case *ast.SelectorExpr:
					fn, ok := w.info.Uses[f.Sel].(*types.Func)
					return fn, ok
				}
				return nil, false
			}(); callee != nil && callee.Pkg() != nil && callee.Pkg().Path() == "bytes" {
				return true
			}
		}
	}
	return false
}

// canon renders an expression relative to the receiver: m.Tx.TxIn -> "Tx.TxIn", len(m.X) -> "len(X)".
func (w *codecWalker) canon(e ast.Expr) string {
	e = ast.Unparen(e)
	switch x := e.(type) {
	case *ast.Ident:
		o := w.info.Uses[x]
		if o == nil {
			o = w.info.Defs[x]
		}
		if o != nil && o == w.recv {
			return "@"
		}
		if a, ok := w.aliases[o]; ok {
			return a
		}
		if def, ok := w.locals[o]; ok && !w.busy[o] {
			w.busy[o] = true
			r := w.canon(def)
			delete(w.busy, o)
			return r
		}
		return "var:" + x.Name
	case *ast.SelectorExpr:
		b := w.canon(x.X)
		if b == "@" {
			return x.Sel.Name
		}
		return b + "." + x.Sel.Name
	case *ast.StarExpr:
		return w.canon(x.X)
	case *ast.UnaryExpr:
		if x.Op == token.AND {
			return w.canon(x.X)
		}
		if x.Op == token.NOT {
			if in := w.canon(x.X); strings.HasPrefix(in, "!") {
				return in[1:]
			}
		}
		return x.Op.String() + w.canon(x.X)
	case *ast.IndexExpr:
		return w.canon(x.X) + "[]"
	case *ast.SliceExpr:
		return w.canon(x.X)
	case *ast.CallExpr:
		if id, ok := x.Fun.(*ast.Ident); ok && len(x.Args) == 1 {
			if _, isType := w.info.Uses[id].(*types.TypeName); isType || id.Name == "len" {
				if id.Name == "len" {
					return "len(" + w.canon(x.Args[0]) + ")"
				}
				return w.canon(x.Args[0]) // conversion
			}
		}
		if tv, ok := w.info.Types[x.Fun]; ok && tv.IsType() && len(x.Args) == 1 {
			return w.canon(x.Args[0])
		}
		return "call"
	case *ast.BasicLit:
		return x.Value
	case *ast.BinaryExpr:
		return w.canon(x.X) + x.Op.String() + w.canon(x.Y)
	}
	return "?"
}

// mention records receiver fields referenced by e (top-level field name only).
func (w *codecWalker) mention(e ast.Expr) {
	if e == nil {
		return
	}
	ast.Inspect(e, func(n ast.Node) bool {
		if id, ok := n.(*ast.Ident); ok && w.fn.Writer {
			if o := w.info.Uses[id]; o != nil {
				if def, ok := w.locals[o]; ok && !w.busy[o] {
					w.busy[o] = true
					w.mention(def)
					delete(w.busy, o)
				}
			}
			return true
		}
		se, ok := n.(*ast.SelectorExpr)
		if !ok {
			return true
		}
		// find the root chain: recv.F....
		cur := ast.Expr(se)
		var names []string
		for {
			s, ok := cur.(*ast.SelectorExpr)
			if !ok {
				break
			}
			names = append([]string{s.Sel.Name}, names...)
			cur = ast.Unparen(s.X)
			if ie, ok := cur.(*ast.IndexExpr); ok {
				cur = ast.Unparen(ie.X)
			}
		}
		if id, ok := cur.(*ast.Ident); ok && w.recv != nil && w.info.Uses[id] == w.recv && len(names) > 0 {
			if !w.seenFld[names[0]] {
				w.seenFld[names[0]] = true
				w.fn.Fields = append(w.fn.Fields, names[0])
			}
			return false
		}
		return true
	})
}

func basicName(t types.Type) string {
	if p, ok := t.(*types.Pointer); ok {
		t = p.Elem()
	}
	if b, ok := t.Underlying().(*types.Basic); ok {
		return b.Name()
	}
	return types.TypeString(t, func(p *types.Package) string { return p.Name() })
}

func namedName(t types.Type) string {
	if p, ok := t.(*types.Pointer); ok {
		t = p.Elem()
	}
	if n, ok := t.(*types.Named); ok {
		return n.Obj().Name()
	}
	return types.TypeString(t, func(p *types.Package) string { return p.Name() })
}

func (w *codecWalker) endian(e ast.Expr) string {
	e = ast.Unparen(e)
	switch x := e.(type) {
	case *ast.SelectorExpr:
		return x.Sel.Name
	case *ast.Ident:
		if v, ok := w.info.Uses[x].(*types.Var); ok {
			// package-level alias such as `Endian = binary.LittleEndian`
			for _, f := range w.pkg.Syntax {
				for _, d := range f.Decls {
					gd, ok := d.(*ast.GenDecl)
					if !ok {
						continue
					}
					for _, sp := range gd.Specs {
						vs, ok := sp.(*ast.ValueSpec)
						if !ok {
							continue
						}
						for i, n := range vs.Names {
							if w.info.Defs[n] == v && i < len(vs.Values) {
								return w.endian(vs.Values[i])
							}
						}
					}
				}
			}
		}
		return x.Name
	}
	return "?"
}

// call classifies one call expression; returns ok=false if it is not a stream operation.
func (w *codecWalker) call(ce *ast.CallExpr) (cop, bool) {
	var callee *types.Func
	switch f := ast.Unparen(ce.Fun).(type) {
	case *ast.SelectorExpr:
		callee, _ = w.info.Uses[f.Sel].(*types.Func)
	case *ast.Ident:
		callee, _ = w.info.Uses[f].(*types.Func)
	}
	if callee == nil {
		return cop{}, false
	}
	full := callee.FullName()
	switch full {
	case "encoding/binary.Write", "encoding/binary.Read":
		if len(ce.Args) == 3 && w.isStream(ce.Args[0]) {
			w.mention(ce.Args[2])
			t := w.info.TypeOf(ce.Args[2])
			return cop{Kind: "F", Typ: basicName(t), Endian: w.endian(ce.Args[1]), Pos: ce.Pos(), Arg: w.canon(ce.Args[2])}, true
		}
		return cop{}, false
	case "github.com/tokenized/pkg/wire.WriteVarInt":
		if len(ce.Args) == 3 && w.isStream(ce.Args[0]) {
			w.mention(ce.Args[2])
			return cop{Kind: "V", Pos: ce.Pos(), Arg: w.canon(ce.Args[2])}, true
		}
		return cop{}, false
	case "github.com/tokenized/pkg/wire.ReadVarInt":
		if len(ce.Args) == 2 && w.isStream(ce.Args[0]) {
			return cop{Kind: "V", Pos: ce.Pos()}, true
		}
		return cop{}, false
	case "io.ReadFull":
		if len(ce.Args) == 2 && w.isStream(ce.Args[0]) {
			w.mention(ce.Args[1])
			return cop{Kind: "B", Pos: ce.Pos(), Arg: w.canon(ce.Args[1])}, true
		}
		return cop{}, false
	case "io.CopyN", "io.Copy":
		// raw bytes moved from (reader) or into (writer) the message stream
		if len(ce.Args) >= 2 {
			if !w.fn.Writer && w.isStream(ce.Args[1]) {
				return cop{Kind: "B", Pos: ce.Pos()}, true
			}
			if w.fn.Writer && w.isStream(ce.Args[0]) {
				w.mention(ce.Args[1])
				return cop{Kind: "B", Pos: ce.Pos(), Arg: w.canon(ce.Args[1])}, true
			}
		}
		return cop{}, false
	}
	sig := callee.Type().(*types.Signature)
	if ops, ok := w.inlineNewHelper(ce, callee); ok {
		return cop{Kind: "Inline", Body: ops, Pos: ce.Pos()}, true
	}
	if sig.Recv() == nil && callee.Pkg() == w.pkg.Types {
		// package-local helper that only moves raw bytes (e.g. a bounded "read n bytes"): its
		// grammar is inlined, it is not a nested codec of a named thing.
		streamArg := false
		for _, a := range ce.Args {
			if w.isStream(a) {
				streamArg = true
			}
		}
		if streamArg && !codecHelperBusy[callee] {
			if fd := findFuncDecl(w.pkg, "", callee.Name()); fd != nil {
				codecHelperBusy[callee] = true
				sub := extractCodec(w.pkg, fd, w.fn.Writer)
				delete(codecHelperBusy, callee)
				if len(sub.Undecided) == 0 && len(sub.Ops) == 1 && sub.Ops[0].Kind == "B" {
					for _, b := range ce.Args {
						if !w.isStream(b) {
							w.mention(b)
						}
					}
					return cop{Kind: "B", Pos: ce.Pos()}, true
				}
			}
		}
	}
	if sig.Recv() != nil {
		se := ast.Unparen(ce.Fun).(*ast.SelectorExpr)
		// method on the stream itself: raw bytes
		if w.isStream(se.X) {
			switch callee.Name() {
			case "Write", "Read":
				if len(ce.Args) == 1 {
					w.mention(ce.Args[0])
					return cop{Kind: "B", Pos: ce.Pos(), Arg: w.canon(ce.Args[0])}, true
				}
			case "Sum", "Len", "Bytes":
				return cop{}, false
			}
			return cop{}, false
		}
		// method taking the stream: nested codec
		for _, a := range ce.Args {
			if w.isStream(a) {
				w.mention(se.X)
				return cop{Kind: "N", Typ: namedName(w.info.TypeOf(se.X)), Pos: ce.Pos(), Arg: w.canon(se.X)}, true
			}
		}
		return cop{}, false
	}
	// free function taking the stream
	for _, a := range ce.Args {
		if w.isStream(a) {
			n := callee.Name()
			for _, pre := range []string{"Serialize", "Deserialize", "read", "write", "Read", "Write"} {
				if strings.HasPrefix(n, pre) && len(n) > len(pre) {
					n = n[len(pre):]
					break
				}
			}
			for _, b := range ce.Args {
				if !w.isStream(b) {
					w.mention(b)
				}
			}
			return cop{Kind: "N", Typ: strings.ToLower(n[:1]) + n[1:], Pos: ce.Pos()}, true
		}
	}
	return cop{}, false
}

// opsInExpr returns the stream ops performed by calls inside e, in evaluation order.
func (w *codecWalker) opsInExpr(e ast.Node) []cop {
	var ops []cop
	if e == nil {
		return nil
	}
	ast.Inspect(e, func(n ast.Node) bool {
		if _, ok := n.(*ast.FuncLit); ok {
			return false
		}
		if ce, ok := n.(*ast.CallExpr); ok {
			if op, ok := w.call(ce); ok {
				if op.Kind == "Inline" {
					ops = append(ops, op.Body...)
				} else {
					ops = append(ops, op)
				}
				return false
			}
		}
		return true
	})
	return ops
}

func isErrCheck(info *types.Info, cond ast.Expr) bool {
	be, ok := ast.Unparen(cond).(*ast.BinaryExpr)
	if !ok {
		return false
	}
	if be.Op == token.LAND || be.Op == token.LOR {
		return isErrCheck(info, be.X) || isErrCheck(info, be.Y)
	}
	if be.Op != token.NEQ && be.Op != token.EQL {
		return false
	}
	isErr := func(e ast.Expr) bool {
		t := info.TypeOf(e)
		return t != nil && t.String() == "error"
	}
	return isErr(be.X) || isErr(be.Y)
}

func endsInReturn(b *ast.BlockStmt) bool {
	if b == nil || len(b.List) == 0 {
		return false
	}
	_, ok := b.List[len(b.List)-1].(*ast.ReturnStmt)
	return ok
}

func (w *codecWalker) block(stmts []ast.Stmt) []cop {
	var ops []cop
	for i := 0; i < len(stmts); i++ {
		s := stmts[i]
		switch x := s.(type) {
		case *ast.IfStmt:
			if x.Init != nil {
				ops = append(ops, w.stmtOps(x.Init)...)
			}
			ops = append(ops, w.opsInExpr(x.Cond)...)
			if isSuccessCheck(w.info, x.Cond) {
				// `if err == nil { …grammar… } else { …error handling… }`
				ops = append(ops, w.block(x.Body.List)...)
				continue
			}
			if isErrCheck(w.info, x.Cond) {
				// error handling: the body is not part of the grammar (but an else branch continues it)
				if x.Else != nil {
					if eb, ok := x.Else.(*ast.BlockStmt); ok {
						ops = append(ops, w.block(eb.List)...)
					} else {
						ops = append(ops, w.block([]ast.Stmt{x.Else})...)
					}
				}
				continue
			}
			if w.boolFlagAssignment(x) {
				continue
			}
			thenOps := w.block(x.Body.List)
			var elseOps []cop
			hasElse := x.Else != nil
			if hasElse {
				if eb, ok := x.Else.(*ast.BlockStmt); ok {
					elseOps = w.block(eb.List)
				} else {
					elseOps = w.block([]ast.Stmt{x.Else})
				}
			}
			// validation: `if len(a) != len(b) { return err }` on the writer side
			if len(thenOps) == 0 && !hasElse && endsInReturn(x.Body) {
				if be, ok := ast.Unparen(x.Cond).(*ast.BinaryExpr); ok && be.Op == token.NEQ {
					w.fn.Checks = append(w.fn.Checks, w.canon(be.X)+"=="+w.canon(be.Y), w.canon(be.Y)+"=="+w.canon(be.X))
				}
				// `a < b || a > b` is `a != b`
				if be, ok := ast.Unparen(x.Cond).(*ast.BinaryExpr); ok && be.Op == token.LOR {
					l, ok1 := ast.Unparen(be.X).(*ast.BinaryExpr)
					r, ok2 := ast.Unparen(be.Y).(*ast.BinaryExpr)
					if ok1 && ok2 && ((l.Op == token.LSS && r.Op == token.GTR) || (l.Op == token.GTR && r.Op == token.LSS)) &&
						w.canon(l.X) == w.canon(r.X) && w.canon(l.Y) == w.canon(r.Y) {
						w.fn.Checks = append(w.fn.Checks, w.canon(l.X)+"=="+w.canon(l.Y), w.canon(l.Y)+"=="+w.canon(l.X))
					}
				}
			}
			if len(thenOps) == 0 && !hasElse && returnsNonNilError(x.Body) {
				continue // validation that aborts with an error: not part of the grammar
			}
			if endsInReturn(x.Body) && !hasElse {
				// `if c { ...; return }` : the rest of the block is the alternative
				rest := w.block(stmts[i+1:])
				if len(thenOps) == 0 && !containsIO(rest) {
					return append(ops, rest...)
				}
				// the inverted validation: `if ok { …; return nil }; return <error>` – the abort
				// path after the if produces no value, the then-branch is the grammar
				if !containsIO(rest) && i+1 < len(stmts) && returnsNonNilError(&ast.BlockStmt{List: stmts[i+1:]}) {
					return append(ops, thenOps...)
				}
				w.mention(x.Cond)
				ops = append(ops, w.withCond(factorAlt(thenOps, rest, x.Pos()), x.Cond)...)
				return ops
			}
			if len(thenOps) == 0 && len(elseOps) == 0 {
				// writer: a local chosen under a condition on receiver fields (`d := F; if m.flag { d = T }`)
				// stands for those fields when it is written later
				if w.fn.Writer {
					ast.Inspect(x, func(n ast.Node) bool {
						as, ok := n.(*ast.AssignStmt)
						if !ok || as.Tok != token.ASSIGN || len(as.Lhs) != 1 {
							return true
						}
						if id, ok := as.Lhs[0].(*ast.Ident); ok {
							if o := w.info.Uses[id]; o != nil {
								if prev, has := w.locals[o]; has {
									w.locals[o] = &ast.BinaryExpr{X: prev, Op: token.LOR, Y: x.Cond}
								} else {
									w.locals[o] = x.Cond
								}
							}
						}
						return true
					})
				}
				continue
			}
			if eb, ok := x.Else.(*ast.BlockStmt); ok && len(elseOps) == 0 && returnsNonNilError(eb) {
				ops = append(ops, thenOps...) // else-branch aborts with an error
				continue
			}
			w.mention(x.Cond)
			ops = append(ops, w.withCond(factorAlt(thenOps, elseOps, x.Pos()), x.Cond)...)
		case *ast.ForStmt:
			if x.Init != nil {
				ops = append(ops, w.stmtOps(x.Init)...)
			}
			body := w.block(x.Body.List)
			if len(body) == 0 {
				continue
			}
			bound := "rest"
			bvar := ""
			if x.Cond != nil {
				if be, ok := ast.Unparen(x.Cond).(*ast.BinaryExpr); ok {
					if nb, plain := forTripCount(x, be); plain {
						be = nb
						bound = w.canon(be.Y)
					} else {
						bound = w.canon(be.Y) + forTripSuffix(x, be)
					}
					bvar = w.varKey(be.Y)
					if bvar == "" {
						bvar = "expr"
					}
					if w.fn.Writer {
						w.mention(be.Y)
					}
				}
			}
			ops = append(ops, cop{Kind: "Loop", Body: body, Pos: x.Pos(), Bound: bound, Var: bvar})
		case *ast.RangeStmt:
			body := w.block(x.Body.List)
			if len(body) == 0 {
				continue
			}
			bound := "len(" + w.canon(x.X) + ")"
			if w.fn.Writer {
				w.mention(x.X)
			}
			if id, ok := ast.Unparen(x.X).(*ast.Ident); ok && !w.fn.Writer {
				// `for i := range m.X` on the reader: bound is the make size of X; fall back to var
				bound = "len(" + w.canon(id) + ")"
			}
			bvar := ""
			if !w.fn.Writer {
				// `for i := range m.X`: bounded by whatever m.X was made with
				bvar = w.madeLen[w.canon(x.X)]
			}
			ops = append(ops, cop{Kind: "Loop", Body: body, Pos: x.Pos(), Bound: bound, Var: bvar})
		case *ast.BlockStmt:
			ops = append(ops, w.block(x.List)...)
		case *ast.LabeledStmt:
			ops = append(ops, w.block([]ast.Stmt{x.Stmt})...)
		case *ast.SwitchStmt:
			// an expression / tagless switch is an if-chain in another spelling
			if chain := desugarSwitch(x); chain != nil {
				ops = append(ops, w.block(chain)...)
				continue
			}
			if containsIO(w.opsInExpr(s)) {
				w.fn.Undecided = append(w.fn.Undecided, fmt.Sprintf("switch with stream operations at %s", w.pkg.Fset.Position(s.Pos())))
			}
		case *ast.TypeSwitchStmt, *ast.SelectStmt:
			if containsIO(w.opsInExpr(s)) {
				w.fn.Undecided = append(w.fn.Undecided, fmt.Sprintf("switch with stream operations at %s", w.pkg.Fset.Position(s.Pos())))
			}
		default:
			ops = append(ops, w.stmtOps(s)...)
		}
	}
	return ops
}

// returnsNonNilError: the block ends in `return ..., <expr>` whose last result is not the nil literal.
func returnsNonNilError(b *ast.BlockStmt) bool {
	if b == nil || len(b.List) == 0 {
		return false
	}
	rs, ok := b.List[len(b.List)-1].(*ast.ReturnStmt)
	if !ok || len(rs.Results) == 0 {
		return false
	}
	last := ast.Unparen(rs.Results[len(rs.Results)-1])
	if id, ok := last.(*ast.Ident); ok && id.Name == "nil" {
		return false
	}
	return true
}

func containsIO(ops []cop) bool { return len(ops) > 0 }

// varKey identifies a local variable (name@declaration position); "" if e is not a plain variable.
func (w *codecWalker) varKey(e ast.Expr) string {
	id, ok := ast.Unparen(e).(*ast.Ident)
	if !ok {
		// conversions of a plain variable keep its identity: int(count)
		if ce, ok := ast.Unparen(e).(*ast.CallExpr); ok && len(ce.Args) == 1 {
			if tv, ok := w.info.Types[ce.Fun]; ok && tv.IsType() {
				return w.varKey(ce.Args[0])
			}
		}
		return ""
	}
	o := w.info.Uses[id]
	if o == nil {
		o = w.info.Defs[id]
	}
	if _, isVar := o.(*types.Var); !isVar {
		return ""
	}
	if k, ok := w.paramVar[o]; ok {
		return k
	}
	return fmt.Sprintf("%s@%d", id.Name, o.Pos())
}

// stmtOps handles simple statements (assign, expr, decl, return).
func (w *codecWalker) stmtOps(s ast.Stmt) []cop {
	ops := w.opsInExpr(s)
	if as, ok := s.(*ast.AssignStmt); ok && !w.fn.Writer && len(ops) == 1 && len(as.Rhs) == 1 && len(as.Lhs) >= 1 {
		if _, isCall := ast.Unparen(as.Rhs[0]).(*ast.CallExpr); isCall && ops[0].Kind != "Loop" && ops[0].Kind != "Alt" && (ops[0].Kind == "V" || ops[0].Arg == "") {
			ops[0].Arg = w.canon(as.Lhs[0])
			ops[0].Var = w.varKey(as.Lhs[0])
		}
	}
	if ds, ok := s.(*ast.DeclStmt); ok && (w.fn.Writer || len(ops) == 0) {
		// `var x T = expr` is `x := expr` (the form helper expansion uses to bind arguments)
		if gd, ok := ds.Decl.(*ast.GenDecl); ok && gd.Tok == token.VAR {
			for _, sp := range gd.Specs {
				if vs, ok := sp.(*ast.ValueSpec); ok && len(vs.Names) == len(vs.Values) {
					for i, nm := range vs.Names {
						if o := w.info.Defs[nm]; o != nil {
							w.locals[o] = vs.Values[i]
						}
					}
				}
			}
		}
	}
	if as, ok := s.(*ast.AssignStmt); ok && (w.fn.Writer || (len(ops) == 0 && len(as.Lhs) == 1)) && as.Tok == token.DEFINE && len(as.Rhs) == 1 {
		// a local computed from receiver fields (without reading the stream) stands for those fields
		// when used later: `n := len(m.X)`
		if id, ok := as.Lhs[0].(*ast.Ident); ok {
			if o := w.info.Defs[id]; o != nil {
				w.locals[o] = as.Rhs[0]
			}
		}
	}
	if as, ok := s.(*ast.AssignStmt); ok {
		// reader: remember what a varint result variable stands for, record assigned fields
		if !w.fn.Writer {
			for _, l := range as.Lhs {
				w.mention(l)
			}
			// `m.X = make(T, count)` makes len(X) an alias of count
			if len(as.Lhs) == 1 && len(as.Rhs) == 1 {
				rhs := ast.Unparen(as.Rhs[0])
				// `x := make(T, count); m.X = x`: the field is the slice made for the local, and the local
				// stands for the field from here on
				if rid, ok := rhs.(*ast.Ident); ok {
					if _, isSel := ast.Unparen(as.Lhs[0]).(*ast.SelectorExpr); isSel {
						if o := w.info.Uses[rid]; o != nil {
							if def, has := w.locals[o]; has {
								if dce, ok := ast.Unparen(def).(*ast.CallExpr); ok {
									if id, ok := dce.Fun.(*ast.Ident); ok && id.Name == "make" && len(dce.Args) >= 2 {
										rhs = dce
										w.aliases[o] = w.canon(as.Lhs[0])
									}
								}
							}
						}
					}
				}
				if ce, ok := rhs.(*ast.CallExpr); ok {
					if id, ok := ce.Fun.(*ast.Ident); ok && id.Name == "make" && len(ce.Args) >= 2 {
						if w.madeLen == nil {
							w.madeLen = map[string]string{}
						}
						k := w.varKey(ce.Args[1])
						if k == "" {
							k = "expr"
							if bl, ok := ast.Unparen(ce.Args[1]).(*ast.BasicLit); ok && bl.Value == "0" {
								k = "0"
							}
						}
						w.madeLen[w.canon(as.Lhs[0])] = k
						if cid, ok := ast.Unparen(ce.Args[len(ce.Args)-1]).(*ast.Ident); ok {
							if o := w.info.Uses[cid]; o != nil {
								w.aliases[o] = "len(" + w.canon(as.Lhs[0]) + ")"
							}
						}
					}
				}
			}
		}
	}
	if rs, ok := s.(*ast.ReturnStmt); ok && !w.fn.Writer {
		// constructor-style reader: fields from the returned composite literal
		for _, r := range rs.Results {
			ast.Inspect(r, func(n ast.Node) bool {
				if cl, ok := n.(*ast.CompositeLit); ok {
					for _, el := range cl.Elts {
						if kv, ok := el.(*ast.KeyValueExpr); ok {
							if id, ok := kv.Key.(*ast.Ident); ok && !w.seenFld[id.Name] {
								w.seenFld[id.Name] = true
								w.fn.Fields = append(w.fn.Fields, id.Name)
							}
						}
					}
					return false
				}
				return true
			})
		}
	}
	return ops
}

// factorAlt builds Alt{a,b} with the common prefix factored out; Alt{[],[]} vanishes.
func factorAlt(a, b []cop, pos token.Pos) []cop {
	var out []cop
	for len(a) > 0 && len(b) > 0 && a[0].String() == b[0].String() {
		o := a[0]
		if o.Kind == "F" && o.Typ == "bool" && a[0].Arg != b[0].Arg {
			// a flag written as a literal in both branches: remember which literal the then-branch wrote
			if (a[0].Arg == "var:true" && b[0].Arg == "var:false") || (a[0].Arg == "var:false" && b[0].Arg == "var:true") {
				o.Arg = "then:" + a[0].Arg
			}
		}
		out = append(out, o)
		a, b = a[1:], b[1:]
	}
	if len(a) == 0 && len(b) == 0 {
		return out
	}
	// canonical orientation: the empty side second
	swapped := false
	if len(a) == 0 {
		a, b = b, a
		swapped = true
	}
	return append(out, cop{Kind: "Alt", A: a, B: b, Pos: pos, Swapped: swapped})
}

// withCond records the canonical branch condition on the Alt produced by factorAlt.
func (w *codecWalker) withCond(ops []cop, cond ast.Expr) []cop {
	for i := range ops {
		if ops[i].Kind == "Alt" {
			ops[i].Cond = w.canon(cond)
		}
	}
	return ops
}

// forTripCount rewrites the condition of a counted loop into the form `i < N` (N: how often the body
// runs) for the spellings that run the same number of times: `i <= N-1` from 0, `i <= N` from 1,
// and counting down `for r := N; r > 0 (r >= 1, r != 0); r--`. Other loops are returned unchanged
// (forTripSuffix then marks what is not a plain count).
func forTripCount(x *ast.ForStmt, be *ast.BinaryExpr) (*ast.BinaryExpr, bool) {
	id, ok := ast.Unparen(be.X).(*ast.Ident)
	if !ok {
		return be, false
	}
	as, ok := x.Init.(*ast.AssignStmt)
	if !ok || len(as.Lhs) != 1 || len(as.Rhs) != 1 {
		return be, false
	}
	lhs, ok := as.Lhs[0].(*ast.Ident)
	if !ok || lhs.Name != id.Name {
		return be, false
	}
	isLit := func(e ast.Expr, v string) bool {
		e = ast.Unparen(e)
		if call, ok := e.(*ast.CallExpr); ok && len(call.Args) == 1 {
			e = ast.Unparen(call.Args[0])
		}
		l, ok := e.(*ast.BasicLit)
		return ok && l.Value == v
	}
	step := 0
	switch p := x.Post.(type) {
	case *ast.IncDecStmt:
		if pid, ok := p.X.(*ast.Ident); ok && pid.Name == id.Name {
			if p.Tok == token.INC {
				step = 1
			} else {
				step = -1
			}
		}
	case *ast.AssignStmt:
		if len(p.Lhs) == 1 && len(p.Rhs) == 1 && isLit(p.Rhs[0], "1") {
			if pid, ok := p.Lhs[0].(*ast.Ident); ok && pid.Name == id.Name {
				if p.Tok == token.ADD_ASSIGN {
					step = 1
				}
				if p.Tok == token.SUB_ASSIGN {
					step = -1
				}
			}
		}
	}
	switch {
	case step == 1 && isLit(as.Rhs[0], "0") && be.Op == token.LEQ:
		// i <= N-1
		if sub, ok := ast.Unparen(be.Y).(*ast.BinaryExpr); ok && sub.Op == token.SUB && isLit(sub.Y, "1") {
			return &ast.BinaryExpr{X: be.X, Op: token.LSS, Y: sub.X, OpPos: be.OpPos}, true
		}
	case step == 1 && isLit(as.Rhs[0], "1") && be.Op == token.LEQ:
		return &ast.BinaryExpr{X: be.X, Op: token.LSS, Y: be.Y, OpPos: be.OpPos}, true
	case step == -1:
		if (be.Op == token.GTR && isLit(be.Y, "0")) || (be.Op == token.GEQ && isLit(be.Y, "1")) || (be.Op == token.NEQ && isLit(be.Y, "0")) {
			return &ast.BinaryExpr{X: be.X, Op: token.LSS, Y: as.Rhs[0], OpPos: be.OpPos}, true
		}
	}
	return be, false
}

// forTripSuffix: "" when `for i := init; i <op> bound; post` runs exactly `bound` times (i from 0 with
// `<` or `!=`, or from 1 with `<=`, stepping by one); otherwise a marker that makes the loop's bound
// differ from its counterpart's, so that a reader looping count-1 or count+1 times is reported.
func forTripSuffix(x *ast.ForStmt, be *ast.BinaryExpr) string {
	id, ok := ast.Unparen(be.X).(*ast.Ident)
	if !ok {
		return ""
	}
	as, ok := x.Init.(*ast.AssignStmt)
	if !ok || len(as.Lhs) != 1 || len(as.Rhs) != 1 {
		return ""
	}
	lhs, ok := as.Lhs[0].(*ast.Ident)
	if !ok || lhs.Name != id.Name {
		return ""
	}
	// initial value: literal, possibly converted
	init := ast.Unparen(as.Rhs[0])
	if call, ok := init.(*ast.CallExpr); ok && len(call.Args) == 1 {
		init = ast.Unparen(call.Args[0])
	}
	lit, ok := init.(*ast.BasicLit)
	if !ok || lit.Kind != token.INT {
		return ""
	}
	// step
	stepOK := false
	switch p := x.Post.(type) {
	case *ast.IncDecStmt:
		if pid, ok := p.X.(*ast.Ident); ok && pid.Name == id.Name && p.Tok == token.INC {
			stepOK = true
		}
	case *ast.AssignStmt:
		if len(p.Lhs) == 1 && len(p.Rhs) == 1 && p.Tok == token.ADD_ASSIGN {
			if pid, ok := p.Lhs[0].(*ast.Ident); ok && pid.Name == id.Name {
				if l, ok := p.Rhs[0].(*ast.BasicLit); ok && l.Value == "1" {
					stepOK = true
				}
			}
		}
	}
	if !stepOK {
		return "{step is not +1}"
	}
	switch {
	case lit.Value == "0" && (be.Op == token.LSS || be.Op == token.NEQ):
		return ""
	case lit.Value == "1" && be.Op == token.LEQ:
		return ""
	}
	return fmt.Sprintf("{counting from %s while %s}", lit.Value, be.Op)
}

// boolFlagAssignment recognises `if C { f = true } else { f = false }` (either polarity; the else may
// be missing when f was declared with the other constant just before) for a local bool f and
// records f as standing for C (or !C), so that a presence flag held in a local is read like the
// condition it was computed from.
func (w *codecWalker) boolFlagAssignment(x *ast.IfStmt) bool {
	if x.Init != nil {
		return false
	}
	one := func(b *ast.BlockStmt) (types.Object, bool, bool) {
		if b == nil || len(b.List) != 1 {
			return nil, false, false
		}
		as, ok := b.List[0].(*ast.AssignStmt)
		if !ok || as.Tok != token.ASSIGN || len(as.Lhs) != 1 || len(as.Rhs) != 1 {
			return nil, false, false
		}
		id, ok := as.Lhs[0].(*ast.Ident)
		if !ok {
			return nil, false, false
		}
		v, ok := ast.Unparen(as.Rhs[0]).(*ast.Ident)
		if !ok || (v.Name != "true" && v.Name != "false") {
			return nil, false, false
		}
		o := w.info.Uses[id]
		if _, isVar := o.(*types.Var); !isVar || o.Parent() == nil || o.Pkg() == nil || o.Parent() == o.Pkg().Scope() {
			return nil, false, false
		}
		return o, v.Name == "true", true
	}
	o, thenVal, ok := one(x.Body)
	if !ok {
		return false
	}
	if x.Else != nil {
		eb, isBlock := x.Else.(*ast.BlockStmt)
		if !isBlock {
			return false
		}
		o2, elseVal, ok2 := one(eb)
		if !ok2 || o2 != o || elseVal == thenVal {
			return false
		}
	} else {
		// the declaration must have given the other constant: `f := false` / `var f bool`
		def, has := w.locals[o]
		if has {
			v, ok := ast.Unparen(def).(*ast.Ident)
			if !ok || (v.Name == "true") == thenVal {
				return false
			}
		} else if thenVal == false {
			return false // `var f bool` is false already: `if C { f = false }` says nothing
		}
	}
	var e ast.Expr = x.Cond
	if !thenVal {
		e = &ast.UnaryExpr{Op: token.NOT, X: &ast.ParenExpr{X: x.Cond}}
	}
	w.locals[o] = e
	return true
}

// isSuccessCheck: the condition is `err == nil` (possibly with further conjuncts): the body runs when the
// preceding stream operation succeeded and belongs to the grammar.
func isSuccessCheck(info *types.Info, cond ast.Expr) bool {
	be, ok := ast.Unparen(cond).(*ast.BinaryExpr)
	if !ok {
		return false
	}
	if be.Op == token.LAND {
		return isSuccessCheck(info, be.X) || isSuccessCheck(info, be.Y)
	}
	if be.Op != token.EQL {
		return false
	}
	isErr := func(e ast.Expr) bool {
		t := info.TypeOf(e)
		return t != nil && t.String() == "error"
	}
	isNil := func(e ast.Expr) bool {
		id, ok := ast.Unparen(e).(*ast.Ident)
		return ok && id.Name == "nil"
	}
	return (isErr(be.X) && isNil(be.Y)) || (isErr(be.Y) && isNil(be.X))
}

// desugarSwitch turns `switch tag { case a, b: A; default: D }` / `switch { case c: A … }` into the equivalent
// if / else-if chain (nil for fallthrough and other shapes it does not handle). A trailing unlabeled `break`
// of a case body (which only ends the case) is dropped.
func desugarSwitch(sw *ast.SwitchStmt) []ast.Stmt {
	var clauses []*ast.CaseClause
	var def *ast.CaseClause
	for _, st := range sw.Body.List {
		cc, ok := st.(*ast.CaseClause)
		if !ok {
			return nil
		}
		for _, b := range cc.Body {
			if br, ok := b.(*ast.BranchStmt); ok && br.Tok == token.FALLTHROUGH {
				return nil
			}
		}
		if cc.List == nil {
			def = cc
		} else {
			clauses = append(clauses, cc)
		}
	}
	body := func(cc *ast.CaseClause) *ast.BlockStmt {
		list := cc.Body
		if n := len(list); n > 0 {
			if br, ok := list[n-1].(*ast.BranchStmt); ok && br.Tok == token.BREAK && br.Label == nil {
				list = list[:n-1]
			}
		}
		return &ast.BlockStmt{Lbrace: cc.Colon, List: list, Rbrace: cc.End()}
	}
	cond := func(cc *ast.CaseClause) ast.Expr {
		var c ast.Expr
		for _, e := range cc.List {
			var one ast.Expr = e
			if sw.Tag != nil {
				one = &ast.BinaryExpr{X: sw.Tag, OpPos: e.Pos(), Op: token.EQL, Y: e}
			}
			if c == nil {
				c = one
			} else {
				c = &ast.BinaryExpr{X: c, OpPos: e.Pos(), Op: token.LOR, Y: one}
			}
		}
		return c
	}
	var tail ast.Stmt
	if def != nil {
		tail = body(def)
	}
	for i := len(clauses) - 1; i >= 0; i-- {
		tail = &ast.IfStmt{If: clauses[i].Pos(), Cond: cond(clauses[i]), Body: body(clauses[i]), Else: tail}
	}
	if tail == nil {
		return nil
	}
	var out []ast.Stmt
	if sw.Init != nil {
		out = append(out, sw.Init)
	}
	return append(out, tail)
}
