package main

// Linear combinations over SSA values: integer expressions are normalised to
// k + sum(coef_i * atom_i), so that `repo.height-height < len(h)` and `height+len(h) > repo.height`,
// or `for h := top; h > height; h--` and `for i := 0; i < top-height; i++ { ... top-i ... }`,
// compare equal. Atoms are parameters, field loads, len() of such, calls, and anything non-linear.

import (
	"fmt"
	"go/token"
	"go/types"
	"sort"
	"strings"
	"sync"

	"golang.org/x/tools/go/ssa"
)

type linComb struct {
	k     int64
	terms map[string]int64
	atoms map[string]ssa.Value
}

func newLin() linComb { return linComb{terms: map[string]int64{}, atoms: map[string]ssa.Value{}} }

func linConst(k int64) linComb { l := newLin(); l.k = k; return l }

func (a linComb) clone() linComb {
	b := newLin()
	b.k = a.k
	for t, c := range a.terms {
		b.terms[t] = c
		b.atoms[t] = a.atoms[t]
	}
	return b
}

func (a linComb) addScaled(b linComb, s int64) linComb {
	r := a.clone()
	r.k += s * b.k
	for t, c := range b.terms {
		r.terms[t] += s * c
		r.atoms[t] = b.atoms[t]
		if r.terms[t] == 0 {
			delete(r.terms, t)
			delete(r.atoms, t)
		}
	}
	return r
}

func (a linComb) plus(b linComb) linComb    { return a.addScaled(b, 1) }
func (a linComb) minus(b linComb) linComb   { return a.addScaled(b, -1) }
func (a linComb) plusConst(k int64) linComb { r := a.clone(); r.k += k; return r }
func (a linComb) scale(s int64) linComb     { return newLin().addScaled(a, s) }

func (a linComb) isConst() (int64, bool) { return a.k, len(a.terms) == 0 }

func (a linComb) equal(b linComb) bool {
	d := a.minus(b)
	k, c := d.isConst()
	return c && k == 0
}

// coefOf returns the coefficient of the atom for value v (0 if absent) and the rest.
func (a linComb) coefOf(v ssa.Value) (int64, linComb) {
	key := atomKey(v)
	c := a.terms[key]
	r := a.clone()
	delete(r.terms, key)
	delete(r.atoms, key)
	return c, r
}

func (a linComb) String() string {
	var keys []string
	for t := range a.terms {
		keys = append(keys, t)
	}
	sort.Strings(keys)
	var sb strings.Builder
	for _, t := range keys {
		c := a.terms[t]
		switch {
		case c == 1:
			sb.WriteString("+" + t)
		case c == -1:
			sb.WriteString("-" + t)
		default:
			sb.WriteString(fmt.Sprintf("%+d*%s", c, t))
		}
	}
	if a.k != 0 || sb.Len() == 0 {
		sb.WriteString(fmt.Sprintf("%+d", a.k))
	}
	return strings.TrimPrefix(sb.String(), "+")
}

// atomKey: canonical text of a value so that re-evaluated loads / lens compare equal
// (go/ssa does no CSE). Parameters by position.
var (
	atomMemo   = map[ssa.Value]string{}
	atomActive = map[ssa.Value]bool{}
	atomMu     sync.Mutex
)

// atomKey is memoised (values are immutable once built); a value met again while its own key is
// being computed (phi cycles of loops) is named by position.
func atomKey(v ssa.Value) string {
	v = stripValueConv(v)
	atomMu.Lock()
	if k, ok := atomMemo[v]; ok {
		atomMu.Unlock()
		return k
	}
	if atomActive[v] {
		atomMu.Unlock()
		return fmt.Sprintf("%s:%T", v.Name(), v)
	}
	atomActive[v] = true
	atomMu.Unlock()
	k := atomKeyCompute(v)
	atomMu.Lock()
	delete(atomActive, v)
	atomMemo[v] = k
	atomMu.Unlock()
	return k
}

func atomKeyCompute(v ssa.Value) string {
	switch x := v.(type) {
	case *ssa.Convert:
		// a conversion that can change the value (sign change, narrowing): its own atom
		return types.TypeString(x.Type(), nil) + "(" + atomKey(x.X) + ")"
	case *ssa.Phi:
		// a join of values (e.g. the result of an expanded helper): by its sorted sources
		var parts []string
		for _, e := range x.Edges {
			if e == ssa.Value(x) {
				continue
			}
			parts = append(parts, linOfValue(e).String())
		}
		sort.Strings(parts)
		return "phi{" + strings.Join(parts, " | ") + "}"
	case *ssa.Parameter:
		if fn := x.Parent(); fn != nil {
			for i, p := range fn.Params {
				if p == x {
					return fmt.Sprintf("param%d", i)
				}
			}
		}
		return "param(" + x.Name() + ")"
	case *ssa.Const:
		if x.Value != nil {
			return x.Value.ExactString()
		}
		return "nil"
	case *ssa.UnOp:
		if x.Op == token.MUL {
			return "*" + atomKey(x.X)
		}
		return x.Op.String() + atomKey(x.X)
	case *ssa.FieldAddr:
		if f := fieldOfAddr(x); f != nil {
			return atomKey(x.X) + "." + f.Name()
		}
	case *ssa.Field:
		return atomKey(x.X) + ".#" + fmt.Sprint(x.Field)
	case *ssa.IndexAddr:
		return atomKey(x.X) + "[" + linOfValue(x.Index).String() + "]"
	case *ssa.Global:
		return x.Name()
	case *ssa.Call:
		if b, ok := x.Call.Value.(*ssa.Builtin); ok && len(x.Call.Args) == 1 {
			return b.Name() + "(" + atomKey(x.Call.Args[0]) + ")"
		}
		if n := calleeName(&x.Call); n != "" && x.Parent() != nil {
			// calls are not re-evaluated: identified by callee and position among the same callee's calls
			k := 0
			for _, b := range x.Parent().Blocks {
				for _, in := range b.Instrs {
					if in == ssa.Instruction(x) {
						return fmt.Sprintf("%s()#%d", shortName(n), k)
					}
					if c2, ok := in.(*ssa.Call); ok && calleeName(&c2.Call) == n {
						k++
					}
				}
			}
		}
	case *ssa.Extract:
		return atomKey(x.Tuple) + fmt.Sprintf(".%d", x.Index)
	case *ssa.BinOp:
		return "(" + linOfValue(x.X).String() + " " + x.Op.String() + " " + linOfValue(x.Y).String() + ")"
	}
	fn := ""
	if in, ok := v.(ssa.Instruction); ok && in.Parent() != nil {
		fn = in.Parent().Name()
	}
	return fmt.Sprintf("%s@%s:%T", v.Name(), fn, v)
}

// linOfValue expands v into a linear combination (depth-limited; phis and everything non-linear are atoms).
func linOfValue(v ssa.Value) linComb { return linOfDepth(v, 0) }

func linOfDepth(v ssa.Value, d int) linComb {
	v = stripValueConv(v)
	if k, ok := constInt(v); ok {
		return linConst(k)
	}
	if b, ok := v.(*ssa.BinOp); ok && d < 12 {
		switch b.Op {
		case token.ADD:
			return linOfDepth(b.X, d+1).plus(linOfDepth(b.Y, d+1))
		case token.SUB:
			return linOfDepth(b.X, d+1).minus(linOfDepth(b.Y, d+1))
		case token.MUL:
			if k, ok := constInt(b.Y); ok {
				return linOfDepth(b.X, d+1).scale(k)
			}
			if k, ok := constInt(b.X); ok {
				return linOfDepth(b.Y, d+1).scale(k)
			}
		case token.REM:
			// x % k  =  x - k*(x/k): one spelling for `x - x%k`, `(x/k)*k` and `x % k`
			if k, ok := constInt(b.Y); ok && k > 0 {
				q := newLin()
				key := "(" + linOfDepth(b.X, d+1).String() + " / " + fmt.Sprint(k) + ")"
				q.terms[key] = 1
				q.atoms[key] = b
				return linOfDepth(b.X, d+1).minus(q.scale(k))
			}
		}
	}
	if u, ok := v.(*ssa.UnOp); ok && u.Op == token.SUB && d < 12 {
		return linOfDepth(u.X, d+1).scale(-1)
	}
	l := newLin()
	key := atomKey(v)
	l.terms[key] = 1
	l.atoms[key] = v
	return l
}

// linRel is a normalised comparison: expr > 0, expr >= 0, expr == 0 or expr != 0.
type linRel struct {
	e  linComb
	op token.Token // GTR, GEQ, EQL, NEQ
}

// relOf normalises `x op y` (taken when want is true) into a linRel.
func relOf(x, y ssa.Value, op token.Token, want bool) (linRel, bool) {
	if !want {
		op = negOp(op)
	}
	lx, ly := linOfValue(x), linOfValue(y)
	switch op {
	case token.LSS: // x < y  <=> y - x > 0
		return linRel{ly.minus(lx), token.GTR}, true
	case token.LEQ:
		return linRel{ly.minus(lx), token.GEQ}, true
	case token.GTR:
		return linRel{lx.minus(ly), token.GTR}, true
	case token.GEQ:
		return linRel{lx.minus(ly), token.GEQ}, true
	case token.EQL, token.NEQ:
		d := lx.minus(ly)
		// canonical sign: first term (sorted) positive
		var keys []string
		for t := range d.terms {
			keys = append(keys, t)
		}
		sort.Strings(keys)
		if (len(keys) > 0 && d.terms[keys[0]] < 0) || (len(keys) == 0 && d.k < 0) {
			d = d.scale(-1)
		}
		return linRel{d, op}, true
	}
	return linRel{}, false
}

// String renders integer relations with `> 0` folded to `>= 1`.
func (r linRel) String() string {
	e, op := r.e, r.op
	if op == token.GTR {
		e, op = e.plusConst(-1), token.GEQ // over the integers
	}
	return e.String() + " " + op.String() + " 0"
}

// edgeGeq returns the integer inequality e >= 0 that holds on branch br of iff (for <, <=, >, >=
// comparisons of integers; == gives both directions and is reported as two inequalities).
func edgeGeq(iff *ssa.If, br int) []linComb {
	c := normCond(iff.Cond)
	if c.Bin == nil {
		return nil
	}
	if b, ok := c.Bin.X.Type().Underlying().(*types.Basic); !ok || b.Info()&types.IsInteger == 0 {
		return nil
	}
	truth := (br == 0) != c.Neg
	r, ok := relOf(c.Bin.X, c.Bin.Y, c.Bin.Op, truth)
	if !ok {
		return nil
	}
	switch r.op {
	case token.GEQ:
		return []linComb{r.e}
	case token.GTR:
		return []linComb{r.e.plusConst(-1)}
	case token.EQL:
		return []linComb{r.e, r.e.scale(-1)}
	}
	return nil
}

// impliesGeq: from e >= 0 it follows that t >= 0, by t = e + c with c >= 0, or - when e contains a
// floor division (x / k) with coefficient 1 - by k*e <= e[(x/k) := x/k exact] i.e. t = k*rest + x + c.
func impliesGeq(e, t linComb) bool {
	if d, ok := t.minus(e).isConst(); ok && d >= 0 {
		return true
	}
	for key, cf := range e.terms {
		if cf != 1 {
			continue
		}
		b, ok := stripConv(e.atoms[key]).(*ssa.BinOp)
		if !ok || b.Op != token.QUO {
			continue
		}
		k, isC := constInt(b.Y)
		if !isC || k <= 0 {
			continue
		}
		_, rest := e.coefOf(e.atoms[key])
		// k*e = k*(x/k) + k*rest <= x + k*rest
		upper := linOfValue(b.X).plus(rest.scale(k))
		if d, ok := t.minus(upper).isConst(); ok && d >= 0 {
			return true
		}
	}
	return false
}

// stripValueConv strips only conversions that keep the integer value for every input: type renames and
// widening between integers of the same signedness (or unsigned to a wider signed type). `int(u64)`
// and `uint64(i)` are kept: a comparison of the converted value is not a comparison of the original.
func stripValueConv(v ssa.Value) ssa.Value {
	for {
		switch x := v.(type) {
		case *ssa.ChangeType:
			v = x.X
			continue
		case *ssa.Convert:
			from, ok1 := x.X.Type().Underlying().(*types.Basic)
			to, ok2 := x.Type().Underlying().(*types.Basic)
			if ok1 && ok2 && from.Info()&types.IsInteger != 0 && to.Info()&types.IsInteger != 0 {
				fu, tu := from.Info()&types.IsUnsigned != 0, to.Info()&types.IsUnsigned != 0
				fs, ts := intBits(from), intBits(to)
				if (fu == tu && ts >= fs) || (fu && !tu && ts > fs) {
					v = x.X
					continue
				}
				// len() and other non-negative ints converted to unsigned of at least the same width
				if !fu && tu && ts >= fs && lenOf(x.X) != nil {
					v = x.X
					continue
				}
			}
		}
		return v
	}
}

func intBits(b *types.Basic) int {
	switch b.Kind() {
	case types.Int8, types.Uint8:
		return 8
	case types.Int16, types.Uint16:
		return 16
	case types.Int32, types.Uint32:
		return 32
	}
	return 64
}
